package main

import (
	"fmt"
	"go/ast"
	"go/token"
	"go/types"
	"os"
	"sort"
	"strings"
)

func readFile(name string) ([]byte, error) { return os.ReadFile(name) }

func ind(s string) string {
	lines := strings.Split(strings.TrimRight(s, "\n"), "\n")
	for i, l := range lines {
		if l != "" {
			lines[i] = "  " + l
		}
	}
	return strings.Join(lines, "\n")
}

func ifText(c, a, b string) string {
	return "if " + c + " then\n" + ind(a) + "\nelse\n" + ind(b)
}

func isAtom(s string) bool {
	if s == "" {
		return false
	}
	for _, r := range s {
		if !(r == '_' || r == '.' || r == '«' || r == '»' || r == '\'' || (r >= '0' && r <= '9') || (r >= 'a' && r <= 'z') || (r >= 'A' && r <= 'Z')) {
			return false
		}
	}
	return true
}

func paren(s string) string {
	if isAtom(s) {
		return s
	}
	if strings.HasPrefix(s, "(") || strings.HasPrefix(s, "{") || strings.HasPrefix(s, "[") {
		open, cl := s[0], byte(')')
		if open == '{' {
			cl = '}'
		} else if open == '[' {
			cl = ']'
		}
		depth := 0
		for i := 0; i < len(s); i++ {
			if s[i] == open {
				depth++
			} else if s[i] == cl {
				depth--
				if depth == 0 {
					if i == len(s)-1 {
						return s
					}
					break
				}
			}
		}
	}
	return "(" + s + ")"
}

// ---------------------------------------------------------------- types

func (t *translator) leanType(ty types.Type, wall bool) string {
	switch x := ty.(type) {
	case *types.Basic:
		if x.Info()&types.IsInteger != 0 {
			return "Int"
		}
		if x.Info()&types.IsBoolean != 0 {
			return "Bool"
		}
	case *types.TypeParam:
		return "Int" // generic helpers are only instantiated at int (checked at the call sites: []int arguments)
	case *types.Slice:
		return "List " + paren(t.leanType(x.Elem(), wall))
	case *types.Pointer:
		if _, ok := x.Elem().Underlying().(*types.Struct); ok && !isTimeType(x, "Location") {
			return t.leanType(x.Elem(), wall)
		}
	case *types.Named:
		if isTimeTime(x) {
			if wall {
				return "Wall"
			}
			return "Int"
		}
		switch u := x.Underlying().(type) {
		case *types.Basic:
			return t.leanType(u, wall)
		case *types.Struct:
			if x.Obj().Pkg() == t.csm.pkg || x.Obj().Pkg() == t.qz.pkg {
				t.needStruct(x)
				return x.Obj().Name()
			}
		}
	case *types.Tuple:
		var parts []string
		for i := 0; i < x.Len(); i++ {
			parts = append(parts, t.leanType(x.At(i).Type(), wall))
		}
		if len(parts) == 0 {
			return "Unit"
		}
		return strings.Join(parts, " × ")
	}
	fail("type %s is not supported", ty.String())
	return ""
}

func (t *translator) needStruct(n *types.Named) {
	name := n.Obj().Name()
	if t.structSet[name] {
		return
	}
	t.structSet[name] = true
	st := n.Underlying().(*types.Struct)
	si := &structInfo{name: name, pos: t.posOf(identNode{n.Obj().Pos()})}
	defer func() { t.structs = append(t.structs, si) }() // after the structs of its fields
	for i := 0; i < st.NumFields(); i++ {
		fl := st.Field(i)
		if t.borrowed[name+"."+fl.Name()] {
			continue
		}
		if c, ok := t.devirt[name+"."+fl.Name()]; ok {
			si.fields = append(si.fields, structField{fl.Name(), c})
			continue
		}
		func() {
			defer func() {
				if r := recover(); r != nil {
					if u, ok := r.(unsupported); ok {
						t.miss(fmt.Sprintf("struct %s.%s: %s", name, fl.Name(), u.msg))
						return
					}
					panic(r)
				}
			}()
			si.fields = append(si.fields, structField{fl.Name(), t.leanType(fl.Type(), false)})
		}()
	}
}

type identNode struct{ p token.Pos }

func (i identNode) Pos() token.Pos { return i.p }
func (i identNode) End() token.Pos { return i.p }

// ---------------------------------------------------------------- function context

type loopCtx struct {
	hasRet bool
	brk    func() string // text for `break`
}

type fctx struct {
	t     *translator
	f     *fnInfo
	info  *types.Info
	opt   bool
	loop  *loopCtx
	fresh int
	aux   []string
	nloop int
	inGo  bool // inside the body of a self-recursive function (recursive calls use the counter)
}

func (c *fctx) freshName(p string) string {
	c.fresh++
	return fmt.Sprintf("%s%d", p, c.fresh)
}

func (c *fctx) isEff(call *ast.CallExpr) bool {
	ci := c.t.classify(c.f, call)
	switch ci.kind {
	case kFunc:
		return ci.fn.mut || ci.fn.fuel
	case kDispatch:
		return true
	}
	return false
}

func (c *fctx) hasEff(n ast.Node) bool {
	found := false
	ast.Inspect(n, func(x ast.Node) bool {
		if call, ok := x.(*ast.CallExpr); ok && c.isEff(call) {
			found = true
		}
		return !found
	})
	return found
}

// hasFuel: the node contains a call that returns Option (or an unbounded loop)
func (c *fctx) hasFuel(n ast.Node) bool {
	found := false
	ast.Inspect(n, func(x ast.Node) bool {
		switch s := x.(type) {
		case *ast.CallExpr:
			ci := c.t.classify(c.f, s)
			if (ci.kind == kFunc && ci.fn.fuel) || ci.kind == kDispatch {
				found = true
			}
		case *ast.ForStmt:
			if _, b := c.t.boundedFor(c.f, s); !b {
				found = true
			}
		}
		return !found
	})
	return found
}

func mayExit(n ast.Node) bool {
	found := false
	ast.Inspect(n, func(x ast.Node) bool {
		switch x.(type) {
		case *ast.ReturnStmt, *ast.BranchStmt:
			found = true
		}
		return !found
	})
	return found
}

func hasReturn(n ast.Node) bool {
	found := false
	ast.Inspect(n, func(x ast.Node) bool {
		if _, ok := x.(*ast.ReturnStmt); ok {
			found = true
		}
		return !found
	})
	return found
}

// ---------------------------------------------------------------- pure expressions

func (c *fctx) pure(e ast.Expr) string {
	info := c.info
	switch x := e.(type) {
	case *ast.ParenExpr:
		return paren(c.pure(x.X))
	case *ast.BasicLit:
		if x.Kind == token.INT {
			return x.Value
		}
	case *ast.Ident:
		switch obj := info.Uses[x].(type) {
		case *types.Const:
			if obj.Pkg() == nil { // true / false
				return x.Name
			}
			if obj.Pkg() == c.t.csm.pkg || obj.Pkg() == c.t.qz.pkg {
				return leanIdent(x.Name)
			}
		case *types.Var:
			if c.f.alias[obj] != nil {
				fail("selectNode result %s used as a value", x.Name)
			}
			if c.f.civil[obj] || c.f.dropped[obj] {
				fail("parameter %s is not translated as a value", x.Name)
			}
			return leanIdent(x.Name)
		case *types.Nil:
			fail("nil outside a selectNode test")
		}
		if x.Name == "true" || x.Name == "false" {
			return x.Name
		}
	case *ast.SelectorExpr:
		if id, ok := x.X.(*ast.Ident); ok {
			if _, isPkg := info.Uses[id].(*types.PkgName); isPkg {
				if v, ok := constInt(info, x); ok { // foreign constant (time.December …): value from the type checker
					return fmt.Sprintf("(%d /- %s.%s -/)", v, id.Name, x.Sel.Name)
				}
				if co, isC := info.Uses[x.Sel].(*types.Const); isC && (co.Pkg() == c.t.csm.pkg) {
					return leanIdent(x.Sel.Name)
				}
				fail("package member %s.%s", id.Name, x.Sel.Name)
			}
		}
		if s := info.Selections[x]; s != nil && s.Kind() == types.FieldVal {
			if rn := namedOf(s.Recv()); rn != nil && c.t.borrowed[rn.Obj().Name()+"."+x.Sel.Name] {
				fail("borrowed node %s used as a value", x.Sel.Name)
			}
			return paren(c.pure(x.X)) + "." + leanIdent(x.Sel.Name)
		}
	case *ast.StarExpr:
		return c.pure(x.X)
	case *ast.UnaryExpr:
		switch x.Op {
		case token.NOT:
			return "!" + paren(c.pure(x.X))
		case token.SUB:
			return "(-" + paren(c.pure(x.X)) + ")"
		case token.AND:
			if _, ok := unparen(x.X).(*ast.CompositeLit); ok {
				return c.pure(x.X)
			}
		}
	case *ast.BinaryExpr:
		// nil tests on a selectNode result
		if x.Op == token.EQL || x.Op == token.NEQ {
			var other ast.Expr
			if isNilIdent(x.Y) {
				other = x.X
			} else if isNilIdent(x.X) {
				other = x.Y
			}
			if other != nil {
				if id, ok := unparen(other).(*ast.Ident); ok {
					if sc := c.f.alias[info.Uses[id]]; sc != nil {
						s := "nodeIsNil " + paren(c.pure(sc.Args[0]))
						if x.Op == token.NEQ {
							s = "!(" + s + ")"
						}
						return s
					}
				}
				fail("nil comparison outside a selectNode test")
			}
		}
		a, b := paren(c.pure(x.X)), paren(c.pure(x.Y))
		isBool := false
		if tv, ok := info.Types[x.X]; ok {
			if _, isTP := tv.Type.(*types.TypeParam); isTP {
				// generic helper, instantiated at int only (see leanType)
			} else if bt, ok := tv.Type.Underlying().(*types.Basic); ok && bt.Info()&types.IsBoolean != 0 {
				isBool = true
			} else if !ok || bt.Info()&types.IsInteger == 0 {
				fail("operator %s on type %s", x.Op, tv.Type)
			}
		}
		switch x.Op {
		case token.ADD:
			return a + " + " + b
		case token.SUB:
			return a + " - " + b
		case token.MUL:
			return a + " * " + b
		case token.QUO:
			return "Int.tdiv " + a + " " + b
		case token.REM:
			return "Int.tmod " + a + " " + b
		case token.AND:
			return "band " + a + " " + b
		case token.LAND:
			return a + " && " + b
		case token.LOR:
			return a + " || " + b
		case token.EQL:
			if isBool {
				return a + " == " + b
			}
			return "decide (" + a + " = " + b + ")"
		case token.NEQ:
			if isBool {
				return a + " != " + b
			}
			return "decide (" + a + " ≠ " + b + ")"
		case token.LSS:
			return "decide (" + a + " < " + b + ")"
		case token.LEQ:
			return "decide (" + a + " ≤ " + b + ")"
		case token.GTR:
			return "decide (" + a + " > " + b + ")"
		case token.GEQ:
			return "decide (" + a + " ≥ " + b + ")"
		}
		fail("operator %s", x.Op)
	case *ast.IndexExpr:
		tv := info.Types[x.X]
		if sl, ok := tv.Type.Underlying().(*types.Slice); ok {
			if bt, ok := sl.Elem().Underlying().(*types.Basic); ok && bt.Info()&types.IsInteger != 0 {
				return "idx " + paren(c.pure(x.X)) + " " + paren(c.pure(x.Index))
			}
			c.t.leanType(sl.Elem(), false) // registers the struct
			return "idxD " + paren(c.pure(x.X)) + " " + paren(c.pure(x.Index))
		}
		fail("index into %s", tv.Type)
	case *ast.CompositeLit:
		return c.composite(x)
	case *ast.CallExpr:
		return c.pureCall(x)
	}
	fail("expression %T at %s", e, c.t.posOf(e))
	return ""
}

func (c *fctx) composite(x *ast.CompositeLit) string {
	tv := c.info.Types[x]
	if isTimeTime(tv.Type) {
		if len(x.Elts) == 0 && c.f.wall {
			return "Wall.zero"
		}
		fail("time.Time literal")
	}
	if sl, ok := tv.Type.Underlying().(*types.Slice); ok {
		var parts []string
		for _, el := range x.Elts {
			if _, isKV := el.(*ast.KeyValueExpr); isKV {
				fail("keyed slice literal")
			}
			parts = append(parts, c.pure(el))
		}
		return "([" + strings.Join(parts, ", ") + "] : " + c.t.leanType(sl, false) + ")"
	}
	n := namedOf(tv.Type)
	if n == nil {
		fail("composite literal of %s", tv.Type)
	}
	st, ok := n.Underlying().(*types.Struct)
	if !ok {
		fail("composite literal of %s", tv.Type)
	}
	name := c.t.leanType(n, false)
	vals := map[string]string{}
	for i, el := range x.Elts {
		field := ""
		val := el
		if kv, isKV := el.(*ast.KeyValueExpr); isKV {
			field = kv.Key.(*ast.Ident).Name
			val = kv.Value
		} else {
			field = st.Field(i).Name()
		}
		if c.t.borrowed[n.Obj().Name()+"."+field] {
			continue // idiom 1: the pointer to the borrowed node is not stored
		}
		vals[field] = c.pure(val)
	}
	var parts []string
	for i := 0; i < st.NumFields(); i++ {
		fn := st.Field(i).Name()
		if c.t.borrowed[n.Obj().Name()+"."+fn] {
			continue
		}
		v, ok := vals[fn]
		if !ok {
			v = "default" // Go zero value
		}
		parts = append(parts, leanIdent(fn)+" := "+v)
	}
	return "({ " + strings.Join(parts, ", ") + " } : " + name + ")"
}

var civilMethods = map[string]string{"Year": "Year", "Month": "Month", "Day": "Day", "Hour": "Hour", "Minute": "Minute", "Second": "Second"}

func (c *fctx) pureCall(call *ast.CallExpr) string {
	info := c.info
	ci := c.t.classify(c.f, call)
	switch ci.kind {
	case kConv:
		if len(call.Args) == 1 {
			from := info.Types[call.Args[0]].Type
			to := info.Types[call.Fun].Type
			fb, ok1 := from.Underlying().(*types.Basic)
			tb, ok2 := to.Underlying().(*types.Basic)
			if ok1 && ok2 && fb.Info()&types.IsInteger != 0 && tb.Info()&types.IsInteger != 0 {
				return c.pure(call.Args[0]) // int ↔ NodeID / time.Month / time.Weekday: all Int (no overflow modelled)
			}
		}
		fail("conversion %s", c.t.posOf(call))
	case kLen:
		return "(" + paren(c.pure(call.Args[0])) + ".length : Int)"
	case kMake:
		tv := info.Types[call.Args[0]]
		if _, ok := tv.Type.Underlying().(*types.Slice); ok && len(call.Args) >= 2 {
			if v, ok := constInt(info, call.Args[1]); ok && v == 0 {
				return "([] : " + c.t.leanType(tv.Type, false) + ")"
			}
		}
		fail("make other than make([]T, 0[, cap])")
	case kAppend:
		var parts []string
		for _, a := range call.Args[1:] {
			parts = append(parts, c.pure(a))
		}
		if call.Ellipsis != token.NoPos {
			fail("append with ...")
		}
		return paren(c.pure(call.Args[0])) + " ++ [" + strings.Join(parts, ", ") + "]"
	case kBorrowed:
		if id, ok := unparen(ci.recv).(*ast.Ident); !ok || info.Uses[id] != c.f.recvObj {
			fail("borrowed node of another DayNode")
		}
		return ci.field + "V"
	case kCivil:
		c.t.civilOps[ci.method] = true
		id := unparen(call.Fun).(*ast.SelectorExpr).X.(*ast.Ident)
		if m, ok := civilMethods[ci.method]; ok && len(call.Args) == 0 {
			return id.Name + m
		}
		fail("method %s on a wall-clock parameter", ci.method)
	case kTimeMethod:
		c.t.timeOps["Time."+ci.method] = true
		tm := paren(c.pure(ci.recv))
		switch ci.method {
		case "Day", "Month", "Year", "Weekday":
			if len(call.Args) == 0 {
				return "T." + strings.ToLower(ci.method) + " " + tm
			}
		case "AddDate":
			if len(call.Args) == 3 {
				y, oky := constInt(info, call.Args[0])
				m, okm := constInt(info, call.Args[1])
				if oky && okm && y == 0 && m == 0 {
					return tm + " + " + paren(c.pure(call.Args[2])) // whole days on a day ordinal
				}
				return fmt.Sprintf("T.date (T.year %s + %s) (T.month %s + %s) (T.day %s + %s)", tm, paren(c.pure(call.Args[0])), tm, paren(c.pure(call.Args[1])), tm, paren(c.pure(call.Args[2])))
			}
		}
		fail("time.Time.%s is not part of the time idiom", ci.method)
	case kTimeDate:
		c.t.timeOps["time.Date"] = true
		if len(call.Args) != 8 {
			fail("time.Date arity")
		}
		if v, ok := constInt(info, call.Args[6]); !ok || v != 0 {
			fail("time.Date with nanoseconds")
		}
		if c.f.wall {
			if !isLocation(info.Types[call.Args[7]].Type) {
				fail("time.Date location")
			}
			names := []string{"year", "month", "day", "hour", "minute", "second"}
			var parts []string
			for i, n := range names {
				parts = append(parts, n+" := "+c.pure(call.Args[i]))
			}
			return "({ " + strings.Join(parts, ", ") + " } : Wall)"
		}
		for i := 3; i <= 5; i++ {
			if v, ok := constInt(info, call.Args[i]); !ok || v != 0 {
				fail("time.Date with a time of day outside the state machine's result")
			}
		}
		if se, ok := unparen(call.Args[7]).(*ast.SelectorExpr); !ok || se.Sel.Name != "UTC" || !isLocation(info.Types[call.Args[7]].Type) {
			fail("time.Date with a location other than time.UTC")
		}
		return fmt.Sprintf("T.date %s %s %s", paren(c.pure(call.Args[0])), paren(c.pure(call.Args[1])), paren(c.pure(call.Args[2])))
	case kFunc:
		if ci.fn.mut || ci.fn.fuel {
			fail("call of %s (changes its receiver / needs fuel) nested in an expression at %s", ci.fn.goName, c.t.posOf(call))
		}
		return c.callText(ci, call)
	case kDispatch, kSelect:
		fail("selectNode idiom used inside an expression at %s", c.t.posOf(call))
	}
	fail("call %s", c.t.posOf(call))
	return ""
}

// callText builds `f T recv monthV yearV args… fuel`
func (c *fctx) callText(ci callInfo, call *ast.CallExpr) string {
	g := ci.fn
	if g.err != nil {
		fail("callee %s is not translated", g.goName)
	}
	// a generic helper is translated at int: every call site must instantiate it at an integer type
	if sig, ok := g.obj.Type().(*types.Signature); ok && sig.TypeParams().Len() > 0 {
		fun := unparen(call.Fun)
		if ix, ok := fun.(*ast.IndexExpr); ok {
			fun = unparen(ix.X)
		}
		id, _ := fun.(*ast.Ident)
		inst, found := c.info.Instances[id]
		if id == nil || !found {
			fail("generic call of %s without instance information", g.goName)
		}
		for i := 0; i < inst.TypeArgs.Len(); i++ {
			bt, ok := inst.TypeArgs.At(i).Underlying().(*types.Basic)
			if !ok || bt.Info()&types.IsInteger == 0 {
				fail("generic %s instantiated at %s (only integer types are translated)", g.goName, inst.TypeArgs.At(i))
			}
		}
	}
	var parts []string
	name := g.lean
	if g == c.f && c.inGo {
		name += ".go"
	}
	if need := c.t.qualify(c.f, g); need {
		name = "Trans." + name
	}
	parts = append(parts, name)
	if g.usesT {
		parts = append(parts, "T")
	}
	if g == c.f && c.inGo {
		parts = append(parts, "fuel", "cnt")
	}
	if g.recvType != "" {
		if ci.recv == nil {
			fail("method value %s", g.goName)
		}
		parts = append(parts, paren(c.pure(ci.recv)))
		if g.borrowed {
			if !c.f.borrowed || c.f.recvType != g.recvType {
				fail("call of %s from outside DayNode", g.goName)
			}
			if id, ok := unparen(ci.recv).(*ast.Ident); !ok || c.info.Uses[id] != c.f.recvObj {
				fail("call of %s on another DayNode", g.goName)
			}
			parts = append(parts, c.t.borrowedArgs()...)
		}
	}
	po := paramObjs(g)
	if len(po) != len(call.Args) {
		fail("variadic / mismatched call of %s", g.goName)
	}
	for i, a := range call.Args {
		if g.dropped[po[i]] {
			continue
		}
		if g.civil[po[i]] {
			fail("wall-clock argument")
		}
		parts = append(parts, paren(c.pure(a)))
	}
	if g.fuel && !(g == c.f && c.inGo) {
		parts = append(parts, "fuel")
	}
	return strings.Join(parts, " ")
}

func (t *translator) borrowedArgs() []string {
	var names []string
	for k := range t.borrowed {
		names = append(names, strings.TrimPrefix(k, "DayNode.")+"V")
	}
	sort.Strings(names) // monthV yearV
	return names
}

// a free function whose name is also a method of the caller's receiver type must be qualified
// (inside `def R.m` the namespace R is open)
func (t *translator) qualify(caller, callee *fnInfo) bool {
	if callee.recvType != "" || caller.recvType == "" {
		return false
	}
	if t.methods[caller.recvType+"."+callee.goName] != nil {
		return true
	}
	for _, si := range t.structs {
		if si.name == caller.recvType {
			for _, fl := range si.fields {
				if fl.name == callee.goName {
					return true
				}
			}
		}
	}
	return false
}

// ---------------------------------------------------------------- effectful calls

// effCall emits the binding of an effectful call (changes its receiver and/or needs fuel)
// and continues with k(result text).
func (c *fctx) effCall(call *ast.CallExpr, k func(res string) string) string {
	ci := c.t.classify(c.f, call)
	r := c.freshName("r")
	switch ci.kind {
	case kFunc:
		g := ci.fn
		text := c.callText(ci, call)
		nres := 0
		if g.decl.Type.Results != nil {
			nres = g.decl.Type.Results.NumFields()
		}
		res := r
		rebind := ""
		if g.mut {
			if nres > 0 {
				rebind = c.assignText(ci.recv, r+".1")
				res = r + ".2"
			} else if id, ok := unparen(ci.recv).(*ast.Ident); ok {
				r = leanIdent(id.Name) // bind the updated receiver under its own name
				res = ""
			} else {
				rebind = c.assignText(ci.recv, r)
				res = ""
			}
		} else if nres == 0 {
			res = ""
		}
		return c.bindText(g.fuel, g.goName, r, text, rebind+k(res))
	case kDispatch:
		if !c.opt {
			fail("selectNode dispatch in a context without fuel")
		}
		tg := c.t.dispTargets(ci.method)
		if len(tg) == 0 || len(tg) != len(c.t.sel) {
			fail("method %s is not defined for every node", ci.method)
		}
		if len(call.Args) != 0 {
			fail("node method with arguments")
		}
		for _, g := range tg {
			if g.err != nil {
				fail("%s on a selected node needs %s, which is not translated", ci.method, g.goName)
			}
		}
		text := dispName(ci.method) + " T " + paren(c.pure(ci.selRecv)) + " " + paren(c.pure(ci.idExpr)) + " fuel"
		nres := 0
		if tg[0].decl.Type.Results != nil {
			nres = tg[0].decl.Type.Results.NumFields()
		}
		if nres > 0 {
			return c.bindText(true, text, r, text, c.assignText(ci.selRecv, r+".1")+k(r+".2"))
		}
		if id, ok := unparen(ci.selRecv).(*ast.Ident); ok {
			r = leanIdent(id.Name)
			return c.bindText(true, text, r, text, k(""))
		}
		return c.bindText(true, text, r, text, c.assignText(ci.selRecv, r)+k(""))
	}
	fail("not an effectful call")
	return ""
}

// bindText: `(call).bind fun r => body` (Option) or `let r := call; body`
func (c *fctx) bindText(fuel bool, what, r, call, body string) string {
	if !fuel {
		return "let " + r + " := " + call + "\n" + body
	}
	if !c.opt {
		fail("call of %s needs fuel in a context without fuel", what)
	}
	if body == "some "+r {
		return call // x.bind some = x
	}
	return "(" + call + ").bind fun " + r + " =>\n" + body
}

func dispName(m string) string { return "node" + strings.ToUpper(m[:1]) + m[1:] }

func (c *fctx) assignText(lhs ast.Expr, val string) string {
	switch x := lhs.(type) {
	case *ast.ParenExpr:
		return c.assignText(x.X, val)
	case *ast.StarExpr:
		return c.assignText(x.X, val)
	case *ast.Ident:
		if x.Name == "_" {
			return ""
		}
		return "let " + leanIdent(x.Name) + " := " + val + "\n"
	case *ast.SelectorExpr:
		if s := c.info.Selections[x]; s != nil && s.Kind() == types.FieldVal {
			return c.assignText(x.X, "{ "+c.pure(x.X)+" with "+leanIdent(x.Sel.Name)+" := "+val+" }")
		}
	}
	fail("assignment target %T", lhs)
	return ""
}

// ---------------------------------------------------------------- conditions

func (c *fctx) cond(e ast.Expr, kT, kF func() string) string {
	switch x := e.(type) {
	case *ast.ParenExpr:
		return c.cond(x.X, kT, kF)
	case *ast.UnaryExpr:
		if x.Op == token.NOT && c.hasEff(x.X) {
			return c.cond(x.X, kF, kT)
		}
	case *ast.BinaryExpr:
		if (x.Op == token.LAND || x.Op == token.LOR) && (c.hasEff(x.X) || c.hasEff(x.Y)) {
			if x.Op == token.LAND {
				return c.cond(x.X, func() string { return c.cond(x.Y, kT, kF) }, kF)
			}
			return c.cond(x.X, kT, func() string { return c.cond(x.Y, kT, kF) })
		}
	case *ast.CallExpr:
		if c.isEff(x) {
			return c.effCall(x, func(res string) string { return ifText(res, kT(), kF()) })
		}
	}
	return ifText(c.pure(e), kT(), kF())
}

// ---------------------------------------------------------------- statements

func (c *fctx) retWrap(payload string) string {
	s := payload
	if c.loop != nil && c.loop.hasRet {
		s = ".ret " + paren(s)
	}
	if c.opt {
		s = "some " + paren(s)
	}
	return s
}

func (c *fctx) retText(val string) string {
	payload := val
	if c.f.mut {
		if val == "" {
			payload = leanIdent(c.f.recvName)
		} else {
			payload = "(" + leanIdent(c.f.recvName) + ", " + val + ")"
		}
	} else if val == "" {
		payload = "()"
	}
	return c.retWrap(payload)
}

func (c *fctx) namedResults() []*ast.Ident {
	var out []*ast.Ident
	if c.f.decl.Type.Results != nil {
		for _, fl := range c.f.decl.Type.Results.List {
			out = append(out, fl.Names...)
		}
	}
	return out
}

func (c *fctx) block(list []ast.Stmt, k func() string) string {
	if len(list) == 0 {
		return k()
	}
	restDone, restText := false, ""
	rest := func() string {
		if !restDone {
			restText = c.block(list[1:], k)
			restDone = true
		}
		return restText
	}
	switch s := list[0].(type) {
	case *ast.EmptyStmt:
		return rest()
	case *ast.BlockStmt:
		return c.block(append(append([]ast.Stmt{}, s.List...), list[1:]...), k)
	case *ast.ExprStmt:
		if call, ok := unparen(s.X).(*ast.CallExpr); ok && c.isEff(call) {
			return c.effCall(call, func(string) string { return rest() })
		}
		fail("expression statement without effect at %s", c.t.posOf(s))
	case *ast.IncDecStmt:
		op := " + 1"
		if s.Tok == token.DEC {
			op = " - 1"
		}
		return c.assignText(s.X, c.pure(s.X)+op) + rest()
	case *ast.DeclStmt:
		gd, ok := s.Decl.(*ast.GenDecl)
		if !ok || gd.Tok != token.VAR {
			fail("declaration at %s", c.t.posOf(s))
		}
		out := ""
		for _, sp := range gd.Specs {
			vs := sp.(*ast.ValueSpec)
			for i, id := range vs.Names {
				ty := c.t.leanType(c.info.Defs[id].Type(), false)
				if len(vs.Values) > i {
					out += "let " + leanIdent(id.Name) + " : " + ty + " := " + c.pure(vs.Values[i]) + "\n"
					continue
				}
				// `var x *T` (nil): only accepted when both branches of the next statement assign it
				if _, isPtr := c.info.Defs[id].Type().(*types.Pointer); isPtr {
					okAssigned := false
					if len(list) > 1 {
						if is, isIf := list[1].(*ast.IfStmt); isIf && is.Else != nil {
							if eb, isB := is.Else.(*ast.BlockStmt); isB && c.assigns(is.Body, c.info.Defs[id]) && c.assigns(eb, c.info.Defs[id]) {
								okAssigned = true
							}
						}
					}
					if !okAssigned {
						fail("nil pointer variable %s may be read before it is assigned", id.Name)
					}
					out += "let " + leanIdent(id.Name) + " : " + ty + " := default -- Go: nil, overwritten on both branches below\n"
					continue
				}
				out += "let " + leanIdent(id.Name) + " : " + ty + " := default\n"
			}
		}
		return out + rest()
	case *ast.AssignStmt:
		return c.assign(s, rest)
	case *ast.ReturnStmt:
		if len(s.Results) == 0 {
			var names []string
			for _, id := range c.namedResults() {
				names = append(names, leanIdent(id.Name))
			}
			if len(names) == 0 {
				return c.retText("")
			}
			if len(names) == 1 {
				return c.retText(names[0])
			}
			return c.retText("(" + strings.Join(names, ", ") + ")")
		}
		if len(s.Results) == 1 {
			if call, ok := unparen(s.Results[0]).(*ast.CallExpr); ok && c.isEff(call) {
				return c.effCall(call, func(res string) string { return c.retText(res) })
			}
			return c.retText(c.pure(s.Results[0]))
		}
		var parts []string
		for _, r := range s.Results {
			parts = append(parts, c.pure(r))
		}
		return c.retText("(" + strings.Join(parts, ", ") + ")")
	case *ast.BranchStmt:
		if s.Tok == token.BREAK && s.Label == nil && c.loop != nil {
			return c.loop.brk()
		}
		fail("%s at %s", s.Tok, c.t.posOf(s))
	case *ast.IfStmt:
		return c.ifStmt(s, rest)
	case *ast.SwitchStmt:
		return c.block([]ast.Stmt{c.switchToIf(s)}, rest)
	case *ast.RangeStmt:
		return c.rangeLoop(s, rest)
	case *ast.ForStmt:
		return c.forLoop(s, rest)
	}
	fail("statement %T at %s", list[0], c.t.posOf(list[0]))
	return ""
}

func (c *fctx) assigns(b *ast.BlockStmt, obj types.Object) bool {
	for _, st := range b.List {
		if as, ok := st.(*ast.AssignStmt); ok && as.Tok == token.ASSIGN {
			for _, l := range as.Lhs {
				if id, ok := l.(*ast.Ident); ok && c.info.Uses[id] == obj {
					return true
				}
			}
		}
	}
	return false
}

func (c *fctx) assign(s *ast.AssignStmt, rest func() string) string {
	if s.Tok != token.ASSIGN && s.Tok != token.DEFINE {
		// x op= e
		var op token.Token
		switch s.Tok {
		case token.ADD_ASSIGN:
			op = token.ADD
		case token.SUB_ASSIGN:
			op = token.SUB
		case token.MUL_ASSIGN:
			op = token.MUL
		default:
			fail("assignment operator %s", s.Tok)
		}
		be := &ast.BinaryExpr{X: s.Lhs[0], Op: op, Y: s.Rhs[0]}
		c.info.Types[be] = c.info.Types[s.Lhs[0]]
		return c.assignText(s.Lhs[0], c.pure(be)) + rest()
	}
	if len(s.Rhs) == 1 {
		if call, ok := unparen(s.Rhs[0]).(*ast.CallExpr); ok {
			ci := c.t.classify(c.f, call)
			if ci.kind == kSelect {
				if len(s.Lhs) != 1 {
					fail("selectNode assignment")
				}
				id := s.Lhs[0].(*ast.Ident)
				if c.f.alias[c.info.Defs[id]] == nil {
					fail("selectNode result assigned to an existing variable")
				}
				return rest() // idiom 3: the variable stands for (receiver, id); nothing to compute
			}
			if c.isEff(call) || len(s.Lhs) > 1 {
				bindAll := func(res string) string {
					out := ""
					if len(s.Lhs) == 1 {
						out = c.assignText(s.Lhs[0], res)
					} else {
						for i, l := range s.Lhs {
							out += c.assignText(l, proj(res, i, len(s.Lhs)))
						}
					}
					return out + rest()
				}
				if c.isEff(call) {
					return c.effCall(call, bindAll)
				}
				r := c.freshName("r")
				return "let " + r + " := " + c.pure(call) + "\n" + bindAll(r)
			}
		}
	}
	if len(s.Lhs) != len(s.Rhs) {
		fail("assignment shape at %s", c.t.posOf(s))
	}
	if len(s.Lhs) == 1 {
		return c.assignText(s.Lhs[0], c.pure(s.Rhs[0])) + rest()
	}
	// parallel assignment: evaluate all right-hand sides first
	out := ""
	var tmps []string
	for _, r := range s.Rhs {
		tn := c.freshName("t")
		tmps = append(tmps, tn)
		out += "let " + tn + " := " + c.pure(r) + "\n"
	}
	for i, l := range s.Lhs {
		out += c.assignText(l, tmps[i])
	}
	return out + rest()
}

func proj(r string, i, n int) string {
	// right-nested pairs: (a, b, c) = (a, (b, c))
	s := r
	for j := 0; j < i; j++ {
		s += ".2"
	}
	if i < n-1 {
		s += ".1"
	}
	return s
}

func (c *fctx) switchToIf(s *ast.SwitchStmt) *ast.IfStmt {
	if s.Tag != nil || s.Init != nil {
		fail("switch with a tag outside selectNode at %s", c.t.posOf(s))
	}
	var def *ast.CaseClause
	var cases []*ast.CaseClause
	for _, cc := range s.Body.List {
		cl := cc.(*ast.CaseClause)
		for _, st := range cl.Body {
			if b, ok := st.(*ast.BranchStmt); ok && b.Tok == token.FALLTHROUGH {
				fail("fallthrough")
			}
			if mayBreak(st) {
				fail("break inside switch")
			}
		}
		if cl.List == nil {
			def = cl
			if cc != s.Body.List[len(s.Body.List)-1] {
				fail("default clause not last")
			}
		} else {
			cases = append(cases, cl)
		}
	}
	var elseStmt ast.Stmt
	if def != nil {
		elseStmt = &ast.BlockStmt{List: def.Body}
	}
	for i := len(cases) - 1; i >= 0; i-- {
		cl := cases[i]
		cond := cl.List[0]
		for _, e := range cl.List[1:] {
			be := &ast.BinaryExpr{X: cond, Op: token.LOR, Y: e}
			c.info.Types[be] = c.info.Types[e]
			cond = be
		}
		is := &ast.IfStmt{If: cl.Pos(), Cond: cond, Body: &ast.BlockStmt{Lbrace: cl.Pos(), List: cl.Body}, Else: elseStmt}
		elseStmt = is
	}
	if is, ok := elseStmt.(*ast.IfStmt); ok {
		return is
	}
	fail("switch without cases")
	return nil
}

func mayBreak(n ast.Node) bool {
	found := false
	ast.Inspect(n, func(x ast.Node) bool {
		switch b := x.(type) {
		case *ast.ForStmt, *ast.RangeStmt:
			return false
		case *ast.BranchStmt:
			if b.Tok == token.BREAK {
				found = true
			}
		}
		return !found
	})
	return found
}

func (c *fctx) ifStmt(s *ast.IfStmt, rest func() string) string {
	if s.Init != nil {
		s2 := *s
		s2.Init = nil
		return c.block([]ast.Stmt{s.Init, &s2}, rest)
	}
	var elseList []ast.Stmt
	switch e := s.Else.(type) {
	case nil:
	case *ast.BlockStmt:
		elseList = e.List
	case *ast.IfStmt:
		elseList = []ast.Stmt{e}
	}
	var elseNode ast.Node = &ast.BlockStmt{List: elseList}
	dup := mayExit(s.Body) || mayExit(elseNode)
	if !dup && c.hasEff(s) {
		// a short continuation is copied into both branches (reads closer to the Go text than a join)
		dup = strings.Count(strings.TrimRight(rest(), "\n"), "\n") < 2
	}
	if dup {
		return c.cond(s.Cond,
			func() string { return c.block(s.Body.List, rest) },
			func() string { return c.block(elseList, rest) })
	}
	// join: the branches only assign variables
	vars := c.mutated([]ast.Node{s.Body, elseNode}, s.Pos(), s.End())
	if len(vars) == 0 {
		fail("if without effect at %s", c.t.posOf(s))
	}
	var names []string
	for _, v := range vars {
		names = append(names, leanIdent(v.Name()))
	}
	tuple := names[0]
	if len(names) > 1 {
		tuple = "(" + strings.Join(names, ", ") + ")"
	}
	joinOpt := c.opt && (c.hasFuel(s.Body) || c.hasFuel(elseNode) || c.hasFuel(s.Cond))
	saveOpt, saveLoop := c.opt, c.loop
	c.opt, c.loop = joinOpt, nil
	kTuple := func() string {
		if joinOpt {
			return "some " + paren(tuple)
		}
		return tuple
	}
	val := c.cond(s.Cond,
		func() string { return c.block(s.Body.List, kTuple) },
		func() string { return c.block(elseList, kTuple) })
	c.opt, c.loop = saveOpt, saveLoop
	j := names[0]
	if len(names) > 1 {
		j = c.freshName("j")
	}
	out := ""
	if joinOpt {
		body := ""
		if len(names) > 1 {
			for i, n := range names {
				body += "let " + n + " := " + proj(j, i, len(names)) + "\n"
			}
		}
		return c.bindText(true, "if", j, val, body+rest())
	}
	out = "let " + j + " := " + val + "\n"
	if len(names) > 1 {
		for i, n := range names {
			out += "let " + n + " := " + proj(j, i, len(names)) + "\n"
		}
	}
	return out + rest()
}

// mutated: local variables (incl. receiver) declared outside [from,to) and assigned inside the nodes
func (c *fctx) mutated(nodes []ast.Node, from, to token.Pos) []*types.Var {
	set := map[*types.Var]bool{}
	add := func(e ast.Expr) {
		if r := rootIdent(e); r != nil {
			if v, ok := c.info.Uses[r].(*types.Var); ok && !v.IsField() {
				if v.Pos() < from || v.Pos() >= to {
					set[v] = true
				}
			}
		}
	}
	for _, n := range nodes {
		ast.Inspect(n, func(x ast.Node) bool {
			switch s := x.(type) {
			case *ast.AssignStmt:
				for _, l := range s.Lhs {
					add(l)
				}
			case *ast.IncDecStmt:
				add(s.X)
			case *ast.CallExpr:
				ci := c.t.classify(c.f, s)
				switch ci.kind {
				case kFunc:
					if ci.fn.mut && ci.recv != nil {
						add(ci.recv)
					}
				case kDispatch:
					for _, g := range c.t.dispTargets(ci.method) {
						if g.mut {
							add(ci.selRecv)
						}
					}
				}
			}
			return true
		})
	}
	var out []*types.Var
	for v := range set {
		out = append(out, v)
	}
	sort.Slice(out, func(i, j int) bool { return out[i].Pos() < out[j].Pos() })
	return out
}

// freeVars: local variables declared outside the node and used inside (in declaration order)
func (c *fctx) freeVars(nodes []ast.Node, from, to token.Pos) []*types.Var {
	set := map[*types.Var]bool{}
	for _, n := range nodes {
		if n == nil {
			continue
		}
		ast.Inspect(n, func(x ast.Node) bool {
			if call, ok := x.(*ast.CallExpr); ok {
				// the selectNode alias stands for its receiver and id expression
				if ci := c.t.classify(c.f, call); ci.kind == kDispatch {
					for _, e := range []ast.Expr{ci.selRecv, ci.idExpr} {
						ast.Inspect(e, func(y ast.Node) bool {
							if id, ok := y.(*ast.Ident); ok {
								if v, ok := c.info.Uses[id].(*types.Var); ok && !v.IsField() && (v.Pos() < from || v.Pos() >= to) {
									set[v] = true
								}
							}
							return true
						})
					}
				}
			}
			id, ok := x.(*ast.Ident)
			if !ok {
				return true
			}
			v, ok := c.info.Uses[id].(*types.Var)
			if !ok || v.IsField() || v.Pkg() != c.f.p.pkg {
				return true
			}
			if v.Parent() == c.f.p.pkg.Scope() {
				return true
			}
			if c.f.alias[v] != nil || c.f.civil[v] || c.f.dropped[v] {
				if c.f.civil[v] {
					fail("wall-clock parameter used inside a loop")
				}
				return true
			}
			if v.Pos() < from || v.Pos() >= to {
				set[v] = true
			}
			return true
		})
	}
	var out []*types.Var
	for v := range set {
		out = append(out, v)
	}
	sort.Slice(out, func(i, j int) bool { return out[i].Pos() < out[j].Pos() })
	return out
}

func (c *fctx) varType(v *types.Var) string {
	if v == c.f.recvObj {
		return c.f.recvType
	}
	if pt, ok := c.f.paramType[v]; ok {
		return pt
	}
	return c.t.leanType(v.Type(), false)
}

// what the code inside the nodes needs from the enclosing function's implicit parameters
func (c *fctx) needs(nodes []ast.Node) (needT, needB, needFuel bool) {
	for _, n := range nodes {
		if n == nil {
			continue
		}
		ast.Inspect(n, func(x ast.Node) bool {
			call, ok := x.(*ast.CallExpr)
			if !ok {
				return true
			}
			ci := c.t.classify(c.f, call)
			switch ci.kind {
			case kFunc:
				needT = needT || ci.fn.usesT
				needFuel = needFuel || ci.fn.fuel
				needB = needB || (ci.fn.borrowed && ci.fn.recvType == c.f.recvType)
			case kDispatch:
				needT, needFuel = true, true
			case kBorrowed:
				needB = true
			case kTimeMethod:
				needT = true
			case kTimeDate:
				needT = needT || !c.f.wall
			}
			return true
		})
	}
	return
}

type loopShape struct {
	name     string
	pos      string
	fixed    []string // "(x : T)" binders
	fixedArg []string
	carried  []*types.Var // state visible after the loop
	hasRet   bool
	opt      bool
}

func (c *fctx) prepLoop(s ast.Stmt, nodes []ast.Node, extraCarried []*types.Var, unbounded bool) (*loopShape, map[*types.Var]bool) {
	c.nloop++
	ls := &loopShape{name: c.f.lean + fmt.Sprintf(".loop%d", c.nloop), pos: c.t.posOf(s)}
	if c.loop != nil {
		fail("nested loop at %s", ls.pos)
	}
	ls.hasRet = hasReturn(s)
	ls.carried = c.mutated(nodes, s.Pos(), s.End())
	isCarried := map[*types.Var]bool{}
	for _, v := range ls.carried {
		isCarried[v] = true
	}
	for _, v := range extraCarried {
		isCarried[v] = true
	}
	needT, needB, needFuel := c.needs(nodes)
	ls.opt = unbounded
	for _, n := range nodes {
		if n != nil && c.hasFuel(n) {
			ls.opt = true
		}
	}
	if ls.opt && !c.opt {
		fail("loop at %s needs fuel in a context without fuel", ls.pos)
	}
	if needT {
		ls.fixed = append(ls.fixed, "(T : TimeExt)")
		ls.fixedArg = append(ls.fixedArg, "T")
	}
	for _, v := range c.freeVars(nodes, s.Pos(), s.End()) {
		if isCarried[v] {
			continue
		}
		ls.fixed = append(ls.fixed, "("+leanIdent(v.Name())+" : "+c.varType(v)+")")
		ls.fixedArg = append(ls.fixedArg, leanIdent(v.Name()))
	}
	if needB {
		for _, b := range c.t.borrowedArgs() {
			ls.fixed = append(ls.fixed, "("+b+" : Int)")
			ls.fixedArg = append(ls.fixedArg, b)
		}
	}
	if needFuel {
		ls.fixed = append(ls.fixed, "(fuel : Nat)")
		ls.fixedArg = append(ls.fixedArg, "fuel")
	}
	return ls, isCarried
}

func tupleOf(vs []*types.Var) string {
	if len(vs) == 0 {
		return "()"
	}
	var names []string
	for _, v := range vs {
		names = append(names, leanIdent(v.Name()))
	}
	if len(names) == 1 {
		return names[0]
	}
	return "(" + strings.Join(names, ", ") + ")"
}

func (c *fctx) tupleType(vs []*types.Var) string {
	if len(vs) == 0 {
		return "Unit"
	}
	var ts []string
	for _, v := range vs {
		ts = append(ts, c.varType(v))
	}
	return strings.Join(ts, " × ")
}

func (c *fctx) retPayloadType() string {
	res := ""
	if c.f.decl.Type.Results != nil && c.f.decl.Type.Results.NumFields() > 0 {
		var parts []string
		for _, fl := range c.f.decl.Type.Results.List {
			n := len(fl.Names)
			if n == 0 {
				n = 1
			}
			for i := 0; i < n; i++ {
				parts = append(parts, c.t.leanType(c.info.Types[fl.Type].Type, c.f.wall))
			}
		}
		res = strings.Join(parts, " × ")
	}
	if c.f.mut {
		if res == "" {
			return c.f.recvType
		}
		return c.f.recvType + " × " + parenType(res)
	}
	if res == "" {
		return "Unit"
	}
	return res
}

func parenType(s string) string {
	if strings.Contains(s, "×") {
		return "(" + s + ")"
	}
	return s
}

func (ls *loopShape) resultType(c *fctx) string {
	st := c.tupleType(ls.carried)
	ty := st
	if ls.hasRet {
		ty = "Ctl " + paren(st) + " " + paren(c.retPayloadType())
	}
	if ls.opt {
		ty = "Option " + paren(ty)
	}
	return ty
}

func (ls *loopShape) done(c *fctx) string {
	s := tupleOf(ls.carried)
	if ls.hasRet {
		s = ".done " + paren(s)
	}
	if ls.opt {
		s = "some " + paren(s)
	}
	return s
}

// call site: run the loop, then continue with rest
func (c *fctx) afterLoop(ls *loopShape, callText string, rest func() string) string {
	unpack := func(s string) string {
		out := ""
		if len(ls.carried) == 1 {
			if s != leanIdent(ls.carried[0].Name()) {
				out += "let " + leanIdent(ls.carried[0].Name()) + " := " + s + "\n"
			}
		} else {
			for i, v := range ls.carried {
				out += "let " + leanIdent(v.Name()) + " := " + proj(s, i, len(ls.carried)) + "\n"
			}
		}
		return out
	}
	sv := c.freshName("s")
	if len(ls.carried) == 1 {
		sv = leanIdent(ls.carried[0].Name())
	}
	if len(ls.carried) == 0 {
		sv = "_"
	}
	if !ls.hasRet {
		if ls.opt {
			return c.bindText(true, "loop", sv, callText, unpack(sv)+rest())
		}
		if len(ls.carried) == 0 {
			return rest()
		}
		return "let " + sv + " := " + callText + "\n" + unpack(sv) + rest()
	}
	rv := c.freshName("r")
	if ls.opt {
		return "match " + callText + " with\n| none => none\n| some (.ret " + rv + ") => " + c.retWrap(rv) + "\n| some (.done " + sv + ") =>\n" + ind(unpack(sv)+rest())
	}
	return "match " + callText + " with\n| .ret " + rv + " => " + c.retWrap(rv) + "\n| .done " + sv + " =>\n" + ind(unpack(sv)+rest())
}

func (c *fctx) rangeLoop(s *ast.RangeStmt, rest func() string) string {
	if s.Tok != token.DEFINE || s.Value == nil {
		fail("range loop without `_, v :=` at %s", c.t.posOf(s))
	}
	if k, ok := s.Key.(*ast.Ident); !ok || k.Name != "_" {
		fail("range loop using the index at %s", c.t.posOf(s))
	}
	val, ok := s.Value.(*ast.Ident)
	if !ok {
		fail("range value")
	}
	tv := c.info.Types[s.X]
	sl, ok := tv.Type.Underlying().(*types.Slice)
	if !ok {
		fail("range over %s", tv.Type)
	}
	elemT := c.t.leanType(sl.Elem(), false)
	ls, _ := c.prepLoop(s, []ast.Node{s.Body}, nil, false)
	// definition
	var pats, patsNil, args, tys []string
	for _, v := range ls.carried {
		pats = append(pats, leanIdent(v.Name()))
		patsNil = append(patsNil, leanIdent(v.Name()))
		args = append(args, leanIdent(v.Name()))
		tys = append(tys, c.varType(v))
	}
	tys = append(tys, "List "+paren(elemT))
	recCall := func() string {
		return strings.Join(append(append([]string{ls.name}, ls.fixedArg...), append(args, "rest'")...), " ")
	}
	saveOpt, saveLoop := c.opt, c.loop
	c.opt = ls.opt
	c.loop = &loopCtx{hasRet: ls.hasRet, brk: func() string { return ls.done(c) }}
	body := c.block(s.Body.List, recCall)
	doneText := ls.done(c)
	c.opt, c.loop = saveOpt, saveLoop
	def := fmt.Sprintf("/-- Go: %s `for _, %s := range %s` -/\ndef %s %s: %s → %s\n", ls.pos, val.Name, exprString(s.X), ls.name, joinSp(ls.fixed), strings.Join(tys, " → "), ls.resultType(c))
	def += "  | " + strings.Join(append(patsNil, "[]"), ", ") + " => " + doneText + "\n"
	def += "  | " + strings.Join(append(pats, leanIdent(val.Name)+" :: rest'"), ", ") + " =>\n" + ind(ind(body)) + "\n"
	c.aux = append(c.aux, def)
	call := strings.Join(append(append([]string{ls.name}, ls.fixedArg...), append(args, paren(c.pure(s.X)))...), " ")
	return c.afterLoop(ls, call, rest)
}

func joinSp(xs []string) string {
	if len(xs) == 0 {
		return ""
	}
	return strings.Join(xs, " ") + " "
}

func exprString(e ast.Expr) string {
	switch x := e.(type) {
	case *ast.Ident:
		return x.Name
	case *ast.SelectorExpr:
		return exprString(x.X) + "." + x.Sel.Name
	}
	return "…"
}

func (c *fctx) forLoop(s *ast.ForStmt, rest func() string) string {
	bi, bounded := c.t.boundedFor(c.f, s)
	var loopVar *types.Var
	var initText string
	var nodes []ast.Node
	if s.Cond != nil {
		nodes = append(nodes, s.Cond)
	}
	if s.Post != nil {
		nodes = append(nodes, s.Post)
	}
	nodes = append(nodes, s.Body)
	if s.Init != nil {
		as, ok := s.Init.(*ast.AssignStmt)
		if !ok || as.Tok != token.DEFINE || len(as.Lhs) != 1 || len(as.Rhs) != 1 {
			fail("loop initialiser at %s", c.t.posOf(s))
		}
		id := as.Lhs[0].(*ast.Ident)
		loopVar = c.info.Defs[id].(*types.Var)
		initText = c.pure(as.Rhs[0])
	}
	var extra []*types.Var
	if loopVar != nil {
		extra = append(extra, loopVar)
	}
	ls, _ := c.prepLoop(s, nodes, extra, !bounded)
	var pats, pats0, args, tys []string
	tys = append(tys, "Nat")
	for _, v := range ls.carried {
		pats = append(pats, leanIdent(v.Name()))
		args = append(args, leanIdent(v.Name()))
		tys = append(tys, c.varType(v))
	}
	if loopVar != nil {
		pats = append(pats, leanIdent(loopVar.Name()))
		tys = append(tys, c.varType(loopVar))
	}
	for range pats {
		pats0 = append(pats0, "_")
	}
	saveOpt, saveLoop := c.opt, c.loop
	c.opt = ls.opt
	c.loop = &loopCtx{hasRet: ls.hasRet, brk: func() string { return ls.done(c) }}
	recCall := func() string {
		post := ""
		if s.Post != nil {
			saveL := c.loop
			c.loop = nil
			post = c.block([]ast.Stmt{s.Post}, func() string { return "" })
			c.loop = saveL
		}
		a := append([]string{}, args...)
		if loopVar != nil {
			a = append(a, leanIdent(loopVar.Name()))
		}
		return post + strings.Join(append(append([]string{ls.name}, ls.fixedArg...), append([]string{"cnt"}, a...)...), " ")
	}
	var body string
	if s.Cond != nil {
		body = c.cond(s.Cond, func() string { return c.block(s.Body.List, recCall) }, func() string { return ls.done(c) })
	} else {
		body = c.block(s.Body.List, recCall)
	}
	doneText := ls.done(c)
	c.opt, c.loop = saveOpt, saveLoop
	zero := "none"
	countText := "fuel"
	kind := "no syntactic bound: `none` = out of fuel"
	if bounded {
		// exact number of iterations of `for v := a; v <= b; v++` (v and b are not assigned in the body): b + 1 - a
		lim := c.pure(bi.limit)
		if bi.incl {
			lim = paren(lim) + " + 1"
		}
		countText = "(" + lim + " - " + paren(initText) + " : Int).toNat"
		kind = "bounded: the counter is the exact number of iterations"
		// when the counter is used up the loop condition is false: same result as the else branch of the test
		// the carried variables at that point are the pattern variables
		zero = "" // filled below
	}
	def := fmt.Sprintf("/-- Go: %s `for` loop (%s) -/\ndef %s %s: %s → %s\n", ls.pos, kind, ls.name, joinSp(ls.fixed), strings.Join(tys, " → "), ls.resultType(c))
	if bounded {
		p0 := append([]string{}, args...)
		if loopVar != nil {
			p0 = append(p0, "_")
		}
		def += "  | " + strings.Join(append([]string{"0"}, p0...), ", ") + " => " + doneText + "\n"
	} else {
		def += "  | " + strings.Join(append([]string{"0"}, pats0...), ", ") + " => " + zero + "\n"
	}
	def += "  | " + strings.Join(append([]string{"cnt+1"}, pats...), ", ") + " =>\n" + ind(ind(body)) + "\n"
	c.aux = append(c.aux, def)
	a := append([]string{}, args...)
	if loopVar != nil {
		a = append(a, paren(initText))
	}
	call := strings.Join(append(append([]string{ls.name}, ls.fixedArg...), append([]string{countText}, a...)...), " ")
	return c.afterLoop(ls, call, rest)
}
