package main

import (
	"fmt"
	"go/ast"
	"go/constant"
	"go/token"
	"go/types"
	"path/filepath"
	"sort"
	"strings"
)

type unsupported struct{ msg string }

func (u unsupported) Error() string { return u.msg }

func fail(format string, a ...any) { panic(unsupported{fmt.Sprintf(format, a...)}) }

type fnInfo struct {
	decl     *ast.FuncDecl
	p        *pkgInfo
	obj      *types.Func
	goName   string
	lean     string
	pos      string
	sig      string
	recvType string
	recvName string
	recvObj  types.Object

	mut, fuel, usesT, borrowed, selfRec, wall bool

	calls     map[*fnInfo]bool
	dispCalls map[string]bool
	alias     map[types.Object]*ast.CallExpr // x := recv.selectNode(id)
	civil     map[types.Object]bool          // time.Time parameters given as six Ints (idiom 5)
	dropped   map[types.Object]bool          // parameters not translated (borrowed nodes, *time.Location)
	paramType map[types.Object]string        // devirtualised parameter types

	err  error
	text string
}

type selCase struct {
	constName string
	field     string
}

type structInfo struct {
	name   string
	pos    string
	fields []structField
}

type structField struct {
	name, typ string
}

type translator struct {
	fset    *token.FileSet
	csm, qz *pkgInfo
	repo    string

	fns     map[*types.Func]*fnInfo
	methods map[string]*fnInfo // "CommonNode.Next"
	order   []*fnInfo

	structs   []*structInfo
	structSet map[string]bool

	devirt   map[string]string // "CronStateMachine.second" -> "CommonNode"
	borrowed map[string]bool   // "DayNode.month"
	sel      []selCase
	selFn    *fnInfo
	selPos   string
	dispUsed map[string]bool
	ifaceRes map[string]*types.Signature

	idioms      map[string]string
	timeOps     map[string]bool
	civilOps    map[string]bool
	missing     []string
	sourceFiles []string
}

func newTranslator(fset *token.FileSet, csm, qz *pkgInfo, repo string) *translator {
	return &translator{fset: fset, csm: csm, qz: qz, repo: repo,
		fns: map[*types.Func]*fnInfo{}, methods: map[string]*fnInfo{}, structSet: map[string]bool{},
		devirt: map[string]string{}, borrowed: map[string]bool{}, dispUsed: map[string]bool{},
		idioms: map[string]string{}, ifaceRes: map[string]*types.Signature{}, timeOps: map[string]bool{}, civilOps: map[string]bool{}}
}

func (t *translator) miss(s string) {
	for _, m := range t.missing {
		if m == s {
			return
		}
	}
	t.missing = append(t.missing, s)
}

func (t *translator) posOf(n ast.Node) string {
	ps := t.fset.Position(n.Pos())
	rel, err := filepath.Rel(t.repo, ps.Filename)
	if err != nil {
		rel = filepath.Base(ps.Filename)
	}
	return fmt.Sprintf("%s:%d", rel, ps.Line)
}

func unparen(e ast.Expr) ast.Expr {
	for {
		p, ok := e.(*ast.ParenExpr)
		if !ok {
			return e
		}
		e = p.X
	}
}

func namedOf(t types.Type) *types.Named {
	if p, ok := t.(*types.Pointer); ok {
		t = p.Elem()
	}
	n, _ := t.(*types.Named)
	return n
}

func isTimeType(t types.Type, name string) bool {
	n := namedOf(t)
	return n != nil && n.Obj().Pkg() != nil && n.Obj().Pkg().Path() == "time" && n.Obj().Name() == name
}

func isTimeTime(t types.Type) bool {
	if _, ok := t.(*types.Pointer); ok {
		return false
	}
	return isTimeType(t, "Time")
}

func isLocation(t types.Type) bool {
	_, ok := t.(*types.Pointer)
	return ok && isTimeType(t, "Location")
}

func (t *translator) isNodeIface(ty types.Type) bool {
	n := namedOf(ty)
	if n == nil || n.Obj().Pkg() != t.csm.pkg {
		return false
	}
	_, ok := n.Underlying().(*types.Interface)
	return ok
}

// ---------------------------------------------------------------- collection

func (t *translator) collect() {
	add := func(p *pkgInfo, file *ast.File) {
		for _, d := range file.Decls {
			fd, ok := d.(*ast.FuncDecl)
			if !ok || fd.Body == nil {
				continue
			}
			obj, _ := p.info.Defs[fd.Name].(*types.Func)
			if obj == nil {
				continue
			}
			f := &fnInfo{decl: fd, p: p, obj: obj, pos: t.posOf(fd), calls: map[*fnInfo]bool{}, dispCalls: map[string]bool{},
				alias: map[types.Object]*ast.CallExpr{}, civil: map[types.Object]bool{}, dropped: map[types.Object]bool{}, paramType: map[types.Object]string{}}
			f.goName = fd.Name.Name
			f.lean = leanIdent(fd.Name.Name)
			if fd.Recv != nil && len(fd.Recv.List) == 1 {
				rt := fd.Recv.List[0].Type
				if st, ok := rt.(*ast.StarExpr); ok {
					rt = st.X
				}
				if id, ok := rt.(*ast.Ident); ok {
					f.recvType = id.Name
					f.goName = "(*" + id.Name + ")." + fd.Name.Name
					f.lean = id.Name + "." + leanIdent(fd.Name.Name)
					t.methods[id.Name+"."+fd.Name.Name] = f
				}
				if len(fd.Recv.List[0].Names) == 1 {
					f.recvName = fd.Recv.List[0].Names[0].Name
					f.recvObj = p.info.Defs[fd.Recv.List[0].Names[0]]
				}
			}
			f.sig = t.goSig(fd)
			t.fns[obj] = f
			t.order = append(t.order, f)
		}
	}
	for _, file := range t.csm.files {
		t.sourceFiles = append(t.sourceFiles, t.posFile(file))
		add(t.csm, file)
	}
	for _, file := range t.qz.files {
		if filepath.Base(t.fset.Position(file.Pos()).Filename) == "csm.go" {
			t.sourceFiles = append(t.sourceFiles, t.posFile(file))
			add(t.qz, file)
		}
	}
}

func (t *translator) posFile(f *ast.File) string {
	rel, err := filepath.Rel(t.repo, t.fset.Position(f.Pos()).Filename)
	if err != nil {
		return t.fset.Position(f.Pos()).Filename
	}
	return rel
}

func (t *translator) goSig(fd *ast.FuncDecl) string {
	start := t.fset.Position(fd.Pos())
	end := t.fset.Position(fd.Body.Lbrace)
	b, err := readFile(start.Filename)
	if err != nil || end.Offset > len(b) {
		return fd.Name.Name
	}
	return strings.Join(strings.Fields(string(b[start.Offset:end.Offset])), " ")
}

// ---------------------------------------------------------------- idioms 1, 2, 3

// constructorFlow: for a constructor-like function (single `return &S{...}` / `return S{...}`)
// report, for every parameter of the node interface type, the struct field it is stored in.
func (t *translator) constructorFlow(f *fnInfo) (structName string, flow map[types.Object]string, ok bool) {
	flow = map[types.Object]string{}
	if f == nil || len(f.decl.Body.List) != 1 {
		return "", nil, false
	}
	rs, isRet := f.decl.Body.List[0].(*ast.ReturnStmt)
	if !isRet || len(rs.Results) != 1 {
		return "", nil, false
	}
	e := unparen(rs.Results[0])
	if u, isU := e.(*ast.UnaryExpr); isU && u.Op == token.AND {
		e = unparen(u.X)
	}
	cl, isCL := e.(*ast.CompositeLit)
	if !isCL {
		return "", nil, false
	}
	n := namedOf(f.p.info.Types[cl].Type)
	if n == nil {
		return "", nil, false
	}
	st, isS := n.Underlying().(*types.Struct)
	if !isS {
		return "", nil, false
	}
	for i, el := range cl.Elts {
		field := ""
		val := el
		if kv, isKV := el.(*ast.KeyValueExpr); isKV {
			if id, isID := kv.Key.(*ast.Ident); isID {
				field = id.Name
			}
			val = kv.Value
		} else if i < st.NumFields() {
			field = st.Field(i).Name()
		}
		if id, isID := unparen(val).(*ast.Ident); isID {
			if obj := f.p.info.Uses[id]; obj != nil && t.isNodeIface(obj.Type()) {
				flow[obj] = field
			}
		}
	}
	return n.Obj().Name(), flow, true
}

func (t *translator) checkIdioms() {
	info := t.csm.info
	// ---- idiom 1a: DayNode only ever calls .Value() on its borrowed nodes
	var dayStruct *types.Struct
	if o := t.csm.pkg.Scope().Lookup("DayNode"); o != nil {
		dayStruct, _ = o.Type().Underlying().(*types.Struct)
	}
	ok1 := dayStruct != nil
	var borrowedNames []string
	if dayStruct != nil {
		for i := 0; i < dayStruct.NumFields(); i++ {
			if t.isNodeIface(dayStruct.Field(i).Type()) {
				t.borrowed["DayNode."+dayStruct.Field(i).Name()] = true
				borrowedNames = append(borrowedNames, dayStruct.Field(i).Name())
			}
		}
	}
	var why1 []string
	for _, file := range t.csm.files {
		var stack []ast.Node
		ast.Inspect(file, func(n ast.Node) bool {
			if n == nil {
				stack = stack[:len(stack)-1]
				return true
			}
			stack = append(stack, n)
			se, isSel := n.(*ast.SelectorExpr)
			if !isSel {
				return true
			}
			s := info.Selections[se]
			if s == nil || s.Kind() != types.FieldVal {
				return true
			}
			rn := namedOf(s.Recv())
			if rn == nil || !t.borrowed[rn.Obj().Name()+"."+se.Sel.Name] {
				return true
			}
			// parent must be SelectorExpr .Value, grandparent a call with no args
			good := false
			if len(stack) >= 3 {
				if ps, isPS := stack[len(stack)-2].(*ast.SelectorExpr); isPS && ps.Sel.Name == "Value" && ps.X == se {
					if c, isC := stack[len(stack)-3].(*ast.CallExpr); isC && c.Fun == ps && len(c.Args) == 0 {
						good = true
					}
				}
			}
			if !good {
				ok1 = false
				why1 = append(why1, "borrowed node used other than by .Value() at "+t.posOf(se))
			}
			return true
		})
	}
	// ---- idioms 1b + 2: quartz/csm.go passes the same month/year to both constructors, all other nodes are CommonNode
	ok2 := true
	var why2 []string
	var build *fnInfo
	for _, f := range t.order {
		if f.p == t.qz && f.goName == "newCSMFromFields" {
			build = f
		}
	}
	csmCtor := t.fnByName(t.csm, "NewCronStateMachine")
	csmStruct, csmFlow, okc := t.constructorFlow(csmCtor)
	if build == nil || !okc || csmStruct != "CronStateMachine" {
		ok1, ok2 = false, false
		why2 = append(why2, "newCSMFromFields / NewCronStateMachine not of the expected constructor shape")
	} else {
		qi := t.qz.info
		defs := map[types.Object][]ast.Expr{} // variable -> assigned expressions (nil expr for `var x T`)
		ast.Inspect(build.decl.Body, func(n ast.Node) bool {
			switch s := n.(type) {
			case *ast.AssignStmt:
				for i, l := range s.Lhs {
					if id, isID := l.(*ast.Ident); isID {
						obj := qi.Defs[id]
						if obj == nil {
							obj = qi.Uses[id]
						}
						if obj != nil && len(s.Rhs) == len(s.Lhs) {
							defs[obj] = append(defs[obj], s.Rhs[i])
						}
					}
				}
			case *ast.ValueSpec:
				for _, id := range s.Names {
					if obj := qi.Defs[id]; obj != nil && len(s.Values) == 0 {
						defs[obj] = append(defs[obj], nil)
					}
				}
			}
			return true
		})
		calleeOf := func(e ast.Expr) *fnInfo {
			c, isC := unparen(e).(*ast.CallExpr)
			if !isC {
				return nil
			}
			if se, isSel := c.Fun.(*ast.SelectorExpr); isSel {
				if fo, isF := qi.Uses[se.Sel].(*types.Func); isF {
					return t.fns[fo]
				}
			}
			return nil
		}
		var ctorCall *ast.CallExpr
		var dayCalls []*ast.CallExpr
		ast.Inspect(build.decl.Body, func(n ast.Node) bool {
			if c, isC := n.(*ast.CallExpr); isC {
				if cf := calleeOf(c); cf != nil {
					if cf == csmCtor {
						ctorCall = c
					} else if sn, fl, okf := t.constructorFlow(cf); okf && sn == "DayNode" && len(fl) > 0 {
						dayCalls = append(dayCalls, c)
					}
				}
			}
			return true
		})
		if ctorCall == nil || len(dayCalls) == 0 {
			ok1, ok2 = false, false
			why2 = append(why2, "constructor calls not found in newCSMFromFields")
		} else {
			// CSM field -> argument variable
			csmArg := map[string]types.Object{}
			params := paramObjs(csmCtor)
			for i, po := range params {
				if i >= len(ctorCall.Args) {
					continue
				}
				id, isID := unparen(ctorCall.Args[i]).(*ast.Ident)
				if field, isNode := csmFlow[po]; isNode {
					if !isID {
						ok2 = false
						why2 = append(why2, "NewCronStateMachine argument is not a variable")
						continue
					}
					ao := qi.Uses[id]
					csmArg[field] = ao
					ds := defs[ao]
					cf := (*fnInfo)(nil)
					if len(ds) == 1 && ds[0] != nil {
						cf = calleeOf(ds[0])
					}
					if cf == nil || cf.goName != "NewCommonNode" || cf.p != t.csm {
						ok2 = false
						why2 = append(why2, fmt.Sprintf("node %s is not built by a single NewCommonNode call", field))
					} else {
						t.devirt["CronStateMachine."+field] = "CommonNode"
						csmCtor.paramType[po] = "CommonNode"
					}
				}
			}
			for _, dc := range dayCalls {
				cf := calleeOf(dc)
				_, fl, _ := t.constructorFlow(cf)
				for i, po := range paramObjs(cf) {
					field, isNode := fl[po]
					if !isNode || i >= len(dc.Args) {
						continue
					}
					if !t.borrowed["DayNode."+field] {
						ok1 = false
						why1 = append(why1, "node parameter of "+cf.goName+" stored in a non-node field")
						continue
					}
					cf.dropped[po] = true
					id, isID := unparen(dc.Args[i]).(*ast.Ident)
					if !isID || qi.Uses[id] == nil || csmArg[field] != qi.Uses[id] {
						ok1 = false
						why1 = append(why1, fmt.Sprintf("%s: DayNode.%s is not the state machine's own %s node (%s)", cf.goName, field, field, t.posOf(dc)))
					}
				}
			}
			for _, bn := range borrowedNames {
				if t.devirt["CronStateMachine."+bn] != "CommonNode" {
					ok1 = false
					why1 = append(why1, "no CommonNode field CronStateMachine."+bn+" to borrow from")
				}
			}
		}
	}
	t.report("idiom1.borrowedNodes", ok1, why1, "DayNode.{"+strings.Join(borrowedNames, ",")+"} only used via .Value(); same variables passed to New*DayNode and NewCronStateMachine")
	t.report("idiom2.devirtualisation", ok2, why2, fmt.Sprintf("%d interface-typed fields of CronStateMachine built by NewCommonNode", len(t.devirt)))

	// ---- idiom 3: selectNode
	ok3 := false
	var why3 []string
	t.selFn = t.methods["CronStateMachine.selectNode"]
	if t.selFn != nil && len(t.selFn.decl.Body.List) == 2 && len(paramObjs(t.selFn)) == 1 {
		sw, isSw := t.selFn.decl.Body.List[0].(*ast.SwitchStmt)
		ret, isRet := t.selFn.decl.Body.List[1].(*ast.ReturnStmt)
		if isSw && isRet && sw.Init == nil && len(ret.Results) == 1 && isNilIdent(ret.Results[0]) {
			tag, isID := unparen(sw.Tag).(*ast.Ident)
			if isID && info.Uses[tag] == paramObjs(t.selFn)[0] {
				ok3 = true
				t.selPos = t.posOf(sw)
				for _, cc := range sw.Body.List {
					c := cc.(*ast.CaseClause)
					good := false
					if len(c.List) == 1 && len(c.Body) == 1 {
						if cid, isC := unparen(c.List[0]).(*ast.Ident); isC {
							if _, isConst := info.Uses[cid].(*types.Const); isConst {
								if r, isR := c.Body[0].(*ast.ReturnStmt); isR && len(r.Results) == 1 {
									if se, isSel := unparen(r.Results[0]).(*ast.SelectorExpr); isSel {
										if x, isX := se.X.(*ast.Ident); isX && info.Uses[x] == t.selFn.recvObj {
											t.sel = append(t.sel, selCase{cid.Name, se.Sel.Name})
											good = true
										}
									}
								}
							}
						}
					}
					if !good {
						ok3 = false
						why3 = append(why3, "selectNode case not of the form `case K: return csm.f` at "+t.posOf(c))
					}
				}
			}
		}
	}
	if !ok3 && len(why3) == 0 {
		why3 = append(why3, "selectNode is not `switch id { case K: return csm.f … }; return nil`")
	}
	t.report("idiom3.selectNode", ok3, why3, fmt.Sprintf("%d cases", len(t.sel)))
	if !ok3 {
		t.sel = nil
	}
}

func (t *translator) report(name string, ok bool, why []string, okText string) {
	if ok {
		t.idioms[name] = "ok: " + okText
		return
	}
	t.idioms[name] = "FAILED: " + strings.Join(why, "; ")
	t.miss(name + ": " + strings.Join(why, "; "))
}

func isNilIdent(e ast.Expr) bool {
	id, ok := unparen(e).(*ast.Ident)
	return ok && id.Name == "nil"
}

func (t *translator) fnByName(p *pkgInfo, name string) *fnInfo {
	for _, f := range t.order {
		if f.p == p && f.goName == name {
			return f
		}
	}
	return nil
}

func paramObjs(f *fnInfo) []types.Object {
	var out []types.Object
	if f == nil {
		return nil
	}
	for _, fl := range f.decl.Type.Params.List {
		for _, n := range fl.Names {
			out = append(out, f.p.info.Defs[n])
		}
	}
	return out
}

// ---------------------------------------------------------------- call classification

type callKind int

const (
	kUnknown callKind = iota
	kFunc
	kDispatch
	kSelect
	kBorrowed
	kTimeMethod
	kTimeDate
	kCivil
	kConv
	kLen
	kMake
	kAppend
)

type callInfo struct {
	kind    callKind
	fn      *fnInfo
	recv    ast.Expr // receiver expression of a method call
	method  string
	idExpr  ast.Expr // dispatcher: the NodeID expression
	selRecv ast.Expr // dispatcher: receiver of selectNode
	field   string   // borrowed field
}

func (t *translator) classify(f *fnInfo, call *ast.CallExpr) callInfo {
	info := f.p.info
	fun := unparen(call.Fun)
	if tv, ok := info.Types[fun]; ok && tv.IsType() {
		return callInfo{kind: kConv}
	}
	if ix, ok := fun.(*ast.IndexExpr); ok { // explicit instantiation f[T](…)
		fun = unparen(ix.X)
	}
	switch fx := fun.(type) {
	case *ast.Ident:
		switch obj := info.Uses[fx].(type) {
		case *types.Builtin:
			switch obj.Name() {
			case "len":
				return callInfo{kind: kLen}
			case "make":
				return callInfo{kind: kMake}
			case "append":
				return callInfo{kind: kAppend}
			}
		case *types.Func:
			if g := t.fns[obj.Origin()]; g != nil {
				return callInfo{kind: kFunc, fn: g}
			}
		}
	case *ast.SelectorExpr:
		if id, ok := fx.X.(*ast.Ident); ok {
			if _, isPkg := info.Uses[id].(*types.PkgName); isPkg {
				obj := info.Uses[fx.Sel]
				if fo, isF := obj.(*types.Func); isF {
					if fo.Pkg() != nil && fo.Pkg().Path() == "time" && fo.Name() == "Date" {
						return callInfo{kind: kTimeDate}
					}
					if g := t.fns[fo.Origin()]; g != nil {
						return callInfo{kind: kFunc, fn: g}
					}
				}
				return callInfo{}
			}
			if obj := info.Uses[id]; obj != nil {
				if sc := f.alias[obj]; sc != nil {
					se := unparen(sc.Fun).(*ast.SelectorExpr)
					return callInfo{kind: kDispatch, method: fx.Sel.Name, idExpr: sc.Args[0], selRecv: se.X}
				}
				if f.civil[obj] {
					return callInfo{kind: kCivil, method: fx.Sel.Name}
				}
			}
		}
		if tv, ok := info.Types[fx.X]; ok && isTimeTime(tv.Type) {
			return callInfo{kind: kTimeMethod, method: fx.Sel.Name, recv: fx.X}
		}
		if inner, ok := unparen(fx.X).(*ast.SelectorExpr); ok {
			if s := info.Selections[inner]; s != nil && s.Kind() == types.FieldVal {
				if rn := namedOf(s.Recv()); rn != nil {
					key := rn.Obj().Name() + "." + inner.Sel.Name
					if t.borrowed[key] && fx.Sel.Name == "Value" {
						return callInfo{kind: kBorrowed, field: inner.Sel.Name, recv: inner.X}
					}
					if conc, isDv := t.devirt[key]; isDv {
						if g := t.methods[conc+"."+fx.Sel.Name]; g != nil {
							return callInfo{kind: kFunc, fn: g, recv: fx.X}
						}
					}
				}
			}
		}
		if fo, ok := info.Uses[fx.Sel].(*types.Func); ok {
			if g := t.fns[fo.Origin()]; g != nil {
				if g == t.selFn {
					return callInfo{kind: kSelect, recv: fx.X}
				}
				return callInfo{kind: kFunc, fn: g, recv: fx.X}
			}
		}
	}
	return callInfo{}
}

func rootIdent(e ast.Expr) *ast.Ident {
	for {
		switch x := e.(type) {
		case *ast.Ident:
			return x
		case *ast.SelectorExpr:
			e = x.X
		case *ast.IndexExpr:
			e = x.X
		case *ast.ParenExpr:
			e = x.X
		case *ast.StarExpr:
			e = x.X
		default:
			return nil
		}
	}
}

// dispatch targets of method m: the concrete method for every selectNode case
func (t *translator) dispTargets(m string) []*fnInfo {
	var out []*fnInfo
	for _, sc := range t.sel {
		if g := t.methods[t.fieldStruct("CronStateMachine", sc.field)+"."+m]; g != nil {
			out = append(out, g)
		}
	}
	return out
}

// concrete struct name of a struct field (devirtualised)
func (t *translator) fieldStruct(structName, field string) string {
	if c, ok := t.devirt[structName+"."+field]; ok {
		return c
	}
	if o := t.csm.pkg.Scope().Lookup(structName); o != nil {
		if st, ok := o.Type().Underlying().(*types.Struct); ok {
			for i := 0; i < st.NumFields(); i++ {
				if st.Field(i).Name() == field {
					if n := namedOf(st.Field(i).Type()); n != nil {
						return n.Obj().Name()
					}
				}
			}
		}
	}
	return ""
}

// ---------------------------------------------------------------- effect analysis

func (t *translator) analyze() {
	for _, f := range t.order {
		info := f.p.info
		// idiom 4/5 parameter treatment
		for _, po := range paramObjs(f) {
			if isLocation(po.Type()) {
				f.dropped[po] = true
			}
			if isTimeTime(po.Type()) && f.p == t.qz {
				f.civil[po] = true
			}
		}
		if f.recvType == "CronStateMachine" && f.decl.Type.Results != nil {
			for _, r := range f.decl.Type.Results.List {
				if tv, ok := info.Types[r.Type]; ok && isTimeTime(tv.Type) {
					f.wall = true
				}
			}
		}
		// aliases x := recv.selectNode(id)
		ast.Inspect(f.decl.Body, func(n ast.Node) bool {
			as, ok := n.(*ast.AssignStmt)
			if !ok || len(as.Lhs) != 1 || len(as.Rhs) != 1 {
				return true
			}
			c, ok := unparen(as.Rhs[0]).(*ast.CallExpr)
			if !ok {
				return true
			}
			if t.classify(f, c).kind == kSelect && len(c.Args) == 1 {
				if id, isID := as.Lhs[0].(*ast.Ident); isID {
					if obj := info.Defs[id]; obj != nil {
						f.alias[obj] = c
					}
				}
			}
			return true
		})
		ast.Inspect(f.decl.Body, func(n ast.Node) bool {
			switch s := n.(type) {
			case *ast.AssignStmt:
				for _, l := range s.Lhs {
					if r := rootIdent(l); r != nil && f.recvObj != nil && info.Uses[r] == f.recvObj {
						if _, isID := unparen(l).(*ast.Ident); !isID {
							f.mut = true
						}
					}
				}
			case *ast.IncDecStmt:
				if r := rootIdent(s.X); r != nil && f.recvObj != nil && info.Uses[r] == f.recvObj {
					f.mut = true
				}
			case *ast.ForStmt:
				if _, bounded := t.boundedFor(f, s); !bounded {
					f.fuel = true
				}
			case *ast.CallExpr:
				ci := t.classify(f, s)
				switch ci.kind {
				case kFunc:
					f.calls[ci.fn] = true
					if ci.fn == f {
						f.selfRec, f.fuel = true, true
					}
				case kDispatch:
					f.dispCalls[ci.method] = true
					t.dispUsed[ci.method] = true
					f.fuel = true
				case kBorrowed:
					f.borrowed = true
				case kTimeMethod:
					f.usesT = true
				case kTimeDate:
					if !f.wall {
						f.usesT = true
					}
				}
			}
			return true
		})
	}
	// fixpoint
	for changed := true; changed; {
		changed = false
		set := func(b *bool, v bool) {
			if v && !*b {
				*b = true
				changed = true
			}
		}
		for _, f := range t.order {
			ast.Inspect(f.decl.Body, func(n ast.Node) bool {
				c, ok := n.(*ast.CallExpr)
				if !ok {
					return true
				}
				ci := t.classify(f, c)
				switch ci.kind {
				case kFunc:
					g := ci.fn
					set(&f.fuel, g.fuel)
					set(&f.usesT, g.usesT)
					if g.recvType == f.recvType && f.recvType != "" {
						set(&f.borrowed, g.borrowed)
					}
					if g.mut && ci.recv != nil {
						if r := rootIdent(ci.recv); r != nil && f.recvObj != nil && f.p.info.Uses[r] == f.recvObj {
							set(&f.mut, true)
						}
					}
				case kDispatch:
					for _, g := range t.dispTargets(ci.method) {
						set(&f.usesT, g.usesT)
						if g.mut {
							if r := rootIdent(ci.selRecv); r != nil && f.recvObj != nil && f.p.info.Uses[r] == f.recvObj {
								set(&f.mut, true)
							}
						}
					}
				}
				return true
			})
		}
	}
}

// boundedFor recognises `for i := a; i <= b; i++ { … }` (or `<`) where neither i nor the
// variables of b are assigned in the body; it returns the Lean iteration count.
type boundInfo struct {
	v     *ast.Ident
	init  ast.Expr
	limit ast.Expr
	incl  bool
}

func (t *translator) boundedFor(f *fnInfo, s *ast.ForStmt) (boundInfo, bool) {
	info := f.p.info
	as, ok := s.Init.(*ast.AssignStmt)
	if !ok || as.Tok != token.DEFINE || len(as.Lhs) != 1 || len(as.Rhs) != 1 {
		return boundInfo{}, false
	}
	v, ok := as.Lhs[0].(*ast.Ident)
	if !ok {
		return boundInfo{}, false
	}
	vo := info.Defs[v]
	be, ok := unparen(s.Cond).(*ast.BinaryExpr)
	if s.Cond == nil || !ok || (be.Op != token.LEQ && be.Op != token.LSS) {
		return boundInfo{}, false
	}
	cv, ok := unparen(be.X).(*ast.Ident)
	if !ok || info.Uses[cv] != vo {
		return boundInfo{}, false
	}
	inc, ok := s.Post.(*ast.IncDecStmt)
	if !ok || inc.Tok != token.INC {
		return boundInfo{}, false
	}
	iv, ok := unparen(inc.X).(*ast.Ident)
	if !ok || info.Uses[iv] != vo {
		return boundInfo{}, false
	}
	// the limit must be a compile-time constant (keeps the check simple and sound)
	if tv, ok := info.Types[be.Y]; !ok || tv.Value == nil {
		return boundInfo{}, false
	}
	bad := false
	ast.Inspect(s.Body, func(n ast.Node) bool {
		switch x := n.(type) {
		case *ast.AssignStmt:
			for _, l := range x.Lhs {
				if r := rootIdent(l); r != nil && (info.Uses[r] == vo) {
					bad = true
				}
			}
		case *ast.IncDecStmt:
			if r := rootIdent(x.X); r != nil && info.Uses[r] == vo {
				bad = true
			}
		case *ast.UnaryExpr:
			if x.Op == token.AND {
				if r := rootIdent(x.X); r != nil && info.Uses[r] == vo {
					bad = true
				}
			}
		case *ast.BranchStmt:
			if x.Tok != token.BREAK {
				bad = true
			}
		}
		return true
	})
	if bad {
		return boundInfo{}, false
	}
	return boundInfo{v: v, init: as.Rhs[0], limit: be.Y, incl: be.Op == token.LEQ}, true
}

// ---------------------------------------------------------------- ordering

func (t *translator) topo() []*fnInfo {
	var out []*fnInfo
	state := map[*fnInfo]int{}
	var visit func(f *fnInfo)
	visit = func(f *fnInfo) {
		if state[f] != 0 {
			if state[f] == 1 && f.err == nil {
				f.err = unsupported{"mutual recursion"}
			}
			return
		}
		state[f] = 1
		var cs []*fnInfo
		for g := range f.calls {
			if g != f {
				cs = append(cs, g)
			}
		}
		for m := range f.dispCalls {
			cs = append(cs, t.dispTargets(m)...)
		}
		sort.Slice(cs, func(i, j int) bool { return cs[i].decl.Pos() < cs[j].decl.Pos() })
		for _, g := range cs {
			visit(g)
		}
		state[f] = 2
		out = append(out, f)
	}
	for _, f := range t.order {
		visit(f)
	}
	return out
}

// ---------------------------------------------------------------- small helpers

var leanKeywords = map[string]bool{"end": true, "from": true, "at": true, "do": true, "then": true, "fun": true, "match": true, "open": true,
	"in": true, "have": true, "show": true, "prefix": true, "let": true, "def": true, "theorem": true, "with": true, "where": true, "by": true,
	"if": true, "else": true, "for": true, "return": true, "instance": true, "structure": true, "class": true, "namespace": true, "section": true,
	"variable": true, "universe": true, "import": true, "mut": true, "some": true, "none": true, "Type": true, "Prop": true, "Sort": true,
	"deriving": true, "example": true, "abbrev": true, "inductive": true, "macro": true, "syntax": true, "local": true, "private": true,
	"protected": true, "mutual": true, "unless": true, "break": true, "continue": true, "try": true, "catch": true, "finally": true, "using": true,
	"calc": true, "suffices": true, "obtain": true, "nomatch": true, "nofun": true, "infix": true, "infixl": true, "infixr": true, "notation": true,
	"postfix": true, "attribute": true, "export": true, "extends": true, "set_option": true, "opaque": true, "axiom": true, "unsafe": true, "partial": true}

func leanIdent(s string) string {
	if leanKeywords[s] {
		return "«" + s + "»"
	}
	return s
}

func constInt(info *types.Info, e ast.Expr) (int64, bool) {
	if tv, ok := info.Types[e]; ok && tv.Value != nil && tv.Value.Kind() == constant.Int {
		return constant.Int64Val(tv.Value)
	}
	return 0, false
}
