package main

import (
	"fmt"
	"go/ast"
	"go/constant"
	"go/token"
	"go/types"
	"path/filepath"
	"sort"
	"strings"
)

type unsupported struct{ msg string }

func (u unsupported) Error() string { return u.msg }

func fail(format string, a ...any) { panic(unsupported{fmt.Sprintf(format, a...)}) }

// the functions to translate (hard-coded list, see the package comment)
var wanted = []struct{ recv, name string }{
	{"", "inScope"},
	{"", "fillRangeValues"},
	{"", "fillStepValues"},
	{"cronField", "add"},
	{"CronTrigger", "fires"},
	{"CronTrigger", "NextFireTime"},
}

type fnInfo struct {
	decl   *ast.FuncDecl
	obj    *types.Func
	goName string // CronTrigger.NextFireTime
	lean   string
	pos    string
	sig    string
	recv   *types.Var
	recvT  string // struct name of the receiver
	mut    bool   // assigns fields of its receiver: returns the updated receiver
	fuel   bool   // takes fuel, returns Option
	usesT  bool   // Generated.Trans.TimeExt (the state machine's calendar)
	usesK  bool   // ClockExt
	usesL  bool   // LocExt
	text   string
	err    error
}

type tableRow struct {
	index  int64
	parser string
	lower  int64
	upper  int64
	names  string
	pos    string
}

type translator struct {
	fset        *token.FileSet
	csm, qz     *pkgInfo
	repo        string
	fns         map[types.Object]*fnInfo
	order       []*fnInfo
	missing     []string
	idioms      map[string]string
	sourceFiles []string
	table       []tableRow
	adds        [][2]int64
	tablePos    string
	trigFields  []string // Lean fields of structure CronTrigger
	trigPos     string
	timeOps     map[string]bool
	errVals     map[string]bool
}

func newTranslator(fset *token.FileSet, csm, qz *pkgInfo, repo string) *translator {
	return &translator{fset: fset, csm: csm, qz: qz, repo: repo, fns: map[types.Object]*fnInfo{}, idioms: map[string]string{},
		timeOps: map[string]bool{}, errVals: map[string]bool{}}
}

func (t *translator) miss(s string) {
	for _, m := range t.missing {
		if m == s {
			return
		}
	}
	t.missing = append(t.missing, s)
}

func (t *translator) posOf(n ast.Node) string {
	p := t.fset.Position(n.Pos())
	rel, err := filepath.Rel(t.repo, p.Filename)
	if err != nil {
		rel = p.Filename
	}
	return fmt.Sprintf("%s:%d", filepath.ToSlash(rel), p.Line)
}

func (t *translator) report(name string, why []string, okText string) {
	if len(why) == 0 {
		t.idioms[name] = "ok: " + okText
		return
	}
	t.idioms[name] = "FAILED: " + strings.Join(why, "; ")
	t.miss(name + ": " + strings.Join(why, "; "))
}

func unparen(e ast.Expr) ast.Expr {
	for {
		p, ok := e.(*ast.ParenExpr)
		if !ok {
			return e
		}
		e = p.X
	}
}

func namedOf(t types.Type) *types.Named {
	if p, ok := t.(*types.Pointer); ok {
		t = p.Elem()
	}
	n, _ := t.(*types.Named)
	return n
}

func isNamed(t types.Type, pkgPath, name string) bool {
	n := namedOf(t)
	return n != nil && n.Obj().Pkg() != nil && n.Obj().Pkg().Path() == pkgPath && n.Obj().Name() == name
}

func isTimeTime(t types.Type) bool {
	if _, ok := t.(*types.Pointer); ok {
		return false
	}
	return isNamed(t, "time", "Time")
}

func isLocation(t types.Type) bool { return isNamed(t, "time", "Location") }

func isErrorType(t types.Type) bool {
	n, ok := t.(*types.Named)
	return ok && n.Obj().Pkg() == nil && n.Obj().Name() == "error"
}

func constInt(info *types.Info, e ast.Expr) (int64, bool) {
	if tv, ok := info.Types[e]; ok && tv.Value != nil && tv.Value.Kind() == constant.Int {
		return constant.Int64Val(tv.Value)
	}
	return 0, false
}

func isPkgMember(info *types.Info, e ast.Expr, pkg, name string) bool {
	s, ok := unparen(e).(*ast.SelectorExpr)
	if !ok || s.Sel.Name != name {
		return false
	}
	id, ok := s.X.(*ast.Ident)
	if !ok {
		return false
	}
	pn, ok := info.Uses[id].(*types.PkgName)
	return ok && pn.Imported().Path() == pkg
}

var leanKeywords = map[string]bool{"end": true, "from": true, "at": true, "do": true, "then": true, "fun": true, "match": true, "open": true,
	"in": true, "have": true, "show": true, "prefix": true, "let": true, "def": true, "theorem": true, "with": true, "where": true, "by": true,
	"if": true, "else": true, "for": true, "return": true, "instance": true, "structure": true, "class": true, "namespace": true, "section": true,
	"variable": true, "universe": true, "import": true, "mut": true, "some": true, "none": true, "Type": true, "Prop": true, "Sort": true,
	"deriving": true, "example": true, "abbrev": true, "inductive": true, "macro": true, "syntax": true, "local": true, "private": true,
	"protected": true, "mutual": true, "unless": true, "break": true, "continue": true, "try": true, "catch": true, "finally": true, "using": true,
	"calc": true, "suffices": true, "obtain": true, "nomatch": true, "nofun": true, "infix": true, "infixl": true, "infixr": true, "notation": true,
	"postfix": true, "attribute": true, "export": true, "extends": true, "set_option": true, "opaque": true, "axiom": true, "unsafe": true, "partial": true}

// names the translation itself binds
var reservedNames = map[string]bool{"T": true, "K": true, "L": true, "fuel": true, "cnt": true}

func leanIdent(s string) string {
	if leanKeywords[s] {
		return "«" + s + "»"
	}
	if reservedNames[s] {
		return s + "'"
	}
	return s
}

// ---------------------------------------------------------------- collection

func (t *translator) collect() {
	seen := map[string]bool{}
	for _, p := range []*pkgInfo{t.csm, t.qz} {
		for _, f := range p.files {
			name := t.posFile(f)
			if !seen[name] && p == t.qz && (filepath.Base(name) == "cron.go" || filepath.Base(name) == "util.go" || filepath.Base(name) == "csm.go") {
				seen[name] = true
				t.sourceFiles = append(t.sourceFiles, name)
			}
		}
	}
	sort.Strings(t.sourceFiles)
	for _, w := range wanted {
		var found *fnInfo
		for _, file := range t.qz.files {
			for _, d := range file.Decls {
				fd, ok := d.(*ast.FuncDecl)
				if !ok || fd.Name.Name != w.name || fd.Body == nil {
					continue
				}
				obj, _ := t.qz.info.Defs[fd.Name].(*types.Func)
				if obj == nil {
					continue
				}
				sig := obj.Type().(*types.Signature)
				rn := ""
				if sig.Recv() != nil {
					if n := namedOf(sig.Recv().Type()); n != nil {
						rn = n.Obj().Name()
					}
				}
				if rn != w.recv {
					continue
				}
				fi := &fnInfo{decl: fd, obj: obj, goName: w.name, lean: leanIdent(w.name), pos: t.posOf(fd), sig: t.goSig(fd), recv: sig.Recv(), recvT: rn}
				if rn != "" {
					fi.goName = rn + "." + w.name
					fi.lean = rn + "." + leanIdent(w.name)
				}
				found = fi
			}
		}
		if found == nil {
			n := w.name
			if w.recv != "" {
				n = w.recv + "." + n
			}
			t.miss("function " + n + " not found in package quartz")
			continue
		}
		t.fns[found.obj] = found
		t.order = append(t.order, found)
	}
}

func (t *translator) posFile(f *ast.File) string {
	p := t.fset.Position(f.Pos())
	rel, err := filepath.Rel(t.repo, p.Filename)
	if err != nil {
		rel = p.Filename
	}
	return filepath.ToSlash(rel)
}

func (t *translator) goSig(fd *ast.FuncDecl) string {
	src, err := readFile(t.fset.Position(fd.Pos()).Filename)
	if err != nil {
		return fd.Name.Name
	}
	a, b := t.fset.Position(fd.Pos()).Offset, t.fset.Position(fd.Body.Lbrace).Offset
	return strings.Join(strings.Fields(string(src[a:b])), " ")
}

func (t *translator) srcText(n ast.Node) string {
	src, err := readFile(t.fset.Position(n.Pos()).Filename)
	if err != nil {
		return ""
	}
	a, b := t.fset.Position(n.Pos()).Offset, t.fset.Position(n.End()).Offset
	s := strings.Join(strings.Fields(string(src[a:b])), " ")
	s = strings.ReplaceAll(s, "-/", "- /")
	return strings.ReplaceAll(s, "/-", "/ -")
}

func (t *translator) qzFunc(name string) *ast.FuncDecl {
	for _, file := range t.qz.files {
		for _, d := range file.Decls {
			if fd, ok := d.(*ast.FuncDecl); ok && fd.Recv == nil && fd.Name.Name == name && fd.Body != nil {
				return fd
			}
		}
	}
	return nil
}

// ---------------------------------------------------------------- idioms checked before translating

func (t *translator) checkIdioms() {
	info := t.qz.info

	// idiom "csmCall": newCSMFromFields(prev time.Time, fields []*cronField) reads its time.Time parameter only through the six
	// wall-clock accessors, so the call is translated with the reading of the argument expanded into six Ints
	// (the argument order is the one of Generated.Trans.newCSMFromFields: year month day hour minute second).
	{
		var why []string
		fd := t.qzFunc("newCSMFromFields")
		if fd == nil {
			why = append(why, "newCSMFromFields not found")
		} else {
			sig := info.Defs[fd.Name].(*types.Func).Type().(*types.Signature)
			if sig.Params().Len() != 2 || !isTimeTime(sig.Params().At(0).Type()) {
				why = append(why, "newCSMFromFields: parameters are not (time.Time, fields)")
			} else if sl, ok := sig.Params().At(1).Type().(*types.Slice); !ok || !isNamed(sl.Elem(), quartzPath, "cronField") {
				why = append(why, "newCSMFromFields: second parameter is not []*cronField")
			} else {
				prev := sig.Params().At(0)
				allowed := map[string]bool{"Year": true, "Month": true, "Day": true, "Hour": true, "Minute": true, "Second": true}
				used := map[string]bool{}
				okUses := map[*ast.Ident]bool{}
				ast.Inspect(fd.Body, func(n ast.Node) bool {
					if call, ok := n.(*ast.CallExpr); ok {
						if se, ok := call.Fun.(*ast.SelectorExpr); ok {
							if id, ok := se.X.(*ast.Ident); ok && info.Uses[id] == prev && allowed[se.Sel.Name] && len(call.Args) == 0 {
								okUses[id] = true
								used[se.Sel.Name] = true
							}
						}
					}
					return true
				})
				ast.Inspect(fd.Body, func(n ast.Node) bool {
					if id, ok := n.(*ast.Ident); ok && info.Uses[id] == prev && !okUses[id] {
						why = append(why, "newCSMFromFields uses its time parameter other than through Year/Month/Day/Hour/Minute/Second at "+t.posOf(id))
					}
					return true
				})
				if len(why) == 0 && len(used) != 6 {
					why = append(why, fmt.Sprintf("newCSMFromFields reads only %d of the six wall-clock fields", len(used)))
				}
				if res := sig.Results(); res.Len() != 1 || !isNamed(res.At(0).Type(), csmPath, "CronStateMachine") {
					why = append(why, "newCSMFromFields does not return *csm.CronStateMachine")
				}
			}
		}
		// NextTriggerTime(loc *time.Location) (time.Time, bool)
		if obj := t.csm.pkg.Scope().Lookup("CronStateMachine"); obj == nil {
			why = append(why, "csm.CronStateMachine not found")
		} else {
			ms := types.NewMethodSet(types.NewPointer(obj.Type()))
			sel := ms.Lookup(t.csm.pkg, "NextTriggerTime")
			if sel == nil {
				why = append(why, "CronStateMachine.NextTriggerTime not found")
			} else {
				sig := sel.Obj().Type().(*types.Signature)
				if sig.Params().Len() != 1 || !isLocation(sig.Params().At(0).Type()) || sig.Results().Len() != 2 || !isTimeTime(sig.Results().At(0).Type()) {
					why = append(why, "CronStateMachine.NextTriggerTime is not func(*time.Location) (time.Time, bool)")
				}
			}
		}
		t.report("idiom.csmCall", why, "newCSMFromFields reads its time argument only through Year/Month/Day/Hour/Minute/Second; NextTriggerTime(*time.Location) (time.Time, bool); both are calls into Generated.Trans")
	}

	// structure CronTrigger: `location *time.Location` becomes the parameter (L : LocExt)
	{
		var why []string
		obj := t.qz.pkg.Scope().Lookup("CronTrigger")
		if obj == nil {
			why = append(why, "type CronTrigger not found")
		} else if st, ok := obj.Type().Underlying().(*types.Struct); !ok {
			why = append(why, "CronTrigger is not a struct")
		} else {
			t.trigPos = t.posOf(identNode{obj.Pos()})
			nloc := 0
			for i := 0; i < st.NumFields(); i++ {
				f := st.Field(i)
				if isLocation(f.Type()) {
					nloc++
					if f.Name() != "location" {
						why = append(why, "location field is named "+f.Name())
					}
					continue
				}
				ty, ok := t.tryLeanType(f.Type())
				if !ok {
					why = append(why, fmt.Sprintf("field %s has type %s", f.Name(), f.Type()))
					continue
				}
				t.trigFields = append(t.trigFields, leanIdent(f.Name())+" : "+ty)
			}
			if nloc != 1 {
				why = append(why, fmt.Sprintf("%d fields of type *time.Location (want 1)", nloc))
			}
		}
		t.report("idiom.location", why, "CronTrigger has one *time.Location field `location`; it is the parameter (L : LocExt) of every translated method that uses it")
	}

	t.checkTable()
}

type identNode struct{ p token.Pos }

func (i identNode) Pos() token.Pos { return i.p }
func (i identNode) End() token.Pos { return i.p }

// the boundary table of buildCronField: `fields[i], err = parseX(tokens[i], boundary{lo, hi}, names)` and `fields[i].add(k)`
func (t *translator) checkTable() {
	info := t.qz.info
	var why []string
	fd := t.qzFunc("buildCronField")
	if fd == nil {
		t.report("idiom.boundaryTable", []string{"buildCronField not found"}, "")
		return
	}
	t.tablePos = t.posOf(fd)
	bObj := t.qz.pkg.Scope().Lookup("boundary")
	if bObj == nil {
		why = append(why, "type boundary not found")
	} else if st, ok := bObj.Type().Underlying().(*types.Struct); !ok || st.NumFields() != 2 || st.Field(0).Name() != "lower" || st.Field(1).Name() != "upper" {
		why = append(why, "type boundary is not struct{lower, upper int}")
	}
	seen := map[int64]bool{}
	ast.Inspect(fd.Body, func(n ast.Node) bool {
		switch s := n.(type) {
		case *ast.AssignStmt:
			if len(s.Lhs) != 2 || len(s.Rhs) != 1 {
				return true
			}
			ix, ok := s.Lhs[0].(*ast.IndexExpr)
			if !ok {
				return true
			}
			if id, ok := ix.X.(*ast.Ident); !ok || id.Name != "fields" {
				return true
			}
			i, ok := constInt(info, ix.Index)
			if !ok {
				why = append(why, "non-constant field index at "+t.posOf(s))
				return true
			}
			call, ok := s.Rhs[0].(*ast.CallExpr)
			if !ok || len(call.Args) != 3 {
				why = append(why, "fields["+fmt.Sprint(i)+"] is not assigned from a parser call with three arguments at "+t.posOf(s))
				return true
			}
			fn, ok := call.Fun.(*ast.Ident)
			if !ok {
				why = append(why, "parser is not a plain function at "+t.posOf(s))
				return true
			}
			if tx, ok := call.Args[0].(*ast.IndexExpr); ok {
				if j, ok := constInt(info, tx.Index); !ok || j != i {
					why = append(why, fmt.Sprintf("fields[%d] is parsed from another token at %s", i, t.posOf(s)))
				}
			} else {
				why = append(why, "first parser argument is not tokens[i] at "+t.posOf(s))
			}
			cl, ok := call.Args[1].(*ast.CompositeLit)
			if !ok || len(cl.Elts) != 2 || bObj == nil || info.Types[cl].Type != bObj.Type() {
				why = append(why, "second parser argument is not boundary{lo, hi} at "+t.posOf(s))
				return true
			}
			var lo, hi int64
			var ok1, ok2 bool
			if kv, isKV := cl.Elts[0].(*ast.KeyValueExpr); isKV {
				for _, e := range cl.Elts {
					kv = e.(*ast.KeyValueExpr)
					switch kv.Key.(*ast.Ident).Name {
					case "lower":
						lo, ok1 = constInt(info, kv.Value)
					case "upper":
						hi, ok2 = constInt(info, kv.Value)
					}
				}
			} else {
				lo, ok1 = constInt(info, cl.Elts[0])
				hi, ok2 = constInt(info, cl.Elts[1])
			}
			if !ok1 || !ok2 {
				why = append(why, "non-constant boundary at "+t.posOf(s))
				return true
			}
			names := t.srcText(call.Args[2])
			if seen[i] {
				why = append(why, fmt.Sprintf("fields[%d] assigned twice", i))
			}
			seen[i] = true
			t.table = append(t.table, tableRow{i, fn.Name, lo, hi, names, t.posOf(s)})
		case *ast.ExprStmt:
			call, ok := s.X.(*ast.CallExpr)
			if !ok {
				return true
			}
			se, ok := call.Fun.(*ast.SelectorExpr)
			if !ok || se.Sel.Name != "add" || len(call.Args) != 1 {
				return true
			}
			ix, ok := se.X.(*ast.IndexExpr)
			if !ok {
				why = append(why, "add on something other than fields[i] at "+t.posOf(s))
				return true
			}
			i, ok1 := constInt(info, ix.Index)
			k, ok2 := constInt(info, call.Args[0])
			if !ok1 || !ok2 {
				why = append(why, "non-constant add at "+t.posOf(s))
				return true
			}
			t.adds = append(t.adds, [2]int64{i, k})
		}
		return true
	})
	sort.SliceStable(t.table, func(i, j int) bool { return t.table[i].index < t.table[j].index })
	for i, r := range t.table {
		if r.index != int64(i) {
			why = append(why, fmt.Sprintf("field indices are not 0..%d", len(t.table)-1))
			break
		}
	}
	if len(t.table) == 0 {
		why = append(why, "no `fields[i], err = parser(tokens[i], boundary{…}, names)` statement found")
	}
	t.report("idiom.boundaryTable", why, fmt.Sprintf("%d fields, %d add calls", len(t.table), len(t.adds)))
}
