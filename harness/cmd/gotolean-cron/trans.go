package main

import (
	"fmt"
	"go/ast"
	"go/constant"
	"go/token"
	"go/types"
	"os"
	"sort"
	"strings"
)

func readFile(name string) ([]byte, error) { return os.ReadFile(name) }

func ind(s string) string {
	lines := strings.Split(strings.TrimRight(s, "\n"), "\n")
	for i, l := range lines {
		if l != "" {
			lines[i] = "  " + l
		}
	}
	return strings.Join(lines, "\n")
}

func isAtom(s string) bool {
	if s == "" {
		return false
	}
	for _, r := range s {
		if !(r == '_' || r == '.' || r == '«' || r == '»' || r == '\'' || (r >= '0' && r <= '9') || (r >= 'a' && r <= 'z') || (r >= 'A' && r <= 'Z')) {
			return false
		}
	}
	return true
}

func paren(s string) string {
	if isAtom(s) {
		return s
	}
	if strings.HasPrefix(s, "(") || strings.HasPrefix(s, "{") || strings.HasPrefix(s, "[") {
		open, cl := s[0], byte(')')
		if open == '{' {
			cl = '}'
		} else if open == '[' {
			cl = ']'
		}
		depth := 0
		for i := 0; i < len(s); i++ {
			if s[i] == open {
				depth++
			} else if s[i] == cl {
				depth--
				if depth == 0 {
					if i == len(s)-1 {
						return s
					}
					break
				}
			}
		}
	}
	return "(" + s + ")"
}

func leanString(s string) string {
	s = strings.ReplaceAll(s, "\\", "\\\\")
	s = strings.ReplaceAll(s, "\"", "\\\"")
	s = strings.ReplaceAll(s, "\n", " ")
	return "\"" + s + "\""
}

// placeholders for the implicit parameters (T K L) of the function being translated; its loops take the same ones
const (
	phParams = "⟪P⟫"
	phArgs   = "⟪A⟫"
)

// ---------------------------------------------------------------- types

func (t *translator) tryLeanType(ty types.Type) (string, bool) {
	switch u := ty.(type) {
	case *types.Basic:
		switch {
		case u.Info()&types.IsInteger != 0:
			return "Int", true
		case u.Info()&types.IsBoolean != 0:
			return "Bool", true
		case u.Info()&types.IsString != 0:
			return "String", true
		}
	case *types.Pointer:
		if n, ok := u.Elem().(*types.Named); ok {
			if _, isS := n.Underlying().(*types.Struct); isS && !isTimeTime(n) {
				return t.tryLeanType(n)
			}
		}
	case *types.Named:
		switch {
		case isErrorType(u):
			return "Option String", true
		case isTimeTime(u):
			return "Time", true
		case isNamed(u, quartzPath, "cronField"):
			return "Trans.cronField", true
		case isNamed(u, quartzPath, "CronTrigger"):
			return "CronTrigger", true
		case isNamed(u, csmPath, "CronStateMachine"):
			return "Trans.CronStateMachine", true
		}
		if b, ok := u.Underlying().(*types.Basic); ok && b.Info()&types.IsInteger != 0 {
			return "Int", true
		}
	case *types.Slice:
		if e, ok := t.tryLeanType(u.Elem()); ok {
			return "List " + paren(e), true
		}
	}
	return "", false
}

func (t *translator) leanType(ty types.Type) string {
	s, ok := t.tryLeanType(ty)
	if !ok {
		fail("type %s", ty)
	}
	return s
}

// ---------------------------------------------------------------- function context

type fctx struct {
	t     *translator
	f     *fnInfo
	info  *types.Info
	sig   *types.Signature
	n     int
	loops int
	aux   []string
}

func (c *fctx) fresh() string {
	c.n++
	return fmt.Sprintf("r%d", c.n)
}

func (c *fctx) isRecv(e ast.Expr) bool {
	id, ok := unparen(e).(*ast.Ident)
	return ok && c.f.recv != nil && c.info.Uses[id] == c.f.recv
}

// `ct.location` (the receiver's location field)
func (c *fctx) isLocExpr(e ast.Expr) bool {
	se, ok := unparen(e).(*ast.SelectorExpr)
	if !ok || !c.isRecv(se.X) {
		return false
	}
	s := c.info.Selections[se]
	return s != nil && s.Kind() == types.FieldVal && isLocation(s.Type())
}

func (c *fctx) payloadType() string {
	var parts []string
	for i := 0; i < c.sig.Results().Len(); i++ {
		parts = append(parts, c.t.leanType(c.sig.Results().At(i).Type()))
	}
	res := ""
	switch len(parts) {
	case 0:
	case 1:
		res = parts[0]
	default:
		for i := range parts {
			if strings.Contains(parts[i], "×") {
				parts[i] = "(" + parts[i] + ")"
			}
		}
		res = strings.Join(parts, " × ")
	}
	if c.f.mut {
		rt := c.t.leanType(c.f.recv.Type())
		if res == "" {
			return rt
		}
		if len(parts) > 1 {
			res = "(" + res + ")"
		}
		return rt + " × " + res
	}
	if res == "" {
		return "Unit"
	}
	return res
}

func (c *fctx) retType() string {
	p := c.payloadType()
	if c.f.fuel {
		return "Option " + paren(p)
	}
	return p
}

func (c *fctx) retText(vals []string) string {
	v := ""
	switch len(vals) {
	case 0:
	case 1:
		v = vals[0]
	default:
		v = "(" + strings.Join(vals, ", ") + ")"
	}
	if c.f.mut {
		r := leanIdent(c.f.recv.Name())
		if v == "" {
			v = r
		} else {
			v = "(" + r + ", " + v + ")"
		}
	} else if v == "" {
		v = "()"
	}
	if c.f.fuel {
		return "some " + paren(v)
	}
	return v
}

// ---------------------------------------------------------------- AST queries

func rootIdent(e ast.Expr) *ast.Ident {
	for {
		switch x := e.(type) {
		case *ast.Ident:
			return x
		case *ast.ParenExpr:
			e = x.X
		case *ast.SelectorExpr:
			e = x.X
		case *ast.IndexExpr:
			e = x.X
		case *ast.StarExpr:
			e = x.X
		default:
			return nil
		}
	}
}

func hasReturn(n ast.Node) bool {
	found := false
	ast.Inspect(n, func(m ast.Node) bool {
		if _, ok := m.(*ast.ReturnStmt); ok {
			found = true
		}
		if _, ok := m.(*ast.FuncLit); ok {
			return false
		}
		return !found
	})
	return found
}

func hasBranch(n ast.Node) bool {
	found := false
	ast.Inspect(n, func(m ast.Node) bool {
		if _, ok := m.(*ast.BranchStmt); ok {
			found = true
		}
		return !found
	})
	return found
}

// isCsmNext: x.NextTriggerTime(…) on a *csm.CronStateMachine
func (c *fctx) isCsmNext(call *ast.CallExpr) bool {
	se, ok := call.Fun.(*ast.SelectorExpr)
	if !ok || se.Sel.Name != "NextTriggerTime" {
		return false
	}
	s := c.info.Selections[se]
	return s != nil && isNamed(s.Recv(), csmPath, "CronStateMachine")
}

func (c *fctx) callee(call *ast.CallExpr) *fnInfo {
	switch fn := call.Fun.(type) {
	case *ast.Ident:
		return c.t.fns[c.info.Uses[fn]]
	case *ast.SelectorExpr:
		if s := c.info.Selections[fn]; s != nil && s.Kind() == types.MethodVal {
			return c.t.fns[s.Obj()]
		}
	}
	return nil
}

// needsBind: the call returns Option (fuel)
func (c *fctx) needsBind(call *ast.CallExpr) bool {
	if c.isCsmNext(call) {
		return true
	}
	if cf := c.callee(call); cf != nil {
		return cf.fuel
	}
	return false
}

func (c *fctx) hasBind(n ast.Node) bool {
	found := false
	ast.Inspect(n, func(m ast.Node) bool {
		switch x := m.(type) {
		case *ast.CallExpr:
			if c.needsBind(x) {
				found = true
			}
		case *ast.ForStmt:
			found = true
		}
		return !found
	})
	return found
}

// local variables (incl. receiver, parameters) declared outside [from,to) and assigned inside the nodes
func (c *fctx) mutated(nodes []ast.Node, from, to token.Pos) []*types.Var {
	set := map[*types.Var]bool{}
	mark := func(e ast.Expr) {
		id := rootIdent(e)
		if id == nil || id.Name == "_" {
			return
		}
		obj := c.info.Uses[id]
		if obj == nil {
			obj = c.info.Defs[id]
		}
		if v, ok := obj.(*types.Var); ok && !v.IsField() && v.Parent() != c.t.qz.pkg.Scope() && (v.Pos() < from || v.Pos() >= to) {
			set[v] = true
		}
	}
	for _, n := range nodes {
		if n == nil {
			continue
		}
		ast.Inspect(n, func(m ast.Node) bool {
			switch x := m.(type) {
			case *ast.AssignStmt:
				for _, l := range x.Lhs {
					mark(l)
				}
			case *ast.IncDecStmt:
				mark(x.X)
			case *ast.CallExpr:
				if c.isCsmNext(x) {
					mark(x.Fun.(*ast.SelectorExpr).X)
				}
			}
			return true
		})
	}
	var out []*types.Var
	for v := range set {
		out = append(out, v)
	}
	sort.Slice(out, func(i, j int) bool { return out[i].Pos() < out[j].Pos() })
	return out
}

// local variables declared outside [from,to) and used inside the nodes
func (c *fctx) freeVars(nodes []ast.Node, from, to token.Pos) []*types.Var {
	set := map[*types.Var]bool{}
	for _, n := range nodes {
		if n == nil {
			continue
		}
		ast.Inspect(n, func(m ast.Node) bool {
			// the location field is not a value: `ct.location` alone does not make `ct` free … but ct is needed for nothing else then; keep it simple and count it
			if id, ok := m.(*ast.Ident); ok {
				if v, ok := c.info.Uses[id].(*types.Var); ok && !v.IsField() && v.Parent() != c.t.qz.pkg.Scope() && v.Pkg() == c.t.qz.pkg && (v.Pos() < from || v.Pos() >= to) {
					set[v] = true
				}
			}
			return true
		})
	}
	var out []*types.Var
	for v := range set {
		out = append(out, v)
	}
	sort.Slice(out, func(i, j int) bool { return out[i].Pos() < out[j].Pos() })
	return out
}

// ---------------------------------------------------------------- expressions

func (c *fctx) constText(e ast.Expr, v string) string {
	if strings.HasPrefix(v, "-") {
		v = "(" + v + ")"
	}
	if _, ok := unparen(e).(*ast.BasicLit); ok {
		return v
	}
	src := c.t.srcText(e)
	if src == strings.Trim(v, "()") {
		return v
	}
	return "(" + strings.Trim(v, "()") + " /- " + src + " -/)"
}

func (c *fctx) expr(e ast.Expr) string {
	info := c.info
	if tv, ok := info.Types[e]; ok && tv.Value != nil {
		switch tv.Value.Kind() {
		case constant.Int:
			return c.constText(e, tv.Value.ExactString())
		case constant.Bool:
			if constant.BoolVal(tv.Value) {
				return "true"
			}
			return "false"
		case constant.String:
			return leanString(constant.StringVal(tv.Value))
		}
	}
	switch x := e.(type) {
	case *ast.ParenExpr:
		return paren(c.expr(x.X))
	case *ast.Ident:
		switch obj := info.Uses[x].(type) {
		case *types.Var:
			if obj.Parent() == c.t.qz.pkg.Scope() {
				fail("package-level variable %s used as a value", x.Name)
			}
			if _, ok := c.t.tryLeanType(obj.Type()); !ok {
				fail("variable %s of type %s", x.Name, obj.Type())
			}
			return leanIdent(x.Name)
		case *types.Nil:
			fail("nil at %s", c.t.posOf(x))
		}
	case *ast.SelectorExpr:
		if s := info.Selections[x]; s != nil && s.Kind() == types.FieldVal {
			if isLocation(s.Type()) {
				fail("location used as a value at %s (idiom.location)", c.t.posOf(x))
			}
			if _, ok := c.t.tryLeanType(s.Type()); !ok {
				fail("field %s of type %s", x.Sel.Name, s.Type())
			}
			return paren(c.expr(x.X)) + "." + leanIdent(x.Sel.Name)
		}
	case *ast.StarExpr:
		return c.expr(x.X)
	case *ast.UnaryExpr:
		switch x.Op {
		case token.NOT:
			return "!" + paren(c.expr(x.X))
		case token.SUB:
			return "(-" + paren(c.expr(x.X)) + ")"
		}
	case *ast.BinaryExpr:
		a, b := paren(c.expr(x.X)), paren(c.expr(x.Y))
		isBool := false
		if tv, ok := info.Types[x.X]; ok {
			if bt, ok := tv.Type.Underlying().(*types.Basic); ok && bt.Info()&types.IsBoolean != 0 {
				isBool = true
			} else if !ok || bt.Info()&types.IsInteger == 0 {
				fail("operator %s on type %s", x.Op, tv.Type)
			}
		}
		switch x.Op {
		case token.ADD:
			return a + " + " + b
		case token.SUB:
			return a + " - " + b
		case token.MUL:
			return a + " * " + b
		case token.QUO:
			return "Int.tdiv " + a + " " + b
		case token.REM:
			return "Int.tmod " + a + " " + b
		case token.LAND:
			return a + " && " + b
		case token.LOR:
			return a + " || " + b
		case token.EQL:
			if isBool {
				return a + " == " + b
			}
			return "decide (" + a + " = " + b + ")"
		case token.NEQ:
			if isBool {
				return a + " != " + b
			}
			return "decide (" + a + " ≠ " + b + ")"
		case token.LSS:
			return "decide (" + a + " < " + b + ")"
		case token.LEQ:
			return "decide (" + a + " ≤ " + b + ")"
		case token.GTR:
			return "decide (" + a + " > " + b + ")"
		case token.GEQ:
			return "decide (" + a + " ≥ " + b + ")"
		}
		fail("operator %s", x.Op)
	case *ast.IndexExpr:
		tv := info.Types[x.X]
		if sl, ok := tv.Type.Underlying().(*types.Slice); ok {
			if bt, ok := sl.Elem().Underlying().(*types.Basic); ok && bt.Info()&types.IsInteger != 0 {
				return "Trans.idx " + paren(c.expr(x.X)) + " " + paren(c.expr(x.Index))
			}
			if isNamed(sl.Elem(), quartzPath, "cronField") {
				return "Trans.idxD " + paren(c.expr(x.X)) + " " + paren(c.expr(x.Index))
			}
		}
		fail("index into %s", tv.Type)
	case *ast.CallExpr:
		return c.call(x)
	}
	fail("expression %T at %s", e, c.t.posOf(e))
	return ""
}

// exprAs: e in a position of Go type ty (nil and error values need the type)
func (c *fctx) exprAs(e ast.Expr, ty types.Type) string {
	if id, ok := unparen(e).(*ast.Ident); ok {
		if _, isNil := c.info.Uses[id].(*types.Nil); isNil {
			if isErrorType(ty) {
				return "none"
			}
			if _, ok := ty.Underlying().(*types.Slice); ok {
				return "([] : " + c.t.leanType(ty) + ")"
			}
			fail("nil of type %s", ty)
		}
	}
	if isErrorType(ty) {
		return c.errExpr(e)
	}
	return c.expr(e)
}

// idiom "errors": an error value is nil, a package-level sentinel `ErrX`, `newCronParseError("literal")`, or a local variable
func (c *fctx) errExpr(e ast.Expr) string {
	switch x := unparen(e).(type) {
	case *ast.Ident:
		if v, ok := c.info.Uses[x].(*types.Var); ok && isErrorType(v.Type()) {
			if v.Parent() == c.t.qz.pkg.Scope() {
				c.t.errVals[x.Name] = true
				return "some " + leanString(x.Name)
			}
			return leanIdent(x.Name)
		}
	case *ast.CallExpr:
		if id, ok := x.Fun.(*ast.Ident); ok && len(x.Args) == 1 {
			if fn, ok := c.info.Uses[id].(*types.Func); ok && fn.Pkg() == c.t.qz.pkg {
				sig := fn.Type().(*types.Signature)
				if sig.Results().Len() == 1 && isErrorType(sig.Results().At(0).Type()) {
					if tv := c.info.Types[x.Args[0]]; tv.Value != nil && tv.Value.Kind() == constant.String {
						c.t.errVals[id.Name+"(…)"] = true
						return "some " + leanString(id.Name+": "+constant.StringVal(tv.Value))
					}
				}
			}
		}
	}
	fail("error value %s at %s (idiom.errors)", c.t.srcText(e), c.t.posOf(e))
	return ""
}

var wallAccessors = map[string]bool{"Year": true, "Month": true, "Day": true, "Hour": true, "Minute": true, "Second": true}

func (c *fctx) implicitArgs(f *fnInfo) string {
	s := ""
	if f.usesT {
		c.f.usesT = true
		s += " T"
	}
	if f.usesK {
		c.f.usesK = true
		s += " K"
	}
	if f.usesL {
		c.f.usesL = true
		s += " L"
	}
	return s
}

// callText: a call of a listed function, without the bind
func (c *fctx) callText(cf *fnInfo, call *ast.CallExpr) string {
	sig := cf.obj.Type().(*types.Signature)
	s := cf.lean + c.implicitArgs(cf)
	if cf.recv != nil {
		s += " " + paren(c.expr(call.Fun.(*ast.SelectorExpr).X))
	}
	if sig.Variadic() || len(call.Args) != sig.Params().Len() {
		fail("call of %s with %d arguments", cf.goName, len(call.Args))
	}
	for i, a := range call.Args {
		s += " " + paren(c.exprAs(a, sig.Params().At(i).Type()))
	}
	if cf.fuel {
		s += " fuel"
	}
	return s
}

func (c *fctx) call(call *ast.CallExpr) string {
	info := c.info
	// conversions between integer types: identity (no overflow is modelled)
	if tv, ok := info.Types[call.Fun]; ok && tv.IsType() && len(call.Args) == 1 {
		to, ok1 := tv.Type.Underlying().(*types.Basic)
		from, ok2 := info.Types[call.Args[0]].Type.Underlying().(*types.Basic)
		if ok1 && ok2 && to.Info()&types.IsInteger != 0 && from.Info()&types.IsInteger != 0 {
			return c.expr(call.Args[0])
		}
		fail("conversion %s at %s", c.t.srcText(call), c.t.posOf(call))
	}
	if c.needsBind(call) {
		fail("call %s needs fuel and must stand alone on the right-hand side of an assignment (at %s)", c.t.srcText(call.Fun), c.t.posOf(call))
	}
	if cf := c.callee(call); cf != nil {
		if cf.err != nil {
			fail("calls %s, which is not translated", cf.goName)
		}
		if cf.mut {
			fail("call of receiver-mutating %s inside an expression", cf.goName)
		}
		return c.callText(cf, call)
	}
	switch fn := call.Fun.(type) {
	case *ast.Ident:
		if b, ok := info.Uses[fn].(*types.Builtin); ok {
			switch b.Name() {
			case "len":
				if _, ok := info.Types[call.Args[0]].Type.Underlying().(*types.Slice); ok {
					return "(" + paren(c.expr(call.Args[0])) + ".length : Int)"
				}
			case "make":
				if sl, ok := info.Types[call.Args[0]].Type.Underlying().(*types.Slice); ok && len(call.Args) == 2 {
					if bt, ok := sl.Elem().Underlying().(*types.Basic); ok && bt.Info()&types.IsInteger != 0 {
						return "List.replicate " + paren(c.expr(call.Args[1])) + ".toNat (0 : Int)"
					}
				}
			}
			fail("builtin %s at %s", c.t.srcText(call), c.t.posOf(call))
		}
		if fo, ok := info.Uses[fn].(*types.Func); ok && fo.Pkg() == c.t.qz.pkg && fn.Name == "newCSMFromFields" && len(call.Args) == 2 {
			if !strings.HasPrefix(c.t.idioms["idiom.csmCall"], "ok") {
				fail("newCSMFromFields: idiom.csmCall failed")
			}
			tm := paren(c.expr(call.Args[0]))
			c.f.usesK, c.f.usesL = true, true
			s := "Trans.newCSMFromFields"
			for _, a := range []string{"Year", "Month", "Day", "Hour", "Minute", "Second"} {
				s += " (Time." + a + " K L " + tm + ")"
			}
			return s + " " + paren(c.expr(call.Args[1]))
		}
		if isErrorType(info.Types[call].Type) {
			return c.errExpr(call)
		}
	case *ast.SelectorExpr:
		// package time
		if isPkgMember(info, fn, "time", "Date") && len(call.Args) == 8 {
			if v, ok := constInt(info, call.Args[6]); !ok || v != 0 {
				fail("time.Date with a nanosecond argument other than 0 at %s", c.t.posOf(call))
			}
			if !c.isLocExpr(call.Args[7]) {
				fail("time.Date in a location other than the receiver's at %s", c.t.posOf(call))
			}
			c.f.usesK, c.f.usesL = true, true
			c.t.timeOps["time.Date(…, 0, ct.location)"] = true
			s := "Time.date K L"
			for _, a := range call.Args[:6] {
				s += " " + paren(c.expr(a))
			}
			return s
		}
		if s := info.Selections[fn]; s != nil && s.Kind() == types.MethodVal && isTimeTime(s.Recv()) {
			name := fn.Sel.Name
			switch {
			case name == "In" && len(call.Args) == 1:
				inner, ok := unparen(fn.X).(*ast.CallExpr)
				if !ok || !isPkgMember(info, inner.Fun, "time", "Unix") || len(inner.Args) != 2 {
					fail("Time.In on something other than time.Unix(sec, 0) at %s", c.t.posOf(call))
				}
				if v, ok := constInt(info, inner.Args[1]); !ok || v != 0 {
					fail("time.Unix with a nanosecond argument other than 0 at %s", c.t.posOf(call))
				}
				if !c.isLocExpr(call.Args[0]) {
					fail("Time.In with a location other than the receiver's at %s", c.t.posOf(call))
				}
				c.t.timeOps["time.Unix(sec, 0).In(ct.location)"] = true
				return "Time.unixIn " + paren(c.expr(inner.Args[0]))
			case (name == "Unix" || name == "UnixNano") && len(call.Args) == 0:
				c.t.timeOps["Time."+name] = true
				return "Time." + name + " " + paren(c.expr(fn.X))
			case name == "After" && len(call.Args) == 1:
				c.t.timeOps["Time.After"] = true
				return "Time.After " + paren(c.expr(fn.X)) + " " + paren(c.expr(call.Args[0]))
			case wallAccessors[name] && len(call.Args) == 0:
				c.f.usesK, c.f.usesL = true, true
				c.t.timeOps["Time."+name] = true
				return "Time." + name + " K L " + paren(c.expr(fn.X))
			}
			fail("time.Time method %s at %s (idiom.time)", name, c.t.posOf(call))
		}
	}
	fail("call %s at %s", c.t.srcText(call.Fun), c.t.posOf(call))
	return ""
}

// ---------------------------------------------------------------- statements

func (c *fctx) block(list []ast.Stmt, k func() string) string {
	if len(list) == 0 {
		return k()
	}
	rest := func() string { return c.block(list[1:], k) }
	switch s := list[0].(type) {
	case *ast.ReturnStmt:
		return c.ret(s)
	case *ast.AssignStmt:
		return c.assign(s, rest)
	case *ast.IncDecStmt:
		op := " + 1"
		if s.Tok == token.DEC {
			op = " - 1"
		}
		return c.store(s.X, paren(c.expr(s.X))+op) + "\n" + rest()
	case *ast.IfStmt:
		return c.ifStmt(s, rest)
	case *ast.ForStmt:
		if s.Cond == nil && len(list) > 1 {
			fail("statements after a `for {}` loop at %s", c.t.posOf(list[1]))
		}
		return c.forLoop(s, rest)
	case *ast.RangeStmt:
		return c.rangeLoop(s, rest)
	case *ast.ExprStmt:
		fail("expression statement %s at %s", c.t.srcText(s), c.t.posOf(s))
	}
	fail("statement %T at %s", list[0], c.t.posOf(list[0]))
	return ""
}

func (c *fctx) ret(s *ast.ReturnStmt) string {
	res := c.sig.Results()
	if len(s.Results) != res.Len() {
		fail("return with %d values for %d results at %s", len(s.Results), res.Len(), c.t.posOf(s))
	}
	var vals []string
	for i, e := range s.Results {
		vals = append(vals, c.exprAs(e, res.At(i).Type()))
	}
	return c.retText(vals)
}

// store: `lhs = val` as a `let`
func (c *fctx) store(lhs ast.Expr, val string) string {
	switch x := unparen(lhs).(type) {
	case *ast.Ident:
		if x.Name == "_" {
			return "let _ := " + val
		}
		obj := c.info.Uses[x]
		if obj == nil {
			obj = c.info.Defs[x]
		}
		if v, ok := obj.(*types.Var); !ok || v.Parent() == c.t.qz.pkg.Scope() {
			fail("assignment to %s at %s", x.Name, c.t.posOf(x))
		}
		return "let " + leanIdent(x.Name) + " := " + val
	case *ast.IndexExpr:
		if sl, ok := c.info.Types[x.X].Type.Underlying().(*types.Slice); ok {
			if bt, ok := sl.Elem().Underlying().(*types.Basic); ok && bt.Info()&types.IsInteger != 0 {
				return c.store(x.X, "setIdx "+paren(c.expr(x.X))+" "+paren(c.expr(x.Index))+" "+paren(val))
			}
		}
	case *ast.SelectorExpr:
		if s := c.info.Selections[x]; s != nil && s.Kind() == types.FieldVal {
			if _, ok := c.t.tryLeanType(s.Type()); ok {
				base := paren(c.expr(x.X))
				return c.store(x.X, "{ "+base+" with "+leanIdent(x.Sel.Name)+" := "+val+" }")
			}
		}
	}
	fail("assignment target %s at %s", c.t.srcText(lhs), c.t.posOf(lhs))
	return ""
}

func (c *fctx) assign(s *ast.AssignStmt, rest func() string) string {
	info := c.info
	// op-assign
	if s.Tok != token.ASSIGN && s.Tok != token.DEFINE {
		var op token.Token
		switch s.Tok {
		case token.ADD_ASSIGN:
			op = token.ADD
		case token.SUB_ASSIGN:
			op = token.SUB
		case token.MUL_ASSIGN:
			op = token.MUL
		default:
			fail("assignment operator %s at %s", s.Tok, c.t.posOf(s))
		}
		if len(s.Lhs) != 1 || len(s.Rhs) != 1 {
			fail("assignment at %s", c.t.posOf(s))
		}
		return c.store(s.Lhs[0], paren(c.expr(s.Lhs[0]))+" "+op.String()+" "+paren(c.expr(s.Rhs[0]))) + "\n" + rest()
	}
	lhsType := func(e ast.Expr) types.Type {
		if id, ok := e.(*ast.Ident); ok {
			if id.Name == "_" {
				return nil
			}
			if o := info.Defs[id]; o != nil {
				return o.Type()
			}
			if o := info.Uses[id]; o != nil {
				return o.Type()
			}
		}
		return info.Types[e].Type
	}
	if len(s.Rhs) == 1 && len(s.Lhs) >= 1 {
		if call, ok := unparen(s.Rhs[0]).(*ast.CallExpr); ok {
			// _, off := t.Zone()
			if se, ok := call.Fun.(*ast.SelectorExpr); ok && se.Sel.Name == "Zone" && len(s.Lhs) == 2 {
				if sel := info.Selections[se]; sel != nil && isTimeTime(sel.Recv()) {
					if id, ok := s.Lhs[0].(*ast.Ident); !ok || id.Name != "_" {
						fail("the zone name is used at %s (idiom.time)", c.t.posOf(s))
					}
					c.f.usesL = true
					c.t.timeOps["_, off := Time.Zone()"] = true
					return c.store(s.Lhs[1], "Time.zoneOffset L "+paren(c.expr(se.X))) + "\n" + rest()
				}
			}
			// t, ok := csm.NextTriggerTime(time.UTC)
			if c.isCsmNext(call) {
				if !strings.HasPrefix(c.t.idioms["idiom.csmCall"], "ok") {
					fail("NextTriggerTime: idiom.csmCall failed")
				}
				if len(s.Lhs) != 2 || len(call.Args) != 1 || !isPkgMember(info, call.Args[0], "time", "UTC") {
					fail("NextTriggerTime not called as `t, ok := csm.NextTriggerTime(time.UTC)` at %s", c.t.posOf(s))
				}
				recvX := call.Fun.(*ast.SelectorExpr).X
				if _, ok := unparen(recvX).(*ast.Ident); !ok {
					fail("NextTriggerTime on something other than a local variable at %s", c.t.posOf(s))
				}
				c.f.usesT, c.f.usesK = true, true
				c.t.timeOps["csm.NextTriggerTime(time.UTC)"] = true
				r := c.fresh()
				body := c.store(recvX, r+".1") + "\n" +
					c.store(s.Lhs[0], "Time.ofWallUTC K "+r+".2.1") + "\n" +
					c.store(s.Lhs[1], r+".2.2") + "\n" + rest()
				return "(Trans.CronStateMachine.NextTriggerTime T " + paren(c.expr(recvX)) + " fuel).bind fun " + r + " =>\n" + body
			}
			// listed function
			if cf := c.callee(call); cf != nil {
				if cf.err != nil {
					fail("calls %s, which is not translated", cf.goName)
				}
				if cf.mut {
					fail("call of receiver-mutating %s at %s", cf.goName, c.t.posOf(s))
				}
				nres := cf.obj.Type().(*types.Signature).Results().Len()
				if nres != len(s.Lhs) {
					fail("assignment of %d results to %d variables at %s", nres, len(s.Lhs), c.t.posOf(s))
				}
				if nres >= 2 || cf.fuel {
					r := c.fresh()
					var lines []string
					for i, l := range s.Lhs {
						p := r
						if nres > 1 {
							p = proj(r, i, nres)
						}
						lines = append(lines, c.store(l, p))
					}
					body := strings.Join(lines, "\n") + "\n" + rest()
					if cf.fuel {
						return "(" + c.callText(cf, call) + ").bind fun " + r + " =>\n" + body
					}
					return "let " + r + " := " + c.callText(cf, call) + "\n" + body
				}
			}
		}
	}
	if len(s.Lhs) != len(s.Rhs) {
		fail("assignment of %d values to %d targets at %s", len(s.Rhs), len(s.Lhs), c.t.posOf(s))
	}
	if len(s.Lhs) == 1 {
		ty := lhsType(s.Lhs[0])
		var v string
		if ty != nil {
			v = c.exprAs(s.Rhs[0], ty)
		} else {
			v = c.expr(s.Rhs[0])
		}
		return c.store(s.Lhs[0], v) + "\n" + rest()
	}
	// parallel assignment: sequential `let`s when no target occurs in a later right-hand side, else through temporaries
	names := map[string]int{}
	for i, l := range s.Lhs {
		id, ok := l.(*ast.Ident)
		if !ok {
			fail("parallel assignment to %s at %s", c.t.srcText(l), c.t.posOf(s))
		}
		names[id.Name] = i
	}
	clash := false
	for j, r := range s.Rhs {
		ast.Inspect(r, func(m ast.Node) bool {
			if id, ok := m.(*ast.Ident); ok {
				if i, ok := names[id.Name]; ok && i < j {
					clash = true
				}
			}
			return true
		})
	}
	var vals []string
	for i, r := range s.Rhs {
		if ty := lhsType(s.Lhs[i]); ty != nil {
			vals = append(vals, c.exprAs(r, ty))
		} else {
			vals = append(vals, c.expr(r))
		}
	}
	var lines []string
	if clash {
		tmp := make([]string, len(vals))
		for i, v := range vals {
			tmp[i] = c.fresh()
			lines = append(lines, "let "+tmp[i]+" := "+v)
		}
		vals = tmp
	}
	for i, l := range s.Lhs {
		lines = append(lines, c.store(l, vals[i]))
	}
	return strings.Join(lines, "\n") + "\n" + rest()
}

func proj(r string, i, n int) string {
	// right-nested pairs
	s := r
	for k := 0; k < i; k++ {
		s += ".2"
	}
	if i < n-1 {
		s += ".1"
	}
	return s
}

func tupleOf(names []string) string {
	switch len(names) {
	case 0:
		return "()"
	case 1:
		return names[0]
	}
	return "(" + strings.Join(names, ", ") + ")"
}

func (c *fctx) tupleType(vs []*types.Var) string {
	if len(vs) == 0 {
		return "Unit"
	}
	var parts []string
	for _, v := range vs {
		p := c.t.leanType(v.Type())
		if len(vs) > 1 && strings.Contains(p, "×") {
			p = "(" + p + ")"
		}
		parts = append(parts, p)
	}
	return strings.Join(parts, " × ")
}

func varNames(vs []*types.Var) []string {
	var out []string
	for _, v := range vs {
		out = append(out, leanIdent(v.Name()))
	}
	return out
}

func (c *fctx) ifStmt(s *ast.IfStmt, rest func() string) string {
	if s.Init != nil {
		fail("if with an init statement at %s", c.t.posOf(s))
	}
	cond := c.expr(s.Cond)
	var elseList []ast.Stmt
	switch e := s.Else.(type) {
	case nil:
	case *ast.BlockStmt:
		elseList = e.List
	case *ast.IfStmt:
		elseList = []ast.Stmt{e}
	}
	nodes := []ast.Node{s.Body}
	if s.Else != nil {
		nodes = append(nodes, s.Else)
	}
	exits := hasReturn(s.Body) || hasBranch(s.Body) || (s.Else != nil && (hasReturn(s.Else) || hasBranch(s.Else)))
	if exits || c.hasBind(s.Body) || (s.Else != nil && c.hasBind(s.Else)) {
		// the continuation goes into both branches (a branch that ends in `return` never reaches it)
		return "if " + cond + " then\n" + ind(c.block(s.Body.List, rest)) + "\nelse\n" + ind(c.block(elseList, rest))
	}
	mut := c.mutated(nodes, s.Pos(), s.End())
	if len(mut) == 0 {
		return rest() // no effect
	}
	tup := tupleOf(varNames(mut))
	a := c.block(s.Body.List, func() string { return tup })
	b := c.block(elseList, func() string { return tup })
	head := "let " + tup + " := "
	return head + "if " + cond + " then\n" + ind(ind(a)) + "\n  else\n" + ind(ind(b)) + "\n" + rest()
}

// ---------------------------------------------------------------- loops

func (c *fctx) loopName() string {
	c.loops++
	return fmt.Sprintf("%s.loop%d", c.f.lean, c.loops)
}

func (c *fctx) paramDecls(vs []*types.Var) string {
	s := ""
	for _, v := range vs {
		s += " (" + leanIdent(v.Name()) + " : " + c.t.leanType(v.Type()) + ")"
	}
	return s
}

func without(vs []*types.Var, drop []*types.Var) []*types.Var {
	var out []*types.Var
	for _, v := range vs {
		keep := true
		for _, d := range drop {
			if d == v {
				keep = false
			}
		}
		if keep {
			out = append(out, v)
		}
	}
	return out
}

func spaced(xs []string) string {
	s := ""
	for _, x := range xs {
		s += " " + x
	}
	return s
}

// for init; cond; post { body }   and   for { body }   — no syntactic bound: fuel
func (c *fctx) forLoop(s *ast.ForStmt, rest func() string) string {
	if hasBranch(s.Body) {
		fail("break/continue/goto in the loop at %s", c.t.posOf(s))
	}
	// loop-scoped variables and their initial values
	var initVars []*types.Var
	var initVals []string
	if s.Init != nil {
		as, ok := s.Init.(*ast.AssignStmt)
		if !ok || as.Tok != token.DEFINE || len(as.Lhs) != len(as.Rhs) {
			fail("loop init %s at %s", c.t.srcText(s.Init), c.t.posOf(s))
		}
		for i, l := range as.Lhs {
			id := l.(*ast.Ident)
			v, ok := c.info.Defs[id].(*types.Var)
			if !ok {
				fail("loop init redeclares %s at %s", id.Name, c.t.posOf(s))
			}
			initVars = append(initVars, v)
			initVals = append(initVals, paren(c.exprAs(as.Rhs[i], v.Type())))
		}
	}
	nodes := []ast.Node{s.Body}
	if s.Cond != nil {
		nodes = append(nodes, s.Cond)
	}
	if s.Post != nil {
		nodes = append(nodes, s.Post)
	}
	outer := c.mutated(nodes, s.Pos(), s.End())
	carried := append(append([]*types.Var{}, initVars...), outer...)
	free := without(c.freeVars(nodes, s.Pos(), s.End()), carried)
	innerFuel := false
	for _, n := range []ast.Node{s.Body} {
		ast.Inspect(n, func(m ast.Node) bool {
			if call, ok := m.(*ast.CallExpr); ok && c.needsBind(call) {
				innerFuel = true
			}
			if inner, ok := m.(*ast.ForStmt); ok && inner != s {
				innerFuel = true
			}
			return true
		})
	}
	name := c.loopName()
	fuelDecl, fuelArg := "", ""
	if innerFuel {
		fuelDecl, fuelArg = " (fuel : Nat)", " fuel"
	}
	freeArgs := spaced(varNames(free))
	recurse := func() string { return name + phArgs + freeArgs + fuelArg + " cnt" + spaced(varNames(carried)) }
	post := func() string {
		if s.Post == nil {
			return recurse()
		}
		return c.block([]ast.Stmt{s.Post}, recurse)
	}
	var sigTypes []string
	for _, v := range carried {
		sigTypes = append(sigTypes, c.t.leanType(v.Type())+" → ")
	}
	zeroPat := "| 0"
	for range carried {
		zeroPat += ", _"
	}
	succPat := "| cnt+1"
	for _, n := range varNames(carried) {
		succPat += ", " + n
	}
	if s.Cond == nil {
		// the only way out is `return`: the loop yields the function's result
		if !hasReturn(s.Body) {
			fail("`for {}` without return at %s", c.t.posOf(s))
		}
		body := c.block(s.Body.List, post)
		def := fmt.Sprintf("/-- Go: %s `for` loop (no syntactic bound: `none` = out of fuel) -/\ndef %s%s%s%s : Nat → %s%s\n  %s => none\n  %s =>\n%s\n",
			c.t.posOf(s), name, phParams, c.paramDecls(free), fuelDecl, strings.Join(sigTypes, ""), c.retType(), zeroPat, succPat, ind(ind(body)))
		c.aux = append(c.aux, def)
		return name + phArgs + freeArgs + fuelArg + " fuel" + spaced(initVals) + spaced(varNames(outer))
	}
	if hasReturn(s.Body) {
		fail("return inside a conditional loop at %s", c.t.posOf(s))
	}
	cond := c.expr(s.Cond)
	body := c.block(s.Body.List, post)
	done := "some " + paren(tupleOf(varNames(outer)))
	resT := "Option " + paren(c.tupleType(outer))
	def := fmt.Sprintf("/-- Go: %s `for %s` loop (no syntactic bound: `none` = out of fuel) -/\ndef %s%s%s%s : Nat → %s%s\n  %s => none\n  %s =>\n    if %s then\n%s\n    else\n      %s\n",
		c.t.posOf(s), c.t.srcText(forHeader{s}), name, phParams, c.paramDecls(free), fuelDecl, strings.Join(sigTypes, ""), resT, zeroPat, succPat, cond, ind(ind(ind(body))), done)
	c.aux = append(c.aux, def)
	callTxt := name + phArgs + freeArgs + fuelArg + " fuel" + spaced(initVals) + spaced(varNames(outer))
	r := c.fresh()
	var lines []string
	for i, v := range outer {
		p := r
		if len(outer) > 1 {
			p = proj(r, i, len(outer))
		}
		lines = append(lines, "let "+leanIdent(v.Name())+" := "+p)
	}
	if len(outer) == 0 {
		r = "_"
	}
	return "(" + callTxt + ").bind fun " + r + " =>\n" + strings.Join(append(lines, rest()), "\n")
}

// the text `init; cond; post` of a for statement
type forHeader struct{ s *ast.ForStmt }

func (h forHeader) Pos() token.Pos {
	if h.s.Init != nil {
		return h.s.Init.Pos()
	}
	return h.s.Cond.Pos()
}
func (h forHeader) End() token.Pos {
	if h.s.Post != nil {
		return h.s.Post.End()
	}
	return h.s.Cond.End()
}

// for i := range xs { body }  — bounded: recursion over the index list
func (c *fctx) rangeLoop(s *ast.RangeStmt, rest func() string) string {
	if s.Tok != token.DEFINE || s.Key == nil || s.Value != nil {
		fail("range loop other than `for i := range xs` at %s", c.t.posOf(s))
	}
	if _, ok := c.info.Types[s.X].Type.Underlying().(*types.Slice); !ok {
		fail("range over %s at %s", c.info.Types[s.X].Type, c.t.posOf(s))
	}
	if hasReturn(s.Body) || hasBranch(s.Body) || c.hasBind(s.Body) {
		fail("return/break/fuel inside the range loop at %s", c.t.posOf(s))
	}
	key := s.Key.(*ast.Ident)
	keyVar, _ := c.info.Defs[key].(*types.Var)
	nodes := []ast.Node{s.Body}
	outer := c.mutated(nodes, s.Pos(), s.End())
	free := without(c.freeVars(nodes, s.Pos(), s.End()), outer)
	if keyVar != nil {
		free = without(free, []*types.Var{keyVar})
	}
	name := c.loopName()
	freeArgs := spaced(varNames(free))
	names := varNames(outer)
	recurse := func() string { return name + phArgs + freeArgs + spaced(names) + " rest'" }
	body := c.block(s.Body.List, recurse)
	var sigTypes []string
	for _, v := range outer {
		sigTypes = append(sigTypes, c.t.leanType(v.Type())+" → ")
	}
	pat := strings.Join(names, ", ")
	if pat != "" {
		pat += ", "
	}
	def := fmt.Sprintf("/-- Go: %s `for %s := range %s` (the length is read once, before the first iteration) -/\ndef %s%s%s : %sList Int → %s\n  | %s[] => %s\n  | %s%s :: rest' =>\n%s\n",
		c.t.posOf(s), key.Name, c.t.srcText(s.X), name, phParams, c.paramDecls(free), strings.Join(sigTypes, ""), c.tupleType(outer),
		pat, tupleOf(names), pat, leanIdent(key.Name), ind(ind(body)))
	c.aux = append(c.aux, def)
	callTxt := name + phArgs + freeArgs + spaced(names) + " (idxRange " + paren(c.expr(s.X)) + ".length)"
	if len(outer) == 0 {
		return rest()
	}
	return "let " + tupleOf(names) + " := " + callTxt + "\n" + rest()
}
