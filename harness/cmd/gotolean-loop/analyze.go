package main

import (
	"fmt"
	"go/ast"
	"go/constant"
	"go/token"
	"go/types"
	"path/filepath"
	"sort"
	"strings"
)

type unsupported struct{ msg string }

func (u unsupported) Error() string { return u.msg }

func fail(format string, a ...any) { panic(unsupported{fmt.Sprintf(format, a...)}) }

type fnKind int

const (
	kindPure  fnKind = iota // plain function of its arguments
	kindMut                 // pointer receiver whose fields are assigned: returns (receiver × result)
	kindSched               // method of *StdScheduler: state-passing over LSt Q H, reading `inp : Inputs`
)

func (k fnKind) String() string {
	return [...]string{"pure", "mutatesReceiver", "statePassing"}[k]
}

type fnInfo struct {
	goName string // "Recv.Name" or "Name"
	recv   string
	name   string
	lean   string
	decl   *ast.FuncDecl
	kind   fnKind
	pos    string
	err    error
	text   string
	arith  []string
}

// closure literals of one enclosing function (defunctionalised)
type closureInfo struct {
	lit      *ast.FuncLit
	ctor     string
	captured []*types.Var
	pos      string
}

type translator struct {
	fset        *token.FileSet
	qz          *pkgInfo
	info        *types.Info
	repo        string
	sourceFiles []string
	missing     []string
	idioms      map[string]string

	structs    map[string]*ast.TypeSpec
	ifaces     map[string]*ast.TypeSpec
	funcs      map[string]*ast.FuncDecl
	order      []*fnInfo
	byName     map[string]*fnInfo
	needStruct []string          // structures to emit, in dependency order
	seenStruct map[string]bool   //
	getters    map[string]string // "scheduledJob.JobDetail" -> field name
	sentinels  []sentinel
	sentinelOK map[string]bool

	sites     []*site            // input sites (clock readings, select outcomes, timer.Stop results), in order of discovery
	siteOf    map[ast.Node]*site //
	selects   []*selectInfo      // blocking selects, one generated inductive each
	timerVar  types.Object       // the loop's *time.Timer variable
	siteCount map[string]int
}

// an input of one loop iteration: something the environment decides at one place of the source
type site struct {
	field, leanType, pos, doc, fn string
}

type selectInfo struct {
	lean  string
	pos   string
	ctors []string
	docs  []string
}

type sentinel struct {
	name, text, pos string
}

// the functions to translate, in emission order
var fnList = []string{
	"StdScheduler.Reset",
	"StdScheduler.calculateNextTick",
	"StdScheduler.executeAndReschedule",
	"StdScheduler.startExecutionLoop",
}

// functions of Generated.TransSched (output of gotolean-sched) that the loop calls: not translated again
var importedFns = []string{"fetchAndReschedule"}

const (
	schedRecv     = "StdScheduler"
	loopFn        = "startExecutionLoop"
	sjIface       = "ScheduledJob"
	sjStruct      = "scheduledJob"
	queueIface    = "JobQueue"
	triggerIface  = "Trigger"
	jobIface      = "Job"
	matcherIface  = "Matcher"
	stateVar      = "σ"
	envVar        = "env"
	inpVar        = "inp"
	queueExtVar   = "JQ"
	triggerExtVar = "TR"
)

func newTranslator(fset *token.FileSet, qz *pkgInfo, repo string) *translator {
	return &translator{fset: fset, qz: qz, info: qz.info, repo: repo, idioms: map[string]string{},
		structs: map[string]*ast.TypeSpec{}, ifaces: map[string]*ast.TypeSpec{}, funcs: map[string]*ast.FuncDecl{},
		byName: map[string]*fnInfo{}, siteOf: map[ast.Node]*site{}, siteCount: map[string]int{}, seenStruct: map[string]bool{}, getters: map[string]string{}, sentinelOK: map[string]bool{}}
}

func (t *translator) miss(s string) {
	for _, m := range t.missing {
		if m == s {
			return
		}
	}
	t.missing = append(t.missing, s)
}

func (t *translator) posOf(n ast.Node) string {
	p := t.fset.Position(n.Pos())
	rel, err := filepath.Rel(t.repo, p.Filename)
	if err != nil {
		rel = p.Filename
	}
	return fmt.Sprintf("%s:%d", filepath.ToSlash(rel), p.Line)
}

func unparen(e ast.Expr) ast.Expr {
	for {
		p, ok := e.(*ast.ParenExpr)
		if !ok {
			return e
		}
		e = p.X
	}
}

func namedOf(t types.Type) *types.Named {
	if t == nil {
		return nil
	}
	if p, ok := t.(*types.Pointer); ok {
		t = p.Elem()
	}
	n, _ := t.(*types.Named)
	return n
}

func recvName(fd *ast.FuncDecl) string {
	if fd.Recv == nil || len(fd.Recv.List) == 0 {
		return ""
	}
	e := fd.Recv.List[0].Type
	if s, ok := e.(*ast.StarExpr); ok {
		e = s.X
	}
	if id, ok := e.(*ast.Ident); ok {
		return id.Name
	}
	return "?"
}

func (t *translator) collect() {
	for _, f := range t.qz.files {
		rel, _ := filepath.Rel(t.repo, t.fset.Position(f.Pos()).Filename)
		base := filepath.Base(rel)
		switch base {
		case "scheduler.go", "trigger.go", "queue.go", "job_detail.go", "job_key.go", "error.go", "util.go", "matcher.go":
			t.sourceFiles = append(t.sourceFiles, filepath.ToSlash(rel))
		}
		for _, d := range f.Decls {
			switch d := d.(type) {
			case *ast.FuncDecl:
				key := d.Name.Name
				if r := recvName(d); r != "" {
					key = r + "." + key
				}
				t.funcs[key] = d
			case *ast.GenDecl:
				for _, sp := range d.Specs {
					if ts, ok := sp.(*ast.TypeSpec); ok {
						switch ts.Type.(type) {
						case *ast.StructType:
							t.structs[ts.Name.Name] = ts
						case *ast.InterfaceType:
							t.ifaces[ts.Name.Name] = ts
						}
					}
				}
			}
		}
	}
	sort.Strings(t.sourceFiles)
	for _, name := range fnList {
		fd := t.funcs[name]
		if fd == nil || fd.Body == nil {
			t.miss("function " + name + ": not found")
			continue
		}
		fi := &fnInfo{goName: name, decl: fd, pos: t.posOf(fd), recv: recvName(fd), name: fd.Name.Name}
		switch {
		case fi.recv == schedRecv:
			fi.kind = kindSched
			fi.lean = fi.name
		case fi.recv != "":
			fi.lean = fi.recv + "." + fi.name
			if t.assignsReceiver(fd) {
				fi.kind = kindMut
			}
		default:
			fi.lean = fi.name
		}
		t.order = append(t.order, fi)
		t.byName[name] = fi
	}
}

// assignsReceiver: does the method assign a field of its receiver?
func (t *translator) assignsReceiver(fd *ast.FuncDecl) bool {
	if fd.Recv == nil || len(fd.Recv.List[0].Names) == 0 {
		return false
	}
	robj := t.info.Defs[fd.Recv.List[0].Names[0]]
	found := false
	ast.Inspect(fd.Body, func(n ast.Node) bool {
		if as, ok := n.(*ast.AssignStmt); ok {
			for _, l := range as.Lhs {
				if id := rootIdent(l); id != nil && t.info.Uses[id] == robj {
					if _, isIdent := unparen(l).(*ast.Ident); !isIdent {
						found = true
					}
				}
			}
		}
		if ids, ok := n.(*ast.IncDecStmt); ok {
			if id := rootIdent(ids.X); id != nil && t.info.Uses[id] == robj {
				found = true
			}
		}
		return true
	})
	return found
}

func rootIdent(e ast.Expr) *ast.Ident {
	for {
		switch x := unparen(e).(type) {
		case *ast.Ident:
			return x
		case *ast.SelectorExpr:
			e = x.X
		case *ast.CallExpr:
			e = x.Fun
		case *ast.StarExpr:
			e = x.X
		case *ast.IndexExpr:
			e = x.X
		default:
			return nil
		}
	}
}

func (t *translator) goSig(fd *ast.FuncDecl) string {
	p := t.fset.Position(fd.Pos())
	e := t.fset.Position(fd.Body.Lbrace)
	src, err := readFile(p.Filename)
	if err != nil || e.Offset > len(src) {
		return fd.Name.Name
	}
	return strings.Join(strings.Fields(string(src[p.Offset:e.Offset])), " ")
}

func (t *translator) report(name string, ok bool, why []string, okText string) {
	if ok {
		t.idioms[name] = "ok: " + okText
		return
	}
	t.idioms[name] = "FAILED: " + strings.Join(why, "; ")
	t.miss("idiom " + name + ": " + strings.Join(why, "; "))
}

func isNilIdent(e ast.Expr) bool {
	id, ok := unparen(e).(*ast.Ident)
	return ok && id.Name == "nil"
}

// selPath renders a selector chain a.b.c ("" when it is not a plain chain)
func selPath(e ast.Expr) string {
	switch x := unparen(e).(type) {
	case *ast.Ident:
		return x.Name
	case *ast.SelectorExpr:
		p := selPath(x.X)
		if p == "" {
			return ""
		}
		return p + "." + x.Sel.Name
	}
	return ""
}

// callPath: the selector path of the callee of a call ("" if none)
func callPath(e ast.Expr) string {
	c, ok := unparen(e).(*ast.CallExpr)
	if !ok {
		return ""
	}
	return selPath(c.Fun)
}

func (t *translator) recvIdent(fd *ast.FuncDecl) string {
	if fd.Recv == nil || len(fd.Recv.List[0].Names) == 0 {
		return ""
	}
	return fd.Recv.List[0].Names[0].Name
}

// ---------------------------------------------------------------------------------------------
// idiom checks
// ---------------------------------------------------------------------------------------------

func (t *translator) checkIdioms() {
	t.checkSentinels()
	t.checkDevirt()
	t.checkClock()
	t.checkReset()
	t.checkLoop()
	t.checkOnce()
}

// package-level `ErrX = errors.New("text")`
func (t *translator) checkSentinels() {
	var why []string
	for _, f := range t.qz.files {
		for _, d := range f.Decls {
			gd, ok := d.(*ast.GenDecl)
			if !ok || gd.Tok != token.VAR {
				continue
			}
			for _, sp := range gd.Specs {
				vs := sp.(*ast.ValueSpec)
				for i, id := range vs.Names {
					obj := t.info.Defs[id]
					if obj == nil || obj.Type() == nil || obj.Type().String() != "error" {
						continue
					}
					if len(vs.Values) <= i {
						why = append(why, id.Name+" has no initialiser")
						continue
					}
					call, ok := unparen(vs.Values[i]).(*ast.CallExpr)
					if !ok || selPath(call.Fun) != "errors.New" || len(call.Args) != 1 {
						why = append(why, id.Name+" is not errors.New(literal)")
						continue
					}
					lit, ok := unparen(call.Args[0]).(*ast.BasicLit)
					if !ok || lit.Kind != token.STRING {
						why = append(why, id.Name+" is not errors.New(literal)")
						continue
					}
					t.sentinels = append(t.sentinels, sentinel{id.Name, lit.Value, t.posOf(id)})
					t.sentinelOK[id.Name] = true
				}
			}
		}
	}
	// never reassigned
	for _, f := range t.qz.files {
		ast.Inspect(f, func(n ast.Node) bool {
			if as, ok := n.(*ast.AssignStmt); ok && as.Tok == token.ASSIGN {
				for _, l := range as.Lhs {
					if id, ok := unparen(l).(*ast.Ident); ok && t.sentinelOK[id.Name] {
						if v, isVar := t.info.Uses[id].(*types.Var); isVar && v.Parent() == t.qz.pkg.Scope() {
							why = append(why, id.Name+" is reassigned at "+t.posOf(as))
						}
					}
				}
			}
			return true
		})
	}
	t.report("errors", len(why) == 0 && len(t.sentinels) > 0, append(why, ifEmpty(len(t.sentinels) == 0, "no sentinel errors found")...),
		fmt.Sprintf("%d package-level error variables, each `errors.New(literal)` and never reassigned", len(t.sentinels)))
}

func ifEmpty(c bool, s string) []string {
	if c {
		return []string{s}
	}
	return nil
}

// ScheduledJob is implemented by *scheduledJob only; its three methods are getters
func (t *translator) checkDevirt() {
	var why []string
	asserted := false
	for _, f := range t.qz.files {
		for _, d := range f.Decls {
			gd, ok := d.(*ast.GenDecl)
			if !ok || gd.Tok != token.VAR {
				continue
			}
			for _, sp := range gd.Specs {
				vs := sp.(*ast.ValueSpec)
				if len(vs.Names) == 1 && vs.Names[0].Name == "_" && vs.Type != nil && selPath(vs.Type) == sjIface && len(vs.Values) == 1 {
					if c, ok := unparen(vs.Values[0]).(*ast.CallExpr); ok {
						if st, ok := unparen(c.Fun).(*ast.StarExpr); ok && selPath(st.X) == sjStruct {
							asserted = true
						} else {
							why = append(why, "another type is asserted to implement "+sjIface+" at "+t.posOf(vs))
						}
					}
				}
			}
		}
	}
	if !asserted {
		why = append(why, "`var _ "+sjIface+" = (*"+sjStruct+")(nil)` not found")
	}
	it := t.ifaces[sjIface]
	if it == nil {
		why = append(why, "interface "+sjIface+" not found")
	} else {
		var ms []string
		for _, m := range it.Type.(*ast.InterfaceType).Methods.List {
			for _, n := range m.Names {
				ms = append(ms, n.Name)
			}
		}
		if strings.Join(ms, ",") != "JobDetail,Trigger,NextRunTime" {
			why = append(why, sjIface+" methods are "+strings.Join(ms, ","))
		}
		for _, m := range ms {
			for key := range t.funcs {
				if strings.HasSuffix(key, "."+m) && key != sjStruct+"."+m && m == "NextRunTime" {
					why = append(why, "another implementation candidate: "+key)
				}
			}
			fd := t.funcs[sjStruct+"."+m]
			if fd == nil || fd.Body == nil || len(fd.Body.List) != 1 {
				why = append(why, sjStruct+"."+m+" is not a getter")
				continue
			}
			rs, ok := fd.Body.List[0].(*ast.ReturnStmt)
			if !ok || len(rs.Results) != 1 {
				why = append(why, sjStruct+"."+m+" is not a getter")
				continue
			}
			se, ok := unparen(rs.Results[0]).(*ast.SelectorExpr)
			if !ok || selPath(se.X) != t.recvIdent(fd) {
				why = append(why, sjStruct+"."+m+" is not a getter")
				continue
			}
			t.getters[sjStruct+"."+m] = se.Sel.Name
		}
	}
	sort.Strings(why)
	t.report("devirtualisation", len(why) == 0, why, "`var _ "+sjIface+" = (*"+sjStruct+")(nil)` is the only implementation in package quartz; JobDetail/Trigger/NextRunTime are field getters")
}

// NowNano() = time.Now().UnixNano()
func (t *translator) checkClock() {
	var why []string
	if fd := t.funcs["NowNano"]; fd == nil || fd.Body == nil || len(fd.Body.List) != 1 {
		why = append(why, "NowNano not found or not a single return")
	} else if rs, ok := fd.Body.List[0].(*ast.ReturnStmt); !ok || len(rs.Results) != 1 || exprText(rs.Results[0]) != "time.Now().UnixNano()" {
		why = append(why, "NowNano is not `return time.Now().UnixNano()`")
	}
	t.report("clock", len(why) == 0, why, "NowNano is `time.Now().UnixNano()`: a clock reading like `time.Now()` (an input site)")
}

// Reset: select { case sched.interrupt <- struct{}{}: default: }
func (t *translator) checkReset() {
	var why []string
	fd := t.funcs[schedRecv+".Reset"]
	if fd == nil || fd.Body == nil || len(fd.Body.List) != 1 {
		why = append(why, "Reset not found or not a single statement")
	} else if sel, ok := fd.Body.List[0].(*ast.SelectStmt); !ok || !isNonBlockingSend(sel, t.recvIdent(fd)+".interrupt") {
		why = append(why, "Reset is not a non-blocking send on "+t.recvIdent(fd)+".interrupt")
	}
	t.report("reset", len(why) == 0, why, "Reset() is `select { case sched.interrupt <- struct{}{}: default: }` (translated as `Reset`: one `LEvent.trySend` on sched.interrupt)")
}

// select { case <ch> <- v: default: } with empty bodies
func isNonBlockingSend(sel *ast.SelectStmt, ch string) bool {
	if len(sel.Body.List) != 2 {
		return false
	}
	sends, defaults := 0, 0
	for _, cl := range sel.Body.List {
		cc := cl.(*ast.CommClause)
		if len(cc.Body) != 0 {
			return false
		}
		if cc.Comm == nil {
			defaults++
			continue
		}
		ss, ok := cc.Comm.(*ast.SendStmt)
		if !ok || selPath(ss.Chan) != ch {
			return false
		}
		sends++
	}
	return sends == 1 && defaults == 1
}

func exprText(e ast.Expr) string {
	switch x := unparen(e).(type) {
	case *ast.Ident:
		return x.Name
	case *ast.SelectorExpr:
		return exprText(x.X) + "." + x.Sel.Name
	case *ast.CallExpr:
		var as []string
		for _, a := range x.Args {
			as = append(as, exprText(a))
		}
		return exprText(x.Fun) + "(" + strings.Join(as, ", ") + ")"
	case *ast.BasicLit:
		return x.Value
	}
	return "?"
}

func leanIdent(s string) string {
	if reservedNames[s] {
		return s + "_v"
	}
	switch s {
	case "at", "from", "end", "then", "fun", "open", "show", "have", "by", "do", "in", "let", "match", "with", "if", "else",
		"local", "instance", "prefix", "where", "at_", "def", "theorem", "structure", "class", "namespace", "section", "variable",
		"universe", "mutual", "private", "protected", "macro", "syntax", "notation", "deriving", "extends", "for", "return", "Type", "Prop", "Sort":
		return "«" + s + "»"
	}
	return s
}

func constIntText(info *types.Info, e ast.Expr) (string, bool) {
	tv, ok := info.Types[e]
	if !ok || tv.Value == nil || tv.Value.Kind() != constant.Int {
		return "", false
	}
	return tv.Value.ExactString(), true
}
