package main

import (
	"fmt"
	"go/ast"
	"go/constant"
	"go/token"
	"go/types"
	"os"
	"strconv"
	"strings"
)

func readFile(name string) ([]byte, error) { return os.ReadFile(name) }

func ind(s string) string {
	lines := strings.Split(s, "\n")
	for i, l := range lines {
		if l != "" {
			lines[i] = "  " + l
		}
	}
	return strings.Join(lines, "\n")
}

func isAtom(s string) bool {
	if s == "" {
		return false
	}
	if s[0] == '(' || s[0] == '"' || s[0] == '[' || s[0] == '{' {
		depth := 0
		for i, r := range s {
			switch r {
			case '(', '[', '{':
				depth++
			case ')', ']', '}':
				depth--
				if depth == 0 && i != len(s)-1 {
					return false
				}
			}
		}
		return s[0] != '"' || strings.Count(s, "\"") == 2
	}
	return !strings.ContainsAny(s, " \n")
}

func paren(s string) string {
	if isAtom(s) {
		return s
	}
	return "(" + s + ")"
}

func parenType(s string) string {
	if strings.ContainsAny(s, " ×") {
		return "(" + s + ")"
	}
	return s
}

func leanString(s string) string {
	return "\"" + strings.NewReplacer("\\", "\\\\", "\"", "\\\"", "\n", "\\n", "\t", "\\t").Replace(s) + "\""
}

// ---------------------------------------------------------------------------------------------
// types
// ---------------------------------------------------------------------------------------------

type fieldInfo struct {
	name, lean, zero, goType, skipped string
}

type structInfo struct {
	name   string
	pos    string
	fields []fieldInfo
}

func (t *translator) inQuartz(obj types.Object) bool {
	return obj != nil && obj.Pkg() != nil && obj.Pkg() == t.qz.pkg
}

func (t *translator) leanType(ty types.Type) string {
	switch x := ty.(type) {
	case *types.Basic:
		switch {
		case x.Info()&types.IsInteger != 0:
			return "Int"
		case x.Info()&types.IsBoolean != 0:
			return "Bool"
		case x.Info()&types.IsString != 0:
			return "String"
		}
	case *types.Named:
		obj := x.Obj()
		if obj.Pkg() == nil && obj.Name() == "error" {
			return "Option Err"
		}
		if obj.Pkg() != nil && obj.Pkg().Path() == "time" && obj.Name() == "Duration" {
			return "Int"
		}
		if obj.Pkg() != nil && obj.Pkg().Path() == "time" && obj.Name() == "Time" {
			return "Time"
		}
		if t.inQuartz(obj) {
			switch x.Underlying().(type) {
			case *types.Struct:
				t.requireStruct(obj.Name())
				return obj.Name()
			case *types.Interface:
				switch obj.Name() {
				case sjIface:
					t.requireStruct(sjStruct)
					return "Option " + sjStruct
				case triggerIface:
					return "Option TRef"
				case jobIface:
					return "Option JRef"
				case matcherIface:
					return "M"
				}
			}
		}
	case *types.Pointer:
		if n, ok := x.Elem().(*types.Named); ok && t.inQuartz(n.Obj()) {
			if _, isStruct := n.Underlying().(*types.Struct); isStruct {
				t.requireStruct(n.Obj().Name())
				return "Option " + n.Obj().Name()
			}
		}
	case *types.Slice:
		return "List " + parenType(t.leanType(x.Elem()))
	case *types.Tuple:
		var parts []string
		for i := 0; i < x.Len(); i++ {
			parts = append(parts, t.leanType(x.At(i).Type()))
		}
		return tupleType(parts)
	}
	fail("type %s is not translated", ty)
	return ""
}

func tupleType(parts []string) string {
	switch len(parts) {
	case 0:
		return "Unit"
	case 1:
		return parts[0]
	}
	for i := range parts {
		if strings.Contains(parts[i], "×") {
			parts[i] = "(" + parts[i] + ")"
		}
	}
	return strings.Join(parts, " × ")
}

func zeroOf(lean string) string {
	switch {
	case lean == "Int":
		return "0"
	case lean == "Bool":
		return "false"
	case lean == "String":
		return "\"\""
	case strings.HasPrefix(lean, "Option "):
		return "none"
	case strings.HasPrefix(lean, "List "):
		return "[]"
	case lean == "Unit":
		return "()"
	case lean == "Time":
		return "Time.zero"
	}
	return "default"
}

var structInfos = map[string]*structInfo{}

func (t *translator) requireStruct(name string) {
	if t.seenStruct[name] {
		return
	}
	t.seenStruct[name] = true
	ts := t.structs[name]
	if ts == nil {
		fail("struct %s not found", name)
	}
	si := &structInfo{name: name, pos: t.posOf(ts)}
	for _, fl := range ts.Type.(*ast.StructType).Fields.List {
		tv := t.info.Types[fl.Type]
		for _, n := range fl.Names {
			fi := fieldInfo{name: n.Name, goType: exprSrc(fl.Type)}
			func() {
				defer func() {
					if r := recover(); r != nil {
						u, ok := r.(unsupported)
						if !ok {
							panic(r)
						}
						fi.skipped = u.msg
					}
				}()
				if tv.Type == nil {
					fail("untyped field")
				}
				fi.lean = t.leanType(tv.Type)
				fi.zero = zeroOf(fi.lean)
			}()
			si.fields = append(si.fields, fi)
		}
		if len(fl.Names) == 0 {
			si.fields = append(si.fields, fieldInfo{name: exprSrc(fl.Type), goType: exprSrc(fl.Type), skipped: "embedded field"})
		}
	}
	structInfos[name] = si
	t.needStruct = append(t.needStruct, name) // dependencies were appended first (recursion above)
}

func (t *translator) hasField(structName, field string) bool {
	si := structInfos[structName]
	if si == nil {
		return false
	}
	for _, f := range si.fields {
		if f.name == field && f.skipped == "" {
			return true
		}
	}
	return false
}

func exprSrc(e ast.Expr) string {
	switch x := e.(type) {
	case *ast.Ident:
		return x.Name
	case *ast.StarExpr:
		return "*" + exprSrc(x.X)
	case *ast.SelectorExpr:
		return exprSrc(x.X) + "." + x.Sel.Name
	case *ast.ArrayType:
		return "[]" + exprSrc(x.Elt)
	case *ast.ChanType:
		return "chan " + exprSrc(x.Value)
	case *ast.IndexExpr:
		return exprSrc(x.X) + "[" + exprSrc(x.Index) + "]"
	case *ast.FuncType:
		return "func(…)"
	case *ast.Ellipsis:
		return "..." + exprSrc(x.Elt)
	case *ast.InterfaceType:
		return "interface{…}"
	case *ast.StructType:
		return "struct{…}"
	}
	return "?"
}

// ---------------------------------------------------------------------------------------------
// function context
// ---------------------------------------------------------------------------------------------

type fctx struct {
	t        *translator
	f        *fnInfo
	info     *types.Info
	kind     fnKind
	recvObj  types.Object
	recvName string
	n        int
	nres     int
	resTypes []string
	loop     *loopCtx
	pending  []string // effects of calls inside a condition (timer.Stop()), emitted before the `if`
}

func (c *fctx) fresh(p string) string {
	c.n++
	return fmt.Sprintf("%s%d", p, c.n)
}

type effKind int

const (
	effNone effKind = iota
	effQueue
	effSched    // a function of this file's list
	effImported // a function translated by gotolean-sched (Generated.TransSched)
	effLog
	effWg
	effExec
	effTimerNew
	effTimerReset
	effTimerStop
)

func (c *fctx) schedPath(call *ast.CallExpr) (string, bool) {
	if c.kind != kindSched || c.recvName == "" {
		return "", false
	}
	p := selPath(call.Fun)
	if !strings.HasPrefix(p, c.recvName+".") {
		return "", false
	}
	if id := rootIdent(call.Fun); id == nil || c.info.Uses[id] != c.recvObj {
		return "", false
	}
	return strings.TrimPrefix(p, c.recvName+"."), true
}

func isImported(name string) bool {
	for _, n := range importedFns {
		if n == name {
			return true
		}
	}
	return false
}

func (c *fctx) isTimer(e ast.Expr) bool {
	id, ok := unparen(e).(*ast.Ident)
	return ok && c.t.timerVar != nil && c.info.Uses[id] == c.t.timerVar
}

func (c *fctx) effKindOf(call *ast.CallExpr) effKind {
	if p, ok := c.schedPath(call); ok {
		switch {
		case strings.HasPrefix(p, "queue."):
			return effQueue
		case strings.HasPrefix(p, "logger."):
			return effLog
		case p == "wg.Add":
			return effWg
		case p == "executeWithRetries":
			return effExec
		case !strings.Contains(p, "."):
			if fi := c.t.byName[schedRecv+"."+p]; fi != nil && fi.kind == kindSched {
				return effSched
			}
			if isImported(p) {
				return effImported
			}
		}
	}
	if se, ok := unparen(call.Fun).(*ast.SelectorExpr); ok && c.isTimer(se.X) {
		switch se.Sel.Name {
		case "Reset":
			return effTimerReset
		case "Stop":
			return effTimerStop
		}
	}
	if selPath(call.Fun) == "time.NewTimer" {
		return effTimerNew
	}
	return effNone
}

func (c *fctx) hasEff(n ast.Node) bool {
	found := false
	ast.Inspect(n, func(m ast.Node) bool {
		if call, ok := m.(*ast.CallExpr); ok && c.effKindOf(call) != effNone {
			found = true
		}
		return !found
	})
	return found
}

func (c *fctx) args(list []ast.Expr) string {
	out := ""
	for _, a := range list {
		if tv, ok := c.info.Types[a]; ok && isAmbient(tv.Type) {
			continue // context.Context and channels are not passed around: see the file header
		}
		out += " " + paren(c.pure(a))
	}
	return out
}

// isAmbient: context.Context and channel values are dropped from parameter lists (receives / sends on them are input sites / events)
func isAmbient(ty types.Type) bool {
	if ty == nil {
		return false
	}
	if _, ok := ty.Underlying().(*types.Chan); ok {
		return true
	}
	if n, ok := ty.(*types.Named); ok && n.Obj().Pkg() != nil && n.Obj().Pkg().Path() == "context" && n.Obj().Name() == "Context" {
		return true
	}
	return false
}

func (t *translator) ifaceMethod(iface, m string) *ast.Field {
	it := t.ifaces[iface]
	if it == nil {
		return nil
	}
	for _, f := range it.Type.(*ast.InterfaceType).Methods.List {
		for _, n := range f.Names {
			if n.Name == m {
				return f
			}
		}
	}
	return nil
}

// effCall emits the state-passing binding of an effectful call; k receives the Lean text of the Go result
func (c *fctx) effCall(call *ast.CallExpr, k func(res string) string) string {
	if c.kind != kindSched {
		fail("effectful call in a function without scheduler state at %s", c.t.posOf(call))
	}
	bind := func(text string) string {
		r := c.fresh("r")
		return "let " + r + " := " + text + "\nlet " + stateVar + " := " + r + ".1\n" + k(r+".2")
	}
	emit := func(ev string) string {
		return "let " + stateVar + " := " + stateVar + ".emit " + paren(ev) + "\n" + k("()")
	}
	switch c.effKindOf(call) {
	case effQueue:
		p, _ := c.schedPath(call)
		m := strings.TrimPrefix(p, "queue.")
		if c.t.ifaceMethod(queueIface, m) == nil {
			fail("%s has no method %s", queueIface, m)
		}
		return bind(stateVar + ".callQ (fun q => " + queueExtVar + "." + m + " q" + c.args(call.Args) + ")")
	case effSched:
		p, _ := c.schedPath(call)
		return bind(c.t.byName[schedRecv+"."+p].lean + " " + queueExtVar + " " + triggerExtVar + " " + envVar + " " + inpVar + " " + stateVar + c.args(call.Args))
	case effImported:
		p, _ := c.schedPath(call)
		st := c.site(call, p, "now", "Int", "the clock read by `"+p+"` (`env.now` of Generated.TransSched."+p+")")
		return bind(stateVar + ".callSched (fun s => " + p + " " + queueExtVar + " " + triggerExtVar + " { " + envVar + " with now := " + inpVar + "." + st.field + " } s" + c.args(call.Args) + ")")
	case effLog:
		p, _ := c.schedPath(call)
		level := strings.TrimPrefix(p, "logger.")
		if len(call.Args) == 0 {
			fail("logger call without message")
		}
		lit, ok := unparen(call.Args[0]).(*ast.BasicLit)
		if !ok || lit.Kind != token.STRING {
			fail("logger message is not a literal at %s", c.t.posOf(call))
		}
		for _, a := range call.Args[1:] {
			if c.hasEff(a) || c.hasSite(a) {
				fail("logger argument with an effect at %s", c.t.posOf(a))
			}
		}
		msg, _ := strconv.Unquote(lit.Value)
		return emit("LEvent.log " + leanString(level) + " " + leanString(msg))
	case effWg:
		if len(call.Args) != 1 {
			fail("wg.Add form at %s", c.t.posOf(call))
		}
		return emit("LEvent.wgAdd " + paren(c.pure(call.Args[0])))
	case effExec:
		// sched.executeWithRetries(ctx, jobDetail): the job runs in the calling goroutine; not translated, recorded
		var rest []ast.Expr
		for _, a := range call.Args {
			if tv, ok := c.info.Types[a]; ok && isAmbient(tv.Type) {
				continue
			}
			rest = append(rest, a)
		}
		if len(rest) != 1 || c.t.leanType(c.typeOf(rest[0])) != "Option JobDetail" {
			fail("executeWithRetries form at %s", c.t.posOf(call))
		}
		return emit("LEvent.execute " + paren(c.pure(rest[0])))
	case effTimerReset:
		if len(call.Args) != 1 {
			fail("timer.Reset form at %s", c.t.posOf(call))
		}
		if ac, ok := unparen(call.Args[0]).(*ast.CallExpr); ok && c.effKindOf(ac) != effNone {
			return c.effCall(ac, func(res string) string { return emit("LEvent.timerReset " + paren(res)) })
		}
		return emit("LEvent.timerReset " + paren(c.pure(call.Args[0])))
	case effTimerStop:
		// as a statement: the result is discarded
		return emit("LEvent.timerStop")
	case effTimerNew:
		if len(call.Args) != 1 {
			fail("time.NewTimer form at %s", c.t.posOf(call))
		}
		return emit("LEvent.timerNew " + paren(c.pure(call.Args[0])))
	}
	fail("call %s is not effectful", exprText(call))
	return ""
}

// hasSite: does the expression read an input (clock, timer.Stop)?
func (c *fctx) hasSite(n ast.Node) bool {
	found := false
	ast.Inspect(n, func(m ast.Node) bool {
		if call, ok := m.(*ast.CallExpr); ok {
			switch selPath(call.Fun) {
			case "time.Now", "time.Until", "time.Since", "NowNano":
				found = true
			}
		}
		return !found
	})
	return found
}

// site: the input field for the given source node (allocated once per node)
func (c *fctx) site(n ast.Node, fn, kind, leanType, doc string) *site {
	if s := c.t.siteOf[n]; s != nil {
		return s
	}
	c.t.siteCount[fn+"_"+kind]++
	name := fmt.Sprintf("%s_%s%d", fn, kind, c.t.siteCount[fn+"_"+kind])
	if kind == "now" && isImported(fn) {
		name = fn + "_now"
	}
	s := &site{field: name, leanType: leanType, pos: c.t.posOf(n), doc: doc, fn: fn}
	c.t.sites = append(c.t.sites, s)
	c.t.siteOf[n] = s
	return s
}

// ---------------------------------------------------------------------------------------------
// pure expressions
// ---------------------------------------------------------------------------------------------

func (c *fctx) typeOf(e ast.Expr) types.Type {
	tv, ok := c.info.Types[e]
	if !ok || tv.Type == nil {
		fail("untyped expression %s at %s", exprText(e), c.t.posOf(e))
	}
	return tv.Type
}

func isPointer(t types.Type) bool {
	_, ok := t.(*types.Pointer)
	return ok
}

func (c *fctx) isRecv(e ast.Expr) bool {
	id, ok := unparen(e).(*ast.Ident)
	return ok && c.recvObj != nil && c.info.Uses[id] == c.recvObj
}

func (c *fctx) pure(e ast.Expr) string {
	e = unparen(e)
	if _, isLit := e.(*ast.FuncLit); !isLit {
		if s, ok := constIntText(c.info, e); ok {
			if strings.HasPrefix(s, "-") {
				return "(" + s + ")"
			}
			return s
		}
	}
	switch x := e.(type) {
	case *ast.BasicLit:
		if x.Kind == token.STRING {
			s, err := strconv.Unquote(x.Value)
			if err != nil {
				fail("string literal %s", x.Value)
			}
			return leanString(s)
		}
	case *ast.Ident:
		switch x.Name {
		case "nil":
			return "none"
		case "true", "false":
			if _, isConst := c.info.Uses[x].(*types.Const); isConst {
				return x.Name
			}
		}
		obj := c.info.Uses[x]
		if obj == nil {
			obj = c.info.Defs[x]
		}
		v, ok := obj.(*types.Var)
		if !ok {
			fail("identifier %s at %s", x.Name, c.t.posOf(x))
		}
		if v.Parent() == c.t.qz.pkg.Scope() {
			if c.t.sentinelOK[v.Name()] {
				return "(some " + v.Name() + ")"
			}
			fail("package-level variable %s", v.Name())
		}
		if obj == c.recvObj {
			if c.kind == kindSched {
				fail("the scheduler itself used as a value at %s", c.t.posOf(x))
			}
			return "(some " + c.recvName + ")"
		}
		return lname(obj)
	case *ast.SelectorExpr:
		return c.selector(x)
	case *ast.CallExpr:
		if c.effKindOf(x) == effTimerStop {
			// timer.Stop() inside a condition: the call is recorded before the `if`, its result is an input
			st := c.site(x, c.f.name, "timerStop", "Bool", "the result of `timer.Stop()`: false = the timer had already expired or been stopped")
			c.pending = append(c.pending, "let "+stateVar+" := "+stateVar+".emit LEvent.timerStop\n")
			return inpVar + "." + st.field
		}
		if c.effKindOf(x) != effNone {
			fail("effectful call %s inside an expression at %s", exprText(x), c.t.posOf(x))
		}
		return c.pureCall(x)
	case *ast.UnaryExpr:
		switch x.Op {
		case token.NOT:
			return "(!" + paren(c.pure(x.X)) + ")"
		case token.SUB:
			return "(-" + paren(c.pure(x.X)) + ")"
		case token.AND:
			if cl, ok := unparen(x.X).(*ast.CompositeLit); ok {
				return "(some " + c.composite(cl) + ")"
			}
		}
	case *ast.BinaryExpr:
		return c.binary(x)
	case *ast.CompositeLit:
		return c.composite(x)
	}
	fail("expression %T at %s", e, c.t.posOf(e))
	return ""
}

func (c *fctx) selector(x *ast.SelectorExpr) string {
	sel := c.info.Selections[x]
	if sel == nil || sel.Kind() != types.FieldVal {
		fail("selector %s at %s", exprText(x), c.t.posOf(x))
	}
	field := x.Sel.Name
	if c.isRecv(x.X) {
		if c.kind == kindSched {
			if field == "opts" {
				c.t.requireStruct("SchedulerConfig")
				return envVar + ".opts"
			}
			fail("scheduler field %s is not translated (at %s)", field, c.t.posOf(x))
		}
		if !c.t.hasField(c.f.recv, field) {
			fail("field %s.%s is not translated", c.f.recv, field)
		}
		return c.recvName + "." + field
	}
	bt := c.typeOf(x.X)
	n := namedOf(bt)
	if n == nil || !c.t.inQuartz(n.Obj()) {
		fail("field of %s at %s", bt, c.t.posOf(x))
	}
	c.t.leanType(bt) // makes sure the structure is emitted
	if !c.t.hasField(n.Obj().Name(), field) {
		fail("field %s.%s is not translated (at %s)", n.Obj().Name(), field, c.t.posOf(x))
	}
	base := c.pure(x.X)
	if isPointer(bt) {
		return "(deref " + paren(base) + ")." + field
	}
	return paren(base) + "." + field
}

func (c *fctx) binary(x *ast.BinaryExpr) string {
	switch x.Op {
	case token.LAND:
		return "(" + c.pure(x.X) + " && " + c.pure(x.Y) + ")"
	case token.LOR:
		return "(" + c.pure(x.X) + " || " + c.pure(x.Y) + ")"
	case token.EQL, token.NEQ:
		if isNilIdent(x.Y) || isNilIdent(x.X) {
			o := x.X
			if isNilIdent(x.X) {
				o = x.Y
			}
			lt := c.t.leanType(c.typeOf(o))
			if !strings.HasPrefix(lt, "Option ") {
				fail("nil comparison of %s at %s", lt, c.t.posOf(x))
			}
			if x.Op == token.EQL {
				return paren(c.pure(o)) + ".isNone"
			}
			return paren(c.pure(o)) + ".isSome"
		}
		lt := c.t.leanType(c.typeOf(x.X))
		if lt != "Int" && lt != "String" && lt != "Bool" {
			fail("comparison of %s at %s", lt, c.t.posOf(x))
		}
		op := " = "
		if x.Op == token.NEQ {
			op = " ≠ "
		}
		return "decide (" + c.pure(x.X) + op + c.pure(x.Y) + ")"
	case token.LSS, token.LEQ, token.GTR, token.GEQ:
		if c.t.leanType(c.typeOf(x.X)) != "Int" {
			fail("ordering of non-integers at %s", c.t.posOf(x))
		}
		op := map[token.Token]string{token.LSS: " < ", token.LEQ: " ≤ ", token.GTR: " > ", token.GEQ: " ≥ "}[x.Op]
		return "decide (" + c.pure(x.X) + op + c.pure(x.Y) + ")"
	case token.ADD, token.SUB, token.MUL:
		lt := c.t.leanType(c.typeOf(x))
		if lt == "String" && x.Op == token.ADD {
			return "(" + c.pure(x.X) + " ++ " + c.pure(x.Y) + ")"
		}
		if lt != "Int" {
			fail("arithmetic on %s at %s", lt, c.t.posOf(x))
		}
		c.f.arith = append(c.f.arith, fmt.Sprintf("%s at %s", x.Op, c.t.posOf(x)))
		return "(i64 (" + c.pure(x.X) + " " + x.Op.String() + " " + c.pure(x.Y) + "))"
	}
	fail("operator %s at %s", x.Op, c.t.posOf(x))
	return ""
}

func (c *fctx) composite(x *ast.CompositeLit) string {
	ty := c.typeOf(x)
	n, ok := ty.(*types.Named)
	if !ok || !c.t.inQuartz(n.Obj()) {
		fail("composite literal of %s at %s", ty, c.t.posOf(x))
	}
	name := c.t.leanType(n)
	var parts []string
	for _, el := range x.Elts {
		kv, ok := el.(*ast.KeyValueExpr)
		if !ok {
			fail("positional composite literal at %s", c.t.posOf(x))
		}
		k := kv.Key.(*ast.Ident).Name
		if !c.t.hasField(name, k) {
			fail("field %s.%s is not translated", name, k)
		}
		parts = append(parts, k+" := "+c.pure(kv.Value))
	}
	if len(parts) == 0 {
		return "({} : " + name + ")"
	}
	return "({ " + strings.Join(parts, ", ") + " } : " + name + ")"
}

func (c *fctx) pureCall(call *ast.CallExpr) string {
	// conversion T(x)
	if tv, ok := c.info.Types[call.Fun]; ok && tv.IsType() {
		if len(call.Args) == 1 && c.t.leanType(tv.Type) == "Int" && c.t.leanType(c.typeOf(call.Args[0])) == "Int" {
			return c.pure(call.Args[0]) // integer conversions between int64-based types: identity on Int
		}
		fail("conversion %s at %s", exprText(call), c.t.posOf(call))
	}
	if id, ok := unparen(call.Fun).(*ast.Ident); ok {
		if _, isBuiltin := c.info.Uses[id].(*types.Builtin); isBuiltin {
			switch id.Name {
			case "len":
				return "(Int.ofNat " + paren(c.pure(call.Args[0])) + ".length)"
			case "append":
				if call.Ellipsis.IsValid() || len(call.Args) < 2 {
					fail("append form at %s", c.t.posOf(call))
				}
				var els []string
				for _, a := range call.Args[1:] {
					els = append(els, c.pure(a))
				}
				return "(" + c.pure(call.Args[0]) + " ++ [" + strings.Join(els, ", ") + "])"
			case "make":
				lt := c.t.leanType(c.typeOf(call))
				if !strings.HasPrefix(lt, "List ") || len(call.Args) < 2 {
					fail("make form at %s", c.t.posOf(call))
				}
				if s, ok := constIntText(c.info, call.Args[1]); !ok || s != "0" {
					fail("make with non-zero length at %s", c.t.posOf(call))
				}
				return "([] : " + lt + ")"
			}
			fail("builtin %s at %s", id.Name, c.t.posOf(call))
		}
		// package-level function of the list
		if fi := c.t.byName[id.Name]; fi != nil && fi.kind == kindPure && fi.recv == "" {
			return "(" + fi.lean + c.args(call.Args) + ")"
		}
		if id.Name == "NowNano" {
			if c.kind != kindSched {
				fail("clock read outside a scheduler method")
			}
			return inpVar + "." + c.site(call, c.f.name, "now", "Int", "`NowNano()`").field
		}
		fail("call of %s at %s", id.Name, c.t.posOf(call))
	}
	path := selPath(call.Fun)
	switch path {
	case "errors.Is":
		if len(call.Args) != 2 {
			fail("errors.Is form")
		}
		return "(errorsIs " + paren(c.pure(call.Args[0])) + " " + paren(c.pure(call.Args[1])) + ")"
	case "fmt.Errorf":
		return c.errorf(call)
	case "time.Now":
		if len(call.Args) != 0 {
			fail("time.Now form")
		}
		return "(Time.now " + inpVar + "." + c.site(call, c.f.name, "now", "Int", "`time.Now()`").field + ")"
	case "time.Until":
		if len(call.Args) != 1 {
			fail("time.Until form")
		}
		return "(Time.Until " + inpVar + "." + c.site(call, c.f.name, "now", "Int", "the clock read by `time.Until(…)`").field + " " + paren(c.pure(call.Args[0])) + ")"
	}
	if p, ok := c.schedPath(call); ok && p == "IsStarted" {
		return envVar + ".started"
	}
	se, ok := unparen(call.Fun).(*ast.SelectorExpr)
	if !ok {
		fail("call %s at %s", exprText(call), c.t.posOf(call))
	}
	sel := c.info.Selections[se]
	if sel == nil || sel.Kind() != types.MethodVal {
		fail("call %s at %s", exprText(call), c.t.posOf(call))
	}
	rn := namedOf(sel.Recv())
	if rn == nil {
		fail("method call %s at %s", exprText(call), c.t.posOf(call))
	}
	if rn.Obj().Pkg() != nil && rn.Obj().Pkg().Path() == "time" && rn.Obj().Name() == "Duration" && se.Sel.Name == "Nanoseconds" {
		return c.pure(se.X) // time.Duration is its int64 count of nanoseconds
	}
	if rn.Obj().Pkg() != nil && rn.Obj().Pkg().Path() == "time" && rn.Obj().Name() == "Time" {
		switch se.Sel.Name {
		case "Before", "After", "Add", "Sub":
			if len(call.Args) != 1 {
				fail("time.Time.%s form", se.Sel.Name)
			}
			return "(Time." + se.Sel.Name + " " + paren(c.pure(se.X)) + " " + paren(c.pure(call.Args[0])) + ")"
		}
	}
	if c.t.inQuartz(rn.Obj()) && (rn.Obj().Name() == sjIface || rn.Obj().Name() == sjStruct) {
		if _, isGetter := c.t.getters[sjStruct+"."+se.Sel.Name]; isGetter && len(call.Args) == 0 {
			// the getters are translated by gotolean-sched: Generated.TransSched.scheduledJob.<M>
			return "(" + sjStruct + "." + se.Sel.Name + " (deref " + paren(c.pure(se.X)) + "))"
		}
	}
	fail("method call %s at %s", exprText(call), c.t.posOf(call))
	return ""
}

// fmt.Errorf("%w: %s", e, text) / fmt.Errorf("%w: %w", e1, e2)
func (c *fctx) errorf(call *ast.CallExpr) string {
	if len(call.Args) != 3 {
		fail("fmt.Errorf form at %s", c.t.posOf(call))
	}
	lit, ok := unparen(call.Args[0]).(*ast.BasicLit)
	if !ok || lit.Kind != token.STRING {
		fail("fmt.Errorf format is not a literal")
	}
	f, _ := strconv.Unquote(lit.Value)
	var verbs []string
	for i := 0; i+1 < len(f); i++ {
		if f[i] == '%' {
			verbs = append(verbs, f[i:i+2])
			i++
		}
	}
	isErr := func(e ast.Expr) bool { return c.t.leanType(c.typeOf(e)) == "Option Err" }
	switch strings.Join(verbs, "") {
	case "%w%s":
		if isErr(call.Args[1]) && c.t.leanType(c.typeOf(call.Args[2])) == "String" {
			return "(errorf1 " + paren(c.pure(call.Args[1])) + " " + paren(c.pure(call.Args[2])) + ")"
		}
	case "%w%w":
		if isErr(call.Args[1]) && isErr(call.Args[2]) {
			return "(errorf2 " + paren(c.pure(call.Args[1])) + " " + paren(c.pure(call.Args[2])) + ")"
		}
	}
	fail("fmt.Errorf verbs %v at %s", verbs, c.t.posOf(call))
	return ""
}

// ---------------------------------------------------------------------------------------------
// statements (continuation-passing: k produces the text of what follows)
// ---------------------------------------------------------------------------------------------

func proj(r string, i, n int) string {
	if n == 1 {
		return r
	}
	s := r
	for j := 0; j < i; j++ {
		s += ".2"
	}
	if i < n-1 {
		s += ".1"
	}
	return s
}

func (c *fctx) retText(payload string) string {
	if c.loop != nil {
		// `return` inside the loop body: the loop ends (payload is `()`: the loop function has no results)
		return c.loop.result(false)
	}
	switch c.kind {
	case kindMut:
		return "(" + c.recvName + ", " + payload + ")"
	case kindSched:
		return "(" + stateVar + ", " + payload + ")"
	}
	return payload
}

func (c *fctx) block(list []ast.Stmt, k func() string) string {
	if len(list) == 0 {
		return k()
	}
	restDone, restText := false, ""
	rest := func() string {
		if !restDone {
			restText = c.block(list[1:], k)
			restDone = true
		}
		return restText
	}
	switch s := list[0].(type) {
	case *ast.EmptyStmt:
		return rest()
	case *ast.BlockStmt:
		return c.block(append(append([]ast.Stmt{}, s.List...), list[1:]...), k)
	case *ast.ExprStmt:
		if call, ok := unparen(s.X).(*ast.CallExpr); ok && c.effKindOf(call) != effNone {
			return c.effCall(call, func(string) string { return rest() })
		}
		fail("expression statement without a recorded effect at %s", c.t.posOf(s))
	case *ast.DeferStmt:
		if p, ok := c.schedPath(s.Call); ok && p == "wg.Done" && len(s.Call.Args) == 0 {
			return "let " + stateVar + " := " + stateVar + ".emit LEvent.deferWgDone\n" + rest()
		}
		fail("defer at %s", c.t.posOf(s))
	case *ast.GoStmt:
		return c.goStmt(s) + rest()
	case *ast.DeclStmt:
		gd, ok := s.Decl.(*ast.GenDecl)
		if ok && gd.Tok == token.CONST {
			out := ""
			for _, sp := range gd.Specs {
				vs := sp.(*ast.ValueSpec)
				for _, id := range vs.Names {
					v, isInt := constIntText(c.info, id)
					if cst, okc := c.info.Defs[id].(*types.Const); okc {
						v, isInt = cst.Val().ExactString(), cst.Val().Kind() == constant.Int
					}
					if !isInt {
						fail("constant %s is not an integer at %s", id.Name, c.t.posOf(id))
					}
					out += "-- const " + id.Name + " = " + v + " (uses are replaced by the value)\n"
				}
			}
			return out + rest()
		}
		if !ok || gd.Tok != token.VAR {
			fail("declaration at %s", c.t.posOf(s))
		}
		out := ""
		for _, sp := range gd.Specs {
			vs := sp.(*ast.ValueSpec)
			for i, id := range vs.Names {
				ty := c.t.leanType(c.info.Defs[id].Type())
				if len(vs.Values) > i {
					out += "let " + lname(c.info.Defs[id]) + " : " + ty + " := " + c.pure(vs.Values[i]) + "\n"
				} else {
					out += "let " + lname(c.info.Defs[id]) + " : " + ty + " := " + zeroOf(ty) + "\n"
				}
			}
		}
		return out + rest()
	case *ast.AssignStmt:
		return c.assign(s, rest)
	case *ast.ReturnStmt:
		return c.ret(s)
	case *ast.IfStmt:
		return c.ifStmt(s, rest)
	case *ast.SwitchStmt:
		return c.switchStmt(s, rest)
	case *ast.SelectStmt:
		return c.selectStmt(s, rest)
	}
	fail("statement %T at %s", list[0], c.t.posOf(list[0]))
	return ""
}

// pureAs: like pure, but `nil` takes the zero value of the expected Lean type (none / [])
func (c *fctx) pureAs(e ast.Expr, leanTy string) string {
	if isNilIdent(e) {
		z := zeroOf(leanTy)
		if z == "default" {
			fail("nil of type %s at %s", leanTy, c.t.posOf(e))
		}
		return z
	}
	return c.pure(e)
}

func (c *fctx) ret(s *ast.ReturnStmt) string {
	if len(s.Results) != c.nres {
		if len(s.Results) == 1 {
			if call, ok := unparen(s.Results[0]).(*ast.CallExpr); ok {
				if c.effKindOf(call) != effNone {
					return c.effCall(call, func(res string) string { return c.retText(res) })
				}
				return c.retText(c.pure(call))
			}
		}
		fail("return with %d values in a function with %d results at %s", len(s.Results), c.nres, c.t.posOf(s))
	}
	if len(s.Results) == 0 {
		return c.retText("()")
	}
	if len(s.Results) == 1 {
		if call, ok := unparen(s.Results[0]).(*ast.CallExpr); ok && c.effKindOf(call) != effNone {
			return c.effCall(call, func(res string) string { return c.retText(res) })
		}
		return c.retText(c.pureAs(s.Results[0], c.resTypes[0]))
	}
	var parts []string
	for i, r := range s.Results {
		parts = append(parts, c.pureAs(r, c.resTypes[i]))
	}
	return c.retText("(" + strings.Join(parts, ", ") + ")")
}

// getterField: x.M() where M is a checked getter of scheduledJob
func (c *fctx) getterField(call *ast.CallExpr) (recv ast.Expr, field string, ok bool) {
	se, isSel := unparen(call.Fun).(*ast.SelectorExpr)
	if !isSel || len(call.Args) != 0 {
		return nil, "", false
	}
	sel := c.info.Selections[se]
	if sel == nil || sel.Kind() != types.MethodVal {
		return nil, "", false
	}
	rn := namedOf(sel.Recv())
	if rn == nil || !c.t.inQuartz(rn.Obj()) || (rn.Obj().Name() != sjIface && rn.Obj().Name() != sjStruct) {
		return nil, "", false
	}
	f, isGetter := c.t.getters[sjStruct+"."+se.Sel.Name]
	return se.X, f, isGetter
}

// assignText: `lhs = val` as a Lean let (variables) or a nested structure update (field paths through pointers).
// A pointer is an Option here, so `p.f = v` is `p.map (fun x => { x with f := v })`; other aliases of the same Go object
// (the caller's *JobDetail, say) are outside the translation — see the file header.
type pathStep struct {
	field string
	opt   bool   // the value the field is selected from is a pointer / interface (Option)
	ctype string // Lean structure the field is selected from
}

// aliasCapable: a variable of this type may point (directly or through fields) to the objects mutated by a field
// assignment through a pointer
func (c *fctx) aliasCapable(ty types.Type) bool {
	n := namedOf(ty)
	if n == nil || !c.t.inQuartz(n.Obj()) {
		return false
	}
	if !isPointer(ty) && !types.IsInterface(ty) {
		return false
	}
	switch n.Obj().Name() {
	case sjIface, sjStruct, "JobDetail", "JobDetailOptions":
		return true
	}
	return false
}

// noLiveAlias: after `root.path = v` through a pointer, no OTHER pointer variable defined before the assignment is used
// (it might point to the same Go object, which the value-semantic translation would not update)
func (c *fctx) noLiveAlias(lhs ast.Expr, root *types.Var) {
	ast.Inspect(c.f.decl.Body, func(n ast.Node) bool {
		id, ok := n.(*ast.Ident)
		if !ok || id.Pos() <= lhs.End() {
			return true
		}
		v, ok := c.info.Uses[id].(*types.Var)
		if !ok || v == root || v.IsField() || v.Pos() >= lhs.Pos() || v == c.recvObj {
			return true
		}
		if c.aliasCapable(v.Type()) {
			fail("%s is used after the assignment through the pointer %s at %s and may alias the object it changes", v.Name(), root.Name(), c.t.posOf(lhs))
		}
		return true
	})
}

func (c *fctx) assignText(lhs ast.Expr, val string) string {
	lhs = unparen(lhs)
	if id, ok := lhs.(*ast.Ident); ok {
		if id.Name == "_" {
			return ""
		}
		obj := c.info.Defs[id]
		if obj == nil {
			obj = c.info.Uses[id]
		}
		if obj == nil || obj.Type() == nil {
			fail("untyped variable %s at %s", id.Name, c.t.posOf(id))
		}
		return "let " + lname(obj) + " : " + c.t.leanType(obj.Type()) + " := " + val + "\n"
	}
	var steps []pathStep // steps[0] is the assigned field, steps[len-1] is selected from the root variable
	cur := lhs
	root := ""
	var rootVar *types.Var
	for root == "" {
		cur = unparen(cur)
		switch x := cur.(type) {
		case *ast.Ident:
			v, isVar := c.info.Uses[x].(*types.Var)
			if !isVar || v.Parent() == c.t.qz.pkg.Scope() {
				fail("assignment through %s at %s", x.Name, c.t.posOf(lhs))
			}
			root = lname(v)
			rootVar = v
			if c.info.Uses[x] == c.recvObj {
				if c.kind == kindSched {
					fail("assignment to a scheduler field at %s", c.t.posOf(lhs))
				}
				root = c.recvName
			}
		case *ast.SelectorExpr:
			sel := c.info.Selections[x]
			if sel == nil || sel.Kind() != types.FieldVal {
				fail("assignment target %s at %s", exprText(lhs), c.t.posOf(lhs))
			}
			bt := c.typeOf(x.X)
			n := namedOf(bt)
			if n == nil || !c.t.inQuartz(n.Obj()) {
				fail("assignment target %s at %s", exprText(lhs), c.t.posOf(lhs))
			}
			c.t.leanType(bt)
			if !c.t.hasField(n.Obj().Name(), x.Sel.Name) {
				fail("field %s.%s is not translated", n.Obj().Name(), x.Sel.Name)
			}
			steps = append(steps, pathStep{x.Sel.Name, isPointer(bt) && !c.isRecv(x.X), n.Obj().Name()})
			cur = x.X
		case *ast.CallExpr:
			recv, field, ok := c.getterField(x)
			if !ok {
				fail("assignment through the call %s at %s", exprText(x), c.t.posOf(lhs))
			}
			steps = append(steps, pathStep{field, true, sjStruct}) // x.M() is (deref x).field for a checked getter M
			cur = recv
		default:
			fail("assignment target %s at %s", exprText(lhs), c.t.posOf(lhs))
		}
	}
	var build func(i int, ct string) string
	var lift func(i int, target string) string
	build = func(i int, ct string) string {
		if i == 0 {
			return "{ " + ct + " with " + steps[0].field + " := " + val + " }"
		}
		return "{ " + ct + " with " + steps[i].field + " := " + lift(i-1, ct+"."+steps[i].field) + " }"
	}
	lift = func(i int, target string) string {
		if steps[i].opt {
			x := fmt.Sprintf("x%d", len(steps)-i)
			return target + ".map (fun (" + x + " : " + steps[i].ctype + ") => " + build(i, x) + ")"
		}
		return build(i, target)
	}
	for _, st := range steps {
		if st.opt {
			c.noLiveAlias(lhs, rootVar)
			break
		}
	}
	return "let " + root + " := " + lift(len(steps)-1, root) + "\n"
}

func (c *fctx) assign(s *ast.AssignStmt, rest func() string) string {
	if s.Tok != token.ASSIGN && s.Tok != token.DEFINE {
		fail("assignment operator %s at %s", s.Tok, c.t.posOf(s))
	}
	if len(s.Rhs) == 1 {
		if call, ok := unparen(s.Rhs[0]).(*ast.CallExpr); ok && c.effKindOf(call) == effTimerNew {
			id, isId := unparen(s.Lhs[0]).(*ast.Ident)
			if !isId || len(s.Lhs) != 1 || c.t.timerVar == nil || c.info.Defs[id] != c.t.timerVar {
				fail("time.NewTimer is not assigned to the loop's timer variable at %s", c.t.posOf(s))
			}
			return c.effCall(call, func(string) string { return rest() })
		}
		if call, ok := unparen(s.Rhs[0]).(*ast.CallExpr); ok && c.effKindOf(call) != effNone {
			return c.effCall(call, func(res string) string {
				out := ""
				for i, l := range s.Lhs {
					out += c.assignText(l, proj(res, i, len(s.Lhs)))
				}
				return out + rest()
			})
		}
	}
	if len(s.Lhs) != len(s.Rhs) {
		fail("assignment form at %s", c.t.posOf(s))
	}
	if len(s.Lhs) > 1 {
		fail("parallel assignment at %s", c.t.posOf(s))
	}
	return c.assignText(s.Lhs[0], c.pure(s.Rhs[0])) + rest()
}
