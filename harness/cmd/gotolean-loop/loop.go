package main

import (
	"fmt"
	"go/ast"
	"go/token"
	"go/types"
	"sort"
	"strings"
)

// ---------------------------------------------------------------------------------------------
// if / switch: join points where no branch leaves the function, continuation-passing otherwise
// ---------------------------------------------------------------------------------------------

// leaves: does the statement contain a return / break / continue / goto?
func leaves(n ast.Node) bool {
	found := false
	ast.Inspect(n, func(m ast.Node) bool {
		switch m.(type) {
		case *ast.ReturnStmt, *ast.BranchStmt:
			found = true
		case *ast.FuncLit:
			return false
		}
		return !found
	})
	return found
}

// assignedOuter: variables declared before the statement that are assigned inside it, in declaration order
func (c *fctx) assignedOuter(n ast.Node) []*types.Var {
	seen := map[*types.Var]bool{}
	var vars []*types.Var
	ast.Inspect(n, func(m ast.Node) bool {
		as, ok := m.(*ast.AssignStmt)
		if !ok {
			return true
		}
		for _, l := range as.Lhs {
			id := rootIdent(l)
			if id == nil || id.Name == "_" {
				continue
			}
			v, ok := c.info.Uses[id].(*types.Var)
			if !ok || v == c.recvObj || v.IsField() {
				continue
			}
			if v.Pos() >= n.Pos() && v.Pos() < n.End() {
				continue
			}
			if !seen[v] {
				seen[v] = true
				vars = append(vars, v)
			}
		}
		return true
	})
	sort.Slice(vars, func(i, j int) bool { return vars[i].Pos() < vars[j].Pos() })
	return vars
}

// join: `let (σ, assigned variables) := <branching expression>` followed by the rest
func (c *fctx) join(n ast.Node, branching func(k func() string) string, rest func() string) string {
	vars := c.assignedOuter(n)
	if len(vars) == 0 {
		return "let " + stateVar + " :=\n" + ind(branching(func() string { return stateVar })) + "\n" + rest()
	}
	parts := []string{stateVar}
	for _, v := range vars {
		parts = append(parts, lname(v))
	}
	tuple := "(" + strings.Join(parts, ", ") + ")"
	j := c.fresh("j")
	out := "let " + j + " :=\n" + ind(branching(func() string { return tuple })) + "\n"
	out += "let " + stateVar + " := " + proj(j, 0, len(parts)) + "\n"
	for i, v := range vars {
		out += "let " + lname(v) + " : " + c.t.leanType(v.Type()) + " := " + proj(j, i+1, len(parts)) + "\n"
	}
	return out + rest()
}

func (c *fctx) flushPending() string {
	out := strings.Join(c.pending, "")
	c.pending = nil
	return out
}

func (c *fctx) ifStmt(s *ast.IfStmt, rest func() string) string {
	core := func() string {
		if !leaves(s) {
			return c.join(s, func(k func() string) string { return c.ifExpr(s, k) }, rest)
		}
		return c.ifExpr(s, rest)
	}
	if s.Init != nil {
		in, ok := s.Init.(*ast.AssignStmt)
		if !ok {
			fail("if-init form at %s", c.t.posOf(s))
		}
		return c.assign(in, core)
	}
	return core()
}

// ifExpr: the `if` as an expression every branch of which ends with k()
func (c *fctx) ifExpr(s *ast.IfStmt, k func() string) string {
	cond := c.pure(s.Cond)
	pre := c.flushPending()
	thenT := c.block(s.Body.List, k)
	var elseT string
	switch e := s.Else.(type) {
	case nil:
		elseT = k()
	case *ast.BlockStmt:
		elseT = c.block(e.List, k)
	case *ast.IfStmt:
		if e.Init != nil {
			fail("else-if with an init statement at %s", c.t.posOf(e))
		}
		elseT = c.ifExpr(e, k)
	default:
		fail("else form at %s", c.t.posOf(s))
	}
	return pre + "if " + cond + " then\n" + ind(thenT) + "\nelse\n" + ind(elseT)
}

// tagless switch: `switch { case c1: … case c2: … default: … }` = if c1 … else if c2 … else …
func (c *fctx) switchStmt(s *ast.SwitchStmt, rest func() string) string {
	if s.Init != nil || s.Tag != nil {
		fail("switch with a tag or an init statement at %s", c.t.posOf(s))
	}
	var clauses []*ast.CaseClause
	var def *ast.CaseClause
	for i, st := range s.Body.List {
		cc := st.(*ast.CaseClause)
		if cc.List == nil {
			if i != len(s.Body.List)-1 {
				fail("default clause is not the last one at %s", c.t.posOf(cc))
			}
			def = cc
			continue
		}
		clauses = append(clauses, cc)
	}
	ast.Inspect(s, func(m ast.Node) bool {
		if b, ok := m.(*ast.BranchStmt); ok {
			fail("%s inside a switch at %s", b.Tok, c.t.posOf(b))
		}
		return true
	})
	var expr func(i int, k func() string) string
	expr = func(i int, k func() string) string {
		if i == len(clauses) {
			if def == nil {
				return k()
			}
			return c.block(def.Body, k)
		}
		var conds []string
		for _, e := range clauses[i].List {
			conds = append(conds, c.pure(e))
			if len(c.pending) > 0 {
				fail("call with an effect in a switch condition at %s", c.t.posOf(e))
			}
		}
		cond := strings.Join(conds, " || ")
		if len(conds) > 1 {
			cond = "(" + cond + ")"
		}
		return "-- " + c.t.posOf(clauses[i]) + "\nif " + cond + " then\n" + ind(c.block(clauses[i].Body, k)) + "\nelse\n" + ind(expr(i+1, k))
	}
	if !leaves(s) {
		return c.join(s, func(k func() string) string { return expr(0, k) }, rest)
	}
	return expr(0, rest)
}

// ---------------------------------------------------------------------------------------------
// select
// ---------------------------------------------------------------------------------------------

// chanText: the source text of a channel expression (`timer.C`, `sched.interrupt`, `ctx.Done()`, `dispatch`)
func (c *fctx) chanText(e ast.Expr) string {
	ty := c.typeOf(e)
	if _, ok := ty.Underlying().(*types.Chan); !ok {
		fail("%s is not a channel at %s", exprText(e), c.t.posOf(e))
	}
	txt := exprText(e)
	if strings.Contains(txt, "?") {
		fail("channel expression at %s", c.t.posOf(e))
	}
	// the expression must be effect-free and built from a variable: a field path, or a niladic method call on a parameter
	switch x := unparen(e).(type) {
	case *ast.Ident, *ast.SelectorExpr:
	case *ast.CallExpr:
		if len(x.Args) != 0 || c.effKindOf(x) != effNone {
			fail("channel expression %s at %s", txt, c.t.posOf(e))
		}
		se, ok := unparen(x.Fun).(*ast.SelectorExpr)
		if !ok || !isAmbient(c.typeOf(se.X)) || se.Sel.Name != "Done" {
			fail("channel expression %s at %s", txt, c.t.posOf(e))
		}
	default:
		fail("channel expression %s at %s", txt, c.t.posOf(e))
	}
	return txt
}

func sanitize(s string) string {
	var b strings.Builder
	last := byte('_')
	for i := 0; i < len(s); i++ {
		ch := s[i]
		ok := ch == '_' || (ch >= '0' && ch <= '9') || (ch >= 'a' && ch <= 'z') || (ch >= 'A' && ch <= 'Z')
		if !ok {
			ch = '_'
		}
		if ch == '_' && last == '_' {
			continue
		}
		b.WriteByte(ch)
		last = ch
	}
	return strings.Trim(b.String(), "_")
}

type commInfo struct {
	send bool
	ch   string
	val  ast.Expr
}

func (c *fctx) comm(cc *ast.CommClause) commInfo {
	switch cm := cc.Comm.(type) {
	case *ast.SendStmt:
		return commInfo{send: true, ch: c.chanText(cm.Chan), val: cm.Value}
	case *ast.ExprStmt:
		if u, ok := unparen(cm.X).(*ast.UnaryExpr); ok && u.Op == token.ARROW {
			return commInfo{ch: c.chanText(u.X)}
		}
	}
	fail("communication clause at %s is neither `<-ch` nor `ch <- v`", c.t.posOf(cc))
	return commInfo{}
}

func isEmptyStructLit(e ast.Expr) bool {
	cl, ok := unparen(e).(*ast.CompositeLit)
	if !ok || len(cl.Elts) != 0 {
		return false
	}
	st, ok := cl.Type.(*ast.StructType)
	return ok && (st.Fields == nil || len(st.Fields.List) == 0)
}

func (c *fctx) selectStmt(s *ast.SelectStmt, rest func() string) string {
	var def *ast.CommClause
	var cases []*ast.CommClause
	for _, st := range s.Body.List {
		cc := st.(*ast.CommClause)
		if cc.Comm == nil {
			def = cc
		} else {
			cases = append(cases, cc)
		}
	}
	if def != nil {
		// non-blocking: one communication that is attempted, nothing depends on whether it happened
		if len(cases) != 1 || len(def.Body) != 0 || len(cases[0].Body) != 0 {
			fail("select with default at %s is not a single non-blocking send/receive with empty bodies", c.t.posOf(s))
		}
		ci := c.comm(cases[0])
		if ci.send {
			if !isEmptyStructLit(ci.val) {
				fail("non-blocking send of a value other than struct{}{} at %s", c.t.posOf(s))
			}
			return "let " + stateVar + " := " + stateVar + ".emit (LEvent.trySend " + leanString(ci.ch) + ")\n" + rest()
		}
		return "let " + stateVar + " := " + stateVar + ".emit (LEvent.tryRecv " + leanString(ci.ch) + ")\n" + rest()
	}
	if len(cases) == 0 {
		fail("empty select at %s", c.t.posOf(s))
	}
	// blocking: which case fires is an input
	c.t.siteCount[c.f.name+"_Sel"]++
	si := &selectInfo{lean: fmt.Sprintf("%s.Sel%d", c.f.name, c.t.siteCount[c.f.name+"_Sel"]), pos: c.t.posOf(s)}
	st := c.site(s, c.f.name, "sel", si.lean, "which case of the `select` at "+si.pos+" fires")
	out := "match " + inpVar + "." + st.field + " with\n"
	seen := map[string]bool{}
	for _, cc := range cases {
		ci := c.comm(cc)
		ctor, ev := "recv_"+sanitize(ci.ch), "LEvent.recv "+leanString(ci.ch)
		doc := "case <-" + ci.ch + ":"
		if ci.send {
			if c.t.leanType(c.typeOf(ci.val)) != "Option "+sjStruct {
				fail("send of a value that is not a ScheduledJob at %s", c.t.posOf(cc))
			}
			ctor, ev = "send_"+sanitize(ci.ch), "LEvent.send "+leanString(ci.ch)+" "+paren(c.pure(ci.val))
			doc = "case " + ci.ch + " <- " + exprText(ci.val) + ":"
		}
		if seen[ctor] {
			fail("two cases on the same channel at %s", c.t.posOf(s))
		}
		seen[ctor] = true
		si.ctors = append(si.ctors, ctor)
		si.docs = append(si.docs, "Go: "+c.t.posOf(cc)+" `"+doc+"`")
		body := "let " + stateVar + " := " + stateVar + ".emit (" + ev + ")\n" + c.block(cc.Body, rest)
		out += "-- " + c.t.posOf(cc) + "\n| ." + ctor + " =>\n" + ind(body) + "\n"
	}
	c.t.selects = append(c.t.selects, si)
	return strings.TrimRight(out, "\n")
}

// go func() { defer sched.wg.Done(); sched.executeWithRetries(ctx, x) }()
func (c *fctx) goStmt(s *ast.GoStmt) string {
	fl, ok := s.Call.Fun.(*ast.FuncLit)
	if !ok || len(s.Call.Args) != 0 || (fl.Type.Params != nil && len(fl.Type.Params.List) != 0) || len(fl.Body.List) != 2 {
		fail("go statement at %s is not `go func() { defer sched.wg.Done(); sched.executeWithRetries(…) }()`", c.t.posOf(s))
	}
	ds, ok := fl.Body.List[0].(*ast.DeferStmt)
	if p, isS := c.schedPath(ds.Call); !ok || !isS || p != "wg.Done" {
		fail("goroutine at %s does not start with `defer sched.wg.Done()`", c.t.posOf(s))
	}
	es, ok := fl.Body.List[1].(*ast.ExprStmt)
	if !ok {
		fail("goroutine body at %s", c.t.posOf(s))
	}
	call, ok := unparen(es.X).(*ast.CallExpr)
	if !ok || c.effKindOf(call) != effExec {
		fail("goroutine at %s does not call executeWithRetries", c.t.posOf(s))
	}
	var arg ast.Expr
	for _, a := range call.Args {
		if tv, ok := c.info.Types[a]; ok && isAmbient(tv.Type) {
			continue
		}
		if arg != nil {
			fail("executeWithRetries form at %s", c.t.posOf(call))
		}
		arg = a
	}
	if arg == nil || c.t.leanType(c.typeOf(arg)) != "Option JobDetail" {
		fail("executeWithRetries form at %s", c.t.posOf(call))
	}
	return "let " + stateVar + " := " + stateVar + ".emit (LEvent.spawn " + paren(c.pure(arg)) + ")\n"
}

// ---------------------------------------------------------------------------------------------
// the loop function: statements before the loop (`.init`), one iteration (`.iter`), the loop over a list of inputs
// ---------------------------------------------------------------------------------------------

type loopCtx struct {
	carried []*types.Var
	types   []string
}

func (l *loopCtx) tuple() string {
	var parts []string
	for _, v := range l.carried {
		parts = append(parts, lname(v))
	}
	return strings.Join(parts, ", ")
}

// result of an iteration: (σ, (carried…, continues))
func (l *loopCtx) result(continues bool) string {
	b := "false"
	if continues {
		b = "true"
	}
	if len(l.carried) == 0 {
		return "(" + stateVar + ", " + b + ")"
	}
	return "(" + stateVar + ", (" + l.tuple() + ", " + b + "))"
}

func (l *loopCtx) resultType() string {
	if len(l.carried) == 0 {
		return "LSt Q H × Bool"
	}
	return "LSt Q H × (" + tupleType(append(append([]string{}, l.types...), "Bool")) + ")"
}

func (l *loopCtx) carriedType() string {
	if len(l.carried) == 0 {
		return "Unit"
	}
	return tupleType(append([]string{}, l.types...))
}

func (t *translator) translateLoopFn(f *fnInfo) {
	defer t.catch(f)
	fd := f.decl
	t.checkNames(fd)
	n := len(fd.Body.List)
	if n == 0 {
		fail("empty body")
	}
	fs, ok := fd.Body.List[n-1].(*ast.ForStmt)
	if !ok || fs.Init != nil || fs.Cond != nil || fs.Post != nil {
		fail("the last statement is not `for { … }`")
	}
	pre := fd.Body.List[:n-1]
	sig := t.info.Defs[fd.Name].Type().(*types.Signature)
	if sig.Results().Len() != 0 {
		fail("the loop function has results")
	}
	mk := func() *fctx {
		c := &fctx{t: t, f: f, info: t.info, kind: kindSched}
		c.recvObj = t.info.Defs[fd.Recv.List[0].Names[0]]
		c.recvName = leanIdent(fd.Recv.List[0].Names[0].Name)
		return c
	}
	binders := []string{schedBinders}
	for i := 0; i < sig.Params().Len(); i++ {
		p := sig.Params().At(i)
		if isAmbient(p.Type()) {
			continue
		}
		binders = append(binders, "("+lname(p)+" : "+t.leanType(p.Type())+")")
	}
	// loop-carried variables: declared before the loop (not the timer, not constants), used inside it
	lc := &loopCtx{}
	seen := map[*types.Var]bool{}
	ast.Inspect(fs.Body, func(m ast.Node) bool {
		id, ok := m.(*ast.Ident)
		if !ok {
			return true
		}
		v, ok := t.info.Uses[id].(*types.Var)
		if !ok || v.IsField() || v == t.timerVar || seen[v] {
			return true
		}
		for _, st := range pre {
			if v.Pos() >= st.Pos() && v.Pos() < st.End() {
				seen[v] = true
				lc.carried = append(lc.carried, v)
			}
		}
		return true
	})
	sort.Slice(lc.carried, func(i, j int) bool { return lc.carried[i].Pos() < lc.carried[j].Pos() })
	carriedBinders := ""
	for _, v := range lc.carried {
		lt := t.leanType(v.Type())
		lc.types = append(lc.types, lt)
		carriedBinders += " (" + lname(v) + " : " + lt + ")"
	}
	// .init
	ci := mk()
	initBody := ci.block(pre, func() string {
		if len(lc.carried) == 0 {
			return "(" + stateVar + ", ())"
		}
		return "(" + stateVar + ", " + paren(lc.tuple()) + ")"
	})
	if len(lc.carried) > 1 {
		initBody = strings.TrimSuffix(initBody, "("+stateVar+", "+paren(lc.tuple())+")") + "(" + stateVar + ", (" + lc.tuple() + "))"
	}
	text := "/-- the statements of `" + f.name + "` before its loop; result: the initial values of the loop-carried variables (" + lc.tuple() + ") -/\n"
	text += "def " + f.lean + ".init " + strings.Join(binders, " ") + " : LSt Q H × " + parenIfProd(lc.carriedType()) + " :=\n" + ind(initBody) + "\n\n"
	// .iter
	cb := mk()
	cb.loop = lc
	iterBody := cb.block(fs.Body.List, func() string { return lc.result(true) })
	if len(cb.pending) > 0 || len(ci.pending) > 0 {
		fail("a call with an effect inside an expression that is not an `if` condition")
	}
	text += "/-- ONE ITERATION of the loop at " + t.posOf(fs) + ": from the loop-carried variables to their new values and whether the loop continues\n(`false` = the `return` inside the loop was reached) -/\n"
	text += "def " + f.lean + ".iter " + strings.Join(binders, " ") + carriedBinders + " : " + lc.resultType() + " :=\n" + ind(iterBody) + "\n\n"
	// .loop and the function itself
	bindNoInp := strings.Replace(strings.Join(binders, " "), " ("+inpVar+" : Inputs) ("+stateVar+" : LSt Q H)", "", 1)
	carriedArrow, carriedArgs, carriedFromR := "", "", ""
	for i, v := range lc.carried {
		carriedArrow += lc.types[i] + " → "
		carriedArgs += " " + lname(v)
		carriedFromR += " " + proj("r.2", i, len(lc.carried)+1)
	}
	cont := proj("r.2", len(lc.carried), len(lc.carried)+1)
	if len(lc.carried) == 0 {
		cont = "r.2"
	}
	text += "/-- the loop closed over the inputs of its iterations (one `Inputs` per iteration); it stops when an iteration returns (`false`)\nor when the inputs run out (`true`: still running) -/\n"
	text += "def " + f.lean + ".loop " + bindNoInp + " : LSt Q H → " + carriedArrow + "List Inputs → " + lc.resultType() + "\n"
	pat := stateVar
	for _, v := range lc.carried {
		pat += ", " + lname(v)
	}
	text += "  | " + pat + ", [] => " + lc.result(true) + "\n"
	text += "  | " + pat + ", " + inpVar + " :: rest =>\n"
	text += "    let r := " + f.lean + ".iter " + queueExtVar + " " + triggerExtVar + " " + envVar + " " + inpVar + " " + stateVar + carriedArgs + "\n"
	text += "    if " + cont + " then " + f.lean + ".loop " + queueExtVar + " " + triggerExtVar + " " + envVar + " r.1" + carriedFromR + " rest else r\n\n"
	text += "/-- Go: " + f.pos + " `" + t.goSig(fd) + "`: `.init`, then `.loop` -/\n"
	text += "def " + f.lean + " " + bindNoInp + " (" + stateVar + " : LSt Q H) (inputs : List Inputs) : " + lc.resultType() + " :=\n"
	text += "  let r := " + f.lean + ".init " + queueExtVar + " " + triggerExtVar + " " + envVar + " (default : Inputs) " + stateVar + "\n"
	initProj := ""
	for i := range lc.carried {
		initProj += " " + proj("r.2", i, len(lc.carried))
	}
	text += "  " + f.lean + ".loop " + queueExtVar + " " + triggerExtVar + " " + envVar + " r.1" + initProj + " inputs"
	f.text = text
}

// ---------------------------------------------------------------------------------------------
// idiom checks of the loop
// ---------------------------------------------------------------------------------------------

func stmtCallPath(st ast.Stmt) string {
	es, ok := st.(*ast.ExprStmt)
	if !ok {
		return ""
	}
	return callPath(es.X)
}

func (t *translator) commText(cc *ast.CommClause) string {
	switch cm := cc.Comm.(type) {
	case nil:
		return "default"
	case *ast.SendStmt:
		return exprText(cm.Chan) + " <- " + exprText(cm.Value)
	case *ast.ExprStmt:
		if u, ok := unparen(cm.X).(*ast.UnaryExpr); ok && u.Op == token.ARROW {
			return "<-" + exprText(u.X)
		}
	}
	return "?"
}

// statements of a clause without the logger calls
func (t *translator) noLog(list []ast.Stmt, r string) []ast.Stmt {
	var out []ast.Stmt
	for _, st := range list {
		if strings.HasPrefix(stmtCallPath(st), r+".logger.") {
			continue
		}
		out = append(out, st)
	}
	return out
}

// checkLoop: idioms `loop`, `select`, `timer`, `time`
func (t *translator) checkLoop() {
	var whyLoop, whySel, whyTimer, whyTime []string
	fd := t.funcs[schedRecv+"."+loopFn]
	done := func() {
		t.report("loop", len(whyLoop) == 0, whyLoop, "`"+loopFn+"` ends with `for { … }` (no condition); the loop body is zero-valued `var` declarations, `backingOff := <pure expression>`, `if !backingOff { queueSize, err = sched.queue.Size() }` (the only Size() call of the function), a tagless switch, a select; no break/continue/goto/label/nested loop/defer; its only `return` is the last statement of the `<-ctx.Done()` case")
		t.report("select", len(whySel) == 0, whySel, "the loop waits in `select { case <-timer.C: case <-sched.interrupt: case <-ctx.Done(): }` (no default), `ctx` being the context parameter")
		t.report("timer", len(whyTimer) == 0, whyTimer, "one `timer := time.NewTimer(…)` before the loop, used only as `timer.Reset(d)` (statement; exactly one, last, in every case of the switch), `timer.Stop()` and `<-timer.C`; the interrupt case is `if !timer.Stop() { select { case <-timer.C: default: } }`; the exit case is `timer.Stop(); sched.Reset(); return`")
		t.report("time", len(whyTime) == 0, whyTime, "values of type time.Time are `time.Now()`, a variable declared `var x time.Time` (zero) or `time.Now().Add(d)`; they are used by `Before`/`After`/`Sub`/`time.Until` only")
	}
	if fd == nil || fd.Body == nil || len(fd.Body.List) == 0 || fd.Recv == nil {
		whyLoop = append(whyLoop, loopFn+" not found")
		whySel, whyTimer, whyTime = whyLoop, whyLoop, whyLoop
		done()
		return
	}
	r := t.recvIdent(fd)
	n := len(fd.Body.List)
	fs, ok := fd.Body.List[n-1].(*ast.ForStmt)
	if !ok || fs.Init != nil || fs.Cond != nil || fs.Post != nil {
		whyLoop = append(whyLoop, "the last statement of "+loopFn+" is not `for { … }`")
		whySel = append(whySel, "no loop")
		whyTimer = append(whyTimer, "no loop")
		done()
		return
	}
	pre := fd.Body.List[:n-1]
	// the context parameter
	ctxName := ""
	for _, p := range fd.Type.Params.List {
		if exprSrc(p.Type) == "context.Context" && len(p.Names) == 1 {
			ctxName = p.Names[0].Name
		}
	}
	// timer variable
	for _, st := range pre {
		ast.Inspect(st, func(m ast.Node) bool {
			switch m.(type) {
			case *ast.ForStmt, *ast.RangeStmt, *ast.GoStmt, *ast.FuncLit, *ast.SelectStmt:
				whyLoop = append(whyLoop, "a loop / goroutine / select before the loop at "+t.posOf(m))
			}
			return true
		})
		as, ok := st.(*ast.AssignStmt)
		if !ok || len(as.Rhs) != 1 || callPath(as.Rhs[0]) != "time.NewTimer" {
			continue
		}
		id, isId := unparen(as.Lhs[0]).(*ast.Ident)
		if as.Tok != token.DEFINE || len(as.Lhs) != 1 || !isId {
			whyTimer = append(whyTimer, "time.NewTimer is not `timer := time.NewTimer(…)` at "+t.posOf(as))
			continue
		}
		if t.timerVar != nil {
			whyTimer = append(whyTimer, "a second timer at "+t.posOf(as))
		}
		t.timerVar = t.info.Defs[id]
	}
	if t.timerVar == nil {
		whyTimer = append(whyTimer, "no `timer := time.NewTimer(…)` before the loop")
	}
	nNew := 0
	ast.Inspect(fd, func(m ast.Node) bool {
		if c, ok := m.(*ast.CallExpr); ok && selPath(c.Fun) == "time.NewTimer" {
			nNew++
		}
		return true
	})
	if nNew != 1 {
		whyTimer = append(whyTimer, fmt.Sprintf("%d calls of time.NewTimer in %s (expected 1)", nNew, loopFn))
	}
	// loop body shape
	body := fs.Body.List
	ast.Inspect(fs.Body, func(m ast.Node) bool {
		switch x := m.(type) {
		case *ast.BranchStmt:
			whyLoop = append(whyLoop, x.Tok.String()+" inside the loop at "+t.posOf(m))
		case *ast.LabeledStmt, *ast.ForStmt, *ast.RangeStmt, *ast.DeferStmt, *ast.GoStmt, *ast.FuncLit:
			whyLoop = append(whyLoop, fmt.Sprintf("%T inside the loop at %s", m, t.posOf(m)))
		}
		return true
	})
	var sw *ast.SwitchStmt
	var sel *ast.SelectStmt
	if len(body) < 4 {
		whyLoop = append(whyLoop, fmt.Sprintf("the loop body has %d statements (expected: var declarations, the back-off test, the guarded Size(), switch, select)", len(body)))
	} else {
		nb := len(body)
		// … var declarations without values, then `backingOff := <pure>`, then `if !backingOff { …, … = sched.queue.Size() }`
		guardName := ""
		for _, st := range body[:nb-4] {
			ds, ok := st.(*ast.DeclStmt)
			plain := ok
			if ok {
				gd, isGen := ds.Decl.(*ast.GenDecl)
				plain = isGen && gd.Tok == token.VAR
				if plain {
					for _, sp := range gd.Specs {
						if vs, ok := sp.(*ast.ValueSpec); !ok || len(vs.Values) != 0 {
							plain = false
						}
					}
				}
			}
			if !plain {
				whyLoop = append(whyLoop, "a statement before the back-off test that is not a `var` declaration without a value at "+t.posOf(st))
			}
		}
		if as, ok := body[nb-4].(*ast.AssignStmt); ok && as.Tok == token.DEFINE && len(as.Lhs) == 1 && len(as.Rhs) == 1 {
			if id, ok := unparen(as.Lhs[0]).(*ast.Ident); ok {
				guardName = id.Name
			}
		}
		if guardName == "" {
			whyLoop = append(whyLoop, "the statement before the guarded Size() is not `<flag> := <expression>`")
		}
		okGuard := false
		if is, ok := body[nb-3].(*ast.IfStmt); ok && is.Init == nil && is.Else == nil && guardName != "" && exprTextNot(is.Cond) == guardName && len(is.Body.List) == 1 {
			if as, ok := is.Body.List[0].(*ast.AssignStmt); ok && as.Tok == token.ASSIGN && len(as.Rhs) == 1 && callPath(as.Rhs[0]) == r+".queue.Size" {
				okGuard = true
			}
		}
		if !okGuard {
			whyLoop = append(whyLoop, "the loop does not ask the queue by `if !"+guardName+" { … = "+r+".queue.Size() }`")
		}
		nSize := 0
		ast.Inspect(fd, func(m ast.Node) bool {
			if c, ok := m.(*ast.CallExpr); ok && selPath(c.Fun) == r+".queue.Size" {
				nSize++
			}
			return true
		})
		if nSize != 1 {
			whyLoop = append(whyLoop, fmt.Sprintf("%d calls of %s.queue.Size in %s (expected 1)", nSize, r, loopFn))
		}
		sw, _ = body[nb-2].(*ast.SwitchStmt)
		sel, _ = body[nb-1].(*ast.SelectStmt)
		if sw == nil || sw.Tag != nil || sw.Init != nil {
			whyLoop = append(whyLoop, "the last but one statement of the loop is not a tagless switch")
			sw = nil
		}
		if sel == nil {
			whyLoop = append(whyLoop, "the last statement of the loop is not a select")
		}
	}
	// select shape
	var tickC, intrC, doneC *ast.CommClause
	if sel != nil {
		var texts []string
		for _, st := range sel.Body.List {
			cc := st.(*ast.CommClause)
			txt := t.commText(cc)
			texts = append(texts, txt)
			switch txt {
			case "<-timer.C":
				if u, ok := unparen(cc.Comm.(*ast.ExprStmt).X).(*ast.UnaryExpr); ok {
					if se, ok := unparen(u.X).(*ast.SelectorExpr); ok {
						if id, ok := unparen(se.X).(*ast.Ident); ok && t.info.Uses[id] == t.timerVar {
							tickC = cc
						}
					}
				}
			case "<-" + r + ".interrupt":
				intrC = cc
			case "<-" + ctxName + ".Done()":
				doneC = cc
			}
		}
		if len(texts) != 3 || tickC == nil || intrC == nil || doneC == nil {
			whySel = append(whySel, "the cases of the loop's select are ["+strings.Join(texts, "; ")+"]")
		}
	} else {
		whySel = append(whySel, "no select")
	}
	// returns
	var rets []*ast.ReturnStmt
	ast.Inspect(fs.Body, func(m ast.Node) bool {
		if rs, ok := m.(*ast.ReturnStmt); ok {
			rets = append(rets, rs)
		}
		return true
	})
	if len(rets) != 1 || doneC == nil || len(doneC.Body) == 0 || doneC.Body[len(doneC.Body)-1] != ast.Stmt(rets[0]) {
		whyLoop = append(whyLoop, fmt.Sprintf("%d return statements in the loop; the only exit must be the last statement of the ctx.Done() case", len(rets)))
	}
	// timer uses
	if t.timerVar != nil {
		uses, sels := 0, 0
		resetStmts, resetCalls := 0, 0
		ast.Inspect(fd, func(m ast.Node) bool {
			switch x := m.(type) {
			case *ast.Ident:
				if t.info.Uses[x] == t.timerVar {
					uses++
				}
			case *ast.SelectorExpr:
				if id, ok := unparen(x.X).(*ast.Ident); ok && t.info.Uses[id] == t.timerVar {
					switch x.Sel.Name {
					case "Reset", "Stop", "C":
						sels++
					}
					if x.Sel.Name == "Reset" {
						resetCalls++
					}
				}
			case *ast.ExprStmt:
				if stmtCallPath(x) == "timer.Reset" {
					resetStmts++
				}
			}
			return true
		})
		if uses != sels {
			whyTimer = append(whyTimer, "the timer is used other than as timer.Reset / timer.Stop / timer.C")
		}
		if resetCalls != resetStmts {
			whyTimer = append(whyTimer, "timer.Reset is used other than as a statement")
		}
		if t.timerVar.Name() != "timer" {
			whyTimer = append(whyTimer, "the timer variable is not called `timer`")
		}
		if sw != nil {
			hasDefault := false
			for _, st := range sw.Body.List {
				cc := st.(*ast.CaseClause)
				if cc.List == nil {
					hasDefault = true
				}
				nr := 0
				ast.Inspect(cc, func(m ast.Node) bool {
					if c, ok := m.(*ast.CallExpr); ok && selPath(c.Fun) == "timer.Reset" {
						nr++
					}
					return true
				})
				if nr != 1 || len(cc.Body) == 0 || stmtCallPath(cc.Body[len(cc.Body)-1]) != "timer.Reset" {
					whyTimer = append(whyTimer, "the switch case at "+t.posOf(cc)+" does not end with its only timer.Reset")
				}
			}
			if !hasDefault {
				whyTimer = append(whyTimer, "the switch has no default case")
			}
		}
		if intrC != nil {
			b := t.noLog(intrC.Body, r)
			okShape := false
			if len(b) == 1 {
				if is, ok := b[0].(*ast.IfStmt); ok && is.Init == nil && is.Else == nil && exprTextNot(is.Cond) == "timer.Stop()" && len(is.Body.List) == 1 {
					if s2, ok := is.Body.List[0].(*ast.SelectStmt); ok && len(s2.Body.List) == 2 {
						var ts []string
						for _, st := range s2.Body.List {
							cc := st.(*ast.CommClause)
							if len(cc.Body) == 0 {
								ts = append(ts, t.commText(cc))
							}
						}
						sort.Strings(ts)
						okShape = strings.Join(ts, ";") == "<-timer.C;default"
					}
				}
			}
			if !okShape {
				whyTimer = append(whyTimer, "the interrupt case is not `if !timer.Stop() { select { case <-timer.C: default: } }`")
			}
		}
		if tickC != nil {
			ast.Inspect(&ast.BlockStmt{List: tickC.Body}, func(m ast.Node) bool {
				if id, ok := m.(*ast.Ident); ok && t.info.Uses[id] == t.timerVar {
					whyTimer = append(whyTimer, "the tick case touches the timer at "+t.posOf(id))
				}
				return true
			})
		}
		if doneC != nil {
			b := t.noLog(doneC.Body, r)
			if len(b) != 3 || stmtCallPath(b[0]) != "timer.Stop" || stmtCallPath(b[1]) != r+".Reset" {
				whyTimer = append(whyTimer, "the exit case is not `timer.Stop(); "+r+".Reset(); return`")
			}
		}
	}
	// time.Time values
	for _, fi := range t.order {
		ast.Inspect(fi.decl.Body, func(m ast.Node) bool {
			switch x := m.(type) {
			case *ast.CallExpr:
				se, ok := unparen(x.Fun).(*ast.SelectorExpr)
				if !ok {
					return true
				}
				sel := t.info.Selections[se]
				if sel == nil || sel.Kind() != types.MethodVal {
					return true
				}
				if rn := namedOf(sel.Recv()); rn != nil && rn.Obj().Pkg() != nil && rn.Obj().Pkg().Path() == "time" && rn.Obj().Name() == "Time" {
					switch se.Sel.Name {
					case "Add":
						if callPath(se.X) != "time.Now" {
							whyTime = append(whyTime, "Add on a time that is not `time.Now()` at "+t.posOf(x))
						}
					case "Before", "After", "Sub":
					default:
						whyTime = append(whyTime, "time.Time."+se.Sel.Name+" at "+t.posOf(x))
					}
				}
			case *ast.AssignStmt:
				for i, l := range x.Lhs {
					id, ok := unparen(l).(*ast.Ident)
					if !ok {
						continue
					}
					obj := t.info.Uses[id]
					if obj == nil {
						obj = t.info.Defs[id]
					}
					if obj == nil || obj.Type() == nil || obj.Type().String() != "time.Time" {
						continue
					}
					if len(x.Rhs) != len(x.Lhs) {
						whyTime = append(whyTime, "a time.Time variable is assigned from a call with several results at "+t.posOf(x))
						continue
					}
					rc, ok := unparen(x.Rhs[i]).(*ast.CallExpr)
					if !ok {
						whyTime = append(whyTime, "a time.Time variable is assigned something other than time.Now().Add(…)/time.Now() at "+t.posOf(x))
						continue
					}
					se, isSel := unparen(rc.Fun).(*ast.SelectorExpr)
					if selPath(rc.Fun) != "time.Now" && !(isSel && se.Sel.Name == "Add" && callPath(se.X) == "time.Now") {
						whyTime = append(whyTime, "a time.Time variable is assigned something other than time.Now().Add(…)/time.Now() at "+t.posOf(x))
					}
				}
			case *ast.ValueSpec:
				for i, id := range x.Names {
					if obj := t.info.Defs[id]; obj != nil && obj.Type() != nil && obj.Type().String() == "time.Time" && len(x.Values) > i {
						whyTime = append(whyTime, "a time.Time variable with an initialiser at "+t.posOf(x))
					}
				}
			}
			return true
		})
	}
	sort.Strings(whyLoop)
	sort.Strings(whyTimer)
	sort.Strings(whyTime)
	done()
}

// exprTextNot: the text of e in `!e` ("" if the expression is not a negation)
func exprTextNot(e ast.Expr) string {
	u, ok := unparen(e).(*ast.UnaryExpr)
	if !ok || u.Op != token.NOT {
		return ""
	}
	return exprText(u.X)
}

// checkOnce: every input site is read at most once per iteration
func (t *translator) checkOnce() {
	var why []string
	count := map[string]int{}
	for _, fi := range t.order {
		r := t.recvIdent(fi.decl)
		inLoopFn := fi.name == loopFn
		ast.Inspect(fi.decl.Body, func(m ast.Node) bool {
			switch x := m.(type) {
			case *ast.CallExpr:
				p := selPath(x.Fun)
				if r != "" && strings.HasPrefix(p, r+".") && strings.Count(p, ".") == 1 {
					count[strings.TrimPrefix(p, r+".")]++
				}
			case *ast.ForStmt, *ast.RangeStmt:
				if !inLoopFn {
					why = append(why, "a loop in "+fi.name+" at "+t.posOf(m))
				}
			}
			return true
		})
	}
	for _, name := range []string{"calculateNextTick", "executeAndReschedule", "fetchAndReschedule"} {
		if count[name] != 1 {
			why = append(why, fmt.Sprintf("%s is called %d times from the translated functions (expected once)", name, count[name]))
		}
	}
	if count[loopFn] != 0 {
		why = append(why, loopFn+" is called from a translated function")
	}
	sort.Strings(why)
	t.report("once", len(why) == 0, why, "calculateNextTick, executeAndReschedule and fetchAndReschedule are called once per iteration and contain no loop, so every clock reading, select outcome and timer.Stop() result is ONE field of `Inputs`")
}
