// Command gotolean-loop translates the execution loop of the go-quartz
// scheduler (quartz/scheduler.go: Reset, calculateNextTick,
// executeAndReschedule and ONE ITERATION of startExecutionLoop, plus the
// statements before the loop and the loop closed over a list of inputs) from
// the CURRENT working tree into Lean 4 definitions (namespace
// Generated.TransLoop).  The generated file imports Generated.TransSched (the
// output of gotolean-sched) and CALLS its fetchAndReschedule, the getters of
// scheduledJob and its prelude (Err, deref, i64, St, JobQueueExt, TriggerExt);
// nothing of that is translated again.
//
// The output is a function of the source AST: no function body is hard-coded
// here.  Hard-coded are (a) the list of functions, (b) a fixed prelude (Time,
// LEvent, LSt) and (c) a handful of idioms (the loop is `for {}` whose only
// exit is the ctx.Done() case; the shape of its select; the timer object and
// its calls; Reset() is a non-blocking send; every clock reading / select
// outcome / timer.Stop() result is an input site read at most once per
// iteration; context and channel parameters are dropped; the go statement of
// executeAndReschedule), each CHECKED against the source.  A failed check, or
// syntax outside the supported subset inside a listed function, puts an entry
// into `def missing : List String` (and the JSON report) and the function is
// emitted as a comment — never as a guessed body.
//
//	gotolean-loop -repo /repo -out TransLoop.lean -json trans_loop.json
package main

import (
	"crypto/sha256"
	"encoding/json"
	"flag"
	"fmt"
	"go/ast"
	"go/importer"
	"go/parser"
	"go/token"
	"go/types"
	"os"
	"path/filepath"
	"sort"
	"strings"
)

const (
	modulePath = "github.com/reugn/go-quartz"
	csmPath    = modulePath + "/internal/csm"
	loggerPath = modulePath + "/logger"
	quartzPath = modulePath + "/quartz"
)

type pkgInfo struct {
	fset  *token.FileSet
	files []*ast.File
	info  *types.Info
	pkg   *types.Package
	dir   string
}

type chainImporter struct {
	known map[string]*types.Package
	next  types.Importer
}

func (c chainImporter) Import(path string) (*types.Package, error) {
	if p, ok := c.known[path]; ok {
		return p, nil
	}
	return c.next.Import(path)
}

func load(fset *token.FileSet, dir, path string, known map[string]*types.Package) (*pkgInfo, error) {
	pkgs, err := parser.ParseDir(fset, dir, func(fi os.FileInfo) bool { return !strings.HasSuffix(fi.Name(), "_test.go") }, parser.ParseComments)
	if err != nil {
		return nil, err
	}
	var files []*ast.File
	for _, p := range pkgs {
		var names []string
		for n := range p.Files {
			names = append(names, n)
		}
		sort.Strings(names)
		for _, n := range names {
			files = append(files, p.Files[n])
		}
	}
	info := &types.Info{
		Types:      map[ast.Expr]types.TypeAndValue{},
		Uses:       map[*ast.Ident]types.Object{},
		Defs:       map[*ast.Ident]types.Object{},
		Selections: map[*ast.SelectorExpr]*types.Selection{},
		Instances:  map[*ast.Ident]types.Instance{},
	}
	conf := types.Config{
		Importer: chainImporter{known, importer.ForCompiler(fset, "source", nil)},
		Error:    func(error) {}, // tolerate what cannot be resolved offline; untyped expressions fail later, per function
	}
	pkg, _ := conf.Check(path, fset, files, info)
	return &pkgInfo{fset, files, info, pkg, dir}, nil
}

type jsonFn struct {
	Go    string   `json:"go"`
	Lean  string   `json:"lean"`
	Pos   string   `json:"pos"`
	Kind  string   `json:"kind"`
	Arith []string `json:"int64Arithmetic,omitempty"`
	OK    bool     `json:"translated"`
	Why   string   `json:"why,omitempty"`
}

type jsonOut struct {
	Repo      string            `json:"repo"`
	Files     []string          `json:"files"`
	Functions []jsonFn          `json:"functions"`
	Idioms    map[string]string `json:"idioms"`
	Missing   []string          `json:"missing"`
	SHA256    string            `json:"sha256"`
}

func main() {
	repo := flag.String("repo", "/repo", "go-quartz working tree")
	out := flag.String("out", "TransLoop.lean", "Lean output")
	jsonPath := flag.String("json", "", "JSON report")
	flag.Parse()

	fset := token.NewFileSet()
	known := map[string]*types.Package{}
	for _, p := range []struct{ dir, path string }{{"internal/csm", csmPath}, {"logger", loggerPath}} {
		if pi, err := load(fset, filepath.Join(*repo, filepath.FromSlash(p.dir)), p.path, nil); err == nil && pi.pkg != nil {
			known[p.path] = pi.pkg
		}
	}
	qz, err := load(fset, filepath.Join(*repo, "quartz"), quartzPath, known)
	if err != nil {
		fmt.Fprintln(os.Stderr, "gotolean-loop:", err)
		os.Exit(3)
	}

	t := newTranslator(fset, qz, *repo)
	text := t.run()

	if err := os.MkdirAll(filepath.Dir(*out), 0o755); err == nil {
		err = os.WriteFile(*out, []byte(text), 0o644)
	}
	if err != nil {
		fmt.Fprintln(os.Stderr, "gotolean-loop:", err)
		os.Exit(3)
	}
	if *jsonPath != "" {
		jo := jsonOut{Repo: *repo, Files: t.sourceFiles, Idioms: t.idioms, Missing: t.missing, SHA256: fmt.Sprintf("%x", sha256.Sum256([]byte(text)))}
		if jo.Missing == nil {
			jo.Missing = []string{}
		}
		for _, f := range t.order {
			jo.Functions = append(jo.Functions, jsonFn{Go: f.goName, Lean: f.lean, Pos: f.pos, Kind: f.kind.String(), Arith: f.arith, OK: f.err == nil, Why: errString(f.err)})
		}
		b, _ := json.MarshalIndent(jo, "", "  ")
		_ = os.WriteFile(*jsonPath, append(b, '\n'), 0o644)
	}
	fmt.Printf("gotolean-loop: %d functions, %d missing -> %s\n", len(t.order), len(t.missing), *out)
}

func errString(e error) string {
	if e == nil {
		return ""
	}
	return e.Error()
}
