package main

// C15, stale timer tick: with the timer-channel semantics that go.mod's `go 1.21` selects, an expired timer's tick stays in its
// channel when the timer is stopped or reset. The loop interrupts itself after every successful reschedule; if the timer it has
// just armed for the next due job expires before the interrupt branch stops it (a logger that takes a few milliseconds per Trace
// line makes that certain), the tick must be taken out — otherwise it ends a LATER wait at once, also a back-off: a failed Pop
// is retried immediately instead of after RetryInterval.

import (
	"context"
	"fmt"
	"sync"
	"time"

	"github.com/reugn/go-quartz/logger"
	"github.com/reugn/go-quartz/quartz"
)

type slowTraceLogger struct{ logger.Logger }

func (l slowTraceLogger) Trace(msg string, args ...any) { time.Sleep(3 * time.Millisecond) }

type stPopQ struct {
	quartz.JobQueue
	mu     sync.Mutex
	n      int
	failAt int
	starts []time.Time
	ends   []time.Time
	failed []bool
}

func (q *stPopQ) Pop() (quartz.ScheduledJob, error) {
	q.mu.Lock()
	q.n++
	k := q.n
	q.starts = append(q.starts, time.Now())
	q.mu.Unlock()
	var sj quartz.ScheduledJob
	var err error
	if k == q.failAt {
		err = errInjected
	} else {
		sj, err = q.JobQueue.Pop()
	}
	q.mu.Lock()
	q.ends = append(q.ends, time.Now())
	q.failed = append(q.failed, err != nil)
	q.mu.Unlock()
	return sj, err
}

func fqStaleTick(trials int) (viol []string, runs int) {
	const retry = 300 * time.Millisecond
	for t := 0; t < trials; t++ {
		q := &stPopQ{JobQueue: quartz.NewJobQueue(), failAt: 2}
		s, err := quartz.NewStdScheduler(quartz.WithQueue(q, &sync.Mutex{}), quartz.WithRetryInterval(retry),
			quartz.WithOutdatedThreshold(time.Hour), quartz.WithLogger(slowTraceLogger{logger.NoOpLogger{}}))
		if err != nil {
			return append(viol, "C15 harness: "+err.Error()), runs
		}
		for i := 0; i < 3; i++ { // due together; each reschedule (an hour later) is followed by the loop's interrupt of itself
			_ = s.ScheduleJob(quartz.NewJobDetail(&fqNop{}, quartz.NewJobKey(fmt.Sprintf("st%d", i))), &stTrig{})
		}
		ctx, cancel := context.WithCancel(context.Background())
		s.Start(ctx)
		time.Sleep(retry + 250*time.Millisecond)
		cancel()
		s.Stop()
		wctx, wc := context.WithTimeout(context.Background(), 3*time.Second)
		s.Wait(wctx)
		wc()
		runs++
		q.mu.Lock()
		for i := range q.ends {
			if q.failed[i] && i+1 < len(q.starts) {
				if gap := q.starts[i+1].Sub(q.ends[i]); gap < retry-10*time.Millisecond {
					viol = append(viol, fmt.Sprintf("C15 back-off cut short: Pop failed and was called again %v later (RetryInterval %v); three jobs due together, a logger that takes 3 ms per Trace line: a stale timer tick ended the back-off wait (trial %d)", gap.Round(time.Microsecond), retry, t))
				}
			}
		}
		q.mu.Unlock()
		if len(viol) > 0 {
			break
		}
	}
	return viol, runs
}

// stTrig: first fire time now, then an hour later each time (so that every Pop is followed by a successful reschedule).
type stTrig struct{ asked int }

func (t *stTrig) NextFireTime(prev int64) (int64, error) {
	t.asked++
	if t.asked == 1 {
		return prev, nil
	}
	return prev + int64(time.Hour), nil
}
func (t *stTrig) Description() string { return "stale-tick" }
