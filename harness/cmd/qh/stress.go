package main

import (
	"context"
	"errors"
	"flag"
	"fmt"
	"math/rand"
	"os"
	"runtime"
	"sort"
	"strings"
	"sync"
	"sync/atomic"
	"time"

	"github.com/reugn/go-quartz/quartz"
)

func init() { commands["stress"] = stressRun }

type stCall struct {
	prev, res, at int64
	inst          int  // which trigger instance of the job was asked (every ScheduleJob of the storm passes a new one)
	err           bool // the instance answered with its end-of-schedule error (res is meaningless)
	api           bool // asked by ResumeJob / ScheduleJob themselves (they are on the call stack), not by the execution loop
}

// calledFromAPI reports whether the public ResumeJob or ScheduleJob of the scheduler is on the caller's stack: these calls ask the
// trigger themselves (and, with a trigger that has ended, fail and leave the job as it was).
func calledFromAPI() bool {
	var pcs [24]uintptr
	n := runtime.Callers(2, pcs[:])
	frames := runtime.CallersFrames(pcs[:n])
	for {
		f, more := frames.Next()
		if strings.HasSuffix(f.Function, "(*StdScheduler).ResumeJob") || strings.HasSuffix(f.Function, "(*StdScheduler).ScheduleJob") {
			return true
		}
		if !more {
			return false
		}
	}
}

// errStDone is a trigger's own way of saying "no further fire time" (deliberately not quartz.ErrTriggerExpired).
var errStDone = errors.New("stress harness: schedule of this trigger is complete")

// stInst is one trigger instance of a job: it answers like its parent (prev + interval) at most `left` times (-1: for ever) and
// then ends with endErr; every call is recorded in the parent's log. All instances have the same Description().
type stInst struct {
	parent *stTrigger
	id     int
	left   int
	endErr error
}

func (t *stInst) NextFireTime(prev int64) (int64, error) {
	p := t.parent
	if p.slow {
		spin(30 * time.Microsecond)
	}
	api := calledFromAPI()
	p.mu.Lock()
	defer p.mu.Unlock()
	if t.left == 0 {
		p.calls = append(p.calls, stCall{prev, 0, quartz.NowNano(), t.id, true, api})
		return 0, t.endErr
	}
	if t.left > 0 {
		t.left--
	}
	res := prev + p.interval
	p.calls = append(p.calls, stCall{prev, res, quartz.NowNano(), t.id, false, api})
	return res, nil
}
func (t *stInst) Description() string { return "st" }

// stTrigger behaves like a SimpleTrigger and records every call with the clock reading at the call.
type stTrigger struct {
	interval int64
	slow     bool // computing the fire time takes a moment (user code): widens the loop's pop -> ask-the-trigger -> push step
	mu       sync.Mutex
	calls    []stCall
}

func (t *stTrigger) NextFireTime(prev int64) (int64, error) {
	if t.slow {
		spin(30 * time.Microsecond)
	}
	res := prev + t.interval
	t.mu.Lock()
	t.calls = append(t.calls, stCall{prev, res, quartz.NowNano(), 0, false, false})
	t.mu.Unlock()
	return res, nil
}
func (t *stTrigger) Description() string { return "st" }

type stJob struct {
	mu        sync.Mutex
	execs     []int64
	r         *rand.Rand
	maxMicros int
}

func (j *stJob) Execute(ctx context.Context) error {
	now := quartz.NowNano()
	j.mu.Lock()
	j.execs = append(j.execs, now)
	d := time.Duration(j.r.Intn(j.maxMicros)) * time.Microsecond
	j.mu.Unlock()
	select {
	case <-time.After(d):
	case <-ctx.Done():
	}
	return nil
}
func (j *stJob) Description() string { return "stjob" }

type apiEvent struct {
	kind     string // pause delete resume schedule
	inv, ret int64
	ok       bool
}

// stressRun: real concurrent runs (execution modes x 1-3 schedulers sharing one queue and lock) with
// pause/resume/delete/reschedule storms; the recorded trigger calls, executions and API returns are
// judged against C03 (never early, own fire time, at most once) and C08 (no consumption while paused
// or deleted). Observation of the real code under real interleavings; the theorems are about the model.
func stressRun(args []string) int {
	fs := flag.NewFlagSet("stress", flag.ExitOnError)
	seed := fs.Int64("seed", 1, "")
	n := fs.Int("n", 9, "runs")
	dur := fs.Duration("dur", 500*time.Millisecond, "storm duration per run")
	out := fs.String("out", "", "")
	fs.Parse(args)
	r := rand.New(rand.NewSource(*seed))
	viol := []string{}
	dist := map[string]map[string]int{"mode": {}, "schedulers": {}, "events": {}}
	evals, nontrivial := 0, 0
	flagV := func(s string) {
		if len(viol) < 20 {
			viol = append(viol, s)
		}
	}
	for mode := 0; mode < 3; mode++ {
		for _, api := range []string{"clear", "delete", "pause"} {
			vs, ok := stressDuringTrigger(mode, api)
			if ok {
				evals++
				dist["events"]["during-trigger:"+api]++
			}
			for _, v := range vs {
				flagV(v)
			}
		}
	}
	// ResumeJob on a contended queue lock (a sync.Locker with latency), PauseJob from a second goroutine in between: the four
	// configurations side by side (each takes about 0.2 s of waiting)
	{
		type rc struct {
			mode    int
			vs      []string
			reached bool
		}
		ch := make(chan rc, 4)
		for _, m := range []int{-1, 0, 1, 2} {
			go func(m int) {
				var out rc
				out.mode = m
				for try := 0; try < 3 && !out.reached; try++ {
					out.vs, out.reached = stressResumeContention(m)
				}
				ch <- out
			}(m)
		}
		for i := 0; i < 4; i++ {
			out := <-ch
			if out.reached {
				evals++
				dist["events"]["resume-on-contended-lock:reached"]++
			} else {
				dist["events"]["resume-on-contended-lock:not-reached"]++
			}
			for _, v := range out.vs {
				flagV(v)
			}
		}
	}
	for run := 0; run < *n; run++ {
		mode := run % 3
		k := 1 + (run/3)%3
		var q quartz.JobQueue = quartz.NewJobQueue()
		if run%2 == 0 { // a slow (contract-abiding) queue widens the window between the loop's Pop and Push
			q = &slowQ{JobQueue: q}
		}
		lk := &sync.Mutex{}
		// "jobs scheduled before Start, fire times already in the past": in some runs the schedulers are started 350 ms after the jobs
		// were scheduled, i.e. later than OutdatedThreshold (300 ms) plus several periods: a misfire that spans more than one occurrence
		late := run%4 == 3
		var scheds []quartz.Scheduler
		ctx, cancel := context.WithCancel(context.Background())
		for i := 0; i < k; i++ {
			opts := []quartz.SchedulerOpt{quartz.WithQueue(q, lk), quartz.WithOutdatedThreshold(300 * time.Millisecond)}
			switch mode {
			case 0:
				opts = append(opts, quartz.WithBlockingExecution())
			case 1:
				opts = append(opts, quartz.WithWorkerLimit(2))
			}
			s, err := quartz.NewStdScheduler(opts...)
			must(err)
			if !late {
				s.Start(ctx)
			}
			scheds = append(scheds, s)
		}
		const J = 6
		trigs := make([]*stTrigger, J)
		jobs := make([]*stJob, J)
		dets := make([]*quartz.JobDetail, J)
		events := make([][]apiEvent, J)
		// every ScheduleJob passes a new trigger instance: two in three answer for ever, the others have 1, 2, 4 or 16 fire times and
		// then end with an error of their own (bare / wrapped) or with quartz.ErrTriggerExpired
		ninst := 0
		newInst := func(j int) *stInst {
			ninst++
			in := &stInst{parent: trigs[j], id: ninst, left: -1}
			kind := "endless"
			if r.Intn(3) == 0 {
				in.left = []int{1, 2, 4, 16}[r.Intn(4)]
				ek := r.Intn(3)
				in.endErr = []error{errStDone, fmt.Errorf("no more fire times: %w", errStDone), quartz.ErrTriggerExpired}[ek]
				kind = "finite:" + []string{"own-error", "own-error-wrapped", "expired"}[ek]
			}
			dist["events"]["trigger-instance:"+kind]++
			return in
		}
		for j := 0; j < J; j++ {
			trigs[j] = &stTrigger{interval: int64(time.Duration(3+r.Intn(15)) * time.Millisecond), slow: run%2 == 1}
			jobs[j] = &stJob{r: rand.New(rand.NewSource(*seed*1000 + int64(run*10+j))), maxMicros: 1500}
			if mode == 1 && run%2 == 1 { // long executions saturate the pool of two workers
				jobs[j].maxMicros = 9000
			}
			o := quartz.NewDefaultJobDetailOptions()
			o.Replace = true
			dets[j] = quartz.NewJobDetailWithOptions(jobs[j], quartz.NewJobKeyWithGroup(fmt.Sprintf("j%d", j), "stress"), o)
			inv := quartz.NowNano()
			err := scheds[0].ScheduleJob(dets[j], newInst(j))
			events[j] = append(events[j], apiEvent{"schedule", inv, quartz.NowNano(), err == nil})
		}
		if late {
			time.Sleep(350 * time.Millisecond)
			for _, s := range scheds {
				s.Start(ctx)
			}
			dist["events"]["late-start"]++
		}
		end := time.Now().Add(*dur)
		for time.Now().Before(end) {
			j := r.Intn(J)
			s := scheds[r.Intn(k)]
			key := dets[j].JobKey()
			kind := []string{"pause", "pause", "resume", "resume", "delete", "schedule"}[r.Intn(6)]
			if r.Intn(25) == 0 { // Clear affects every job
				inv := quartz.NowNano()
				err := s.Clear()
				ret := quartz.NowNano()
				for jj := 0; jj < J; jj++ {
					events[jj] = append(events[jj], apiEvent{"delete", inv, ret, err == nil})
				}
				dist["events"]["clear:"+b01(err == nil)]++
				time.Sleep(time.Duration(r.Intn(3000)) * time.Microsecond)
				continue
			}
			inv := quartz.NowNano()
			var err error
			switch kind {
			case "pause":
				err = s.PauseJob(key)
			case "resume":
				err = s.ResumeJob(key)
			case "delete":
				err = s.DeleteJob(key)
			case "schedule":
				dets[j].Options().Suspended = false
				in := newInst(j)
				inv = quartz.NowNano()
				err = s.ScheduleJob(dets[j], in)
			}
			events[j] = append(events[j], apiEvent{kind, inv, quartz.NowNano(), err == nil})
			dist["events"][kind+":"+b01(err == nil)]++
			time.Sleep(time.Duration(r.Intn(3000)) * time.Microsecond)
		}
		cancel()
		for _, s := range scheds {
			s.Stop()
		}
		wctx, wc := context.WithTimeout(context.Background(), 5*time.Second)
		for _, s := range scheds {
			s.Wait(wctx)
		}
		wc()
		dist["mode"][[]string{"blocking", "workers", "unbounded"}[mode]]++
		dist["schedulers"][fmt.Sprint(k)]++
		for j := 0; j < J; j++ {
			tr := trigs[j]
			tr.mu.Lock()
			calls := append([]stCall{}, tr.calls...)
			tr.mu.Unlock()
			jobs[j].mu.Lock()
			execs := append([]int64{}, jobs[j].execs...)
			jobs[j].mu.Unlock()
			evals += len(calls) + len(execs)
			// a fire time is an answer of the SAME trigger instance: an entry that runs at a time which another instance (the trigger
			// it replaced) or nobody produced is not consumed, and its execution shows up below as one without a fire time
			type instTime struct {
				inst int
				t    int64
			}
			results := map[instTime]bool{}
			var consumed []int64 // fire times handed back to the trigger = consumed by an on-time dispatch
			seenPrev := map[instTime]bool{}
			for _, c := range calls {
				if results[instTime{c.inst, c.prev}] {
					if seenPrev[instTime{c.inst, c.prev}] {
						flagV(fmt.Sprintf("C03 fire time %d of job j%d was consumed twice (mode %d, %d schedulers)", c.prev, j, mode, k))
					}
					seenPrev[instTime{c.inst, c.prev}] = true
					consumed = append(consumed, c.prev)
				}
				if !c.err {
					results[instTime{c.inst, c.res}] = true
				}
			}
			if len(consumed)-len(execs) > k+2 {
				// an on-time dispatch hands the fire time back to the trigger first and then executes; at shutdown at most one
				// dispatch per scheduler (plus the pool hand-off in progress) may be abandoned
				flagV(fmt.Sprintf("C04 %d fire times of job j%d were consumed as on time but only %d executions started: fire times were silently dropped (mode %d, %d schedulers)", len(consumed), j, len(execs), mode, k))
			}
			if len(execs) > len(consumed) {
				flagV(fmt.Sprintf("C03 job j%d executed %d times but only %d of its trigger's fire times were consumed (mode %d, %d schedulers)", j, len(execs), len(consumed), mode, k))
			}
			sort.Slice(execs, func(a, b int) bool { return execs[a] < execs[b] })
			sort.Slice(consumed, func(a, b int) bool { return consumed[a] < consumed[b] })
			for i := range execs {
				if i < len(consumed) && execs[i] < consumed[i] {
					flagV(fmt.Sprintf("C03 job j%d started %d ns before its fire time (mode %d, %d schedulers)", j, consumed[i]-execs[i], mode, k))
					break
				}
			}
			// C08: no trigger call strictly inside a window in which the job is definitely paused or deleted
			var inactiveFrom int64 = -1
			for _, e := range events[j] {
				if !e.ok {
					continue
				}
				switch e.kind {
				case "pause", "delete":
					if inactiveFrom < 0 {
						inactiveFrom = e.ret
					}
				case "resume", "schedule":
					if inactiveFrom >= 0 {
						for _, c := range calls {
							if c.at > inactiveFrom && c.at < e.inv && !c.api { // (a ResumeJob / ScheduleJob that failed on an ended trigger has asked it: not the loop)
								flagV(fmt.Sprintf("C08 trigger of job j%d was asked for a fire time %d ns after Pause/Delete had returned and before it was resumed (mode %d, %d schedulers)", j, c.at-inactiveFrom, mode, k))
							}
						}
						inactiveFrom = -1
					}
				}
			}
			if inactiveFrom >= 0 {
				for _, c := range calls {
					if c.at > inactiveFrom && !c.api {
						flagV(fmt.Sprintf("C08 trigger of job j%d was asked for a fire time after Pause/Delete had returned (mode %d, %d schedulers)", j, mode, k))
					}
				}
			}
			if len(execs) > 2 {
				nontrivial++
			}
		}
	}
	if os.Getenv("GODEBUG") != "" {
		dist["mode"]["GODEBUG="+os.Getenv("GODEBUG")] = *n
	}
	writeJSON(*out+"/stats.json", map[string]any{"seed": *seed, "evaluations": evals, "distinct_nontrivial": nontrivial, "runs": *n,
		"distribution": dist, "violations": viol})
	fmt.Printf("stress: %d runs, %d recorded trigger calls + executions, %d violations\n", *n, evals, len(viol))
	return 0
}

// ---- API call while the loop is asking a trigger --------------------------------------------------------------------------
// The loop's pop / classify / ask-the-trigger / push step is one critical section. Here the trigger of a firing job holds the
// loop inside NextFireTime while Clear / DeleteJob / PauseJob is called: the call must wait for the step to finish (so that it
// acts on the re-queued entry); once it has returned successfully, the job's trigger is never asked again and nothing of the
// job is executed (beyond the one execution that was already dequeued) — C08; and the entry pushed by the loop must not
// resurrect a deleted job — C03 ("only in response to a fire time of its own trigger" of a job that is scheduled).

type holdTrigger struct {
	interval int64
	mu       sync.Mutex
	calls    int
	hold     bool          // the next call from the loop blocks
	inside   chan struct{} // signalled when a call is blocked
	release  chan struct{}
}

func (t *holdTrigger) NextFireTime(prev int64) (int64, error) {
	t.mu.Lock()
	t.calls++
	h := t.hold
	t.hold = false
	t.mu.Unlock()
	if h {
		t.inside <- struct{}{}
		select {
		case <-t.release:
		case <-time.After(2 * time.Second):
		}
	}
	return prev + t.interval, nil
}
func (t *holdTrigger) Description() string { return "hold" }
func (t *holdTrigger) n() int              { t.mu.Lock(); defer t.mu.Unlock(); return t.calls }

func stressDuringTrigger(mode int, api string) (viol []string, ok bool) {
	opts := []quartz.SchedulerOpt{quartz.WithOutdatedThreshold(time.Minute)}
	switch mode {
	case 0:
		opts = append(opts, quartz.WithBlockingExecution())
	case 1:
		opts = append(opts, quartz.WithWorkerLimit(2))
	}
	s, err := quartz.NewStdScheduler(opts...)
	must(err)
	ctx, cancel := context.WithCancel(context.Background())
	defer cancel()
	s.Start(ctx)
	defer func() {
		s.Stop()
		wctx, wc := context.WithTimeout(context.Background(), 3*time.Second)
		s.Wait(wctx)
		wc()
	}()
	var execs atomic.Int64
	job := &fnJob{f: func() { execs.Add(1) }}
	key := quartz.NewJobKey("held")
	t := &holdTrigger{interval: int64(3 * time.Millisecond), inside: make(chan struct{}, 1), release: make(chan struct{})}
	must(s.ScheduleJob(quartz.NewJobDetail(job, key), t))
	time.Sleep(10 * time.Millisecond) // let it fire a few times
	t.mu.Lock()
	t.hold = true
	t.mu.Unlock()
	select {
	case <-t.inside:
	case <-time.After(2 * time.Second):
		return nil, false
	}
	// the loop is inside NextFireTime now, between its Pop and its Push
	done := make(chan error, 1)
	go func() {
		switch api {
		case "clear":
			done <- s.Clear()
		case "delete":
			done <- s.DeleteJob(key)
		default:
			done <- s.PauseJob(key)
		}
	}()
	early := false
	var apiErr error
	select {
	case apiErr = <-done:
		early = true
	case <-time.After(15 * time.Millisecond):
	}
	close(t.release)
	if !early {
		select {
		case apiErr = <-done:
		case <-time.After(3 * time.Second):
			return []string{fmt.Sprintf("C08 %s did not return within 3 s after the loop's step had finished (mode %d)", api, mode)}, true
		}
	}
	desc := fmt.Sprintf("%s called while the execution loop was asking the job's trigger for the next fire time (between its Pop and its Push), mode %d", api, mode)
	if apiErr != nil {
		// the call did not see the job (it was out of the queue): with an atomic step this cannot happen for delete / pause
		if api != "clear" {
			viol = append(viol, fmt.Sprintf("C08 %s returned %q for a job that is scheduled and firing: the call ran in the middle of the loop's pop/classify/push step [%s]", api, apiErr.Error(), desc))
		}
		return viol, true
	}
	c0, e0 := t.n(), execs.Load()
	time.Sleep(40 * time.Millisecond)
	c1, e1 := t.n(), execs.Load()
	if e1 == e0+1 { // the one execution that had been dequeued before the call may still start
		e1 = e0
	}
	keys, _ := s.GetJobKeys()
	if c1 != c0 {
		viol = append(viol, fmt.Sprintf("C08 the job's trigger was asked %d more time(s) in the 40 ms after %s had returned successfully [%s]", c1-c0, api, desc))
	}
	// (execution STARTS are judged in blocking mode only: elsewhere every execution dequeued before the call got the lock may
	// still start afterwards, and the loop may run several catch-up steps before a waiting call gets the lock — decision 7)
	if e1 != e0 && mode == 0 {
		viol = append(viol, fmt.Sprintf("C03 %d execution(s) of the job started in the 40 ms after %s had returned successfully: a job that is no longer scheduled (or is paused) was run [%s]", e1-e0, api, desc))
	}
	if api != "pause" && len(keys) != 0 {
		viol = append(viol, fmt.Sprintf("C08 the registry still lists %d job(s) after %s had returned successfully: the loop pushed the job back [%s]", len(keys), api, desc))
	}
	return viol, true
}

type fnJob struct{ f func() }

func (j *fnJob) Execute(context.Context) error { j.f(); return nil }
func (j *fnJob) Description() string           { return "fn" }
