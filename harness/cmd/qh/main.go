// Command qh is the Go side of the verification harness: it drives the real
// go-quartz code through its public API and records what it does.
package main

import (
	"fmt"
	"os"
)

var commands = map[string]func(args []string) int{}

func main() {
	if len(os.Args) < 2 {
		fmt.Fprintln(os.Stderr, "usage: qh <command> [flags]")
		for k := range commands {
			fmt.Fprintln(os.Stderr, "  ", k)
		}
		os.Exit(2)
	}
	f, ok := commands[os.Args[1]]
	if !ok {
		fmt.Fprintln(os.Stderr, "unknown command", os.Args[1])
		os.Exit(2)
	}
	os.Exit(f(os.Args[2:]))
}
