package main

// qh jobs — property C16: FunctionJob, ShellJob and CurlJob report the outcome of their most recent completed
// execution faithfully, a callback runs once per execution, cancellation aborts a running execution, and
// repeated execution does not accumulate goroutines, processes, descriptors or open response bodies.
//
// Everything goes through the public API of package job. Every status decision (and every step of a sequence of
// executions on ONE job object) is also written as a protocol line for the Lean model (`jobs …` engine):
// ops.txt / impl.txt. The verdicts in stats.json ("violations") are judged here against the property itself.

import (
	"context"
	"errors"
	"flag"
	"fmt"
	"io"
	"math/rand"
	"net"
	"net/http"
	"net/http/httptest"
	"os"
	"os/exec"
	"path/filepath"
	"runtime"
	"strconv"
	"strings"
	"sync"
	"sync/atomic"
	"time"

	"github.com/reugn/go-quartz/job"
	qlogger "github.com/reugn/go-quartz/logger"
	"github.com/reugn/go-quartz/quartz"
)

func init() { commands["jobs"] = jobsRun }

type jbRun struct {
	ops, impl []string
	viol      []string
	notes     []string
	samples   []any
	dist      map[string]map[string]int
	seen      map[string]bool
	timings   map[string]float64
}

func (r *jbRun) flag(format string, a ...any) {
	if len(r.viol) < 40 {
		r.viol = append(r.viol, "C16 "+fmt.Sprintf(format, a...))
	}
}

func (r *jbRun) rec(op, ans string) {
	r.ops = append(r.ops, op)
	r.impl = append(r.impl, ans)
	r.seen[op] = true
}

func (r *jbRun) count(table, bucket string) {
	if r.dist[table] == nil {
		r.dist[table] = map[string]int{}
	}
	r.dist[table][bucket]++
}

func jbStatus(s job.Status) string {
	switch s {
	case job.StatusNA:
		return "na"
	case job.StatusOK:
		return "ok"
	case job.StatusFailure:
		return "failure"
	}
	return fmt.Sprintf("status(%d)", int(s))
}

func jbB01(b bool) string {
	if b {
		return "1"
	}
	return "0"
}

func jbErrHex(err error) string {
	if err == nil {
		return "nil"
	}
	return hexArg(err.Error())
}

// ---------------------------------------------------------------------------------------------- scripted HTTP client

type jbBody struct {
	id     int
	closes int32
	reads  int32
}

func (b *jbBody) Read(p []byte) (int, error) { atomic.AddInt32(&b.reads, 1); return 0, io.EOF }
func (b *jbBody) Close() error               { atomic.AddInt32(&b.closes, 1); return nil }

type jbCurlOutcome struct {
	code    int  // -1 = nil response
	body    bool // response has a (closable) Body
	err     bool
	errText string
}

// jbScriptClient implements job.HTTPHandler: every Do plays the next outcome of the script.
type jbScriptClient struct {
	mu      sync.Mutex
	script  []jbCurlOutcome
	next    int
	bodies  []*jbBody
	errs    []error
	lastReq *http.Request
}

func (c *jbScriptClient) Do(req *http.Request) (*http.Response, error) {
	c.mu.Lock()
	defer c.mu.Unlock()
	o := c.script[c.next%len(c.script)]
	c.next++
	c.lastReq = req
	var err error
	if o.err {
		err = fmt.Errorf("scripted transport error #%d %s", c.next, o.errText)
	}
	c.errs = append(c.errs, err)
	if o.code < 0 {
		return nil, err
	}
	resp := &http.Response{StatusCode: o.code, Status: fmt.Sprintf("%d %s", o.code, http.StatusText(o.code)),
		Proto: "HTTP/1.1", ProtoMajor: 1, ProtoMinor: 1, Header: http.Header{}, Request: req}
	if o.body {
		b := &jbBody{id: len(c.bodies) + 1}
		c.bodies = append(c.bodies, b)
		resp.Body = b
	}
	return resp, err
}

func (c *jbScriptClient) counts() (open, closes, doubleClosed int) {
	c.mu.Lock()
	defer c.mu.Unlock()
	for _, b := range c.bodies {
		n := int(atomic.LoadInt32(&b.closes))
		closes += n
		if n == 0 {
			open++
		}
		if n > 1 {
			doubleClosed++
		}
	}
	return
}

// storedCode reads the status code of the response the job currently holds through DumpResponse ("nil" = none).
func jbStoredCode(cj *job.CurlJob) string {
	d, err := cj.DumpResponse(false)
	if err != nil {
		return "nil"
	}
	f := strings.Fields(string(d))
	if len(f) < 2 {
		return "unparsable"
	}
	n, err := strconv.Atoi(f[1])
	if err != nil {
		return "unparsable"
	}
	return strconv.Itoa(n)
}

func jbRequest(url string) *http.Request {
	req, err := http.NewRequest(http.MethodGet, url, nil)
	must(err)
	return req
}

func jbCodeOK(code int) bool { return code >= 200 && code <= 399 }

// ---------------------------------------------------------------------------------------------- counting wrapper (real client)

type jbCountingBody struct {
	io.ReadCloser
	open *int64
	once sync.Once
}

func (b *jbCountingBody) Close() error {
	b.once.Do(func() { atomic.AddInt64(b.open, -1) })
	return b.ReadCloser.Close()
}

// jbCountingClient wraps a real *http.Client and counts response bodies that were handed out and not closed.
type jbCountingClient struct {
	inner *http.Client
	open  int64
	total int64
}

func (c *jbCountingClient) Do(req *http.Request) (*http.Response, error) {
	resp, err := c.inner.Do(req)
	if resp != nil && resp.Body != nil {
		atomic.AddInt64(&c.open, 1)
		atomic.AddInt64(&c.total, 1)
		resp.Body = &jbCountingBody{ReadCloser: resp.Body, open: &c.open}
	}
	return resp, err
}

// ---------------------------------------------------------------------------------------------- process helpers

func jbChildren() int {
	ents, err := os.ReadDir("/proc")
	if err != nil {
		return -1
	}
	me := os.Getpid()
	n := 0
	for _, e := range ents {
		if _, err := strconv.Atoi(e.Name()); err != nil {
			continue
		}
		b, err := os.ReadFile("/proc/" + e.Name() + "/stat")
		if err != nil {
			continue
		}
		s := string(b)
		i := strings.LastIndexByte(s, ')')
		if i < 0 {
			continue
		}
		f := strings.Fields(s[i+1:])
		if len(f) >= 2 {
			if ppid, _ := strconv.Atoi(f[1]); ppid == me {
				n++
			}
		}
	}
	return n
}

func jbFDs() int {
	ents, err := os.ReadDir("/proc/self/fd")
	if err != nil {
		return -1
	}
	return len(ents)
}

// jbSettle waits until the goroutine count is at most target (or the deadline passes) and returns the last count.
func jbSettle(target int, d time.Duration) int {
	deadline := time.Now().Add(d)
	for {
		n := runtime.NumGoroutine()
		if n <= target || time.Now().After(deadline) {
			return n
		}
		time.Sleep(5 * time.Millisecond)
	}
}

func jbSettleChildren(d time.Duration) int {
	deadline := time.Now().Add(d)
	for {
		n := jbChildren()
		if n <= 0 || time.Now().After(deadline) {
			return n
		}
		time.Sleep(5 * time.Millisecond)
	}
}

const jbSlack = 6 // goroutines / descriptors that may come and go (idle keep-alive connections, runtime helpers)

// ---------------------------------------------------------------------------------------------- the run

func jobsRun(args []string) int {
	fs := flag.NewFlagSet("jobs", flag.ExitOnError)
	seed := fs.Int64("seed", 1, "")
	nseq := fs.Int("n", 40, "number of random execution sequences per job kind")
	out := fs.String("out", "", "")
	leakN := fs.Int("leak", 300, "sequential executions of the leak check (compared with a third of it)")
	maxCode := fs.Int("maxcode", 1100, "scripted HTTP status codes 0..maxcode")
	skipShell := fs.Bool("noshell", false, "skip everything that spawns processes")
	fs.Parse(args)
	rng := rand.New(rand.NewSource(*seed))
	r := &jbRun{dist: map[string]map[string]int{}, seen: map[string]bool{}, timings: map[string]float64{}, notes: []string{}, samples: []any{}}
	tmp, err := os.MkdirTemp("", "qh-jobs-")
	must(err)
	defer os.RemoveAll(tmp)
	phase := func(name string, f func()) {
		t := time.Now()
		f()
		r.timings[name] = time.Since(t).Seconds()
	}
	bg := context.Background()

	phase("function", func() { jbFunction(r, bg) })
	phase("curl-scripted", func() { jbCurlScripted(r, bg, *maxCode) })
	phase("curl-loopback", func() { jbCurlLoopback(r, bg) })
	if !*skipShell {
		phase("shell", func() { jbShell(r, bg) })
	}
	phase("sequences", func() { jbSequences(r, bg, rng, *nseq, tmp, *skipShell) })
	phase("concurrent", func() { jbConcurrent(r, bg, tmp, *skipShell) })
	phase("overlap", func() { jbOverlap(r, bg, rng) })
	phase("cancel", func() { jbCancel(r, *skipShell) })
	phase("contexts", func() { jbContexts(r) })
	phase("ended-context", func() { jbEnded(r) })
	phase("leak", func() { jbLeak(r, bg, *leakN, *skipShell) })
	// last: on a defective tree this phase leaves goroutines blocked for ever, which must not disturb the counts of the leak phase
	phase("panicking-handler", func() { jbPanickingHandler(r, bg, rng) })

	writeLines(*out+"/ops.txt", r.ops)
	writeLines(*out+"/impl.txt", r.impl)
	writeJSON(*out+"/stats.json", map[string]any{"seed": *seed, "evaluations": len(r.ops), "distinct_nontrivial": len(r.seen),
		"distribution": r.dist, "violations": append([]string{}, r.viol...), "samples": r.samples, "notes": r.notes, "timings_s": r.timings})
	fmt.Printf("jobs: %d evaluations (%d distinct), %d property violations\n", len(r.ops), len(r.seen), len(r.viol))
	return 0
}

// ---------------------------------------------------------------------------------------------- FunctionJob

type jbPoint struct{ X, Y int }

func jbFunctionCase[R comparable](r *jbRun, ctx context.Context, kind string, result R, ferr error) {
	var zero R
	calls := 0
	fj := job.NewFunctionJob(func(context.Context) (R, error) { calls++; return result, ferr })
	if fj.JobStatus() != job.StatusNA {
		r.flag("FunctionJob[%s] status before any execution is %s, want na", kind, jbStatus(fj.JobStatus()))
	}
	ret := fj.Execute(ctx)
	st, res, e := fj.JobStatus(), fj.Result(), fj.Error()
	r.rec("jobs function "+jbB01(ferr != nil), jbStatus(st))
	r.count("function", kind+":"+map[bool]string{true: "err", false: "nil"}[ferr != nil])
	what := fmt.Sprintf("FunctionJob[%s] function returned (%v, %v):", kind, result, ferr)
	if calls != 1 {
		r.flag("%s the function was called %d times by one Execute", what, calls)
	}
	if ret != ferr {
		r.flag("%s Execute returned %v, not the function's error", what, ret)
	}
	if e != ferr {
		r.flag("%s Error() = %v", what, e)
	}
	if (st == job.StatusOK) != (ferr == nil) || st == job.StatusNA {
		r.flag("%s JobStatus() = %s", what, jbStatus(st))
	}
	if ferr == nil && res != result {
		r.flag("%s Result() = %v", what, res)
	}
	if ferr != nil && res != zero {
		r.flag("%s Result() = %v after a failed execution, want the zero value", what, res)
	}
}

func jbFunction(r *jbRun, ctx context.Context) {
	e1, e2 := errors.New("boom"), fmt.Errorf("wrapped: %w", context.DeadlineExceeded)
	for _, ferr := range []error{nil, e1, e2} {
		for _, v := range []int{0, 1, -7, 1 << 40} {
			jbFunctionCase(r, ctx, "int", v, ferr)
		}
		for _, v := range []string{"", "x", "two words", "é\n"} {
			jbFunctionCase(r, ctx, "string", v, ferr)
		}
		for _, v := range []bool{false, true} {
			jbFunctionCase(r, ctx, "bool", v, ferr)
		}
		p := &jbPoint{1, 2}
		for _, v := range []*jbPoint{nil, p} {
			jbFunctionCase(r, ctx, "ptr", v, ferr)
		}
		for _, v := range []jbPoint{{}, {3, 4}} {
			jbFunctionCase(r, ctx, "struct", v, ferr)
		}
		for _, v := range []any{nil, 5, "s"} {
			jbFunctionCase(r, ctx, "any", v, ferr)
		}
	}
}

// ---------------------------------------------------------------------------------------------- CurlJob, scripted handler

func jbCurlOne(r *jbRun, ctx context.Context, o jbCurlOutcome, table string) {
	cl := &jbScriptClient{script: []jbCurlOutcome{o}}
	cbs := 0
	var cbStatus job.Status
	cj := job.NewCurlJobWithOptions(jbRequest("http://scripted.invalid/x"), job.CurlJobOptions{HTTPClient: cl,
		Callback: func(_ context.Context, j *job.CurlJob) { cbs++; cbStatus = j.JobStatus() }})
	if cj.JobStatus() != job.StatusNA {
		r.flag("CurlJob status before any execution is %s, want na", jbStatus(cj.JobStatus()))
	}
	ret := cj.Execute(ctx)
	st := cj.JobStatus()
	code := "nil"
	if o.code >= 0 {
		code = strconv.Itoa(o.code)
	}
	r.rec(fmt.Sprintf("jobs curl %s %s", code, jbB01(o.err)), jbStatus(st))
	switch {
	case o.code < 0:
		r.count(table, "nil-response")
	default:
		r.count(table, fmt.Sprintf("%dxx", min(o.code/100, 10)))
	}
	what := fmt.Sprintf("CurlJob scripted response code=%s body=%v err=%v:", code, o.body, o.err)
	want := o.code >= 0 && jbCodeOK(o.code)
	if (st == job.StatusOK) != want || st == job.StatusNA {
		r.flag("%s JobStatus() = %s", what, jbStatus(st))
	}
	if ret != cl.errs[0] {
		r.flag("%s Execute returned %v, the handler returned %v", what, ret, cl.errs[0])
	}
	if got := jbStoredCode(cj); got != code {
		r.flag("%s the stored response has code %s", what, got)
	}
	if cbs != 1 {
		r.flag("%s the callback ran %d times for one execution", what, cbs)
	} else if cbStatus != st {
		r.flag("%s the callback saw status %s, after Execute it is %s", what, jbStatus(cbStatus), jbStatus(st))
	}
	if cl.lastReq == nil || cl.lastReq.Context() != ctx {
		r.flag("%s the request handed to the client does not carry the execution context", what)
	}
}

func jbCurlScripted(r *jbRun, ctx context.Context, maxCode int) {
	for code := 0; code <= maxCode; code++ {
		jbCurlOne(r, ctx, jbCurlOutcome{code: code, body: true}, "curl_scripted")
	}
	for _, code := range []int{100, 199, 200, 204, 301, 399, 400, 404, 500, 599} {
		jbCurlOne(r, ctx, jbCurlOutcome{code: code, body: false}, "curl_scripted_nilbody")
		jbCurlOne(r, ctx, jbCurlOutcome{code: code, body: true, err: true}, "curl_scripted_resp_and_err")
	}
	jbCurlOne(r, ctx, jbCurlOutcome{code: -1, err: true}, "curl_scripted")
	jbCurlOne(r, ctx, jbCurlOutcome{code: -1, err: false}, "curl_scripted")
}

// ---------------------------------------------------------------------------------------------- CurlJob, loopback server

func jbServer(hang chan struct{}) *httptest.Server { return jbServerCounting(hang, nil) }

// jbServerCounting also counts the TCP connections the server accepts (newConns may be nil).
func jbServerCounting(hang chan struct{}, newConns *int64) *httptest.Server {
	var seq int64
	srv := httptest.NewUnstartedServer(http.HandlerFunc(func(w http.ResponseWriter, req *http.Request) {
		p := strings.Split(strings.Trim(req.URL.Path, "/"), "/")
		switch p[0] {
		case "code":
			code, _ := strconv.Atoi(p[1])
			w.WriteHeader(code)
			if code != 204 && code != 304 {
				fmt.Fprintf(w, "payload for %d", code)
			}
		case "cycle": // a different code on every request
			codes := []int{200, 500, 204, 404, 302, 503, 201}
			n := atomic.AddInt64(&seq, 1)
			code := codes[int(n-1)%len(codes)]
			w.Header().Set("X-Seq", strconv.FormatInt(n, 10))
			w.WriteHeader(code)
			if code != 204 {
				fmt.Fprintf(w, "payload %d", n)
			}
		case "hang":
			select {
			case <-hang:
			case <-req.Context().Done():
			}
		default:
			fmt.Fprint(w, "hello")
		}
	}))
	if newConns != nil {
		srv.Config.ConnState = func(_ net.Conn, st http.ConnState) {
			if st == http.StateNew {
				atomic.AddInt64(newConns, 1)
			}
		}
	}
	srv.Start()
	return srv
}

func jbCurlLoopback(r *jbRun, ctx context.Context) {
	hang := make(chan struct{})
	srv := jbServer(hang)
	defer srv.Close()
	defer close(hang)
	tr := &http.Transport{}
	defer tr.CloseIdleConnections()
	cl := &jbCountingClient{inner: &http.Client{Transport: tr, Timeout: 10 * time.Second}}
	for code := 200; code <= 599; code++ {
		cj := job.NewCurlJobWithOptions(jbRequest(fmt.Sprintf("%s/code/%d", srv.URL, code)), job.CurlJobOptions{HTTPClient: cl})
		ret := cj.Execute(ctx)
		st := cj.JobStatus()
		if ret != nil {
			// the loopback request itself failed (environment): not a statement about the job
			r.notes = append(r.notes, fmt.Sprintf("loopback request for code %d failed: %v", code, ret))
			r.rec("jobs curl nil 1", jbStatus(st))
			if st != job.StatusFailure {
				r.flag("CurlJob loopback: request failed (%v) but JobStatus() = %s", ret, jbStatus(st))
			}
			continue
		}
		r.rec(fmt.Sprintf("jobs curl %d 0", code), jbStatus(st))
		r.count("curl_loopback", fmt.Sprintf("%dxx", code/100))
		if (st == job.StatusOK) != jbCodeOK(code) {
			r.flag("CurlJob loopback: the server answered %d, JobStatus() = %s", code, jbStatus(st))
		}
		if got := jbStoredCode(cj); got != strconv.Itoa(code) {
			r.flag("CurlJob loopback: the server answered %d, the stored response has code %s", code, got)
		}
		if d, err := cj.DumpResponse(true); err == nil && code != 204 && code != 304 && !strings.Contains(string(d), fmt.Sprintf("payload for %d", code)) {
			r.flag("CurlJob loopback: the stored response for code %d does not carry that request's body: %q", code, string(d))
		}
	}
	// one job, a different answer on every execution: the accessors follow the last one
	cj := job.NewCurlJobWithOptions(jbRequest(srv.URL+"/cycle"), job.CurlJobOptions{HTTPClient: cl})
	codes := []int{200, 500, 204, 404, 302, 503, 201}
	base := atomic.LoadInt64(&cl.open)
	for i := 0; i < 21; i++ {
		if err := cj.Execute(ctx); err != nil {
			r.notes = append(r.notes, fmt.Sprintf("loopback cycle request %d failed: %v", i, err))
			continue
		}
		want := codes[i%len(codes)]
		st := cj.JobStatus()
		r.rec(fmt.Sprintf("jobs curl %d 0", want), jbStatus(st))
		if got := jbStoredCode(cj); got != strconv.Itoa(want) || (st == job.StatusOK) != jbCodeOK(want) {
			r.flag("CurlJob loopback, execution %d on one job: server answered %d, accessors show code %s status %s", i+1, want, got, jbStatus(st))
		}
		if d, err := cj.DumpResponse(false); err == nil && !strings.Contains(string(d), fmt.Sprintf("X-Seq: %d\r\n", i+1)) {
			r.flag("CurlJob loopback, execution %d on one job: the stored response is not the one of this execution", i+1)
		}
		if open := atomic.LoadInt64(&cl.open) - base; open > 1 {
			r.flag("CurlJob loopback: %d response bodies are open after %d executions of one job (at most the last one may be)", open, i+1)
		}
	}
}

// ---------------------------------------------------------------------------------------------- ShellJob

func jbBig(n int) string { // POSIX shell text that prints 2^n bytes of 'x' without external commands
	return fmt.Sprintf(`s=x; i=0; while [ $i -lt %d ]; do s=$s$s; i=$((i+1)); done; printf %%s "$s"`, n)
}

func jbShellCheck(r *jbRun, what string, sj *job.ShellJob, ret error, wantExit int, wantOut, wantErr string, table string) {
	st, exit, so, se := sj.JobStatus(), sj.ExitCode(), sj.Stdout(), sj.Stderr()
	r.rec(fmt.Sprintf("jobs shell %d %s", exit, jbB01(ret != nil)), jbStatus(st))
	r.count(table, map[bool]string{true: "exit0", false: "nonzero"}[wantExit == 0])
	if exit != wantExit {
		r.flag("%s ExitCode() = %d, want %d", what, exit, wantExit)
	}
	if (st == job.StatusOK) != (wantExit == 0) || st == job.StatusNA {
		r.flag("%s JobStatus() = %s with exit code %d", what, jbStatus(st), wantExit)
	}
	if (ret != nil) != (wantExit != 0) {
		r.flag("%s Execute returned %v with exit code %d", what, ret, wantExit)
	}
	if ret != nil && wantExit > 0 {
		var ee *exec.ExitError
		if !errors.As(ret, &ee) || ee.ExitCode() != wantExit {
			r.flag("%s Execute returned %v, not the command's exit error", what, ret)
		}
	}
	if so != wantOut {
		r.flag("%s Stdout() = %q, want %q", what, jbClip(so), jbClip(wantOut))
	}
	if se != wantErr {
		r.flag("%s Stderr() = %q, want %q", what, jbClip(se), jbClip(wantErr))
	}
}

func jbClip(s string) string {
	if len(s) > 60 {
		return s[:60] + fmt.Sprintf("…(%d bytes)", len(s))
	}
	return s
}

func jbShell(r *jbRun, ctx context.Context) {
	for n := 0; n <= 255; n++ {
		cbs := 0
		sj := job.NewShellJobWithCallback(fmt.Sprintf("printf 'out-%d'; printf 'err-%d' >&2; exit %d", n, n, n),
			func(context.Context, *job.ShellJob) { cbs++ })
		if n == 0 && sj.JobStatus() != job.StatusNA {
			r.flag("ShellJob status before any execution is %s, want na", jbStatus(sj.JobStatus()))
		}
		ret := sj.Execute(ctx)
		jbShellCheck(r, fmt.Sprintf("ShellJob `exit %d`:", n), sj, ret, n, fmt.Sprintf("out-%d", n), fmt.Sprintf("err-%d", n), "shell_exit")
		if cbs != 1 {
			r.flag("ShellJob `exit %d`: the callback ran %d times for one execution", n, cbs)
		}
	}
	// no callback
	sj := job.NewShellJob("exit 3")
	jbShellCheck(r, "ShellJob `exit 3` (no callback):", sj, sj.Execute(ctx), 3, "", "", "shell_other")
	// 1 MiB on stdout, then on stderr
	big := strings.Repeat("x", 1<<20)
	sj = job.NewShellJob(jbBig(20))
	jbShellCheck(r, "ShellJob 1 MiB on stdout:", sj, sj.Execute(ctx), 0, big, "", "shell_other")
	sj = job.NewShellJob("{ " + jbBig(20) + "; } >&2; exit 9")
	jbShellCheck(r, "ShellJob 1 MiB on stderr, exit 9:", sj, sj.Execute(ctx), 9, "", big, "shell_other")
	// multi-line and binary-ish text
	sj = job.NewShellJob(`printf 'a\nb\n\tc  '; printf '\001\377' >&2`)
	jbShellCheck(r, "ShellJob control characters:", sj, sj.Execute(ctx), 0, "a\nb\n\tc  ", "\x01\xff", "shell_other")
	// command not found / not executable: the shell reports 127 / 126
	sj = job.NewShellJob("/nonexistent/qh-command-xyz 2>/dev/null")
	jbShellCheck(r, "ShellJob unknown command:", sj, sj.Execute(ctx), 127, "", "", "shell_other")
	sj = job.NewShellJob("/dev/null 2>/dev/null")
	jbShellCheck(r, "ShellJob non-executable file:", sj, sj.Execute(ctx), 126, "", "", "shell_other")
	// the shell process cannot be started at all (context already cancelled): ExitCode −1, failure
	cctx, cancel := context.WithCancel(ctx)
	cancel()
	sj = job.NewShellJob("printf never")
	ret := sj.Execute(cctx)
	jbShellCheck(r, "ShellJob that cannot start (context cancelled before Execute):", sj, ret, -1, "", "", "shell_other")
	if !errors.Is(ret, context.Canceled) {
		r.flag("ShellJob that cannot start: Execute returned %v, want the context's error", ret)
	}
	// killed by a signal: ExitCode −1, failure
	sj = job.NewShellJob("printf before; kill -9 $$; printf after")
	ret = sj.Execute(ctx)
	jbShellCheck(r, "ShellJob killed by SIGKILL:", sj, ret, -1, "before", "", "shell_other")
}

// ---------------------------------------------------------------------------------------------- sequences on ONE job object

func jbSequences(r *jbRun, ctx context.Context, rng *rand.Rand, nseq int, tmp string, skipShell bool) {
	texts := []string{"", "a", "out", "two words", "line\n", "é", "x=y, z"}
	for s := 0; s < nseq; s++ {
		l := 1 + rng.Intn(12)
		r.count("seq_len", strconv.Itoa(l))
		r.rec("jobs new", "ok")

		// FunctionJob[string]
		type fo struct {
			res string
			err error
		}
		var cur fo
		fj := job.NewFunctionJob(func(context.Context) (string, error) { return cur.res, cur.err })
		for i := 0; i < l; i++ {
			cur = fo{res: texts[rng.Intn(len(texts))]}
			if rng.Intn(3) == 0 {
				cur.err = errors.New("e" + texts[rng.Intn(len(texts))])
			}
			etext := "-"
			if cur.err != nil {
				etext = hexArg(cur.err.Error())
			}
			ret := fj.Execute(ctx)
			r.rec(fmt.Sprintf("jobs seq function %s %s %s", jbB01(cur.err != nil), etext, hexArg(cur.res)),
				fmt.Sprintf("%s %s %s ret=%s", jbStatus(fj.JobStatus()), hexArg(fj.Result()), jbErrHex(fj.Error()), jbErrHex(ret)))
			wantRes := cur.res
			if cur.err != nil {
				wantRes = ""
			}
			if ret != cur.err || fj.Error() != cur.err || fj.Result() != wantRes || (fj.JobStatus() == job.StatusOK) != (cur.err == nil) {
				r.flag("FunctionJob execution %d of %d on one job returned (%q, %v): accessors show status=%s result=%q err=%v, Execute returned %v",
					i+1, l, cur.res, cur.err, jbStatus(fj.JobStatus()), fj.Result(), fj.Error(), ret)
			}
			r.count("seq_function", map[bool]string{true: "err", false: "nil"}[cur.err != nil])
		}

		// CurlJob with a scripted client
		cl := &jbScriptClient{}
		cbs := 0
		cj := job.NewCurlJobWithOptions(jbRequest("http://scripted.invalid/seq"), job.CurlJobOptions{HTTPClient: cl,
			Callback: func(context.Context, *job.CurlJob) { cbs++ }})
		bodyID := 0
		for i := 0; i < l; i++ {
			var o jbCurlOutcome
			switch rng.Intn(8) {
			case 0:
				o = jbCurlOutcome{code: -1, err: true}
			case 1:
				o = jbCurlOutcome{code: []int{200, 404}[rng.Intn(2)], body: false}
			case 2:
				o = jbCurlOutcome{code: []int{302, 500}[rng.Intn(2)], body: true, err: true}
			default:
				o = jbCurlOutcome{code: []int{200, 201, 204, 301, 399, 400, 404, 500, 503, 199, 100}[rng.Intn(11)], body: true}
			}
			cl.script = []jbCurlOutcome{o}
			cl.next = 0
			code, body := "nil", "nil"
			if o.code >= 0 {
				code = strconv.Itoa(o.code)
				if o.body {
					bodyID++
					body = strconv.Itoa(bodyID)
				}
			}
			ret := cj.Execute(ctx)
			open, closes, dbl := cl.counts()
			st := cj.JobStatus()
			r.rec(fmt.Sprintf("jobs seq curl %s %s %s", code, body, jbB01(o.err)),
				fmt.Sprintf("%s %s open=%d closes=%d ret=%s", jbStatus(st), jbStoredCode(cj), open, closes, jbB01(ret != nil)))
			what := fmt.Sprintf("CurlJob execution %d of %d on one job (code=%s body=%s err=%v):", i+1, l, code, body, o.err)
			if (st == job.StatusOK) != (o.code >= 0 && jbCodeOK(o.code)) || jbStoredCode(cj) != code || ret != cl.errs[len(cl.errs)-1] {
				r.flag("%s accessors show status=%s code=%s, Execute returned %v", what, jbStatus(st), jbStoredCode(cj), ret)
			}
			if open > 1 || (open == 1 && !o.body) || (o.body && open != 1) {
				r.flag("%s %d response bodies are open afterwards (only the last response's body may be)", what, open)
			}
			if dbl > 0 {
				r.notes = append(r.notes, what+" a body was closed twice")
			}
			if cbs != i+1 {
				r.flag("%s the callback has run %d times after %d executions", what, cbs, i+1)
			}
			r.count("seq_curl", map[bool]string{true: "ok", false: "failure"}[st == job.StatusOK])
		}

		// ShellJob whose command sources a script that changes between executions
		if skipShell || s%4 != 0 { // process spawns are the expensive part: every 4th sequence
			continue
		}
		script := filepath.Join(tmp, fmt.Sprintf("seq%d.sh", s))
		scbs := 0
		sj := job.NewShellJobWithCallback(". "+script, func(context.Context, *job.ShellJob) { scbs++ })
		for i := 0; i < l; i++ {
			exit := []int{0, 0, 0, 1, 2, 7, 255}[rng.Intn(7)]
			so, se := texts[rng.Intn(len(texts))], texts[rng.Intn(len(texts))]
			must(os.WriteFile(script, []byte(fmt.Sprintf("printf %%s '%s'; printf %%s '%s' >&2; exit %d\n", so, se, exit)), 0o644))
			ret := sj.Execute(ctx)
			r.rec(fmt.Sprintf("jobs seq shell %d %s %s %s", exit, jbB01(exit != 0), hexArg(so), hexArg(se)),
				fmt.Sprintf("%s %d %s %s ret=%s", jbStatus(sj.JobStatus()), sj.ExitCode(), hexArg(sj.Stdout()), hexArg(sj.Stderr()), jbB01(ret != nil)))
			if sj.ExitCode() != exit || sj.Stdout() != so || sj.Stderr() != se || (sj.JobStatus() == job.StatusOK) != (exit == 0) || (ret != nil) != (exit != 0) {
				r.flag("ShellJob execution %d of %d on one job (exit %d, stdout %q, stderr %q): accessors show status=%s exit=%d stdout=%q stderr=%q, Execute returned %v",
					i+1, l, exit, so, se, jbStatus(sj.JobStatus()), sj.ExitCode(), sj.Stdout(), sj.Stderr(), ret)
			}
			if scbs != i+1 {
				r.flag("ShellJob: the callback has run %d times after %d executions", scbs, i+1)
			}
			r.count("seq_shell", map[bool]string{true: "exit0", false: "nonzero"}[exit == 0])
		}
	}
}

// ---------------------------------------------------------------------------------------------- concurrent executions of ONE job object

func jbConcurrent(r *jbRun, ctx context.Context, tmp string, skipShell bool) {
	const G, K = 8, 40
	// FunctionJob: every execution returns its own (result, error); at rest the three accessors must belong to ONE execution
	var ctr int64
	var cbTotal int64
	fj := job.NewFunctionJob(func(context.Context) (string, error) {
		i := atomic.AddInt64(&ctr, 1)
		if i%3 == 0 {
			return fmt.Sprintf("ignored-%d", i), fmt.Errorf("e-%d", i)
		}
		return fmt.Sprintf("r-%d", i), nil
	})
	var wg sync.WaitGroup
	for g := 0; g < G; g++ {
		wg.Add(1)
		go func() {
			defer wg.Done()
			for k := 0; k < K; k++ {
				_ = fj.Execute(ctx)
			}
		}()
	}
	wg.Wait()
	st, res, e := fj.JobStatus(), fj.Result(), fj.Error()
	okTuple := false
	if e == nil {
		okTuple = st == job.StatusOK && strings.HasPrefix(res, "r-")
	} else {
		okTuple = st == job.StatusFailure && res == "" && strings.HasPrefix(e.Error(), "e-")
	}
	r.rec("jobs function "+jbB01(e != nil), jbStatus(st))
	r.count("concurrent", "function")
	if !okTuple {
		r.flag("FunctionJob after %d×%d concurrent executions: status=%s result=%q err=%v do not belong to one execution", G, K, jbStatus(st), res, e)
	}

	// CurlJob with a scripted client: code and body id of every execution are tied together by construction
	cl := &jbScriptClient{script: []jbCurlOutcome{{code: 200, body: true}, {code: 500, body: true}, {code: -1, err: true}, {code: 204, body: true}, {code: 404, body: false}}}
	cj := job.NewCurlJobWithOptions(jbRequest("http://scripted.invalid/conc"), job.CurlJobOptions{HTTPClient: cl,
		Callback: func(context.Context, *job.CurlJob) { atomic.AddInt64(&cbTotal, 1) }})
	for g := 0; g < G; g++ {
		wg.Add(1)
		go func() {
			defer wg.Done()
			for k := 0; k < K; k++ {
				_ = cj.Execute(ctx)
			}
		}()
	}
	wg.Wait()
	open, _, _ := cl.counts()
	last := cl.script[(cl.next-1)%len(cl.script)] // Do calls are serialised by the job's mutex: the last Do is the last store
	code := "nil"
	if last.code >= 0 {
		code = strconv.Itoa(last.code)
	}
	cst := cj.JobStatus()
	r.rec(fmt.Sprintf("jobs curl %s %s", code, jbB01(last.err)), jbStatus(cst))
	r.count("concurrent", "curl")
	if jbStoredCode(cj) != code || (cst == job.StatusOK) != (last.code >= 0 && jbCodeOK(last.code)) {
		r.flag("CurlJob after %d×%d concurrent executions: the last request got code %s, accessors show code %s status %s", G, K, code, jbStoredCode(cj), jbStatus(cst))
	}
	if cl.next != G*K {
		r.flag("CurlJob: %d executions made %d requests", G*K, cl.next)
	}
	wantOpen := 0
	if last.code >= 0 && last.body {
		wantOpen = 1
	}
	if open != wantOpen {
		r.flag("CurlJob after %d×%d concurrent executions: %d response bodies are open, want %d (the last response's)", G, K, open, wantOpen)
	}
	if n := atomic.LoadInt64(&cbTotal); n != G*K {
		r.flag("CurlJob: the callback ran %d times for %d concurrent executions", n, G*K)
	}

	if skipShell {
		return
	}
	// ShellJob: every execution prints its own number on stdout and stderr and exits with it (mod 200)
	counter := filepath.Join(tmp, "conc-counter")
	must(os.Mkdir(counter, 0o755))
	var scb int64
	// mkdir is atomic: each execution claims the first free number
	// (stdout is written in two parts with a pause in between, so that overlapping executions interleave their writes; one
	// accessor call is atomic, so what a callback reads from Stdout() must be the complete output of ONE execution)
	var mixed atomic.Value
	sj := job.NewShellJobWithCallback(fmt.Sprintf(`i=1; while ! mkdir %s/$i 2>/dev/null; do i=$((i+1)); done; printf "out-$i"; printf "err-$i" >&2; j=0; while [ $j -lt 3000 ]; do j=$((j+1)); done; printf ":$i"; exit $((i %% 200))`, counter),
		func(_ context.Context, j *job.ShellJob) {
			atomic.AddInt64(&scb, 1)
			var a, b int
			if so := j.Stdout(); !(func() bool {
				n, _ := fmt.Sscanf(so, "out-%d:%d", &a, &b)
				return n == 2 && a == b && so == fmt.Sprintf("out-%d:%d", a, a)
			})() {
				mixed.CompareAndSwap(nil, so)
			}
		})
	const SG, SK = 8, 10
	for g := 0; g < SG; g++ {
		wg.Add(1)
		go func() {
			defer wg.Done()
			for k := 0; k < SK; k++ {
				_ = sj.Execute(ctx)
			}
		}()
	}
	wg.Wait()
	so, se, exit, sst := sj.Stdout(), sj.Stderr(), sj.ExitCode(), sj.JobStatus()
	var n, n2 int
	if k, _ := fmt.Sscanf(so, "out-%d:%d", &n, &n2); k != 2 || n != n2 || so != fmt.Sprintf("out-%d:%d", n, n) {
		n = 0
	}
	r.rec(fmt.Sprintf("jobs shell %d %s", exit, jbB01(exit != 0)), jbStatus(sst))
	r.count("concurrent", "shell")
	if m := mixed.Load(); m != nil {
		r.flag("ShellJob, %d×%d concurrent executions: a callback read stdout=%q, which is not the output of any single execution (want out-N:N)", SG, SK, m)
	}
	if !strings.HasPrefix(so, "out-") || n < 1 || n > SG*SK || se != fmt.Sprintf("err-%d", n) || exit != n%200 || (sst == job.StatusOK) != (exit == 0) {
		r.flag("ShellJob after %d×%d concurrent executions: stdout=%q stderr=%q exit=%d status=%s do not belong to one execution", SG, SK, so, se, exit, jbStatus(sst))
	}
	if c := atomic.LoadInt64(&scb); c != SG*SK {
		r.flag("ShellJob: the callback ran %d times for %d concurrent executions", c, SG*SK)
	}
}

// ---------------------------------------------------------------------------------------------- overlapping executions, scripted completion order

// jbOvOutcome is what one scripted execution of the function returns.
type jbOvOutcome struct {
	res string
	err error
}

func (o jbOvOutcome) String() string {
	if o.err != nil {
		return fmt.Sprintf("(%q, error %q)", o.res, o.err.Error())
	}
	return fmt.Sprintf("(%q, nil)", o.res)
}

const jbOvDeadline = 20 * time.Second

// jbOverlapCase: k executions of ONE unwrapped FunctionJob are started one after the other (each is inside the function before the
// next one is started) and then finish one at a time in the order `finish` (indices in start order). Everything is synchronised with
// channels, nothing sleeps: when Execute of execution x has returned, every other unfinished execution is still held inside the
// function, so x is the most recent COMPLETED execution and JobStatus / Result / Error must be x's outcome — whatever was started
// later. Returns false when the executions could not be made to overlap (nothing is judged then).
func jbOverlapCase(r *jbRun, ctx context.Context, outs []jbOvOutcome, finish []int) bool {
	k := len(outs)
	var ticket int64
	entered := make(chan int, k)
	release := make([]chan struct{}, k)
	for i := range release {
		release[i] = make(chan struct{})
	}
	fj := job.NewFunctionJob(func(context.Context) (string, error) {
		i := int(atomic.AddInt64(&ticket, 1)) - 1
		if i >= k {
			return "unexpected extra call", nil
		}
		entered <- i
		<-release[i]
		return outs[i].res, outs[i].err
	})
	type ret struct{ err error }
	done := make([]chan ret, k)
	released := make([]bool, k)
	cleanup := func() { // let everything that is still held go, and wait for it
		for i := 0; i < k; i++ {
			if !released[i] {
				released[i] = true
				close(release[i])
			}
		}
		for i := 0; i < k; i++ {
			if done[i] != nil {
				select {
				case <-done[i]:
				case <-time.After(jbOvDeadline):
				}
			}
		}
	}
	order := fmt.Sprintf("%d overlapping executions of one FunctionJob, started in the order 1..%d with outcomes %v, finishing in the order %v:", k, k, outs, jbOvOrder(finish))
	// start: execution i is inside the function before execution i+1 is started, so the start order is 0,1,…,k-1
	for i := 0; i < k; i++ {
		done[i] = make(chan ret, 1)
		go func(c chan ret) { c <- ret{fj.Execute(ctx)} }(done[i])
		select {
		case got := <-entered:
			if got != i {
				r.flag("%s the function was entered for ticket %d while starting execution %d", order, got+1, i+1)
				cleanup()
				return false
			}
		case <-time.After(jbOvDeadline):
			// executions of one FunctionJob did not overlap (the function of execution i+1 was not entered while the earlier ones
			// are held): nothing the property forbids; there is no overlap to judge
			r.notes = append(r.notes, fmt.Sprintf("overlap phase: execution %d of one FunctionJob did not enter the function within %v while %d earlier ones were held", i+1, jbOvDeadline, i))
			cleanup()
			return false
		}
	}
	for step, x := range finish {
		released[x] = true
		close(release[x])
		var got ret
		select {
		case got = <-done[x]:
			done[x] = nil
		case <-time.After(jbOvDeadline):
			r.flag("%s Execute of execution %d did not return within %v after its function returned", order, x+1, jbOvDeadline)
			cleanup()
			return true
		}
		st, res, e := fj.JobStatus(), fj.Result(), fj.Error()
		want := outs[x]
		wantRes := want.res
		if want.err != nil {
			wantRes = ""
		}
		what := fmt.Sprintf("%s after completion %d (execution %d, which returned %v; the others unfinished are still inside the function)", order, step+1, x+1, want)
		if got.err != want.err {
			r.flag("%s Execute returned %v, not its function's error", what, got.err)
		}
		if e != want.err || res != wantRes || (st == job.StatusOK) != (want.err == nil) || st == job.StatusNA {
			r.flag("%s the accessors show status=%s result=%q err=%v, not the outcome of the most recent completed execution (want status=%s result=%q err=%v)",
				what, jbStatus(st), res, e, map[bool]string{true: "ok", false: "failure"}[want.err == nil], wantRes, want.err)
		}
		r.count("overlap_completed", fmt.Sprintf("started %s of %d, finished %s", jbOrdinal(x+1), k, jbOrdinal(step+1)))
	}
	cleanup()
	return true
}

func jbOrdinal(n int) string {
	switch n {
	case 1:
		return "1st"
	case 2:
		return "2nd"
	case 3:
		return "3rd"
	}
	return strconv.Itoa(n) + "th"
}

func jbOvOrder(finish []int) []int {
	o := make([]int, len(finish))
	for i, x := range finish {
		o[i] = x + 1
	}
	return o
}

func jbPermutations(k int) [][]int {
	if k == 1 {
		return [][]int{{0}}
	}
	var out [][]int
	for _, p := range jbPermutations(k - 1) {
		for pos := 0; pos <= len(p); pos++ {
			q := append(append(append([]int{}, p[:pos]...), k-1), p[pos:]...)
			out = append(out, q)
		}
	}
	return out
}

// jbOverlap: property clause "report the outcome of their most recent COMPLETED execution … any number of consecutive and concurrent
// executions of one job object". Two executions in both completion orders with every combination of nil / error outcomes, three
// executions in all six completion orders, and a few seeded random cases with four.
func jbOverlap(r *jbRun, ctx context.Context, rng *rand.Rand) {
	mk := func(i int, failed bool) jbOvOutcome {
		if failed {
			return jbOvOutcome{res: fmt.Sprintf("ignored-%d", i+1), err: fmt.Errorf("error of execution %d", i+1)}
		}
		return jbOvOutcome{res: fmt.Sprintf("result of execution %d", i+1)}
	}
	cases, overlapped := 0, 0
	stop := false // executions do not overlap at all: every further case would only wait for the same deadline
	run := func(outs []jbOvOutcome, finish []int) {
		if stop {
			return
		}
		cases++
		if jbOverlapCase(r, ctx, outs, finish) {
			overlapped++
		} else {
			stop = true
		}
	}
	for _, finish := range jbPermutations(2) {
		for m := 0; m < 4; m++ {
			run([]jbOvOutcome{mk(0, m&1 != 0), mk(1, m&2 != 0)}, finish)
		}
	}
	for _, finish := range jbPermutations(3) {
		for m := 0; m < 8; m++ {
			run([]jbOvOutcome{mk(0, m&1 != 0), mk(1, m&2 != 0), mk(2, m&4 != 0)}, finish)
		}
	}
	p4 := jbPermutations(4)
	for c := 0; c < 24; c++ {
		m := rng.Intn(16)
		run([]jbOvOutcome{mk(0, m&1 != 0), mk(1, m&2 != 0), mk(2, m&4 != 0), mk(3, m&8 != 0)}, p4[rng.Intn(len(p4))])
	}
	r.dist["overlap"] = map[string]int{"cases": cases, "cases in which all executions overlapped": overlapped}
}

// ---------------------------------------------------------------------------------------------- cancellation

const jbAbortDeadline = 2 * time.Second

func jbTimed(f func() error) (error, time.Duration, bool) {
	done := make(chan error, 1)
	t := time.Now()
	go func() { done <- f() }()
	select {
	case err := <-done:
		return err, time.Since(t), true
	case <-time.After(jbAbortDeadline + 6*time.Second):
		return nil, time.Since(t), false
	}
}

func jbCancel(r *jbRun, skipShell bool) {
	// a function that observes its context
	ctx, cancel := context.WithCancel(context.Background())
	fj := job.NewFunctionJob(func(c context.Context) (int, error) {
		select {
		case <-c.Done():
			return 7, c.Err()
		case <-time.After(8 * time.Second):
			return 1, nil
		}
	})
	time.AfterFunc(50*time.Millisecond, cancel)
	err, d, ok := jbTimed(func() error { return fj.Execute(ctx) })
	r.count("cancel", "function")
	if !ok || d > jbAbortDeadline {
		r.flag("cancelling the context did not abort a running FunctionJob within %v (took %v)", jbAbortDeadline, d)
	} else {
		r.rec("jobs function "+jbB01(err != nil), jbStatus(fj.JobStatus()))
		if !errors.Is(err, context.Canceled) || fj.JobStatus() != job.StatusFailure || fj.Result() != 0 || fj.Error() != err {
			r.flag("cancelled FunctionJob: Execute returned %v, status=%s result=%d err=%v", err, jbStatus(fj.JobStatus()), fj.Result(), fj.Error())
		}
	}
	cancel()

	// an HTTP request whose handler hangs
	hang := make(chan struct{})
	srv := jbServer(hang)
	tr := &http.Transport{}
	cj := job.NewCurlJobWithOptions(jbRequest(srv.URL+"/hang"), job.CurlJobOptions{HTTPClient: &http.Client{Transport: tr}})
	ctx, cancel = context.WithCancel(context.Background())
	time.AfterFunc(100*time.Millisecond, cancel)
	blocked := make(chan time.Duration, 1)
	go func() { // does an accessor answer while the request is in flight?
		time.Sleep(30 * time.Millisecond)
		t := time.Now()
		_ = cj.JobStatus()
		blocked <- time.Since(t)
	}()
	err, d, ok = jbTimed(func() error { return cj.Execute(ctx) })
	r.count("cancel", "curl")
	if !ok || d > jbAbortDeadline {
		r.flag("cancelling the context did not abort a running CurlJob request within %v (took %v)", jbAbortDeadline, d)
	} else {
		r.rec("jobs curl nil "+jbB01(err != nil), jbStatus(cj.JobStatus()))
		if !errors.Is(err, context.Canceled) || cj.JobStatus() != job.StatusFailure {
			r.flag("cancelled CurlJob: Execute returned %v, status=%s", err, jbStatus(cj.JobStatus()))
		}
	}
	select {
	case b := <-blocked:
		if b > 40*time.Millisecond {
			r.notes = append(r.notes, fmt.Sprintf("CurlJob.JobStatus() blocked %v while a request was in flight (Execute holds the job's mutex during the whole request)", b.Round(time.Millisecond)))
		}
	case <-time.After(3 * time.Second):
	}
	cancel()
	close(hang)
	tr.CloseIdleConnections()
	srv.Close()

	if skipShell {
		return
	}
	// a simple shell command
	ctx, cancel = context.WithCancel(context.Background())
	sj := job.NewShellJob("sleep 5")
	time.AfterFunc(100*time.Millisecond, cancel)
	err, d, ok = jbTimed(func() error { return sj.Execute(ctx) })
	r.count("cancel", "shell")
	if !ok || d > jbAbortDeadline {
		r.flag("cancelling the context did not abort `sleep 5` within %v (took %v)", jbAbortDeadline, d)
	} else {
		r.rec(fmt.Sprintf("jobs shell %d %s", sj.ExitCode(), jbB01(err != nil)), jbStatus(sj.JobStatus()))
		if err == nil || sj.JobStatus() != job.StatusFailure || sj.ExitCode() == 0 {
			r.flag("cancelled ShellJob `sleep 5`: Execute returned %v, status=%s exit=%d", err, jbStatus(sj.JobStatus()), sj.ExitCode())
		}
	}
	cancel()
	r.samples = append(r.samples, map[string]any{"cancel_shell_took_ms": d.Milliseconds()})

	// a simple command that does not die from an interrupt: cancellation must ABORT it, not ask it politely
	jbCancelStubborn(r, "cancelled", func() (context.Context, context.CancelFunc, func()) {
		c, k := context.WithCancel(context.Background())
		return c, k, k
	})
	jbCancelStubborn(r, "timed out (deadline 700 ms after the start)", func() (context.Context, context.CancelFunc, func()) {
		c, k := context.WithTimeout(context.Background(), 700*time.Millisecond)
		return c, k, func() {
			select {
			case <-c.Done():
			case <-time.After(5 * time.Second):
				k()
			}
		}
	})

	// observation only (outside the property, which speaks of a simple command): a compound command leaves a grandchild
	// that keeps the output pipes open, so Execute returns only when that grandchild exits
	ctx, cancel = context.WithCancel(context.Background())
	sj = job.NewShellJob("sleep 1; :")
	time.AfterFunc(100*time.Millisecond, cancel)
	_, d, ok = jbTimed(func() error { return sj.Execute(ctx) })
	cancel()
	if ok && d > 800*time.Millisecond {
		r.notes = append(r.notes, "cancelling the context of the compound command `sleep 1; :` kills only the shell: Execute returned after "+
			"the orphaned `sleep` exited (no cmd.WaitDelay / process group kill); simple commands are exec'ed by the shell and abort promptly")
	}
}

// jbCancelStubborn: property clause "cancelling the execution context aborts a running … simple shell command". The command is
// `trap '' INT; exec sleep 4`: the shell sets SIGINT to "ignore" and then REPLACES itself by sleep (exec), so one single process
// without children runs — a simple command — which, like a process started through a nohup-style wrapper or as a background job of
// a non-interactive shell, ignores an interrupt. The context ends only after the command has reported (through a marker file it creates before the
// exec) that the trap is installed. One-sided judgment with a generous bound: Execute must return within jbAbortDeadline (2 s) after
// the context ended; the command would run 4 s on its own. mk makes the context and the function that ends it / waits for its end.
func jbCancelStubborn(r *jbRun, how string, mk func() (context.Context, context.CancelFunc, func())) {
	dir, err := os.MkdirTemp("", "qh-stubborn-")
	if err != nil {
		r.notes = append(r.notes, "stubborn-command case skipped: "+err.Error())
		return
	}
	defer os.RemoveAll(dir)
	ready := filepath.Join(dir, "ready")
	cmdText := fmt.Sprintf("trap '' INT; : > '%s'; exec sleep 4", ready)
	sj := job.NewShellJob(cmdText)
	var ctx context.Context
	var cancel context.CancelFunc
	var end func()
	var ended atomic.Int64 // UnixNano of the moment the context ended (0 = not yet)
	ctx, cancel, end = mk()
	defer cancel()
	type res struct {
		err error
		at  time.Time
	}
	done := make(chan res, 1)
	t0 := time.Now()
	go func() { e := sj.Execute(ctx); done <- res{e, time.Now()} }()
	// wait until the trap is installed (deadline 5 s; a shell that did not even get that far in 5 s: nothing to judge)
	isReady := false
	for wait := time.Now().Add(5 * time.Second); time.Now().Before(wait); time.Sleep(5 * time.Millisecond) {
		if _, err := os.Stat(ready); err == nil {
			isReady = true
			break
		}
		if len(done) > 0 {
			break
		}
	}
	if !isReady {
		cancel()
		select {
		case <-done:
		case <-time.After(10 * time.Second):
		}
		r.notes = append(r.notes, "stubborn-command case ("+how+"): the command did not report readiness within 5 s; not judged")
		return
	}
	time.Sleep(100 * time.Millisecond) // let the exec happen (not needed for the judgment: the ignored signal disposition survives exec)
	end()
	ended.Store(time.Now().UnixNano())
	var got res
	select {
	case got = <-done:
	case <-time.After(jbAbortDeadline + 6*time.Second):
		r.flag("ShellJob `%s`, context %s %v after the start while the command was running: Execute had not returned 8 s later (cancelling the execution context must abort a running simple command)",
			cmdText, how, time.Duration(ended.Load()-t0.UnixNano()).Round(time.Millisecond))
		return
	}
	took := got.at.Sub(time.Unix(0, ended.Load()))
	r.count("cancel", "shell-ignoring-interrupt-"+how)
	r.samples = append(r.samples, map[string]any{"cancel_stubborn_shell_" + how + "_took_ms": took.Milliseconds()})
	if took > jbAbortDeadline {
		r.flag("ShellJob `%s` (a single process that ignores SIGINT), context %s while the command was running: Execute returned only %v after the context ended, i.e. the command "+
			"was not aborted (bound %v; the command runs 4 s when left alone); Execute returned %v, status=%s exit=%d",
			cmdText, how, took.Round(time.Millisecond), jbAbortDeadline, got.err, jbStatus(sj.JobStatus()), sj.ExitCode())
		return
	}
	r.rec(fmt.Sprintf("jobs shell %d %s", sj.ExitCode(), jbB01(got.err != nil)), jbStatus(sj.JobStatus()))
	if got.err == nil || sj.JobStatus() != job.StatusFailure || sj.ExitCode() == 0 {
		r.flag("ShellJob `%s` aborted by its context (%s): Execute returned %v, status=%s exit=%d (an aborted command is a failed execution)", cmdText, how, got.err, jbStatus(sj.JobStatus()), sj.ExitCode())
	}
}

// jbCtxClient: honours the context of the request it is given, like http.Client: refuses a request whose context has ended,
// and (when hang is set) stays in Do until that context ends.
type jbCtxClient struct{ hang atomic.Bool }

func (c *jbCtxClient) Do(req *http.Request) (*http.Response, error) {
	if err := req.Context().Err(); err != nil {
		return nil, err
	}
	if c.hang.Load() {
		select {
		case <-req.Context().Done():
			return nil, req.Context().Err()
		case <-time.After(8 * time.Second):
		}
	}
	return &http.Response{StatusCode: 200, Body: &jbBody{}, Request: req}, nil
}

// jbContexts: consecutive executions of ONE job object under DIFFERENT contexts (a restarted scheduler, a per-execution timeout):
// each execution works with the context it was given, not with the one of an earlier execution.
func jbContexts(r *jbRun) {
	cl := &jbCtxClient{}
	cj := job.NewCurlJobWithOptions(jbRequest("http://ctx.invalid/x"), job.CurlJobOptions{HTTPClient: cl})
	ctxA, cancelA := context.WithCancel(context.Background())
	errA := cj.Execute(ctxA)
	cancelA()
	ctxB, cancelB := context.WithCancel(context.Background())
	errB := cj.Execute(ctxB)
	r.count("contexts", "curl-second-context-live")
	r.rec("jobs curl 200 "+jbB01(errB != nil), jbStatus(cj.JobStatus()))
	if errA != nil || errB != nil || cj.JobStatus() != job.StatusOK {
		r.flag("CurlJob executed under context A (then cancelled) and again under a live context B: first returned %v, second returned %v, status=%s (the second execution must use its own context)", errA, errB, jbStatus(cj.JobStatus()))
	}
	cl.hang.Store(true)
	time.AfterFunc(100*time.Millisecond, cancelB)
	err, d, ok := jbTimed(func() error { return cj.Execute(ctxB) })
	r.count("contexts", "curl-cancel-second-context-in-flight")
	if !ok || d > jbAbortDeadline {
		r.flag("cancelling the context of the CURRENT execution did not abort a CurlJob request that had run under another context before, within %v (took %v)", jbAbortDeadline, d)
	} else if !errors.Is(err, context.Canceled) || cj.JobStatus() != job.StatusFailure || d < 50*time.Millisecond {
		r.flag("CurlJob, third execution (request in flight, its context cancelled after 100 ms): returned %v after %v, status=%s", err, d.Round(time.Millisecond), jbStatus(cj.JobStatus()))
	}
	cancelB()

	// the same for a function job (trivially) and a shell job
	var seen []error
	fj := job.NewFunctionJob(func(c context.Context) (int, error) { seen = append(seen, c.Err()); return 0, nil })
	c1, k1 := context.WithCancel(context.Background())
	_ = fj.Execute(c1)
	k1()
	_ = fj.Execute(context.Background())
	r.count("contexts", "function")
	if len(seen) != 2 || seen[0] != nil || seen[1] != nil {
		r.flag("FunctionJob executed under a context that was then cancelled, and again under a live one: the function saw %v", seen)
	}
}

// ---------------------------------------------------------------------------------------------- FunctionJob under a context that has ended

// jbEndedCase: property clauses "Execute returns the underlying error, the status is OK exactly when the function returned nil, …
// result … of that execution" for an execution whose CONTEXT has ended by the time the function returns. The function does not look
// at its context (it finishes its work anyway): what it returned is the outcome — a cancelled or timed-out context is not an error
// of the function, and an error of the function is not replaced by the context's. Everything is synchronised with channels.
//   modes "… before the call": the context is already over when Execute is called;
//   modes "… during the run": it ends while the function is running (the function is held until ctx.Done() is closed, then returns).
// first: run one execution under a live context before (same job object) so that a stale outcome would show.
func jbEndedCase[R comparable](r *jbRun, kind, mode string, first bool, prev, result R, ferr error) {
	var zero R
	var ctx context.Context
	var cancel context.CancelFunc
	during := false
	switch mode {
	case "had been cancelled before the call":
		ctx, cancel = context.WithCancel(context.Background())
		cancel()
	case "was past its deadline before the call":
		ctx, cancel = context.WithDeadline(context.Background(), time.Now().Add(-time.Second))
	case "was cancelled during the run":
		ctx, cancel = context.WithCancel(context.Background())
		during = true
	case "reached its deadline during the run":
		ctx, cancel = context.WithTimeout(context.Background(), 15*time.Millisecond)
		during = true
	}
	defer cancel()
	entered := make(chan struct{}, 4)
	release := make(chan struct{})
	var calls int32
	var cur atomic.Value // what the next call returns
	type outc struct {
		res R
		err error
	}
	cur.Store(outc{prev, nil})
	hold := false
	var ctxErrAtReturn atomic.Value
	fj := job.NewFunctionJob(func(c context.Context) (R, error) {
		atomic.AddInt32(&calls, 1)
		if hold {
			entered <- struct{}{}
			select {
			case <-release:
			case <-time.After(jbOvDeadline):
			}
		}
		if e := c.Err(); e != nil {
			ctxErrAtReturn.Store(e)
		}
		o := cur.Load().(outc)
		return o.res, o.err
	})
	hist := ""
	if first {
		if e := fj.Execute(context.Background()); e != nil || fj.JobStatus() != job.StatusOK || fj.Result() != prev {
			r.flag("FunctionJob[%s] function returned (%v, nil) under a live context: Execute returned %v, status=%s result=%v", kind, prev, e, jbStatus(fj.JobStatus()), fj.Result())
			return
		}
		hist = fmt.Sprintf("second execution of one job (the first, under a live context, returned (%v, nil)); ", prev)
		atomic.StoreInt32(&calls, 0)
	}
	cur.Store(outc{result, ferr})
	var ret error
	if !during {
		ret = fj.Execute(ctx)
	} else {
		hold = true
		done := make(chan error, 1)
		go func() { done <- fj.Execute(ctx) }()
		select {
		case <-entered:
		case <-time.After(jbOvDeadline):
			close(release)
			r.notes = append(r.notes, "ended-context phase: the function was not entered within the deadline; not judged")
			return
		}
		if mode == "was cancelled during the run" {
			cancel() // the other mode waits for the 15 ms deadline
		}
		select {
		case <-ctx.Done():
		case <-time.After(jbOvDeadline):
			close(release)
			<-done
			r.notes = append(r.notes, "ended-context phase: the context did not end within the deadline; not judged")
			return
		}
		close(release) // the context HAS ended; only now may the function return
		select {
		case ret = <-done:
		case <-time.After(jbOvDeadline):
			r.flag("FunctionJob[%s], the execution context %s: Execute did not return within %v after its function returned", kind, mode, jbOvDeadline)
			return
		}
	}
	ce, _ := ctxErrAtReturn.Load().(error)
	if ce == nil { // cannot happen by construction; then there is nothing this case wants to judge
		r.notes = append(r.notes, "ended-context phase: the context was still live when the function returned ("+mode+")")
		return
	}
	st, res, e := fj.JobStatus(), fj.Result(), fj.Error()
	r.rec("jobs function "+jbB01(ferr != nil), jbStatus(st))
	r.count("function_ended_context", mode+":"+map[bool]string{true: "err", false: "nil"}[ferr != nil])
	what := fmt.Sprintf("FunctionJob[%s] %sthe execution context %s (ctx.Err() = %v when the function returned), the function does not watch its context and returned (%v, %v):",
		kind, hist, mode, ce, result, ferr)
	if n := atomic.LoadInt32(&calls); n != 1 {
		r.flag("%s the function was called %d times by one Execute", what, n)
	}
	if ret != ferr {
		r.flag("%s Execute returned %v, not what the function returned (Execute returns the underlying error)", what, ret)
	}
	if e != ferr {
		r.flag("%s Error() = %v, want %v", what, e, ferr)
	}
	if (st == job.StatusOK) != (ferr == nil) || st == job.StatusNA {
		r.flag("%s JobStatus() = %s (the status is OK exactly when the function returned nil)", what, jbStatus(st))
	}
	if ferr == nil && res != result {
		r.flag("%s Result() = %v, want %v (the result of that execution)", what, res, result)
	}
	if ferr != nil && res != zero {
		r.flag("%s Result() = %v after a failed execution, want the zero value", what, res)
	}
}

func jbEnded(r *jbRun) {
	own := errors.New("the function's own error")
	wrapped := fmt.Errorf("step 3 failed: %w", context.Canceled) // the function's own error, which happens to wrap a context error
	modes := []string{"had been cancelled before the call", "was past its deadline before the call", "was cancelled during the run", "reached its deadline during the run"}
	for _, mode := range modes {
		for _, ferr := range []error{nil, own, wrapped} {
			for _, first := range []bool{false, true} {
				jbEndedCase(r, "int", mode, first, 7, 42, ferr)
				jbEndedCase(r, "string", mode, first, "earlier", "done", ferr)
			}
			jbEndedCase(r, "int", mode, false, 7, 0, ferr) // zero result with nil error: only status / error tell
			jbEndedCase(r, "ptr", mode, true, &jbPoint{0, 0}, &jbPoint{1, 2}, ferr)
		}
	}
}

// ---------------------------------------------------------------------------------------------- leaks

type jbUsage struct {
	Goroutines, FDs, Children int
	OpenBodies                int64
}

func jbLeak(r *jbRun, ctx context.Context, n int, skipShell bool) {
	third := n / 3
	if third < 1 {
		third = 1
	}
	const G, K = 8, 40
	measure := func(target int, open *int64) jbUsage {
		g := runtime.NumGoroutine()
		if target >= 0 {
			g = jbSettle(target, 3*time.Second)
		}
		u := jbUsage{Goroutines: g, FDs: jbFDs(), Children: jbSettleChildren(2 * time.Second)}
		if open != nil {
			u.OpenBodies = atomic.LoadInt64(open)
		}
		return u
	}
	check := func(kind string, exec func(), open *int64) {
		time.Sleep(20 * time.Millisecond)
		base := measure(-1, open)
		for i := 0; i < third; i++ {
			exec()
		}
		a := measure(base.Goroutines, open)
		for i := third; i < n; i++ {
			exec()
		}
		b := measure(a.Goroutines, open)
		var wg sync.WaitGroup
		for g := 0; g < G; g++ {
			wg.Add(1)
			go func() {
				defer wg.Done()
				for k := 0; k < K; k++ {
					exec()
				}
			}()
		}
		wg.Wait()
		c := measure(b.Goroutines, open)
		r.samples = append(r.samples, map[string]any{"leak": kind, "before": base, fmt.Sprintf("after_%d", third): a, fmt.Sprintf("after_%d", n): b,
			fmt.Sprintf("after_%d_plus_%dx%d_concurrent", n, G, K): c})
		r.count("leak", kind)
		what := fmt.Sprintf("%s executed %d, %d, then %d×%d times concurrently:", kind, third, n, G, K)
		if b.Goroutines > a.Goroutines+jbSlack || c.Goroutines > a.Goroutines+jbSlack {
			r.flag("%s goroutines grow with the number of executions: %d → %d → %d (before: %d)", what, a.Goroutines, b.Goroutines, c.Goroutines, base.Goroutines)
		}
		if a.FDs >= 0 && (b.FDs > a.FDs+jbSlack || c.FDs > a.FDs+jbSlack) {
			r.flag("%s open descriptors grow with the number of executions: %d → %d → %d (before: %d)", what, a.FDs, b.FDs, c.FDs, base.FDs)
		}
		if c.Children > 0 || b.Children > 0 {
			r.flag("%s %d / %d child processes are left behind", what, b.Children, c.Children)
		}
		if open != nil && (a.OpenBodies > 1 || b.OpenBodies > 1 || c.OpenBodies > 1) {
			r.flag("%s open response bodies: %d → %d → %d (at most the last response's body may stay open)", what, a.OpenBodies, b.OpenBodies, c.OpenBodies)
		}
	}

	fj := job.NewFunctionJob(func(c context.Context) (int, error) { return 1, nil })
	check("FunctionJob", func() { _ = fj.Execute(ctx) }, nil)

	hang := make(chan struct{})
	var newConns int64
	srv := jbServerCounting(hang, &newConns)
	tr := &http.Transport{}
	cl := &jbCountingClient{inner: &http.Client{Transport: tr, Timeout: 10 * time.Second}}
	cj := job.NewCurlJobWithOptions(jbRequest(srv.URL+"/code/200"), job.CurlJobOptions{HTTPClient: cl})
	var failed int64
	check("CurlJob(loopback, 200 with body)", func() {
		if err := cj.Execute(ctx); err != nil {
			atomic.AddInt64(&failed, 1)
		}
	}, &cl.open)
	if failed > 0 {
		r.notes = append(r.notes, fmt.Sprintf("%d loopback requests of the leak check failed", failed))
	}
	if reqs, conns := atomic.LoadInt64(&cl.total), atomic.LoadInt64(&newConns); conns*2 > reqs {
		r.notes = append(r.notes, "one CurlJob executed repeatedly against a keep-alive server opens about one TCP connection per request "+
			"(Execute closes the previous response body without reading it, so the transport cannot reuse the connection); connections are closed, not leaked")
		r.samples = append(r.samples, map[string]any{"curl_requests": reqs, "tcp_connections_opened": conns})
	}
	cj2 := job.NewCurlJobWithOptions(jbRequest(srv.URL+"/cycle"), job.CurlJobOptions{HTTPClient: cl})
	before := atomic.LoadInt64(&cl.open)
	for i := 0; i < 50; i++ {
		_ = cj2.Execute(ctx)
	}
	if d := atomic.LoadInt64(&cl.open) - before; d > 1 {
		r.flag("CurlJob(loopback, mixed codes) executed 50 times: %d response bodies stay open", d)
	}
	close(hang)
	tr.CloseIdleConnections()
	srv.CloseClientConnections()
	srv.Close()

	if !skipShell {
		sj := job.NewShellJob("printf x; printf y >&2")
		check("ShellJob", func() { _ = sj.Execute(ctx) }, nil)
	}
}

// ---------------------------------------------------------------------------------------------- a panicking HTTPHandler

// The HTTP client of a CurlJob is user code (job.HTTPHandler): it may panic. The scheduler recovers the panic of a job and carries
// on; the job object must then still be usable: JobStatus() / DumpResponse() answer, the next Execute runs (and is reported
// faithfully), and executions do not pile up behind a mutex that the panicking execution left locked ("executing a job
// repeatedly does not accumulate goroutines": a blocked Execute is a goroutine — a worker of the scheduler — that never ends).

const jbPanicDeadline = 8 * time.Second // one-sided: the calls judged take microseconds

type jbHandlerPanic struct{ call int64 }

// jbPanicClient plays the script of its inner client, but panics on its k-th call.
type jbPanicClient struct {
	inner   *jbScriptClient
	panicAt int64
	calls   int64
}

func (c *jbPanicClient) Do(req *http.Request) (*http.Response, error) {
	if n := atomic.AddInt64(&c.calls, 1); n == c.panicAt {
		panic(jbHandlerPanic{n})
	}
	return c.inner.Do(req)
}

// jbWithin runs f on its own goroutine and waits for it at most d.
func jbWithin[T any](d time.Duration, f func() T) (T, bool) {
	ch := make(chan T, 1)
	go func() { ch <- f() }()
	t := time.NewTimer(d)
	defer t.Stop()
	select {
	case v := <-ch:
		return v, true
	case <-t.C:
		var zero T
		return zero, false
	}
}

type jbExecResult struct {
	recovered any
	err       error
}

// jbExecRecovered executes the job the way the scheduler's executeWithRetries does: a panic is recovered.
func jbExecRecovered(ctx context.Context, cj *job.CurlJob) (out jbExecResult) {
	defer func() { out.recovered = recover() }()
	out.err = cj.Execute(ctx)
	return
}

func jbScriptText(script []jbCurlOutcome) string {
	var parts []string
	for _, o := range script {
		t := strconv.Itoa(o.code)
		if o.code < 0 {
			t = "nil"
		}
		if o.body {
			t += "+body"
		}
		if o.err {
			t += "+err"
		}
		parts = append(parts, t)
	}
	return "[" + strings.Join(parts, " ") + "]"
}

// jbPanicCase: executions 1..k-1 return, execution k panics inside the handler (recovered), then the accessors must answer and
// executions k+1.. must run and be reported faithfully. Returns false when something blocked (the caller stops the phase: a
// blocked call leaves a goroutine behind).
func jbPanicCase(r *jbRun, ctx context.Context, k int, script []jbCurlOutcome, withCallback bool) bool {
	inner := &jbScriptClient{script: script}
	cl := &jbPanicClient{inner: inner, panicAt: int64(k)}
	var cbs int64
	opts := job.CurlJobOptions{HTTPClient: cl}
	if withCallback {
		opts.Callback = func(context.Context, *job.CurlJob) { atomic.AddInt64(&cbs, 1) }
	}
	cj := job.NewCurlJobWithOptions(jbRequest("http://qh.invalid/panicking-handler"), opts)
	what := fmt.Sprintf("CurlJob with a custom HTTPHandler that panics on its call #%d (other calls answer %s in turn; callback %v)", k, jbScriptText(script), withCallback)
	r.count("panicking-handler", fmt.Sprintf("panic at call %d", k))
	outcomeOf := func(i int) jbCurlOutcome { // of Execute #i (1-based); the panicking call does not consume a script entry
		if i > k {
			i--
		}
		return script[(i-1)%len(script)]
	}
	faithful := func(i int, err error) {
		o := outcomeOf(i)
		inner.mu.Lock()
		wantErr := inner.errs[len(inner.errs)-1]
		inner.mu.Unlock()
		if err != wantErr {
			r.flag("%s: Execute #%d returned %v, the handler returned %v", what, i, err, wantErr)
		}
		wantOK := o.code >= 0 && jbCodeOK(o.code)
		if st := cj.JobStatus(); (st == job.StatusOK) != wantOK || (st != job.StatusOK && st != job.StatusFailure) {
			r.flag("%s: after Execute #%d (handler answered %s) JobStatus() = %s", what, i, jbScriptText([]jbCurlOutcome{o}), jbStatus(st))
		}
		wantCode := "nil"
		if o.code >= 0 {
			wantCode = strconv.Itoa(o.code)
		}
		if got := jbStoredCode(cj); got != wantCode {
			r.flag("%s: after Execute #%d (handler answered %s) DumpResponse shows %s", what, i, jbScriptText([]jbCurlOutcome{o}), got)
		}
	}
	for i := 1; i < k; i++ {
		res, ok := jbWithin(jbPanicDeadline, func() jbExecResult { return jbExecRecovered(ctx, cj) })
		if !ok {
			r.flag("%s: Execute #%d (before any panic) did not return within %v", what, i, jbPanicDeadline)
			return false
		}
		if res.recovered != nil {
			r.flag("%s: Execute #%d panicked with %v although the handler did not", what, i, res.recovered)
			return true
		}
		faithful(i, res.err)
	}
	cbBefore := atomic.LoadInt64(&cbs)
	res, ok := jbWithin(jbPanicDeadline, func() jbExecResult { return jbExecRecovered(ctx, cj) })
	if !ok {
		r.flag("%s: Execute #%d (the one whose handler panics) neither returned nor panicked within %v", what, k, jbPanicDeadline)
		return false
	}
	if res.recovered == nil {
		r.count("panicking-handler", "the panic did not reach the caller of Execute")
	} else if _, ours := res.recovered.(jbHandlerPanic); !ours {
		r.flag("%s: Execute #%d panicked with %v instead of the handler's panic value", what, k, res.recovered)
	}
	// the panic has been recovered (as the scheduler does): the job object must still answer
	t0 := time.Now()
	if _, ok := jbWithin(jbPanicDeadline, cj.JobStatus); !ok {
		r.flag("%s: JobStatus() has not returned %v after the panic of Execute #%d was recovered (as the scheduler does for a panicking job): "+
			"the job's mutex was left locked — every later Execute of this job blocks its goroutine (a worker of the scheduler) for ever", what, jbPanicDeadline, k)
		return false
	}
	if _, ok := jbWithin(jbPanicDeadline, func() error { _, e := cj.DumpResponse(false); return e }); !ok {
		r.flag("%s: DumpResponse() has not returned %v after the panic of Execute #%d was recovered", what, jbPanicDeadline, k)
		return false
	}
	r.count("panicking-handler", "accessors answered after the recovered panic")
	_ = t0
	if d := atomic.LoadInt64(&cbs) - cbBefore; d > 1 {
		r.flag("%s: the callback ran %d times for the panicking Execute #%d", what, d, k)
	}
	for i := k + 1; i <= k+3; i++ {
		cbBefore = atomic.LoadInt64(&cbs)
		res, ok := jbWithin(jbPanicDeadline, func() jbExecResult { return jbExecRecovered(ctx, cj) })
		if !ok {
			r.flag("%s: Execute #%d (after the recovered panic of #%d) did not return within %v: executions pile up behind the job's mutex", what, i, k, jbPanicDeadline)
			return false
		}
		if res.recovered != nil {
			r.flag("%s: Execute #%d panicked with %v although only call #%d of the handler panics", what, i, res.recovered, k)
			return true
		}
		if n := atomic.LoadInt64(&cl.calls); n != int64(i) {
			r.flag("%s: after Execute #%d the handler has been called %d times", what, i, n)
		}
		faithful(i, res.err)
		if withCallback {
			if d := atomic.LoadInt64(&cbs) - cbBefore; d != 1 {
				r.flag("%s: the callback ran %d times for Execute #%d (after the recovered panic)", what, d, i)
			}
		}
		r.count("panicking-handler", "execution after the recovered panic judged")
	}
	if open, _, _ := inner.counts(); open > 1 {
		r.flag("%s: %d response bodies are open after %d executions (at most the last response's body may stay open)", what, open, k+3)
	}
	return true
}

func jbPanickingHandler(r *jbRun, ctx context.Context, rng *rand.Rand) {
	scripts := [][]jbCurlOutcome{
		{{code: 200, body: true}},
		{{code: 200, body: true}, {code: 404, body: true}, {code: -1, err: true, errText: "refused"}, {code: 302}, {code: 503, body: true, err: true, errText: "both"}},
		{{code: 500, body: true}, {code: 204}},
	}
	ks := []int{1, 2, 3, 4 + rng.Intn(6)}
	for _, k := range ks {
		for si, script := range scripts {
			for _, cb := range []bool{false, true} {
				rot := append(append([]jbCurlOutcome{}, script[si%len(script):]...), script[:si%len(script)]...)
				if !jbPanicCase(r, ctx, k, rot, cb) {
					return // something blocked: do not leave more goroutines behind
				}
			}
		}
	}

	// several goroutines execute ONE job whose handler panics once: everybody finishes (each recovers like the scheduler)
	{
		const G, K = 4, 12
		at := 3 + rng.Intn(G*K-6)
		inner := &jbScriptClient{script: []jbCurlOutcome{{code: 200, body: true}, {code: 500, body: true}}}
		cl := &jbPanicClient{inner: inner, panicAt: int64(at)}
		cj := job.NewCurlJobWithOptions(jbRequest("http://qh.invalid/panicking-handler-concurrent"), job.CurlJobOptions{HTTPClient: cl})
		base := runtime.NumGoroutine()
		var panics, returned int64
		done := make(chan struct{}, G)
		for g := 0; g < G; g++ {
			go func() {
				defer func() { done <- struct{}{} }()
				for i := 0; i < K; i++ {
					if jbExecRecovered(ctx, cj).recovered != nil {
						atomic.AddInt64(&panics, 1)
					} else {
						atomic.AddInt64(&returned, 1)
					}
				}
			}()
		}
		finished := 0
		t := time.NewTimer(jbPanicDeadline)
	wait:
		for finished < G {
			select {
			case <-done:
				finished++
			case <-t.C:
				break wait
			}
		}
		t.Stop()
		r.count("panicking-handler", "concurrent executions of one job, one panic")
		if finished < G {
			r.flag("%d goroutines executing ONE CurlJob %d times each, its custom HTTPHandler panics on call #%d (recovered by the caller, as the scheduler does): only %d of %d goroutines "+
				"finished within %v (%d executions returned, %d panicked; %d goroutines now, %d before): the executions after the panic block for ever on the job's mutex",
				G, K, at, finished, G, jbPanicDeadline, atomic.LoadInt64(&returned), atomic.LoadInt64(&panics), runtime.NumGoroutine(), base)
			return
		}
		if p, n := atomic.LoadInt64(&panics), atomic.LoadInt64(&returned); p != 1 || n != G*K-1 {
			r.flag("%d goroutines executing ONE CurlJob %d times each, its HTTPHandler panics on call #%d only: %d executions panicked, %d returned", G, K, at, p, n)
		}
		if _, ok := jbWithin(jbPanicDeadline, cj.JobStatus); !ok {
			r.flag("JobStatus() of a CurlJob blocked after %d concurrent executions with one panicking handler call", G*K)
			return
		}
		if open, _, _ := inner.counts(); open > 1 {
			r.flag("%d response bodies open after %d concurrent executions of one CurlJob with one panicking handler call", open, G*K)
		}
		if g := jbSettle(base+jbSlack, 2*time.Second); g > base+jbSlack {
			r.flag("goroutines grew from %d to %d over %d concurrent executions of one CurlJob with one panicking handler call", base, g, G*K)
		}
	}

	// the same through a real scheduler: it recovers the panic of fire #2 (C13) — the job must keep being executed at later fire times
	{
		const wantCalls = 8
		inner := &jbScriptClient{script: []jbCurlOutcome{{code: 200, body: true}}}
		cl := &jbPanicClient{inner: inner, panicAt: 2}
		cj := job.NewCurlJobWithOptions(jbRequest("http://qh.invalid/panicking-handler-scheduled"), job.CurlJobOptions{HTTPClient: cl})
		base := runtime.NumGoroutine()
		s, err := quartz.NewStdScheduler(quartz.WithLogger(qlogger.NoOpLogger{}), quartz.WithOutdatedThreshold(time.Minute))
		must(err)
		sctx, cancel := context.WithCancel(ctx)
		s.Start(sctx)
		must(s.ScheduleJob(quartz.NewJobDetail(cj, quartz.NewJobKey("panicking-handler")), quartz.NewSimpleTrigger(5*time.Millisecond)))
		deadline := time.Now().Add(jbPanicDeadline)
		for atomic.LoadInt64(&cl.calls) < wantCalls && time.Now().Before(deadline) {
			time.Sleep(2 * time.Millisecond)
		}
		calls := atomic.LoadInt64(&cl.calls)
		during := runtime.NumGoroutine()
		r.count("panicking-handler", "scheduled every 5 ms, handler panics at the second fire time")
		blocked := false
		if calls < wantCalls {
			blocked = true
			r.flag("a CurlJob scheduled every 5 ms whose custom HTTPHandler panics on its call #2 (the scheduler recovers the panic and keeps running): the handler was called only %d times "+
				"in %v — after the panic every fire time starts an Execute that blocks on the job's mutex (%d goroutines before Start, %d now)", calls, jbPanicDeadline, base, during)
		} else if _, ok := jbWithin(jbPanicDeadline, cj.JobStatus); !ok {
			blocked = true
			r.flag("JobStatus() of a scheduled CurlJob blocked after its handler panicked once")
		}
		s.Stop()
		cancel()
		wctx, wcancel := context.WithTimeout(context.Background(), 3*time.Second)
		s.Wait(wctx)
		wcancel()
		if !blocked {
			if g := jbSettle(base+jbSlack, 3*time.Second); g > base+jbSlack {
				r.flag("goroutines grew from %d to %d over a scheduler run (%d fire times) of a CurlJob whose handler panicked once", base, g, calls)
			}
		}
	}
}
