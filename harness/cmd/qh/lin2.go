package main

// C09, calls that arrive while the scheduler is in the middle of firing a job ("with the scheduler firing jobs at the same time").
//
// The histories of lin.go always keep a background job in the queue and use triggers that answer within microseconds, so the queue
// is never seen one entry short for longer than that. Here the job being fired is the ONLY entry (or one of two), and its trigger
// blocks inside NextFireTime on the call the execution loop makes: the loop has popped the entry, is asking the trigger and has not
// pushed the entry back. 1..3 clients issue one registry call each inside that window (Clear, GetJobKeys, GetScheduledJob, DeleteJob,
// PauseJob, ResumeJob, ScheduleJob with / without Replace); 20..40 ms later the trigger is released; when all calls have returned the
// harness reads the registry (GetJobKeys, GetScheduledJob of both keys). Firing a recurring job is not a registry operation: it neither
// adds nor removes a key. Judged: the recorded history (calls before the window, calls inside it with their invocation / return times,
// reads after it) must be equivalent to SOME sequential order that respects real time, under the sequential specification of a
// registry keyed by (group, name) — e.g. ScheduleJob(K)=nil; Clear()=nil; GetJobKeys()=[K] with no ScheduleJob in between has none.
// A call that has not returned 5 s after the release is reported as well.

import (
	"context"
	"fmt"
	"math/rand"
	"sort"
	"strings"
	"sync"
	"sync/atomic"
	"time"

	"github.com/reugn/go-quartz/quartz"
)

type l2State struct{ exists, susp [2]bool }

type l2Op struct {
	client   int
	kind     string // schedule delete pause resume get getfull keys clear
	key      int
	repl     bool
	inv, ret int64
	res      string
}

func (o *l2Op) String() string {
	k := []string{"K", "L"}[o.key]
	switch o.kind {
	case "schedule":
		return fmt.Sprintf("ScheduleJob(%s, replace=%v)", k, o.repl)
	case "delete":
		return "DeleteJob(" + k + ")"
	case "pause":
		return "PauseJob(" + k + ")"
	case "resume":
		return "ResumeJob(" + k + ")"
	case "get", "getfull":
		return "GetScheduledJob(" + k + ")"
	case "keys":
		return "GetJobKeys()"
	}
	return "Clear()"
}

// l2Apply: the sequential specification (a registry keyed by (group, name); key 0 = K, key 1 = L)
func l2Apply(s l2State, o *l2Op) (l2State, string) {
	k := o.key
	switch o.kind {
	case "schedule":
		if s.exists[k] && !o.repl {
			return s, "err exists"
		}
		s.exists[k], s.susp[k] = true, false
		return s, "ok"
	case "delete":
		if !s.exists[k] {
			return s, "err notfound"
		}
		s.exists[k], s.susp[k] = false, false
		return s, "ok"
	case "pause":
		switch {
		case !s.exists[k]:
			return s, "err notfound"
		case s.susp[k]:
			return s, "err suspended"
		}
		s.susp[k] = true
		return s, "ok"
	case "resume":
		switch {
		case !s.exists[k]:
			return s, "err notfound"
		case !s.susp[k]:
			return s, "err active"
		}
		s.susp[k] = false
		return s, "ok"
	case "get":
		if !s.exists[k] {
			return s, "err notfound"
		}
		return s, "ok"
	case "getfull":
		if !s.exists[k] {
			return s, "err notfound"
		}
		return s, "ok paused=" + b01(s.susp[k])
	case "keys":
		var ks []string
		for i, n := range []string{"K", "L"} {
			if s.exists[i] {
				ks = append(ks, n)
			}
		}
		return s, "[" + strings.Join(ks, " ") + "]"
	case "clear":
		return l2State{}, "ok"
	}
	return s, "?"
}

func l2Linearizable(ops []*l2Op) bool {
	n := len(ops)
	type key struct {
		mask uint32
		st   l2State
	}
	dead := map[key]bool{}
	var rec func(mask uint32, st l2State) bool
	rec = func(mask uint32, st l2State) bool {
		if mask == uint32(1)<<n-1 {
			return true
		}
		if dead[key{mask, st}] {
			return false
		}
		var minRet int64 = 1 << 62
		for i, o := range ops {
			if mask&(1<<i) == 0 && o.ret < minRet {
				minRet = o.ret
			}
		}
		for i, o := range ops {
			if mask&(1<<i) != 0 || o.inv > minRet {
				continue
			}
			ns, want := l2Apply(st, o)
			if want == o.res && rec(mask|1<<i, ns) {
				return true
			}
		}
		dead[key{mask, st}] = true
		return false
	}
	return rec(0, l2State{})
}

// l2Trig: every interval; its blockAt-th call (made by the execution loop: the first call is ScheduleJob's) reports on entered and
// waits for release (at most 10 s).
type l2Trig struct {
	interval time.Duration
	blockAt  int32
	calls    atomic.Int32
	entered  chan struct{}
	release  chan struct{}
}

func (t *l2Trig) NextFireTime(prev int64) (int64, error) {
	if t.calls.Add(1) == t.blockAt {
		close(t.entered)
		select {
		case <-t.release:
		case <-time.After(10 * time.Second):
		}
	}
	return prev + int64(t.interval), nil
}
func (t *l2Trig) Description() string { return "l2" }

type l2Plain struct{ interval time.Duration }

func (t l2Plain) NextFireTime(prev int64) (int64, error) { return prev + int64(t.interval), nil }
func (t l2Plain) Description() string                    { return "l2plain" }

type l2Case struct {
	ID      int
	Queue   string // default | copying
	Mode    string // async | workers | blocking
	TwoJobs bool   // a second job L (due in an hour) is registered as well
	Before  bool   // K is scheduled before Start
	BlockAt int32
	HoldMs  int
	Window  []*l2Op // one call per client, issued inside the window
}

func (c l2Case) String() string {
	var w []string
	for _, o := range c.Window {
		w = append(w, o.String())
	}
	jobs := "K is the only job"
	if c.TwoJobs {
		jobs = "jobs K and L (L due in an hour)"
	}
	return fmt.Sprintf("%s queue, %s execution, %s, K's trigger held inside its call number %d (made by the execution loop between Pop and Push) for %d ms, calls issued meanwhile: %s",
		c.Queue, c.Mode, jobs, c.BlockAt, c.HoldMs, strings.Join(w, " | "))
}

type l2Result struct {
	viol    []string
	reached bool
	ops     []*l2Op
	blocked int // calls of the window that had not returned when the trigger was released
}

func l2RunCase(c l2Case) (res l2Result) {
	var q quartz.JobQueue = quartz.NewJobQueue()
	if c.Queue == "copying" {
		q = &copyQ{}
	}
	opts := []quartz.SchedulerOpt{quartz.WithQueue(q, &sync.Mutex{}), quartz.WithOutdatedThreshold(time.Hour)}
	switch c.Mode {
	case "workers":
		opts = append(opts, quartz.WithWorkerLimit(2))
	case "blocking":
		opts = append(opts, quartz.WithBlockingExecution())
	}
	s, err := quartz.NewStdScheduler(opts...)
	if err != nil {
		return l2Result{viol: []string{"C09 harness: " + err.Error()}}
	}
	keys := []*quartz.JobKey{quartz.NewJobKeyWithGroup("K", "lin2"), quartz.NewJobKeyWithGroup("L", "lin2")}
	tr := &l2Trig{interval: 20 * time.Millisecond, blockAt: c.BlockAt, entered: make(chan struct{}), release: make(chan struct{})}
	base := time.Now()
	now := func() int64 { return int64(time.Since(base)) }
	var all []*l2Op
	call := func(o *l2Op) {
		k := keys[o.key]
		o.inv = now()
		var err error
		switch o.kind {
		case "schedule":
			jo := quartz.NewDefaultJobDetailOptions()
			jo.Replace = o.repl
			var t quartz.Trigger = l2Plain{20 * time.Millisecond}
			if o.key == 1 {
				t = l2Plain{time.Hour}
			}
			err = s.ScheduleJob(quartz.NewJobDetailWithOptions(&tagJob{tag: 1}, k, jo), t)
		case "delete":
			err = s.DeleteJob(k)
		case "pause":
			err = s.PauseJob(k)
		case "resume":
			err = s.ResumeJob(k)
		case "get", "getfull":
			var sj quartz.ScheduledJob
			sj, err = s.GetScheduledJob(k)
			if err == nil && o.kind == "getfull" {
				o.res = "ok paused=" + b01(sj.JobDetail().Options().Suspended)
			}
		case "keys":
			var ks []*quartz.JobKey
			ks, err = s.GetJobKeys()
			if err == nil {
				var names []string
				for _, x := range ks {
					names = append(names, x.Name())
				}
				sort.Strings(names)
				o.res = "[" + strings.Join(names, " ") + "]"
			}
		case "clear":
			err = s.Clear()
		}
		if o.res == "" {
			o.res = serr(err)
		}
		o.ret = now()
	}
	ctx, cancel := context.WithCancel(context.Background())
	released := false
	defer func() {
		if !released {
			close(tr.release)
		}
		cancel()
		s.Stop()
		wctx, wc := context.WithTimeout(context.Background(), 3*time.Second)
		s.Wait(wctx)
		wc()
	}()
	// before the window (sequential): the jobs are registered. K's first ScheduleJob uses the blocking trigger (its call number 1).
	first := &l2Op{client: -1, kind: "schedule", key: 0}
	schedK := func() {
		first.inv = now()
		first.res = serr(s.ScheduleJob(quartz.NewJobDetail(&tagJob{tag: 0}, keys[0]), tr))
		first.ret = now()
		all = append(all, first)
	}
	if c.Before {
		schedK()
	}
	if c.TwoJobs {
		o := &l2Op{client: -1, kind: "schedule", key: 1}
		call(o)
		all = append(all, o)
	}
	s.Start(ctx)
	if !c.Before {
		schedK()
	}
	select {
	case <-tr.entered:
		res.reached = true
	case <-time.After(5 * time.Second):
		// the loop never fired K that often: not this scenario's business (C03/C05)
		return res
	}
	// the window: the loop holds K (popped, not pushed back)
	var wg sync.WaitGroup
	var returned atomic.Int32
	for i, o := range c.Window {
		o.client = i
		wg.Add(1)
		go func(o *l2Op) {
			defer wg.Done()
			call(o)
			returned.Add(1)
		}(o)
	}
	time.Sleep(time.Duration(c.HoldMs) * time.Millisecond)
	res.blocked = len(c.Window) - int(returned.Load())
	close(tr.release)
	released = true
	done := make(chan struct{})
	go func() { wg.Wait(); close(done) }()
	select {
	case <-done:
	case <-time.After(5 * time.Second):
		res.viol = append(res.viol, fmt.Sprintf("C09 a registry call issued while a job was being fired had not returned 5 s after the firing step was allowed to finish (%s)", c))
		return res
	}
	all = append(all, c.Window...)
	// after the window (sequential): what does the registry hold? (twice, 30 ms apart: a firing step overtaken by a call has ended by then)
	for round := 0; round < 2; round++ {
		for _, o := range []*l2Op{{client: -1, kind: "keys"}, {client: -1, kind: "getfull", key: 0}, {client: -1, kind: "getfull", key: 1}} {
			call(o)
			all = append(all, o)
		}
		if round == 0 {
			time.Sleep(30 * time.Millisecond)
		}
	}
	res.ops = all
	if !l2Linearizable(all) {
		var desc []string
		for _, o := range all {
			who := "main"
			if o.client >= 0 {
				who = fmt.Sprintf("c%d", o.client)
			}
			desc = append(desc, fmt.Sprintf("%s %s [%dus,%dus] -> %s", who, o, o.inv/1000, o.ret/1000, o.res))
		}
		res.viol = append(res.viol, fmt.Sprintf("C09 history with calls made while the scheduler was firing a job is not equivalent to any sequential order of its calls (firing a recurring job neither adds nor removes a key): %s. Scenario: %s",
			strings.Join(desc, "; "), c))
	}
	return res
}

func l2Cases(seed int64, n int) []l2Case {
	r := rand.New(rand.NewSource(seed ^ 0x6c32))
	menu := func() *l2Op {
		kind := []string{"clear", "clear", "keys", "get", "delete", "pause", "resume", "schedule", "schedule"}[r.Intn(9)]
		o := &l2Op{kind: kind}
		if kind != "clear" && kind != "keys" {
			if r.Intn(4) == 0 {
				o.key = 1
			}
			o.repl = kind == "schedule" && r.Intn(2) == 0
		}
		return o
	}
	var cs []l2Case
	queues := []string{"default", "copying"}
	modes := []string{"async", "workers", "blocking"}
	// fixed part: every single call alone in the window, K the only job / K and L
	for _, two := range []bool{false, true} {
		for _, o := range []l2Op{{kind: "clear"}, {kind: "keys"}, {kind: "get"}, {kind: "delete"}, {kind: "pause"}, {kind: "resume"}, {kind: "schedule"}, {kind: "schedule", repl: true}} {
			o := o
			cs = append(cs, l2Case{Queue: queues[len(cs)%2], Mode: modes[len(cs)%3], TwoJobs: two, Before: len(cs)%4 < 2, BlockAt: 2, HoldMs: 25, Window: []*l2Op{&o}})
		}
	}
	for len(cs) < n {
		c := l2Case{Queue: queues[r.Intn(2)], Mode: modes[r.Intn(3)], TwoJobs: r.Intn(3) == 0, Before: r.Intn(2) == 0, BlockAt: int32(2 + r.Intn(2)), HoldMs: 20 + r.Intn(21)}
		for i := 0; i < 1+r.Intn(3); i++ {
			c.Window = append(c.Window, menu())
		}
		cs = append(cs, c)
	}
	for i := range cs {
		cs[i].ID = i
	}
	return cs
}

// lin2Histories runs n in-flight-window histories (8 schedulers side by side) and returns the violations and statistics.
func lin2Histories(seed int64, n int) (viol []string, evals, reached int, dist map[string]int, samples []any) {
	cs := l2Cases(seed, n)
	results := make([]l2Result, len(cs))
	var wg sync.WaitGroup
	sem := make(chan struct{}, 8)
	for i := range cs {
		wg.Add(1)
		sem <- struct{}{}
		go func(i int) {
			defer wg.Done()
			defer func() { <-sem }()
			results[i] = l2RunCase(cs[i])
		}(i)
	}
	wg.Wait()
	dist = map[string]int{}
	for i, res := range results {
		if len(viol) < 5 {
			viol = append(viol, res.viol...)
		}
		evals += len(res.ops)
		if res.reached {
			reached++
			dist["window reached"]++
			dist[fmt.Sprintf("calls still waiting at the release: %d of %d", res.blocked, len(cs[i].Window))]++
		} else {
			dist["window not reached"]++
		}
		for _, o := range cs[i].Window {
			dist["in window: "+o.kind+" -> "+strings.Fields(o.res + " -")[0]+" "+strings.Fields(o.res + " - -")[1]]++
		}
		if len(samples) < 2 && res.reached {
			var desc []string
			for _, o := range res.ops {
				desc = append(desc, fmt.Sprintf("%s -> %s", o, o.res))
			}
			samples = append(samples, desc)
		}
	}
	return viol, evals, reached, dist, samples
}
