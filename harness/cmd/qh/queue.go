package main

import (
	"errors"
	"flag"
	"fmt"
	"hash/fnv"
	"math"
	"math/rand"
	"sort"
	"strings"

	"github.com/reugn/go-quartz/matcher"
	"github.com/reugn/go-quartz/quartz"
)

func init() { commands["queue"] = queueRun }

func qerr(err error) string {
	switch {
	case errors.Is(err, quartz.ErrQueueEmpty):
		return "err empty"
	case errors.Is(err, quartz.ErrJobNotFound):
		return "err notfound"
	case errors.Is(err, quartz.ErrJobAlreadyExists):
		return "err exists"
	}
	return "err other " + err.Error()
}

type absEntry struct {
	group, name string
	prio        int64
	susp        bool
	tag         int
}

func (e absEntry) String() string {
	s := 0
	if e.susp {
		s = 1
	}
	return fmt.Sprintf("%s/%s/%d/%d/%d", hexArg(e.group), hexArg(e.name), e.prio, s, e.tag)
}

type matcherSpec struct {
	field, op, pat string // field n|g|s ; op eq|sw|ew|ct ; for s: pat = "0"|"1"
}

func (m matcherSpec) String() string {
	if m.field == "s" {
		return "s:" + m.pat
	}
	return m.field + ":" + m.op + ":" + hexArg(m.pat)
}

func (m matcherSpec) build() quartz.Matcher[quartz.ScheduledJob] {
	if m.field == "s" {
		if m.pat == "1" {
			return matcher.JobPaused()
		}
		return matcher.JobActive()
	}
	if m.field == "n" {
		switch m.op {
		case "eq":
			return matcher.JobNameEquals(m.pat)
		case "sw":
			return matcher.JobNameStartsWith(m.pat)
		case "ew":
			return matcher.JobNameEndsWith(m.pat)
		}
		return matcher.JobNameContains(m.pat)
	}
	switch m.op {
	case "eq":
		return matcher.JobGroupEquals(m.pat)
	case "sw":
		return matcher.JobGroupStartsWith(m.pat)
	case "ew":
		return matcher.JobGroupEndsWith(m.pat)
	}
	return matcher.JobGroupContains(m.pat)
}

// holds is the mathematical meaning of a matcher, written without the strings package helpers
// the implementation uses.
func (m matcherSpec) holds(e absEntry) bool {
	if m.field == "s" {
		return e.susp == (m.pat == "1")
	}
	src := e.name
	if m.field == "g" {
		src = e.group
	}
	p := m.pat
	switch m.op {
	case "eq":
		return src == p
	case "sw":
		return len(src) >= len(p) && src[:len(p)] == p
	case "ew":
		return len(src) >= len(p) && src[len(src)-len(p):] == p
	}
	for i := 0; i+len(p) <= len(src); i++ {
		if src[i:i+len(p)] == p {
			return true
		}
	}
	return false
}

// the pools contain keys whose "group::name" renderings collide (etl + daily::load vs etl::daily + load),
// keys that differ only by case, and patterns that differ from stored names only by case
var qGroups = []string{"default", "g1", "grp2", "g", "etl", "etl::daily", "G1", "Default"}
var qNames = []string{"a", "ab", "abc", "b", "ba", "cab", "job-é", "x y", "daily::load", "load", "AB", "Abc", "::", "a::"}
var qPats = []string{"", "a", "ab", "b", "abc", "c", "g", "g1", "default", "rp", "é", " ", "zz", "abcd", "A", "AB", "ABC", "G1", "DEFAULT", "ETL", "etl", "::", "load", "LOAD", "É"}
var qPrios = []int64{0, 1, 2, 3, 5, 5, 7, 7, 100, -1, -5, math.MaxInt64, math.MaxInt64, math.MaxInt64 - 1, math.MinInt64}

func genMatchers(r *rand.Rand) []matcherSpec {
	n := []int{0, 1, 1, 1, 2, 2, 3}[r.Intn(7)]
	var ms []matcherSpec
	for i := 0; i < n; i++ {
		switch r.Intn(5) {
		case 0:
			ms = append(ms, matcherSpec{"s", "", []string{"0", "1"}[r.Intn(2)]})
		case 1, 2:
			ms = append(ms, matcherSpec{"n", []string{"eq", "sw", "ew", "ct"}[r.Intn(4)], qPats[r.Intn(len(qPats))]})
		default:
			ms = append(ms, matcherSpec{"g", []string{"eq", "sw", "ew", "ct"}[r.Intn(4)], qPats[r.Intn(len(qPats))]})
		}
	}
	return ms
}

func queueRun(args []string) int {
	fs := flag.NewFlagSet("queue", flag.ExitOnError)
	seed := fs.Int64("seed", 1, "")
	nseq := fs.Int("n", 400, "number of operation sequences")
	maxLen := fs.Int("len", 60, "maximum sequence length")
	out := fs.String("out", "", "")
	exhaustive := fs.Int("exhaustive", 0, "if > 0: all sequences up to this depth over a small op alphabet instead of random ones")
	fs.Parse(args)
	r := rand.New(rand.NewSource(*seed))
	mt := newMinter()
	var ops, impl []string
	dist := map[string]map[string]int{"op": {}, "outcome": {}, "size": {}}
	viol := []string{}
	seen := map[uint64]bool{}
	nontrivial := 0
	tag := 0

	runSeq := func(seq []string, params [][]string) {
		q := quartz.NewJobQueue()
		abs := map[string]absEntry{}
		ops = append(ops, "queue new")
		impl = append(impl, "ok")
		h := fnv.New64a()
		flag := func(msg string) {
			if len(viol) < 50 {
				viol = append(viol, fmt.Sprintf("%s at op %d of %v", msg, len(ops), ops[len(ops)-min(len(ops), 8):]))
			}
		}
		minOf := func() (int64, bool) {
			first := true
			var m int64
			for _, e := range abs {
				if first || e.prio < m {
					m, first = e.prio, false
				}
			}
			return m, !first
		}
		for i, op := range seq {
			p := params[i]
			var line, ans string
			switch op {
			case "push":
				tag++
				g, n := p[0], p[1]
				var prio int64
				fmt.Sscan(p[2], &prio)
				susp, repl := p[3] == "1", p[4] == "1"
				sj := mt.mint(g, n, prio, susp, repl, tag)
				line = fmt.Sprintf("queue push %s %s %d %s %s %d", hexArg(g), hexArg(n), prio, p[3], p[4], tag)
				err := q.Push(sj)
				_, exists := abs[g+"\x00"+n]
				if err != nil {
					ans = qerr(err)
					if !(exists && !repl && ans == "err exists") {
						flag("C11 Push failed although the key is absent or Replace is set: " + ans)
					}
				} else {
					ans = "ok"
					if exists && !repl {
						flag("C11 Push accepted a duplicate key without Replace")
					}
					abs[g+"\x00"+n] = absEntry{g, n, prio, susp, tag}
				}
			case "pop", "head":
				line = "queue " + op
				var sj quartz.ScheduledJob
				var err error
				if op == "pop" {
					sj, err = q.Pop()
				} else {
					sj, err = q.Head()
				}
				m, nonEmpty := minOf()
				if err != nil {
					ans = qerr(err)
					if nonEmpty || ans != "err empty" {
						flag("C11 " + op + " of a non-empty queue failed, or wrong error: " + ans)
					}
				} else {
					ans = "ok " + entryString(sj)
					k := sj.JobDetail().JobKey()
					e, ok := abs[k.Group()+"\x00"+k.Name()]
					if !nonEmpty || !ok || e.String() != entryString(sj) {
						flag("C11 " + op + " returned an entry that is not in the queue: " + ans)
					} else if e.prio != m {
						flag(fmt.Sprintf("C11 %s returned priority %d but the minimum is %d", op, e.prio, m))
					}
					if op == "pop" {
						delete(abs, k.Group()+"\x00"+k.Name())
					}
				}
			case "get", "remove":
				g, n := p[0], p[1]
				line = fmt.Sprintf("queue %s %s %s", op, hexArg(g), hexArg(n))
				key := quartz.NewJobKeyWithGroup(n, g)
				var sj quartz.ScheduledJob
				var err error
				if op == "get" {
					sj, err = q.Get(key)
				} else {
					sj, err = q.Remove(key)
				}
				e, exists := abs[g+"\x00"+n]
				if err != nil {
					ans = qerr(err)
					if exists || ans != "err notfound" {
						flag("C11 " + op + " failed for a present key, or wrong error: " + ans)
					}
				} else {
					ans = "ok " + entryString(sj)
					if !exists || e.String() != entryString(sj) {
						flag("C11 " + op + " returned the wrong entry: " + ans + " want " + e.String())
					}
					if op == "remove" {
						delete(abs, g+"\x00"+n)
					}
				}
			case "size":
				line = "queue size"
				n, err := q.Size()
				if err != nil {
					ans = qerr(err)
				} else {
					ans = fmt.Sprintf("ok %d", n)
				}
				if err != nil || n != len(abs) {
					flag(fmt.Sprintf("C11 Size = %s but %d entries are present", ans, len(abs)))
				}
			case "clear":
				line = "queue clear"
				if err := q.Clear(); err != nil {
					ans = qerr(err)
					flag("C11 Clear failed")
				} else {
					ans = "ok"
				}
				abs = map[string]absEntry{}
			case "list":
				var ms []matcherSpec
				for _, s := range p {
					f := strings.SplitN(s, "\x00", 3)
					ms = append(ms, matcherSpec{f[0], f[1], f[2]})
				}
				var parts []string
				var built []quartz.Matcher[quartz.ScheduledJob]
				for _, m := range ms {
					parts = append(parts, m.String())
					built = append(built, m.build())
				}
				line = strings.TrimSpace("queue list " + strings.Join(parts, " "))
				jobs, err := q.ScheduledJobs(built)
				if err != nil {
					ans = qerr(err)
					flag("C11 ScheduledJobs failed")
				} else {
					var got []string
					for _, sj := range jobs {
						got = append(got, entryString(sj))
					}
					ans = "ok " + strings.Join(got, ";")
					var want []string
					for _, e := range abs {
						all := true
						for _, m := range ms {
							all = all && m.holds(e)
						}
						if all {
							want = append(want, e.String())
						}
					}
					g2 := append([]string{}, got...)
					sort.Strings(g2)
					sort.Strings(want)
					if strings.Join(g2, ";") != strings.Join(want, ";") {
						flag(fmt.Sprintf("C11 ScheduledJobs%v returned %v, exactly %v satisfy all matchers", parts, g2, want))
					}
				}
			}
			ops = append(ops, line)
			impl = append(impl, ans)
			dist["op"][op]++
			dist["outcome"][op+":"+strings.Fields(ans)[0]+func() string {
				if strings.HasPrefix(ans, "err") {
					return " " + strings.Fields(ans)[1]
				}
				return ""
			}()]++
			fmt.Fprintf(h, "%s|", line)
		}
		dist["size"][fmt.Sprint(min(len(abs), 9))]++
		if !seen[h.Sum64()] {
			seen[h.Sum64()] = true
			if len(seq) >= 2 {
				nontrivial++
			}
		}
	}

	genParams := func(op string) []string {
		g, n := qGroups[r.Intn(len(qGroups))], qNames[r.Intn(len(qNames))]
		switch r.Intn(6) { // concentrate on few keys so that duplicates and hits happen
		case 0, 1, 2:
			g, n = qGroups[r.Intn(2)], qNames[r.Intn(3)]
		case 3: // colliding renderings
			if r.Intn(2) == 0 {
				g, n = "etl", "daily::load"
			} else {
				g, n = "etl::daily", "load"
			}
		case 4: // case variants
			g, n = []string{"g1", "G1"}[r.Intn(2)], []string{"ab", "AB", "abc", "Abc"}[r.Intn(4)]
		}
		switch op {
		case "push":
			return []string{g, n, fmt.Sprint(qPrios[r.Intn(len(qPrios))]), fmt.Sprint(r.Intn(4) / 3), fmt.Sprint(r.Intn(3) / 2)}
		case "get", "remove":
			return []string{g, n}
		case "list":
			var p []string
			for _, m := range genMatchers(r) {
				p = append(p, m.field+"\x00"+m.op+"\x00"+m.pat)
			}
			return p
		}
		return nil
	}
	if *exhaustive > 0 {
		alphabet := [][]string{
			{"push", "default", "a", "5", "0", "0"}, {"push", "default", "b", "3", "0", "0"}, {"push", "default", "c", "5", "0", "0"},
			{"push", "default", "a", "1", "0", "1"}, {"push", "default", "b", "9", "1", "1"}, {"pop"}, {"remove", "default", "a"}, {"remove", "default", "b"},
		}
		var rec func(prefix [][]string, depth int)
		rec = func(prefix [][]string, depth int) {
			if depth == 0 {
				seq := []string{}
				params := [][]string{}
				for _, a := range prefix {
					seq = append(seq, a[0])
					params = append(params, a[1:])
				}
				// observe after the sequence
				seq = append(seq, "list", "size", "head")
				params = append(params, nil, nil, nil)
				runSeq(seq, params)
				return
			}
			for _, a := range alphabet {
				rec(append(append([][]string{}, prefix...), a), depth-1)
			}
		}
		for d := 1; d <= *exhaustive; d++ {
			rec(nil, d)
		}
	} else {
		for s := 0; s < *nseq; s++ {
			l := 1 + r.Intn(*maxLen)
			var seq []string
			var params [][]string
			for i := 0; i < l; i++ {
				op := []string{"push", "push", "push", "push", "pop", "pop", "head", "get", "remove", "remove", "size", "list", "list", "clear"}[r.Intn(14)]
				if op == "clear" && r.Intn(4) != 0 {
					op = "push"
				}
				seq = append(seq, op)
				params = append(params, genParams(op))
			}
			runSeq(seq, params)
		}
	}
	writeLines(*out+"/ops.txt", ops)
	writeLines(*out+"/impl.txt", impl)
	writeJSON(*out+"/stats.json", map[string]any{"seed": *seed, "evaluations": len(ops), "sequences": len(seen), "distinct_nontrivial": nontrivial,
		"distribution": dist, "violations": viol, "exhaustive": *exhaustive > 0})
	fmt.Printf("queue: %d ops in %d distinct sequences, %d property violations\n", len(ops), len(seen), len(viol))
	return 0
}
