package main

import (
	"flag"
	"fmt"
	"math/rand"
	"sync"
	"time"

	"github.com/reugn/go-quartz/quartz"

	"verif/harness/internal/crongen"
)

func init() { commands["pure"] = pureRun }

// pureRun hammers one CronTrigger from many goroutines (build with -race for the thorough tier) and
// compares every answer with the single-threaded one: NextFireTime must be a pure function of
// (expression, location, prev) and must not alter the trigger.
func pureRun(args []string) int {
	fs := flag.NewFlagSet("pure", flag.ExitOnError)
	seed := fs.Int64("seed", 1, "")
	n := fs.Int("n", 300, "triggers")
	out := fs.String("out", "", "")
	fs.Parse(args)
	r := rand.New(rand.NewSource(*seed))
	viol := []string{}
	evals, triggers := 0, 0
	for i := 0; i < *n; i++ {
		c := crongen.Valid(r)
		loc := time.UTC
		if r.Intn(2) == 0 {
			loc = time.FixedZone("f", offsets[r.Intn(len(offsets))])
		}
		tr, err := quartz.NewCronTriggerWithLoc(c.Expr, loc)
		if err != nil {
			continue
		}
		triggers++
		desc := tr.Description()
		prevs := make([]int64, 24)
		want := make([]string, len(prevs))
		for k := range prevs {
			w, _ := placePrev(r, c.Spec)
			if w < 0 {
				w = 0
			}
			prevs[k] = w * 1e9
			v, e := tr.NextFireTime(prevs[k])
			want[k] = fmt.Sprint(v, e)
		}
		var wg sync.WaitGroup
		var mu sync.Mutex
		for g := 0; g < 16; g++ {
			wg.Add(1)
			go func(g int) {
				defer wg.Done()
				for rep := 0; rep < 3; rep++ {
					for k := range prevs {
						kk := (k + g) % len(prevs)
						v, e := tr.NextFireTime(prevs[kk])
						if fmt.Sprint(v, e) != want[kk] {
							mu.Lock()
							if len(viol) < 20 {
								viol = append(viol, fmt.Sprintf("C06 concurrent NextFireTime(%d) on %q gave %v, single-threaded %s", prevs[kk], c.Expr, fmt.Sprint(v, e), want[kk]))
							}
							mu.Unlock()
						}
					}
				}
			}(g)
		}
		wg.Wait()
		evals += 16 * 3 * len(prevs)
		if tr.Description() != desc {
			viol = append(viol, fmt.Sprintf("C06 trigger %q altered by NextFireTime", c.Expr))
		}
		for k := range prevs {
			v, e := tr.NextFireTime(prevs[k])
			if fmt.Sprint(v, e) != want[k] {
				viol = append(viol, fmt.Sprintf("C06 repeated NextFireTime(%d) on %q changed from %s to %v", prevs[k], c.Expr, want[k], fmt.Sprint(v, e)))
			}
		}
	}
	writeJSON(*out+"/stats.json", map[string]any{"seed": *seed, "evaluations": evals, "distinct_nontrivial": triggers,
		"distribution": map[string]map[string]int{"triggers": {"hammered": triggers}}, "violations": viol})
	fmt.Printf("pure: %d triggers hammered from 16 goroutines (%d calls), %d violations\n", triggers, evals, len(viol))
	return 0
}
