package main

import (
	"flag"
	"fmt"
	"math/rand"
	"os"
	"sync"
	"time"

	"github.com/reugn/go-quartz/quartz"

	"verif/harness/internal/crongen"
)

func init() { commands["pure"] = pureRun }

// pureRun hammers one CronTrigger from many goroutines (build with -race for the thorough tier) and
// compares every answer with the single-threaded one: NextFireTime must be a pure function of
// (expression, location, prev) and must not alter the trigger.
func pureRun(args []string) int {
	fs := flag.NewFlagSet("pure", flag.ExitOnError)
	seed := fs.Int64("seed", 1, "")
	n := fs.Int("n", 300, "triggers")
	out := fs.String("out", "", "")
	patience := fs.Duration("patience", 40*time.Second, "how long one trigger's round (24 single-threaded calls + the hammer) may take")
	fs.Parse(args)
	r := rand.New(rand.NewSource(*seed))
	viol := []string{}
	evals, triggers := 0, 0
	// watchdog: NextFireTime runs in this process here (the supervised workers of `qh cron` are where hangs are attributed to an input);
	// if one trigger's round does not finish in time, report it as what it is — NextFireTime did not return — instead of hanging the check
	var cur struct {
		sync.Mutex
		expr string
		prev int64
	}
	finish := func() {
		writeJSON(*out+"/stats.json", map[string]any{"seed": *seed, "evaluations": evals, "distinct_nontrivial": triggers,
			"distribution": map[string]map[string]int{"triggers": {"hammered": triggers}}, "violations": viol})
		fmt.Printf("pure: %d triggers hammered from 16 goroutines (%d calls), %d violations\n", triggers, evals, len(viol))
	}
	progress := make(chan struct{}, 1)
	stopDog := make(chan struct{})
	defer close(stopDog)
	go func() {
		for {
			select {
			case <-progress:
			case <-stopDog:
				return
			case <-time.After(*patience):
				cur.Lock()
				viol = append(viol, fmt.Sprintf("C06 NextFireTime did not return within %v: expr=%q (last prev asked %d) — it must return promptly for every accepted expression and prev", *patience, cur.expr, cur.prev))
				cur.Unlock()
				finish()
				os.Exit(0)
			}
		}
	}()
	for i := 0; i < *n; i++ {
		select {
		case progress <- struct{}{}:
		default:
		}
		c := crongen.Valid(r)
		loc := time.UTC
		if r.Intn(2) == 0 {
			loc = time.FixedZone("f", offsets[r.Intn(len(offsets))])
		}
		tr, err := quartz.NewCronTriggerWithLoc(c.Expr, loc)
		if err != nil {
			continue
		}
		triggers++
		cur.Lock()
		cur.expr = c.Expr
		cur.Unlock()
		desc := tr.Description()
		prevs := make([]int64, 24)
		want := make([]string, len(prevs))
		for k := range prevs {
			w, _ := placePrev(r, c.Spec)
			if w < 0 {
				w = 0
			}
			prevs[k] = w * 1e9
			cur.Lock()
			cur.prev = prevs[k]
			cur.Unlock()
			v, e := tr.NextFireTime(prevs[k])
			want[k] = fmt.Sprint(v, e)
		}
		var wg sync.WaitGroup
		var mu sync.Mutex
		for g := 0; g < 16; g++ {
			wg.Add(1)
			go func(g int) {
				defer wg.Done()
				for rep := 0; rep < 3; rep++ {
					for k := range prevs {
						kk := (k + g) % len(prevs)
						v, e := tr.NextFireTime(prevs[kk])
						if fmt.Sprint(v, e) != want[kk] {
							mu.Lock()
							if len(viol) < 20 {
								viol = append(viol, fmt.Sprintf("C06 concurrent NextFireTime(%d) on %q gave %v, single-threaded %s", prevs[kk], c.Expr, fmt.Sprint(v, e), want[kk]))
							}
							mu.Unlock()
						}
					}
				}
			}(g)
		}
		wg.Wait()
		evals += 16 * 3 * len(prevs)
		if tr.Description() != desc {
			viol = append(viol, fmt.Sprintf("C06 trigger %q altered by NextFireTime", c.Expr))
		}
		for k := range prevs {
			v, e := tr.NextFireTime(prevs[k])
			if fmt.Sprint(v, e) != want[k] {
				viol = append(viol, fmt.Sprintf("C06 repeated NextFireTime(%d) on %q changed from %s to %v", prevs[k], c.Expr, want[k], fmt.Sprint(v, e)))
			}
		}
	}
	finish()
	return 0
}
