package main

import (
	"flag"
	"fmt"
	"math/rand"
	"sort"
	"strings"
	"sync"
	"time"

	"github.com/reugn/go-quartz/quartz"
)

func init() { commands["queuelin"] = queueLinRun }

// queuelin: the default JobQueue used directly from several goroutines ("thread-safe map"): every recorded concurrent history
// must be equivalent to some sequential order of its calls on a key -> priority map (min-priority Pop/Head), and a listing must be
// a snapshot of one moment. A slow matcher widens the window in which ScheduledJobs evaluates its matchers.

type slowMatcher struct{}

func (slowMatcher) IsMatch(quartz.ScheduledJob) bool { spin(25 * time.Microsecond); return true }

type qlOp struct {
	client   int
	kind     string // push pop head get remove list size
	key      int
	prio     int64
	repl     bool
	inv, ret int64
	res      string
	sj       quartz.ScheduledJob
}

type qlState [3]int64 // priority per key, 0 = absent

func qlMin(s qlState) (int64, bool) {
	var m int64
	ok := false
	for _, p := range s {
		if p != 0 && (!ok || p < m) {
			m, ok = p, true
		}
	}
	return m, ok
}

func qlList(s qlState) string {
	var parts []string
	for k, p := range s {
		if p != 0 {
			parts = append(parts, fmt.Sprintf("%d:%d", k, p))
		}
	}
	sort.Strings(parts)
	return "ok " + strings.Join(parts, ",")
}

// qlApply: does the observed result fit the sequential specification in state s, and what is the next state?
func qlApply(s qlState, o *qlOp) (qlState, bool) {
	switch o.kind {
	case "push":
		if s[o.key] != 0 && !o.repl {
			return s, o.res == "err exists"
		}
		s[o.key] = o.prio
		return s, o.res == "ok"
	case "pop", "head":
		m, ok := qlMin(s)
		if !ok {
			return s, o.res == "err empty"
		}
		var k int
		var p int64
		if n, _ := fmt.Sscanf(o.res, "ok %d:%d", &k, &p); n != 2 || k < 0 || k > 2 || s[k] != p || p != m {
			return s, false
		}
		if o.kind == "pop" {
			s[k] = 0
		}
		return s, true
	case "get", "remove":
		if s[o.key] == 0 {
			return s, o.res == "err notfound"
		}
		want := fmt.Sprintf("ok %d:%d", o.key, s[o.key])
		if o.kind == "remove" {
			s[o.key] = 0
		}
		return s, o.res == want
	case "list":
		return s, o.res == qlList(s)
	case "size":
		n := 0
		for _, p := range s {
			if p != 0 {
				n++
			}
		}
		return s, o.res == fmt.Sprintf("ok %d", n)
	}
	return s, false
}

func qlLinearizable(ops []*qlOp) bool {
	n := len(ops)
	type key struct {
		mask uint32
		st   qlState
	}
	dead := map[key]bool{}
	var rec func(mask uint32, st qlState) bool
	rec = func(mask uint32, st qlState) bool {
		if mask == uint32(1)<<n-1 {
			return true
		}
		if dead[key{mask, st}] {
			return false
		}
		var minRet int64 = 1 << 62
		for i, o := range ops {
			if mask&(1<<i) == 0 && o.ret < minRet {
				minRet = o.ret
			}
		}
		for i, o := range ops {
			if mask&(1<<i) != 0 || o.inv > minRet {
				continue
			}
			if ns, ok := qlApply(st, o); ok && rec(mask|1<<i, ns) {
				return true
			}
		}
		dead[key{mask, st}] = true
		return false
	}
	return rec(0, qlState{})
}

func queueLinRun(args []string) int {
	fs := flag.NewFlagSet("queuelin", flag.ExitOnError)
	seed := fs.Int64("seed", 1, "")
	n := fs.Int("n", 300, "concurrent histories")
	out := fs.String("out", "", "")
	fs.Parse(args)
	r := rand.New(rand.NewSource(*seed))
	mt := newMinter()
	names := []string{"k0", "k1", "k2"}
	keyOf := func(sj quartz.ScheduledJob) int {
		for i, nm := range names {
			if sj.JobDetail().JobKey().Name() == nm {
				return i
			}
		}
		return -1
	}
	viol := []string{}
	dist := map[string]map[string]int{"result": {}, "overlap": {}}
	evals, nontrivial := 0, 0
	var samples []any
	tag := 0
	for h := 0; h < *n; h++ {
		q := quartz.NewJobQueue()
		nclients, per := 3, 4
		plan := make([][]*qlOp, nclients)
		for c := range plan {
			for i := 0; i < per; i++ {
				kind := []string{"push", "push", "push", "pop", "head", "get", "remove", "list", "list", "size"}[r.Intn(10)]
				o := &qlOp{client: c, kind: kind, key: r.Intn(3), prio: int64(1 + r.Intn(4)), repl: r.Intn(2) == 0}
				if kind == "push" {
					tag++
					o.sj = mt.mint("lin", names[o.key], o.prio, false, o.repl, tag)
				}
				plan[c] = append(plan[c], o)
			}
		}
		base := time.Now()
		var wg sync.WaitGroup
		gate := make(chan struct{})
		for c := range plan {
			wg.Add(1)
			go func(c int) {
				defer wg.Done()
				<-gate
				for _, o := range plan[c] {
					k := quartz.NewJobKeyWithGroup(names[o.key], "lin")
					o.inv = int64(time.Since(base))
					switch o.kind {
					case "push":
						o.res = qerr2(q.Push(o.sj))
					case "pop", "head":
						var sj quartz.ScheduledJob
						var err error
						if o.kind == "pop" {
							sj, err = q.Pop()
						} else {
							sj, err = q.Head()
						}
						if err != nil {
							o.res = qerr(err)
						} else {
							o.res = fmt.Sprintf("ok %d:%d", keyOf(sj), sj.NextRunTime())
						}
					case "get", "remove":
						var sj quartz.ScheduledJob
						var err error
						if o.kind == "get" {
							sj, err = q.Get(k)
						} else {
							sj, err = q.Remove(k)
						}
						if err != nil {
							o.res = qerr(err)
						} else {
							o.res = fmt.Sprintf("ok %d:%d", keyOf(sj), sj.NextRunTime())
						}
					case "list":
						jobs, err := q.ScheduledJobs([]quartz.Matcher[quartz.ScheduledJob]{slowMatcher{}})
						if err != nil {
							o.res = qerr(err)
						} else {
							var parts []string
							for _, sj := range jobs {
								parts = append(parts, fmt.Sprintf("%d:%d", keyOf(sj), sj.NextRunTime()))
							}
							sort.Strings(parts)
							o.res = "ok " + strings.Join(parts, ",")
						}
					case "size":
						sz, err := q.Size()
						if err != nil {
							o.res = qerr(err)
						} else {
							o.res = fmt.Sprintf("ok %d", sz)
						}
					}
					o.ret = int64(time.Since(base))
				}
			}(c)
		}
		close(gate)
		wg.Wait()
		var all []*qlOp
		for _, p := range plan {
			all = append(all, p...)
		}
		sort.Slice(all, func(i, j int) bool { return all[i].inv < all[j].inv })
		overlaps := 0
		for i := range all {
			for j := i + 1; j < len(all); j++ {
				if all[j].inv < all[i].ret && all[i].client != all[j].client {
					overlaps++
				}
			}
		}
		evals += len(all)
		dist["overlap"][fmt.Sprint(min(overlaps, 5))]++
		if overlaps > 0 {
			nontrivial++
		}
		for _, o := range all {
			dist["result"][o.kind+":"+strings.Fields(o.res + " ?")[0]]++
		}
		if !qlLinearizable(all) {
			var desc []string
			for _, o := range all {
				desc = append(desc, fmt.Sprintf("c%d %s k%d prio=%d repl=%v [%d,%d] -> %s", o.client, o.kind, o.key, o.prio, o.repl, o.inv, o.ret, o.res))
			}
			if len(viol) < 8 {
				viol = append(viol, "C11 concurrent use of the default queue: this history is not equivalent to any sequential order of its calls on a keyed min-priority map: "+strings.Join(desc, "; "))
			}
		}
		if len(samples) < 2 {
			var desc []string
			for _, o := range all {
				desc = append(desc, fmt.Sprintf("c%d %s k%d -> %s", o.client, o.kind, o.key, o.res))
			}
			samples = append(samples, desc)
		}
	}
	writeJSON(*out+"/stats.json", map[string]any{"seed": *seed, "evaluations": evals, "distinct_nontrivial": nontrivial, "histories": *n,
		"distribution": dist, "violations": viol, "samples": samples})
	fmt.Printf("queuelin: %d concurrent histories (%d with overlapping calls), %d calls, %d not linearizable\n", *n, nontrivial, evals, len(viol))
	return 0
}

func qerr2(err error) string {
	if err == nil {
		return "ok"
	}
	return qerr(err)
}
