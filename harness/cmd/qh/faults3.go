package main

// C15, quiet recovery: "once the faults stop every job still stored in the queue resumes firing" — also when NOBODY calls the
// scheduler afterwards. The plans of faults.go keep scheduling unrelated jobs while the loop recovers (interrupt tokens must not
// postpone the recovery); every one of those calls also wakes a loop that has gone to sleep for good, so a fault after which the
// loop arms the maximal timer is invisible there. Here the queue recovers on its own and no API call follows.
//
// Fault: Head() answers with an error wrapping quartz.ErrQueueEmpty (or with the injected error) for `burst` consecutive calls,
// starting with its `from`-th call, while Size() (> 0), Pop() and Push() answer truthfully and the stored entries are untouched — a
// lagging read replica, a cache being rebuilt, "empty" used for a read time-out. One recurring job (20 ms), RetryInterval 50 ms.
// Judged: after the last faulty Head() has returned, the job — still stored in the inner queue, not paused — runs again within
// fqQuietLimit (5 s = 100 RetryIntervals; one-sided). No API call is made between the last fault and the verdict.

import (
	"context"
	"fmt"
	"sync"
	"time"

	"github.com/reugn/go-quartz/quartz"
)

const fqQuietLimit = 5 * time.Second

type fqQuietQ struct {
	quartz.JobQueue
	mu      sync.Mutex
	heads   int
	from    int // the first faulty Head call (1-based)
	burst   int // number of consecutive faulty Head calls
	empty   bool
	lastBad time.Time // return time of the last faulty Head
	done    chan struct{}
}

func (q *fqQuietQ) Head() (quartz.ScheduledJob, error) {
	q.mu.Lock()
	q.heads++
	k := q.heads
	bad := k >= q.from && k < q.from+q.burst
	if bad {
		q.lastBad = time.Now()
		if k == q.from+q.burst-1 {
			close(q.done)
		}
	}
	q.mu.Unlock()
	if bad {
		if q.empty {
			return nil, fmt.Errorf("head: nothing visible yet: %w", quartz.ErrQueueEmpty)
		}
		return nil, fmt.Errorf("head: %w", errInjected)
	}
	return q.JobQueue.Head()
}

type fqQuietCase struct {
	From, Burst int
	Empty       bool
	Before      bool // the job is scheduled before Start (no API call at all on the running scheduler)
}

func (c fqQuietCase) String() string {
	ans := "an error wrapping ErrQueueEmpty"
	if !c.Empty {
		ans = "the injected error"
	}
	when := "scheduled after Start"
	if c.Before {
		when = "scheduled before Start"
	}
	return fmt.Sprintf("Head() calls number %d..%d answer %s while Size() (1), Pop() and Push() answer truthfully; one 20 ms job %s; RetryInterval %v; no API call after the fault",
		c.From, c.From+c.Burst-1, ans, when, fqRetry)
}

func fqQuietOne(c fqQuietCase) (viol []string, reached bool) {
	q := &fqQuietQ{JobQueue: quartz.NewJobQueue(), from: c.From, burst: c.Burst, empty: c.Empty, done: make(chan struct{})}
	s, err := quartz.NewStdScheduler(quartz.WithQueue(q, &sync.Mutex{}), quartz.WithRetryInterval(fqRetry), quartz.WithOutdatedThreshold(time.Hour))
	if err != nil {
		return []string{"C15 harness: " + err.Error()}, false
	}
	j := &fqJob{name: "quiet"}
	tr := &fqTrig{interval: 20 * time.Millisecond, handed: map[int64]bool{}, consumed: map[int64]int{}}
	jd := quartz.NewJobDetail(j, quartz.NewJobKey("quiet"))
	ctx, cancel := context.WithCancel(context.Background())
	defer func() {
		cancel()
		s.Stop()
		wctx, wc := context.WithTimeout(context.Background(), 3*time.Second)
		s.Wait(wctx)
		wc()
	}()
	if c.Before {
		if err := s.ScheduleJob(jd, tr); err != nil {
			return []string{"C15 harness: " + err.Error()}, false
		}
		s.Start(ctx)
	} else {
		s.Start(ctx)
		if err := s.ScheduleJob(jd, tr); err != nil {
			return []string{"C15 harness: " + err.Error()}, false
		}
	}
	select {
	case <-q.done:
	case <-time.After(fqQuietLimit):
		// the loop never made that many Head calls: another defect's business (the job not firing at all is judged by the plans of faults.go)
		return nil, false
	}
	q.mu.Lock()
	tBad := q.lastBad
	q.mu.Unlock()
	deadline := time.Now().Add(fqQuietLimit)
	for time.Now().Before(deadline) {
		if j.runsAfter(tBad) > 0 {
			return nil, true
		}
		time.Sleep(2 * time.Millisecond)
	}
	// still stored and not paused? (read from the inner queue: not an API call, the scheduler is not woken)
	stored, _ := q.JobQueue.ScheduledJobs(nil)
	for _, sj := range stored {
		if sj.JobDetail().JobKey().Equals(jd.JobKey()) && !sj.JobDetail().Options().Suspended {
			q.mu.Lock()
			heads := q.heads
			q.mu.Unlock()
			return []string{fmt.Sprintf("C15 no recovery without an API call: job %s is stored in the queue (next run time %d, not paused) but did not run within %v after the last faulty Head() returned; the loop made %d Head() calls in all, i.e. it went to sleep and only an API call would wake it (%s)",
				sj.JobDetail().JobKey(), sj.NextRunTime(), fqQuietLimit, heads, c)}, true
		}
	}
	return nil, true // not stored any more: nothing to resume (cannot happen with these faults)
}

func fqQuietRecovery() (viol []string, runs, reached int) {
	var cases []fqQuietCase
	for _, before := range []bool{true, false} {
		for _, from := range []int{1, 2, 5} {
			for _, burst := range []int{1, 2, 3} {
				cases = append(cases, fqQuietCase{From: from, Burst: burst, Empty: true, Before: before})
			}
		}
		cases = append(cases, fqQuietCase{From: 2, Burst: 1, Empty: false, Before: before}, fqQuietCase{From: 3, Burst: 2, Empty: false, Before: before})
	}
	var mu sync.Mutex
	var wg sync.WaitGroup
	sem := make(chan struct{}, 6)
	for _, c := range cases {
		wg.Add(1)
		sem <- struct{}{}
		go func(c fqQuietCase) {
			defer wg.Done()
			defer func() { <-sem }()
			v, r := fqQuietOne(c)
			mu.Lock()
			viol = append(viol, v...)
			runs++
			if r {
				reached++
			}
			mu.Unlock()
		}(c)
	}
	wg.Wait()
	if len(viol) > 3 {
		viol = viol[:3]
	}
	return viol, runs, reached
}
