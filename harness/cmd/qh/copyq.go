package main

import (
	"sort"
	"sync"

	"github.com/reugn/go-quartz/quartz"
)

// copyQ is a contract-abiding JobQueue that stores records by value and hands out fresh copies
// (new JobDetail and options objects on every read), like a persistent queue that deserialises its
// entries (examples/queue/file_system.go). Mutating what it returns never changes what it stores.
type copyQ struct {
	mu   sync.Mutex
	recs []copyRec
}

type copyRec struct {
	job     quartz.Job
	group   string
	name    string
	opts    quartz.JobDetailOptions
	trigger quartz.Trigger
	prio    int64
}

type copyEntry struct {
	jd   *quartz.JobDetail
	tr   quartz.Trigger
	next int64
}

func (e *copyEntry) JobDetail() *quartz.JobDetail { return e.jd }
func (e *copyEntry) Trigger() quartz.Trigger      { return e.tr }
func (e *copyEntry) NextRunTime() int64           { return e.next }

func (r copyRec) entry() quartz.ScheduledJob {
	o := r.opts
	return &copyEntry{quartz.NewJobDetailWithOptions(r.job, quartz.NewJobKeyWithGroup(r.name, r.group), &o), r.trigger, r.prio}
}

func recOf(j quartz.ScheduledJob) copyRec {
	k := j.JobDetail().JobKey()
	return copyRec{j.JobDetail().Job(), k.Group(), k.Name(), *j.JobDetail().Options(), j.Trigger(), j.NextRunTime()}
}

func (q *copyQ) find(k *quartz.JobKey) int {
	for i, r := range q.recs {
		if r.name == k.Name() && r.group == k.Group() {
			return i
		}
	}
	return -1
}

func (q *copyQ) Push(j quartz.ScheduledJob) error {
	q.mu.Lock()
	defer q.mu.Unlock()
	r := recOf(j)
	if i := q.find(j.JobDetail().JobKey()); i >= 0 {
		if !r.opts.Replace {
			return quartz.ErrJobAlreadyExists
		}
		q.recs = append(q.recs[:i], q.recs[i+1:]...)
	}
	q.recs = append(q.recs, r)
	sort.SliceStable(q.recs, func(a, b int) bool { return q.recs[a].prio < q.recs[b].prio })
	return nil
}

func (q *copyQ) Pop() (quartz.ScheduledJob, error) {
	q.mu.Lock()
	defer q.mu.Unlock()
	if len(q.recs) == 0 {
		return nil, quartz.ErrQueueEmpty
	}
	r := q.recs[0]
	q.recs = q.recs[1:]
	return r.entry(), nil
}

func (q *copyQ) Head() (quartz.ScheduledJob, error) {
	q.mu.Lock()
	defer q.mu.Unlock()
	if len(q.recs) == 0 {
		return nil, quartz.ErrQueueEmpty
	}
	return q.recs[0].entry(), nil
}

func (q *copyQ) Get(k *quartz.JobKey) (quartz.ScheduledJob, error) {
	q.mu.Lock()
	defer q.mu.Unlock()
	if i := q.find(k); i >= 0 {
		return q.recs[i].entry(), nil
	}
	return nil, quartz.ErrJobNotFound
}

func (q *copyQ) Remove(k *quartz.JobKey) (quartz.ScheduledJob, error) {
	q.mu.Lock()
	defer q.mu.Unlock()
	if i := q.find(k); i >= 0 {
		r := q.recs[i]
		q.recs = append(q.recs[:i], q.recs[i+1:]...)
		return r.entry(), nil
	}
	return nil, quartz.ErrJobNotFound
}

func (q *copyQ) ScheduledJobs(ms []quartz.Matcher[quartz.ScheduledJob]) ([]quartz.ScheduledJob, error) {
	q.mu.Lock()
	defer q.mu.Unlock()
	var out []quartz.ScheduledJob
outer:
	for _, r := range q.recs {
		e := r.entry()
		for _, m := range ms {
			if !m.IsMatch(e) {
				continue outer
			}
		}
		out = append(out, e)
	}
	return out, nil
}

func (q *copyQ) Size() (int, error) {
	q.mu.Lock()
	defer q.mu.Unlock()
	return len(q.recs), nil
}

func (q *copyQ) Clear() error {
	q.mu.Lock()
	defer q.mu.Unlock()
	q.recs = nil
	return nil
}
