package main

// qh misfire — the scheduler configured with `quartz.WithMisfiredChan(ch)` where NOBODY reads `ch` (unbuffered, or a buffer that the
// first misfire fills): a configuration the other engines never use. The misfire notification is documented as an offer to a listener;
// a listener that is away (typically: the application is shutting down) must not be able to hold up the scheduler's own goroutines.
// One engine, three properties (`--prop`):
//
//	C10  lifecycle: misfires are produced until the channel is full, then Stop / cancellation: IsStarted false, Wait returns, every
//	     API call returns afterwards, no goroutine of package quartz is left, the scheduler can be started again and fires; all modes.
//	     Plus (restart-busy): WorkerLimit n, restart while the n workers of the stopped run are busy in jobs that ignore their context,
//	     the pool of the new run saturated: every execution that starts while the new run is started sees a live context.
//	C05  promptness: several stale jobs (each one a misfire that cannot be delivered) and a fresh job due in 20..50 ms at the same
//	     time, non-blocking modes and blocking mode with instantaneous jobs (so neither permitted delay applies): the fresh job's Execute
//	     starts within 300 ms of max(API return, fire time, Start).
//	C13  panic containment: jobs that panic (on the first attempt or after failed attempts) while the channel is full and unread:
//	     the panicking job's next fire times are executed, a ticking job keeps running, a sibling scheduled afterwards runs, Wait returns.
//
// Public API only. Every wait has a deadline, timing judgments are one-sided with generous slack; a late C05 scenario is re-run alone
// up to three times and reported only if late every time. When a scenario ends with goroutines stuck on the channel, the harness drains
// the channel afterwards so that nothing is left behind for the next scenario. No ops.txt: only stats.json.

import (
	"context"
	"errors"
	"flag"
	"fmt"
	"math/rand"
	"os"
	"sort"
	"sync"
	"sync/atomic"
	"time"

	"github.com/reugn/go-quartz/quartz"
)

func init() { commands["misfire"] = misfireRun }

var mfModes = []string{"unbounded", "blocking", "workers2"}

type mfEnv struct {
	prop     string
	mu       sync.Mutex
	viol     []string
	failures []string
	evals    int
	dist     map[string]map[string]int
	shapes   map[string]bool
	samples  []map[string]any
	reruns   int
	lat      []int64 // C05: observed latencies (ms)
}

func (e *mfEnv) violation(format string, a ...any) {
	e.mu.Lock()
	defer e.mu.Unlock()
	if len(e.viol) < 40 {
		e.viol = append(e.viol, e.prop+" "+fmt.Sprintf(format, a...))
	}
}

func (e *mfEnv) count(table, bucket string) {
	e.mu.Lock()
	defer e.mu.Unlock()
	if e.dist[table] == nil {
		e.dist[table] = map[string]int{}
	}
	e.dist[table][bucket]++
}

func (e *mfEnv) check(ok bool, format string, a ...any) bool {
	e.mu.Lock()
	e.evals++
	e.mu.Unlock()
	if !ok {
		e.violation(format, a...)
	}
	return ok
}

func (e *mfEnv) shape(s string) {
	e.mu.Lock()
	e.shapes[s] = true
	e.mu.Unlock()
}

func (e *mfEnv) sample(m map[string]any) {
	e.mu.Lock()
	if len(e.samples) < 12 {
		e.samples = append(e.samples, m)
	}
	e.mu.Unlock()
}

func mfNew(mode string, ch chan quartz.ScheduledJob, threshold time.Duration, extra ...quartz.SchedulerOpt) quartz.Scheduler {
	opts := []quartz.SchedulerOpt{quartz.WithOutdatedThreshold(threshold), quartz.WithMisfiredChan(ch)}
	switch mode {
	case "blocking":
		opts = append(opts, quartz.WithBlockingExecution())
	case "workers2":
		opts = append(opts, quartz.WithWorkerLimit(2))
	}
	opts = append(opts, extra...)
	s, err := quartz.NewStdScheduler(opts...)
	must(err)
	return s
}

// mfJob counts executions and remembers when the first one started; `dur` > 0: stays inside Execute that long or until its context ends.
type mfJob struct {
	name     string
	dur      time.Duration
	execs    atomic.Int64
	inflight atomic.Int64
	first    atomic.Int64 // UnixNano of the first Execute
	dead     atomic.Int64 // executions that found their context already cancelled on entry
}

func (j *mfJob) Execute(ctx context.Context) error {
	j.first.CompareAndSwap(0, time.Now().UnixNano())
	if ctx.Err() != nil {
		j.dead.Add(1)
	}
	j.inflight.Add(1)
	j.execs.Add(1)
	defer j.inflight.Add(-1)
	if j.dur > 0 {
		t := time.NewTimer(j.dur)
		defer t.Stop()
		select {
		case <-t.C:
		case <-ctx.Done():
		}
	}
	return nil
}
func (j *mfJob) Description() string { return j.name }

var errMfDone = errors.New("misfire harness: schedule ended")

// mfPastTrigger: a job whose fire time passed while nobody was looking (what a queue shared with another node, or downtime, produces):
// the first fire time it reports is `back` before the time it is asked at; afterwards it either ends (every == 0) or fires every `every`.
type mfPastTrigger struct {
	back, every time.Duration
	asked       atomic.Int64
}

func (t *mfPastTrigger) NextFireTime(prev int64) (int64, error) {
	if t.asked.Add(1) == 1 {
		return prev - int64(t.back), nil
	}
	if t.every == 0 {
		return 0, errMfDone
	}
	return prev + int64(t.every), nil
}
func (t *mfPastTrigger) Description() string { return "past" }

func mfSchedule(s quartz.Scheduler, j quartz.Job, name string, t quartz.Trigger) error {
	return s.ScheduleJob(quartz.NewJobDetail(j, quartz.NewJobKey(name)), t)
}

// mfRelease: after a scenario, let anything that is stuck sending on the unread channel go (for at most 3 s), so that the next
// scenario starts from a clean goroutine dump. Reports whether goroutines of package quartz were left before the drain.
func mfRelease(ch chan quartz.ScheduledJob) {
	if len(lcQuartzGoroutines()) == 0 {
		return
	}
	quit := make(chan struct{})
	done := make(chan struct{})
	go func() {
		defer close(done)
		for {
			select {
			case <-ch:
			case <-quit:
				return
			}
		}
	}()
	lcPoll(3*time.Second, func() bool { return len(lcQuartzGoroutines()) == 0 })
	close(quit)
	<-done
}

// ---- C10 ----------------------------------------------------------------------------------------------------------------------------

// mfShutdown: misfires until the unread channel is full, then the scheduler is stopped.
func (e *mfEnv) mfShutdown(mode, how string, capacity int, source string) {
	desc := fmt.Sprintf("mode=%s MisfiredChan=make(chan ScheduledJob, %d) with no reader, misfires from %s, shutdown through %s", mode, capacity, source, how)
	ch := make(chan quartz.ScheduledJob, capacity)
	threshold := 30 * time.Millisecond
	if source == "slow-blocking-job" {
		threshold = 10 * time.Millisecond
	}
	s := mfNew(mode, ch, threshold)
	tick := &mfJob{name: "tick"}
	slow := &mfJob{name: "slow", dur: 40 * time.Millisecond}
	var stale []*mfJob
	addStale := func(k int) {
		for i := 0; i < k; i++ {
			j := &mfJob{name: fmt.Sprintf("stale%d", i)}
			stale = append(stale, j)
			var t quartz.Trigger
			switch {
			case source == "downtime" && i%2 == 0:
				t = quartz.NewRunOnceTrigger(time.Millisecond)
			case source == "downtime":
				t = quartz.NewSimpleTrigger(time.Millisecond) // periodic, fires every 1 ms once it has caught up
			case i%2 == 0:
				t = &mfPastTrigger{back: 10 * time.Second}
			default:
				t = &mfPastTrigger{back: 10 * time.Second, every: 15 * time.Millisecond}
			}
			if err := mfSchedule(s, j, j.name, t); err != nil {
				e.failures = append(e.failures, desc+": ScheduleJob: "+err.Error())
			}
		}
	}
	ctx, cancel := context.WithCancel(context.Background())
	defer cancel()
	switch source {
	case "downtime":
		// jobs are in the queue of a scheduler that is not running; their time passes
		addStale(4)
		time.Sleep(threshold + 25*time.Millisecond)
		must(mfSchedule(s, tick, "tick", quartz.NewSimpleTrigger(10*time.Millisecond)))
		s.Start(ctx)
	case "past-trigger":
		must(mfSchedule(s, tick, "tick", quartz.NewSimpleTrigger(10*time.Millisecond)))
		s.Start(ctx)
		// each of these calls is made from a goroutine of its own with a deadline: the queue lock may never come back
		if !lcTimed(5*time.Second, func() { addStale(4) }) {
			e.check(false, "ScheduleJob did not return within 5 s on a running scheduler whose earlier misfires nobody reads [%s]", desc)
		}
	case "slow-blocking-job":
		// blocking mode, a job that takes 40 ms every 5 ms, OutdatedThreshold 10 ms: every other look at it is a misfire
		must(mfSchedule(s, slow, "slow", quartz.NewSimpleTrigger(5*time.Millisecond)))
		s.Start(ctx)
	}
	// let the misfires happen (unchanged tree: a few ms). Not a judgment: a loop that is already stuck shows below.
	if source == "slow-blocking-job" {
		lcPoll(3*time.Second, func() bool { return slow.execs.Load() >= 4 })
	} else {
		lcPoll(1500*time.Millisecond, func() bool { return tick.execs.Load() >= 3 })
	}
	filled := len(ch)
	skipped := 0
	for _, j := range stale {
		if j.execs.Load() == 0 {
			skipped++
		}
	}
	nontrivial := filled == capacity && (capacity > 0 || skipped > 0 || source == "slow-blocking-job")
	if nontrivial {
		e.shape("shutdown:" + mode + ":" + how + fmt.Sprint(capacity) + source)
		e.count("misfire_channel_full_at_shutdown", "yes")
	} else {
		e.count("misfire_channel_full_at_shutdown", "no")
	}
	if how == "stop" {
		e.check(lcTimed(5*time.Second, s.Stop), "Stop did not return within 5 s [%s]", desc)
	} else {
		cancel()
	}
	var started bool
	ok := lcTimed(5*time.Second, func() { started = !lcPoll(2*time.Second, func() bool { return !s.IsStarted() }) })
	e.check(ok && !started, "IsStarted still true 2 s after %s [%s]", how, desc)
	waited, took := lcWait(s, 8*time.Second)
	e.check(waited, "Wait did not return within 8 s after %s (gave up after %v) although every job honours its context: a goroutine of the scheduler is "+
		"still alive: %v [%s]", how, took.Round(time.Millisecond), lcQuartzGoroutines(), desc)
	// every later API call returns
	probe := &mfJob{name: "probe"}
	calls := []struct {
		name string
		f    func()
	}{
		{"GetJobKeys", func() { _, _ = s.GetJobKeys() }},
		{"ScheduleJob", func() { _ = mfSchedule(s, probe, "probe", quartz.NewSimpleTrigger(5*time.Millisecond)) }},
		{"GetScheduledJob", func() { _, _ = s.GetScheduledJob(quartz.NewJobKey("probe")) }},
		{"PauseJob", func() { _ = s.PauseJob(quartz.NewJobKey("probe")) }},
		{"ResumeJob", func() { _ = s.ResumeJob(quartz.NewJobKey("probe")) }},
		{"DeleteJob", func() { _ = s.DeleteJob(quartz.NewJobKey("stale1")) }},
	}
	apiOK := true
	for _, c := range calls {
		if !e.check(lcTimed(5*time.Second, c.f), "%s did not return within 5 s after the scheduler was stopped [%s]", c.name, desc) {
			apiOK = false
			break // the others wait for the same lock
		}
	}
	if waited && apiOK {
		n := tick.execs.Load() + slow.execs.Load()
		later := lcPoll(60*time.Millisecond, func() bool { return tick.execs.Load()+slow.execs.Load() != n || tick.inflight.Load()+slow.inflight.Load() != 0 })
		e.check(!later, "a job execution was in progress or started after Wait had returned [%s]", desc)
		var left []string
		gone := lcPoll(5*time.Second, func() bool { left = lcQuartzGoroutines(); return len(left) == 0 })
		e.check(gone, "goroutine leak: after %s and Wait, %d goroutine(s) of the scheduler are still alive: %v [%s]", how, len(left), left, desc)
		// and it can be started again, with the channel still full (the 40 ms job of the blocking scenario is taken out first: with it and an
		// OutdatedThreshold of 10 ms the 5 ms probe would depend on the loop waking up within 10 ms)
		lcTimed(5*time.Second, func() { _ = s.DeleteJob(quartz.NewJobKey("slow")) })
		ctx2, cancel2 := context.WithCancel(context.Background())
		var fires bool
		ok := lcTimed(10*time.Second, func() {
			s.Start(ctx2)
			c0 := probe.execs.Load()
			fires = lcPoll(3*time.Second, func() bool { return probe.execs.Load() > c0 })
			s.Stop()
		})
		cancel2()
		e.check(ok && fires, "after %s and Wait the scheduler was started again but a job due every 5 ms did not fire within 3 s [%s]", how, desc)
		w2, _ := lcWait(s, 8*time.Second)
		e.check(w2, "Wait did not return within 8 s after the second Stop [%s]", desc)
	}
	mfRelease(ch)
	e.count("scenario", "shutdown-"+source)
	e.sample(map[string]any{"scenario": "shutdown", "case": desc, "channel_len_at_shutdown": filled, "stale_jobs_never_executed": skipped,
		"wait_returned": waited, "wait_took_ms": took.Milliseconds()})
}

// mfHog ignores its context and stays inside Execute until released; mfSeen records the context every execution starts with.
type mfHog struct {
	in      *atomic.Int64
	release chan struct{}
}

func (j *mfHog) Execute(context.Context) error { j.in.Add(1); <-j.release; return nil }
func (j *mfHog) Description() string           { return "hog" }

type mfSeen struct {
	started *atomic.Int64
	dead    *atomic.Int64 // executions whose context was already cancelled on entry
	hold    chan struct{} // non-nil: stay inside until closed or until the context ends
}

func (j *mfSeen) Execute(ctx context.Context) error {
	if ctx.Err() != nil {
		j.dead.Add(1)
	}
	j.started.Add(1)
	if j.hold != nil {
		select {
		case <-j.hold:
		case <-ctx.Done():
		}
	}
	return nil
}
func (j *mfSeen) Description() string { return "seen" }

// mfRestartBusy: "a stopped scheduler can be started again, even immediately, and then fires its jobs again … when the scheduler STOPS running
// jobs see their context cancelled": a job of the new run must not start out with a cancelled context. WorkerLimit n; the n workers of the
// first run are inside jobs that ignore their context when the scheduler is stopped and started again; the n workers of the new run are
// occupied and further jobs are due (the loop is handing one over) while the old workers come back, one after the other.
// (That old and new executions overlap, more than n in total, is the recorded finding C12 restart-overlap and is NOT judged here.)
func (e *mfEnv) mfRestartBusy(n int, how string) {
	desc := fmt.Sprintf("WorkerLimit=%d, %s then Start while all %d workers are inside jobs that ignore their context; new pool saturated, %d more jobs due, "+
		"then the old jobs return one by one", n, how, n, 3*n)
	s, err := quartz.NewStdScheduler(quartz.WithWorkerLimit(n), quartz.WithOutdatedThreshold(time.Hour))
	must(err)
	var hogsIn, started, dead, heldStarted atomic.Int64
	release := make([]chan struct{}, n)
	ctx1, cancel1 := context.WithCancel(context.Background())
	defer cancel1()
	s.Start(ctx1)
	for i := 0; i < n; i++ {
		release[i] = make(chan struct{})
		must(mfSchedule(s, &mfHog{in: &hogsIn, release: release[i]}, fmt.Sprintf("hog%d", i), quartz.NewRunOnceTrigger(time.Millisecond)))
	}
	releaseAll := func() {
		for _, c := range release {
			select {
			case <-c:
			default:
				close(c)
			}
		}
	}
	defer releaseAll()
	if !lcPoll(5*time.Second, func() bool { return hogsIn.Load() == int64(n) }) {
		e.failures = append(e.failures, desc+": the pool was not filled within 5 s")
		releaseAll()
		s.Stop()
		lcWait(s, 5*time.Second)
		return
	}
	if how == "Stop" {
		s.Stop()
	} else {
		cancel1()
		lcPoll(2*time.Second, func() bool { return !s.IsStarted() })
	}
	ctx2, cancel2 := context.WithCancel(context.Background())
	defer cancel2()
	s.Start(ctx2)
	e.check(s.IsStarted(), "IsStarted false right after Start [%s]", desc)
	// occupy the workers of the new run
	hold := make(chan struct{})
	for i := 0; i < n; i++ {
		must(mfSchedule(s, &mfSeen{started: &heldStarted, dead: &dead, hold: hold}, fmt.Sprintf("held%d", i), quartz.NewRunOnceTrigger(time.Millisecond)))
	}
	saturated := lcPoll(5*time.Second, func() bool { return heldStarted.Load() == int64(n) })
	e.check(saturated, "after %s;Start only %d of %d jobs due at once were started within 5 s by a pool of %d whose previous run's workers are still busy [%s]",
		how, heldStarted.Load(), n, n, desc)
	// more jobs become due: the loop is blocked handing the first of them to a worker
	m := 3 * n
	for i := 0; i < m; i++ {
		must(mfSchedule(s, &mfSeen{started: &started, dead: &dead}, fmt.Sprintf("more%d", i), quartz.NewRunOnceTrigger(time.Millisecond)))
	}
	time.Sleep(5 * time.Millisecond)
	// the jobs of the stopped run return, one after the other
	for i := 0; i < n; i++ {
		close(release[i])
		time.Sleep(2 * time.Millisecond)
	}
	close(hold)
	all := lcPoll(5*time.Second, func() bool { return started.Load() == int64(m) })
	e.check(all, "only %d of %d due jobs were executed within 5 s after the restart [%s]", started.Load(), m, desc)
	e.check(dead.Load() == 0, "%d job execution(s) of the RUNNING scheduler (started again after %s, not stopped since) began with a context that was already "+
		"cancelled: the scheduler has not stopped, yet its jobs see their context cancelled [%s]", dead.Load(), how, desc)
	s.Stop()
	w, _ := lcWait(s, 8*time.Second)
	e.check(w, "Wait did not return within 8 s after the final Stop [%s]", desc)
	if w {
		var left []string
		e.check(lcPoll(5*time.Second, func() bool { left = lcQuartzGoroutines(); return len(left) == 0 }),
			"goroutine leak after the final Stop and Wait: %v [%s]", left, desc)
	}
	e.shape(fmt.Sprintf("restart-busy:%d:%s", n, how))
	e.count("scenario", "restart-busy")
	e.sample(map[string]any{"scenario": "restart-busy", "case": desc, "executions_of_new_run": started.Load() + heldStarted.Load(), "with_cancelled_context": dead.Load()})
}

// ---- C05 ----------------------------------------------------------------------------------------------------------------------------

const mfLimit = 300 * time.Millisecond

type mfPromptCase struct {
	mode     string
	capacity int
	source   string // downtime | past-at-start | past-fresh-first | past-stale-first
	k        int
	due      time.Duration
	retry    time.Duration // RetryInterval (0 = the default)
}

func (c mfPromptCase) String() string {
	ri := "default"
	if c.retry > 0 {
		ri = c.retry.String()
	}
	return fmt.Sprintf("mode=%s MisfiredChan=make(chan ScheduledJob, %d) with no reader, RetryInterval=%s, %d stale jobs (%s) and a fresh run-once job due in %v",
		c.mode, c.capacity, ri, c.k, c.source, c.due)
}

// mfPromptOnce returns the latency of the fresh job's Execute after max(API return + due, Start) (-1: never within limit + 2 s).
func (e *mfEnv) mfPromptOnce(c mfPromptCase) (lat time.Duration, nontrivial bool) {
	ch := make(chan quartz.ScheduledJob, c.capacity)
	// the stale jobs are 10 s late; the fresh job must not be dropped as outdated itself when the machine is busy: 1 s (the downtime
	// scenarios sleep for the threshold, so theirs is shorter)
	threshold := time.Second
	if c.source == "downtime" {
		threshold = 200 * time.Millisecond
	}
	var extra []quartz.SchedulerOpt
	if c.retry > 0 {
		extra = append(extra, quartz.WithRetryInterval(c.retry))
	}
	s := mfNew(c.mode, ch, threshold, extra...)
	fresh := &mfJob{name: "fresh"}
	var stale []*mfJob
	addStale := func() {
		for i := 0; i < c.k; i++ {
			j := &mfJob{name: fmt.Sprintf("stale%d", i)}
			stale = append(stale, j)
			var t quartz.Trigger = &mfPastTrigger{back: 10 * time.Second}
			if c.source == "downtime" {
				t = quartz.NewRunOnceTrigger(time.Millisecond)
			}
			must(mfSchedule(s, j, j.name, t))
		}
	}
	var ref time.Time
	addFresh := func() {
		must(mfSchedule(s, fresh, "fresh", quartz.NewRunOnceTrigger(c.due)))
		ref = time.Now().Add(c.due)
	}
	ctx, cancel := context.WithCancel(context.Background())
	defer cancel()
	switch c.source {
	case "downtime":
		addStale()
		time.Sleep(threshold + 30*time.Millisecond)
		addFresh()
		s.Start(ctx)
	case "past-at-start":
		addStale()
		addFresh()
		s.Start(ctx)
	case "past-fresh-first":
		s.Start(ctx)
		addFresh()
		addStale()
	case "past-stale-first":
		s.Start(ctx)
		addStale()
		addFresh()
	}
	if t := time.Now(); t.After(ref) {
		ref = t // Start / the last API call returned after the fire time
	}
	got := lcPoll(time.Until(ref)+mfLimit+2*time.Second, func() bool { return fresh.first.Load() != 0 })
	lat = -1
	if got {
		lat = time.Unix(0, fresh.first.Load()).Sub(ref)
		if lat < 0 {
			lat = 0
		}
	}
	skipped := 0
	for _, j := range stale {
		if j.execs.Load() == 0 {
			skipped++
		}
	}
	nontrivial = skipped > c.capacity // more misfires than the channel can take
	s.Stop()
	if w, _ := lcWait(s, 3*time.Second); !w {
		// something of this scheduler is stuck on the unread channel: let it go (scenarios run side by side, so only this scheduler is looked at)
		quit := make(chan struct{})
		go func() {
			for {
				select {
				case <-ch:
				case <-quit:
					return
				}
			}
		}()
		lcWait(s, 5*time.Second)
		close(quit)
	}
	return lat, nontrivial
}

// mfPrompt judges one scenario; lat / nontrivial are the outcome of its first run (made side by side with three others).
func (e *mfEnv) mfPrompt(c mfPromptCase, lat time.Duration, nontrivial bool) {
	// second opinion: alone, up to three more times; a violation only if late every time
	for i := 0; i < 3 && (lat < 0 || lat > mfLimit); i++ {
		e.mu.Lock()
		e.reruns++
		e.mu.Unlock()
		time.Sleep(50 * time.Millisecond)
		lat, nontrivial = e.mfPromptOnce(c)
	}
	what := "was not executed within 2.3 s of"
	if lat >= 0 {
		what = fmt.Sprintf("was executed %v after", lat.Round(time.Millisecond))
	}
	e.check(lat >= 0 && lat <= mfLimit, "a due job %s its fire time (limit 300 ms; 4 runs, late every time) although no job was executing in blocking mode and "+
		"no worker was busy: the misfires of the stale jobs, which nobody reads, held up the execution loop [%s]", what, c)
	if nontrivial {
		e.shape("prompt:" + c.String())
	}
	e.count("scenario", "prompt-"+c.source)
	e.count("prompt_mode", c.mode)
	e.mu.Lock()
	if lat >= 0 {
		e.lat = append(e.lat, lat.Milliseconds())
	}
	e.mu.Unlock()
	e.sample(map[string]any{"scenario": "prompt", "case": c.String(), "latency_ms": lat.Milliseconds(), "more_misfires_than_capacity": nontrivial})
}

// ---- C13 ----------------------------------------------------------------------------------------------------------------------------

// mfPanicJob plays a script per execution sequence: 'e' = return an error, 'p' = panic, end of script = success; the script restarts at
// every fire time (attempt counting by the retry interval: an execution that comes sooner than `gap` after the previous return of an
// error is a retry).
type mfPanicJob struct {
	script string
	mu     sync.Mutex
	pos    int
	panics atomic.Int64
	calls  atomic.Int64
}

func (j *mfPanicJob) Execute(context.Context) error {
	j.calls.Add(1)
	j.mu.Lock()
	c := byte('o')
	if j.pos < len(j.script) {
		c = j.script[j.pos]
	}
	j.pos++
	if c != 'e' {
		j.pos = 0
	}
	j.mu.Unlock()
	switch c {
	case 'e':
		return errors.New("scripted failure")
	case 'p':
		j.panics.Add(1)
		panic("scripted panic")
	}
	return nil
}
func (j *mfPanicJob) Description() string { return "panics:" + j.script }

func (e *mfEnv) mfPanic(mode string, capacity int, script string, fill string) {
	desc := fmt.Sprintf("mode=%s MisfiredChan=make(chan ScheduledJob, %d) with no reader%s, a job every 7 ms playing %q per fire time (e = error, p = panic; MaxRetries 3, "+
		"RetryInterval 1 ms), 3 run-once jobs that panic, a counting job every 5 ms", mode, capacity, map[string]string{"misfire": ", filled by a misfire", "": ""}[fill], script)
	ch := make(chan quartz.ScheduledJob, capacity)
	s := mfNew(mode, ch, time.Minute)
	ctx, cancel := context.WithCancel(context.Background())
	defer cancel()
	s.Start(ctx)
	if fill == "misfire" {
		// a job whose time passed long ago: its misfire takes the buffer
		must(mfSchedule(s, &mfJob{name: "old"}, "old", &mfPastTrigger{back: time.Hour}))
		lcPoll(2*time.Second, func() bool { return len(ch) == capacity })
	}
	full := len(ch) == capacity
	tick := &mfJob{name: "tick"}
	must(mfSchedule(s, tick, "tick", quartz.NewSimpleTrigger(5*time.Millisecond)))
	pj := &mfPanicJob{script: script}
	o := quartz.NewDefaultJobDetailOptions()
	o.MaxRetries, o.RetryInterval = 3, time.Millisecond
	must(s.ScheduleJob(quartz.NewJobDetailWithOptions(pj, quartz.NewJobKey("panicker"), o), quartz.NewSimpleTrigger(7*time.Millisecond)))
	once := make([]*mfPanicJob, 3)
	for i := range once {
		once[i] = &mfPanicJob{script: "p"}
		must(mfSchedule(s, once[i], fmt.Sprintf("once%d", i), quartz.NewRunOnceTrigger(time.Duration(3+i)*time.Millisecond)))
	}
	const wantPanics = 6
	// 10 s for each judgment; once one has failed the scheduler has had its 10 s and the others get one more second each
	failed := false
	patience := func() time.Duration {
		if failed {
			return time.Second
		}
		return 10 * time.Second
	}
	note := func(ok bool) { failed = failed || !ok }
	again := lcPoll(patience(), func() bool { return pj.panics.Load() >= wantPanics })
	note(again)
	e.check(again, "the panicking job was executed only %d time(s) (%d panic(s)) within 10 s: after a panic its next fire time must stay scheduled and be executed "+
		"(%d expected by then; the counting job ran %d times) [%s]", pj.calls.Load(), pj.panics.Load(), wantPanics, tick.execs.Load(), desc)
	for i, j := range once {
		ran := lcPoll(patience(), func() bool { return j.calls.Load() >= 1 })
		note(ran)
		e.check(ran, "run-once job %d (due %d ms after it was scheduled) was not executed within 10 s: "+
			"the earlier panics have taken the scheduler's workers / its loop out of service [%s]", i, 3+i, desc)
	}
	c0 := tick.execs.Load()
	ticking := lcPoll(patience(), func() bool { return tick.execs.Load() >= c0+3 })
	note(ticking)
	e.check(ticking, "after %d panics of other jobs the counting job (every 5 ms) ran only %d more time(s) "+
		"within 10 s: other jobs must keep running [%s]", pj.panics.Load()+3, tick.execs.Load()-c0, desc)
	sib := &mfJob{name: "sibling"}
	ok := lcTimed(5*time.Second, func() { _ = mfSchedule(s, sib, "sibling", quartz.NewRunOnceTrigger(time.Millisecond)) })
	e.check(ok && lcPoll(patience(), func() bool { return sib.execs.Load() >= 1 }), "a sibling job scheduled after the panics did not run within 10 s [%s]", desc)
	e.check(lcTimed(5*time.Second, s.Stop), "Stop did not return within 5 s [%s]", desc)
	w, _ := lcWait(s, 8*time.Second)
	e.check(w, "Wait did not return within 8 s after Stop [%s]", desc)
	mfRelease(ch)
	if full {
		e.shape("panic:" + mode + fmt.Sprint(capacity) + script + fill)
	}
	e.count("scenario", "panic")
	e.count("panic_mode", mode)
	e.sample(map[string]any{"scenario": "panic", "case": desc, "panics": pj.panics.Load() + 3, "counting_job_runs": tick.execs.Load(), "channel_full": full})
}

// mfRetryOpts: with QH_MISFIRED_CHAN=unbuffered|full in the environment every scheduler of `qh retry` (C13: attempts, retry waits, panics,
// cancellation) is configured with a MisfiredChan that nobody reads: unbuffered, or with a buffer of one that is already taken. The
// judgments of that engine are unchanged: what a job's failures and panics do must not depend on a listener nobody promised.
func mfRetryOpts() []quartz.SchedulerOpt {
	switch os.Getenv("QH_MISFIRED_CHAN") {
	case "unbuffered":
		return []quartz.SchedulerOpt{quartz.WithMisfiredChan(make(chan quartz.ScheduledJob))}
	case "full":
		ch := make(chan quartz.ScheduledJob, 1)
		ch <- nil // the buffer is taken (an earlier notification that nobody has collected)
		return []quartz.SchedulerOpt{quartz.WithMisfiredChan(ch)}
	}
	return nil
}

// ---- driver -------------------------------------------------------------------------------------------------------------------------

func misfireRun(args []string) int {
	fs := flag.NewFlagSet("misfire", flag.ExitOnError)
	seed := fs.Int64("seed", 1, "")
	prop := fs.String("prop", "C10", "C10 | C05 | C13")
	n := fs.Int("n", 1, "rounds")
	out := fs.String("out", "", "")
	fs.Parse(args)
	r := rand.New(rand.NewSource(*seed))
	e := &mfEnv{prop: *prop, dist: map[string]map[string]int{}, shapes: map[string]bool{}}
	t0 := time.Now()
	// once several scenarios have failed the rest is skipped: a scheduler that blocks costs a deadline per judgment
	giveUp := func() bool { e.mu.Lock(); defer e.mu.Unlock(); return len(e.viol) >= 3 }
	for round := 0; round < *n && !giveUp(); round++ {
		switch *prop {
		case "C10":
			for _, mode := range mfModes {
				for _, capacity := range []int{0, 1} {
					for _, source := range []string{"downtime", "past-trigger", "slow-blocking-job"} {
						if source == "slow-blocking-job" && mode != "blocking" || giveUp() {
							continue
						}
						e.mfShutdown(mode, []string{"stop", "cancel"}[r.Intn(2)], capacity, source)
					}
				}
			}
			hows := []string{"Stop", "cancel"}
			r.Shuffle(2, func(i, j int) { hows[i], hows[j] = hows[j], hows[i] })
			e.mfRestartBusy(6, hows[0])
			e.mfRestartBusy(6, hows[1])
			e.mfRestartBusy(2+r.Intn(10), hows[r.Intn(2)])
		case "C05":
			var cases []mfPromptCase
			for _, mode := range mfModes {
				for _, capacity := range []int{0, 1} {
					for _, source := range []string{"downtime", "past-at-start", "past-fresh-first", "past-stale-first"} {
						c := mfPromptCase{mode: mode, capacity: capacity, source: source, k: 4 + r.Intn(4), due: 20 * time.Millisecond}
						if source == "past-fresh-first" {
							c.due = 50 * time.Millisecond
						}
						if r.Intn(2) == 0 {
							c.retry = 2 * time.Second
						}
						cases = append(cases, c)
					}
				}
			}
			// first run four at a time (each scenario is mostly waiting); the late ones are looked at again, alone
			type first struct {
				lat time.Duration
				nt  bool
			}
			res := make([]first, len(cases))
			var wg sync.WaitGroup
			sem := make(chan struct{}, 4)
			for i, c := range cases {
				wg.Add(1)
				sem <- struct{}{}
				go func(i int, c mfPromptCase) {
					defer wg.Done()
					defer func() { <-sem }()
					res[i].lat, res[i].nt = e.mfPromptOnce(c)
				}(i, c)
			}
			wg.Wait()
			for i, c := range cases {
				if !giveUp() {
					e.mfPrompt(c, res[i].lat, res[i].nt)
				}
			}
		case "C13":
			scripts := []string{"p", "ep", "eep", "eeep"}
			for i, mode := range mfModes {
				if giveUp() {
					break
				}
				e.mfPanic(mode, 0, scripts[(i+round)%len(scripts)], "")
				e.mfPanic(mode, 1, scripts[r.Intn(len(scripts))], "misfire")
			}
		default:
			fmt.Println("misfire: unknown --prop", *prop)
			return 2
		}
	}
	var left []string
	if !lcPoll(5*time.Second, func() bool { left = lcQuartzGoroutines(); return len(left) == 0 }) && len(e.viol) == 0 {
		e.check(*prop != "C10", "goroutine leak at the end of all scenarios: %v", left)
	}
	viol := e.viol
	if viol == nil {
		viol = []string{}
	}
	st := map[string]any{"seed": *seed, "prop": *prop, "evaluations": e.evals, "distinct_nontrivial": len(e.shapes), "distribution": e.dist,
		"violations": viol, "samples": e.samples, "harness_failures": e.failures, "reruns": e.reruns, "wall_ms": time.Since(t0).Milliseconds()}
	if len(e.lat) > 0 {
		sort.Slice(e.lat, func(i, j int) bool { return e.lat[i] < e.lat[j] })
		st["latency_ms"] = map[string]int64{"p50": e.lat[len(e.lat)/2], "p99": e.lat[len(e.lat)*99/100], "max": e.lat[len(e.lat)-1]}
		st["limit_ms"] = mfLimit.Milliseconds()
	}
	writeJSON(*out+"/stats.json", st)
	fmt.Printf("misfire[%s]: %d checks, %d distinct non-trivial scenarios, %d property violations, %d harness failures, %d reruns, %d ms\n",
		*prop, e.evals, len(e.shapes), len(viol), len(e.failures), e.reruns, time.Since(t0).Milliseconds())
	if len(e.failures) > 0 {
		fmt.Println("misfire: harness failures:", e.failures)
		return 4
	}
	return 0
}
