package main

// qh wakeup5 — C05 on a queue whose Push is slower than a goroutine wake-up.
//
// "a job is dispatched promptly once its fire time arrives, no matter what the scheduler was waiting for when the job was scheduled,
// replaced or resumed ...: a change that brings the earliest fire time forward is never missed." WithQueue exists for persistent /
// remote job stores; there a Push takes far longer than it takes the execution loop to wake up, re-read the queue and park again.
// The "mutation" stall of wakeup.go delays the FIRST queue mutation of the call under test (for ResumeJob and Replace that is the
// Remove, the Push that follows runs at full speed), and only by 5..15 ms. Here the Push of the call under test — the call that
// makes the job with its new, earlier fire time visible — sleeps 100 ms before it takes effect (with "remove+push" the Remove
// before it sleeps 30 ms as well): a wake-up sent at any moment before the end of the Push finds a queue without the job, the
// loop parks again on what it had before, and nothing wakes it afterwards.
//
//	park   the loop is parked on: the paused target as the only entry ("paused-only", resume) | an empty queue ("empty", schedule)
//	       | a 1 h head ("far") | another paused job ("paused-head")
//	call   ResumeJob of the paused target | ScheduleJob with Replace bringing a 1 h target forward | ScheduleJob of a new job; the
//	       target's one-shot trigger is due 20 ms after it is asked
//	slow   push | remove+push, only during the call under test (the first Push / Remove after arming; nothing else is delayed)
//
// Verdict (one-sided, as wakeup3.go): Execute of the target starts within wuLimit + wuWatch (2.3 s) of max(API return, fire time).
// No API call is made between the call under test and the verdict: only the call's own wake-up can make the loop look at the queue.

import (
	"context"
	"flag"
	"fmt"
	"sync"
	"sync/atomic"
	"time"

	"github.com/reugn/go-quartz/quartz"
)

func init() { commands["wakeup5"] = wakeup5Run }

type w5SlowQ struct {
	quartz.JobQueue
	slowPush, slowRemove atomic.Int64 // ns the next Push / Remove sleeps before it takes effect
	pushSlept            atomic.Bool
	lastRead             atomic.Int64 // the loop's last Size()/Head()
}

func (q *w5SlowQ) Push(j quartz.ScheduledJob) error {
	if d := q.slowPush.Swap(0); d > 0 {
		time.Sleep(time.Duration(d))
		q.pushSlept.Store(true)
	}
	return q.JobQueue.Push(j)
}

func (q *w5SlowQ) Remove(k *quartz.JobKey) (quartz.ScheduledJob, error) {
	if d := q.slowRemove.Swap(0); d > 0 {
		time.Sleep(time.Duration(d))
	}
	return q.JobQueue.Remove(k)
}

func (q *w5SlowQ) Size() (int, error) {
	n, err := q.JobQueue.Size()
	q.lastRead.Store(time.Now().UnixNano())
	return n, err
}

func (q *w5SlowQ) Head() (quartz.ScheduledJob, error) {
	j, err := q.JobQueue.Head()
	q.lastRead.Store(time.Now().UnixNano())
	return j, err
}

type w5Case struct {
	ID   int
	Park string // paused-only | empty | far | paused-head
	Call string // resume | replace | schedule
	Slow string // push | remove+push
	Mode string // default | blocking | workers2
}

func (c w5Case) String() string {
	return fmt.Sprintf("#%d %s mode, custom queue (WithQueue) around the default one whose Push sleeps 100 ms before it takes effect during the call under test only (slow=%s); loop parked on %s; call=%s of a job due 20 ms after the call; no other API call follows",
		c.ID, c.Mode, c.Slow, c.Park, c.Call)
}

type w5Result struct {
	Scenario  string  `json:"scenario"`
	Outcome   string  `json:"outcome"` // ok | never | setup
	LatencyMs float64 `json:"latency_ms"`
	CallMs    float64 `json:"call_ms"`
	Detail    string  `json:"detail,omitempty"`
}

func w5Run(c w5Case) (res w5Result) {
	res = w5Result{Scenario: c.String(), Outcome: "setup", LatencyMs: -1}
	q := &w5SlowQ{JobQueue: quartz.NewJobQueue()}
	opts := []quartz.SchedulerOpt{quartz.WithQueue(q, &sync.Mutex{}), quartz.WithOutdatedThreshold(10 * time.Second), quartz.WithRetryInterval(2 * time.Second)}
	switch c.Mode {
	case "blocking":
		opts = append(opts, quartz.WithBlockingExecution())
	case "workers2":
		opts = append(opts, quartz.WithWorkerLimit(2))
	}
	s, err := quartz.NewStdScheduler(opts...)
	if err != nil {
		res.Detail = err.Error()
		return res
	}
	ctx, cancel := context.WithCancel(context.Background())
	defer func() {
		s.Stop()
		cancel()
		wctx, wc := context.WithTimeout(context.Background(), 3*time.Second)
		s.Wait(wctx)
		wc()
	}()
	s.Start(ctx)
	target := &wuJob{}
	key := quartz.NewJobKey("target")
	trig := &wuOnce{delay: 20 * time.Millisecond}
	suspended := func() *quartz.JobDetailOptions {
		o := quartz.NewDefaultJobDetailOptions()
		o.Suspended = true
		return o
	}
	switch c.Park {
	case "far":
		err = s.ScheduleJob(quartz.NewJobDetail(&wuJob{}, quartz.NewJobKey("far")), quartz.NewSimpleTrigger(time.Hour))
	case "paused-head":
		err = s.ScheduleJob(quartz.NewJobDetailWithOptions(&wuJob{}, quartz.NewJobKey("parked"), suspended()), quartz.NewSimpleTrigger(10*time.Millisecond))
	}
	if err != nil {
		res.Detail = err.Error()
		return res
	}
	switch c.Call {
	case "replace":
		err = s.ScheduleJob(quartz.NewJobDetail(target, key), quartz.NewSimpleTrigger(time.Hour))
	case "resume":
		err = s.ScheduleJob(quartz.NewJobDetailWithOptions(target, key, suspended()), trig)
		trig.fire.Store(0) // the fire time that counts is the one ResumeJob computes
	}
	if err != nil {
		res.Detail = err.Error()
		return res
	}
	// let the loop park: no Size()/Head() for 10 ms (deadline 500 ms)
	dl := time.Now().Add(500 * time.Millisecond)
	for time.Now().Before(dl) {
		if lr := q.lastRead.Load(); lr != 0 && time.Since(time.Unix(0, lr)) > 10*time.Millisecond {
			break
		}
		time.Sleep(time.Millisecond)
	}
	// the call under test, on the slow queue
	if c.Slow == "remove+push" {
		q.slowRemove.Store(int64(30 * time.Millisecond))
	}
	q.slowPush.Store(int64(100 * time.Millisecond))
	t0 := time.Now()
	switch c.Call {
	case "schedule":
		err = s.ScheduleJob(quartz.NewJobDetail(target, key), trig)
	case "replace":
		o := quartz.NewDefaultJobDetailOptions()
		o.Replace = true
		err = s.ScheduleJob(quartz.NewJobDetailWithOptions(target, key, o), trig)
	case "resume":
		err = s.ResumeJob(key)
	}
	ref := time.Now().UnixNano()
	res.CallMs = float64(time.Since(t0).Microseconds()) / 1000
	q.slowPush.Store(0)
	q.slowRemove.Store(0)
	if err != nil {
		res.Detail = "the call under test failed: " + err.Error()
		return res
	}
	if !q.pushSlept.Load() {
		res.Detail = "the call under test made no Push"
		return res
	}
	if f := trig.fire.Load(); f > ref {
		ref = f
	}
	for target.started.Load() == 0 && time.Now().UnixNano() < ref+int64(wuLimit+wuWatch) {
		time.Sleep(250 * time.Microsecond)
	}
	st := target.started.Load()
	if st == 0 {
		n, _ := q.JobQueue.Size()
		hd := "no head"
		if h, herr := q.JobQueue.Head(); herr == nil {
			hd = fmt.Sprintf("head %s due %v ago", h.JobDetail().JobKey(), time.Duration(time.Now().UnixNano()-h.NextRunTime()).Round(time.Millisecond))
		}
		res.Outcome = "never"
		res.Detail = fmt.Sprintf("Execute had not started %v after max(API return, fire time); the call took %.0f ms; the queue holds %d job(s), %s; nothing is executing and no pool is full", wuLimit+wuWatch, res.CallMs, n, hd)
		return res
	}
	res.Outcome = "ok"
	if lat := time.Duration(st - ref); lat > 0 {
		res.LatencyMs = float64(lat.Microseconds()) / 1000
	} else {
		res.LatencyMs = 0
	}
	return res
}

func wakeup5Run(args []string) int {
	fs := flag.NewFlagSet("wakeup5", flag.ExitOnError)
	seed := fs.Int64("seed", 1, "")
	n := fs.Int("n", 1, "rounds of the matrix")
	par := fs.Int("par", 16, "schedulers side by side")
	out := fs.String("out", "", "")
	fs.Parse(args)
	t0 := time.Now()
	var cases []w5Case
	for round := 0; round < *n; round++ {
		k := 0
		for _, call := range []string{"resume", "replace", "schedule"} {
			parks := []string{"far", "paused-head"}
			switch call {
			case "resume":
				parks = append(parks, "paused-only")
			case "schedule":
				parks = append(parks, "empty")
			}
			for _, park := range parks {
				for _, slow := range []string{"push", "remove+push"} {
					if call == "schedule" && slow == "remove+push" {
						continue
					}
					mode := []string{"default", "blocking", "workers2"}[(k+round)%3]
					k++
					cases = append(cases, w5Case{Park: park, Call: call, Slow: slow, Mode: mode})
				}
			}
		}
	}
	for i := range cases {
		cases[i].ID = i
	}
	results := make([]w5Result, len(cases))
	var wg sync.WaitGroup
	sem := make(chan struct{}, *par)
	for i := range cases {
		wg.Add(1)
		sem <- struct{}{}
		go func(i int) {
			defer wg.Done()
			defer func() { <-sem }()
			results[i] = w5Run(cases[i])
		}(i)
	}
	wg.Wait()
	viol := []string{}
	dist := map[string]map[string]int{"park": {}, "call": {}, "slow": {}, "mode": {}, "outcome": {}, "latency": {}}
	distinct := map[string]bool{}
	setup := 0
	maxLat := 0.0
	for i, res := range results {
		c := cases[i]
		dist["outcome"][res.Outcome]++
		switch res.Outcome {
		case "setup":
			setup++
			continue
		case "never":
			if len(viol) < 10 {
				viol = append(viol, fmt.Sprintf("C05 lost wake-up on a queue with a slow Push: %s (%s)", res.Detail, c))
			}
		}
		dist["park"][c.Park]++
		dist["call"][c.Call]++
		dist["slow"][c.Slow]++
		dist["mode"][c.Mode]++
		distinct[c.Park+"/"+c.Call+"/"+c.Slow] = true
		switch {
		case res.LatencyMs < 0:
		case res.LatencyMs <= 20:
			dist["latency"]["<=20ms"]++
		case res.LatencyMs <= 300:
			dist["latency"]["<=300ms"]++
		default:
			dist["latency"][">300ms (within the 2.3 s deadline)"]++
		}
		if res.LatencyMs > maxLat {
			maxLat = res.LatencyMs
		}
	}
	if setup > len(results)/4 {
		first := ""
		for _, res := range results {
			if res.Outcome == "setup" {
				first = res.Scenario + ": " + res.Detail
				break
			}
		}
		viol = append(viol, fmt.Sprintf("C05 harness could not set up %d of %d slow-Push scenarios (first: %s)", setup, len(results), first))
	}
	samples := []w5Result{}
	for i := 0; i < len(results) && len(samples) < 4; i += len(results)/4 + 1 {
		samples = append(samples, results[i])
	}
	writeJSON(*out+"/stats.json", map[string]any{"seed": *seed, "evaluations": len(results) - setup, "distinct_nontrivial": len(distinct),
		"distribution": dist, "violations": viol, "samples": samples, "setup_failures": setup, "max_latency_ms": maxLat,
		"deadline_ms": (wuLimit + wuWatch).Milliseconds(), "wall_s": time.Since(t0).Seconds()})
	fmt.Printf("wakeup5: %d slow-Push scenarios (%d distinct cells) in %.1fs, max latency %.2f ms, %d setup failures, %d violations\n",
		len(results), len(distinct), time.Since(t0).Seconds(), maxLat, setup, len(viol))
	return 0
}
