package main

// qh pool, second scenario set (C12): states in which a long-running execution meets the rest of the scheduler.
//
//   G  pause-while-running: PauseJob / ResumeJob of a job from another goroutine while one of its executions is in progress; a
//      short-interval sibling job must keep being dispatched meanwhile (default mode: "a long-running job never delays the
//      dispatch of other due jobs"; WorkerLimit 2: the second worker must still be fed, "n can genuinely run in parallel"),
//      after the resume the running job's own next fire time is dispatched, and both calls return while the execution goes on.
//   H  same-instant: several jobs whose fire times are identical to the nanosecond (one shared custom trigger, equal custom
//      triggers answering round times, cron triggers aligned to the second), default mode; each execution lasts until all of
//      them are in progress (barrier): they must all be dispatched at their common fire time, not one after the other.
//   I  stop-saturated: WorkerLimit n, all n workers busy with executions that ignore their context, one more due job already
//      taken off the queue by the loop and waiting in its hand-off, then Stop() (or cancellation of the Start context): the
//      number of executions in progress must stay <= n in this very run (no restart: not the known finding restart-overlap).
//
// All timing judgments are one-sided with seconds of slack against events that take milliseconds on the unchanged tree; every wait
// has a deadline; every execution that blocks has a release channel and a last-resort timeout.

import (
	"context"
	"fmt"
	"math/rand"
	"sync"
	"sync/atomic"
	"time"

	"github.com/reugn/go-quartz/quartz"
)

// poolWaitCount waits until load() >= want or the patience is over.
func poolWaitCount(load func() int64, want int64, patience time.Duration) bool {
	deadline := time.Now().Add(patience)
	for {
		if load() >= want {
			return true
		}
		if time.Now().After(deadline) {
			return false
		}
		time.Sleep(time.Millisecond)
	}
}

// ---- scenario G
func poolPauseRunning(r *rand.Rand, limit int, st *poolStats) {
	if st.givenUp() {
		return
	}
	name, mode := "pause-while-running", "default mode (no BlockingExecution, no WorkerLimit)"
	opts := []quartz.SchedulerOpt{quartz.WithOutdatedThreshold(time.Hour)}
	if limit > 0 {
		name, mode = fmt.Sprintf("pause-while-running:pool-%d", limit), fmt.Sprintf("WorkerLimit %d (one worker busy with the long execution, %d free)", limit, limit-1)
		opts = append(opts, quartz.WithWorkerLimit(limit))
	}
	s, err := quartz.NewStdScheduler(opts...)
	must(err)
	const patience = 3 * time.Second
	var c poolCounter
	var longStarts, sibStarts atomic.Int64
	release := make(chan struct{})
	firstBlocked := make(chan struct{})
	long := &poolJob{name: "long", run: func(ctx context.Context) error {
		if longStarts.Add(1) == 1 { // the first execution is the long one; the later ones return at once
			c.enter()
			close(firstBlocked)
			select {
			case <-release: // ignores ctx on purpose: a long-running job
			case <-time.After(30 * time.Second):
			}
			c.leave()
		}
		return nil
	}}
	sib := &poolJob{name: "sibling", run: func(ctx context.Context) error {
		sibStarts.Add(1)
		c.enter()
		time.Sleep(time.Millisecond)
		c.leave()
		return nil
	}}
	longEvery := time.Duration(40+r.Intn(30)) * time.Millisecond
	sibEvery := time.Duration(10+r.Intn(15)) * time.Millisecond
	longKey := quartz.NewJobKey("long")
	must(s.ScheduleJob(quartz.NewJobDetail(long, longKey), quartz.NewSimpleTrigger(longEvery)))
	must(s.ScheduleJob(quartz.NewJobDetail(sib, quartz.NewJobKey("sibling")), quartz.NewSimpleTrigger(sibEvery)))
	ctx, cancel := context.WithCancel(context.Background())
	s.Start(ctx)
	blocked := false
	select {
	case <-firstBlocked:
		blocked = true
	case <-time.After(10 * time.Second):
		st.mu.Lock()
		st.failures = append(st.failures, name+": the long job never started within 10 s")
		st.mu.Unlock()
	}
	// call runs an API call for the running job from another goroutine and reports whether it came back within the patience
	call := func(f func(*quartz.JobKey) error) (returned bool, took time.Duration, err error, ch chan error) {
		ch = make(chan error, 1)
		t0 := time.Now()
		go func() { ch <- f(longKey) }()
		select {
		case err = <-ch:
			return true, time.Since(t0), err, ch
		case <-time.After(50 * time.Millisecond):
			return false, 0, nil, ch
		}
	}
	// stalled: fewer than 3 further sibling executions within the patience
	siblingGoesOn := func() (int64, bool) {
		base := sibStarts.Load()
		ok := poolWaitCount(sibStarts.Load, base+3, patience)
		return sibStarts.Load() - base, ok
	}
	var pauseCh, resumeCh chan error
	pauseReturned, resumeReturned := false, false
	var pauseErr, resumeErr error
	var pauseTook time.Duration
	sibDuring, sibAfterResume, longAfterResume := int64(-1), int64(-1), int64(-1)
	if blocked {
		if n, ok := siblingGoesOn(); !ok { // before any call: the plain independence clause
			st.violation("dispatch delayed > 3 s: %s, one execution of job long in progress, job sibling (every %d ms) started %d time(s) in 3 s (want >= 3)", mode, sibEvery.Milliseconds(), n)
		}
		tCall := time.Now()
		pauseReturned, pauseTook, pauseErr, pauseCh = call(s.PauseJob)
		n, ok := siblingGoesOn()
		sibDuring = n
		if !pauseReturned {
			select {
			case pauseErr = <-pauseCh:
				pauseReturned, pauseTook = true, time.Since(tCall)
			case <-time.After(time.Until(tCall.Add(patience))):
			}
		}
		pauseState := "which had not returned after 3 s"
		if pauseReturned {
			pauseState = fmt.Sprintf("which returned %v after %d ms", pauseErr, pauseTook.Milliseconds())
		}
		if !ok {
			st.violation("dispatch stalled by a long-running job: %s, one execution of job long (every %d ms) in progress, PauseJob(long) called from another goroutine (%s); "+
				"job sibling (every %d ms) started only %d time(s) in the following 3 s (want >= 3): a long-running job must never delay the dispatch of other due jobs",
				mode, longEvery.Milliseconds(), pauseState, sibEvery.Milliseconds(), n)
		}
		if !pauseReturned {
			st.violation("PauseJob blocked by a long-running job: %s, PauseJob(long) had not returned 3 s after the call while one execution of job long was in progress "+
				"(jobs are not independent of a long-running execution; %d sibling executions started meanwhile)", mode, n)
		} else if pauseErr != nil {
			st.mu.Lock()
			st.failures = append(st.failures, fmt.Sprintf("%s: PauseJob(long) answered %v", name, pauseErr))
			st.mu.Unlock()
		}
		if pauseReturned && pauseErr == nil {
			longBase := longStarts.Load()
			tCall = time.Now()
			var resumeTook time.Duration
			resumeReturned, resumeTook, resumeErr, resumeCh = call(s.ResumeJob)
			n, ok := siblingGoesOn()
			sibAfterResume = n
			if !resumeReturned {
				select {
				case resumeErr = <-resumeCh:
					resumeReturned, resumeTook = true, time.Since(tCall)
				case <-time.After(time.Until(tCall.Add(patience))):
				}
			}
			resumeState := "which had not returned after 3 s"
			if resumeReturned {
				resumeState = fmt.Sprintf("which returned %v after %d ms", resumeErr, resumeTook.Milliseconds())
			}
			if !ok {
				st.violation("dispatch stalled by a long-running job: %s, one execution of job long in progress, PauseJob(long) then ResumeJob(long) called from another goroutine (%s); "+
					"job sibling (every %d ms) started only %d time(s) in the following 3 s (want >= 3): a long-running job must never delay the dispatch of other due jobs",
					mode, resumeState, sibEvery.Milliseconds(), n)
			}
			if !resumeReturned {
				st.violation("ResumeJob blocked by a long-running job: %s, ResumeJob(long) had not returned 3 s after the call while one execution of job long was in progress", mode)
			} else if resumeErr == nil {
				// the resumed job's own next fire time (every longEvery) while its first execution is still in progress
				if !poolWaitCount(longStarts.Load, longBase+1, patience) {
					st.violation("dispatch delayed > 3 s: %s, job long (every %d ms) was paused and resumed while its first execution was in progress; no further execution of it started "+
						"within 3 s after ResumeJob returned: a long-running job must not delay its own next fire time", mode, longEvery.Milliseconds())
				}
				longAfterResume = longStarts.Load() - longBase
			} else {
				st.mu.Lock()
				st.failures = append(st.failures, fmt.Sprintf("%s: ResumeJob(long) answered %v", name, resumeErr))
				st.mu.Unlock()
			}
		}
	}
	close(release)
	for _, p := range []struct {
		ch       chan error
		returned bool
	}{{pauseCh, pauseReturned}, {resumeCh, resumeReturned}} { // a call that was stuck comes back once the execution has ended
		if p.ch != nil && !p.returned {
			select {
			case <-p.ch:
			case <-time.After(5 * time.Second):
			}
		}
	}
	if !poolShutdown(s, cancel) {
		st.mu.Lock()
		st.failures = append(st.failures, name+": Wait did not return within 10 s after Stop")
		st.mu.Unlock()
	}
	st.mu.Lock()
	st.evals += int(sibStarts.Load() + longStarts.Load())
	st.shapes[name] = true
	st.samples = append(st.samples, map[string]any{"scenario": name, "long_every_ms": longEvery.Milliseconds(), "sibling_every_ms": sibEvery.Milliseconds(),
		"pause_returned_while_running": pauseReturned, "pause_took_us": pauseTook.Microseconds(), "resume_returned_while_running": resumeReturned,
		"sibling_starts_after_pause_call": sibDuring, "sibling_starts_after_resume_call": sibAfterResume, "long_starts_after_resume": longAfterResume, "max_in_flight": c.max.Load()})
	st.mu.Unlock()
	st.count("scenario", name)
	st.count("pause_while_running", fmt.Sprintf("%s:pause-returned=%v,resume-returned=%v,sibling-went-on=%v", name, pauseReturned, resumeReturned, sibDuring >= 3))
}

// poolRoundTrig answers base, base+period, base+2*period, ...: the smallest of them after prev. Several jobs given the same
// (or an equal) trigger have fire times that are identical to the nanosecond.
type poolRoundTrig struct{ base, period int64 }

func (t *poolRoundTrig) NextFireTime(prev int64) (int64, error) {
	if prev < t.base {
		return t.base, nil
	}
	return t.base + ((prev-t.base)/t.period+1)*t.period, nil
}
func (t *poolRoundTrig) Description() string { return "poolRoundTrig" }

// ---- scenario H. kind: "shared-trigger" (one trigger object for all jobs), "equal-triggers" (one object each, same answers),
// "cron" (`* * * * * *` each: the ordinary way to get identical fire times).
func poolSameInstant(r *rand.Rand, kind string, st *poolStats) {
	if st.givenUp() {
		return
	}
	name := "same-instant:" + kind
	s, err := quartz.NewStdScheduler(quartz.WithOutdatedThreshold(time.Hour))
	must(err)
	k := 3 + r.Intn(4)
	var c poolCounter
	var arrivals, passed, stuck, inFlightAtTimeout atomic.Int64
	all, abort := make(chan struct{}), make(chan struct{})
	var abortOnce sync.Once
	done := make(chan struct{}, k)
	firstStart := make([]atomic.Int64, k)
	// a round instant a little ahead (a multiple of 100 ms), the same for every job
	base := (time.Now().Add(time.Duration(120+r.Intn(60))*time.Millisecond).UnixNano()/1e8 + 1) * 1e8
	shared := &poolRoundTrig{base: base, period: int64(time.Hour)}
	for i := 0; i < k; i++ {
		i := i // go.mod says go 1.21: one loop variable for all iterations
		var execs atomic.Int64
		j := &poolJob{name: fmt.Sprintf("t%d", i), run: func(ctx context.Context) error {
			if execs.Add(1) > 1 { // (cron: the later seconds) only the first execution of each job takes part
				return nil
			}
			firstStart[i].Store(time.Now().UnixNano())
			c.enter()
			if arrivals.Add(1) == int64(k) { // all k are inside Execute now
				close(all)
			}
			t := time.NewTimer(5 * time.Second)
			select {
			case <-all:
				passed.Add(1)
			case <-abort:
				stuck.Add(1)
			case <-t.C:
				stuck.Add(1)
				abortOnce.Do(func() { inFlightAtTimeout.Store(c.cur.Load()); close(abort) })
			}
			t.Stop()
			c.leave()
			done <- struct{}{}
			return nil
		}}
		var trig quartz.Trigger
		switch kind {
		case "shared-trigger":
			trig = shared
		case "equal-triggers":
			trig = &poolRoundTrig{base: base, period: int64(time.Hour)}
		default:
			ct, err := quartz.NewCronTrigger("* * * * * *")
			must(err)
			trig = ct
		}
		must(s.ScheduleJob(quartz.NewJobDetail(j, quartz.NewJobKey(j.name)), trig))
	}
	// what the queue holds: the fire times the scheduler itself reports for the jobs
	fire := map[int64]int{}
	if keys, err := s.GetJobKeys(); err == nil {
		for _, key := range keys {
			if sj, err := s.GetScheduledJob(key); err == nil {
				fire[sj.NextRunTime()]++
			}
		}
	}
	largest, largestAt := 0, int64(0)
	for t, n := range fire {
		if n > largest {
			largest, largestAt = n, t
		}
	}
	ctx, cancel := context.WithCancel(context.Background())
	s.Start(ctx)
	got := 0
	deadline := time.After(20 * time.Second)
wait:
	for got < k {
		select {
		case <-done:
			got++
		case <-deadline:
			break wait
		}
	}
	if stuck.Load() > 0 || got < k {
		var offs []string
		for i := range firstStart {
			if v := firstStart[i].Load(); v != 0 {
				offs = append(offs, fmt.Sprintf("t%d:+%dms", i, (v-largestAt)/1e6))
			} else {
				offs = append(offs, fmt.Sprintf("t%d:never", i))
			}
		}
		st.violation("jobs due at the same instant were not dispatched together: default mode (no BlockingExecution, no WorkerLimit), %d jobs (%s), %d of them with the fire time %d (identical to the nanosecond), "+
			"every execution lasts until all %d are in progress; 5 s after the first one had started only %d execution(s) were in progress and %d of %d never saw the others "+
			"(starts relative to the fire time: %v): a long-running job delays the dispatch of other due jobs", k, kind, largest, largestAt, k, inFlightAtTimeout.Load(), stuck.Load(), k, offs)
	}
	if !poolShutdown(s, cancel) {
		st.mu.Lock()
		st.failures = append(st.failures, name+": Wait did not return within 10 s after Stop")
		st.mu.Unlock()
	}
	var lo, hi int64
	for i := range firstStart {
		if v := firstStart[i].Load(); v != 0 {
			if lo == 0 || v < lo {
				lo = v
			}
			if v > hi {
				hi = v
			}
		}
	}
	st.mu.Lock()
	st.evals += got
	st.shapes[name] = true
	st.samples = append(st.samples, map[string]any{"scenario": name, "jobs": k, "jobs_with_identical_fire_time": largest, "fire_time": largestAt, "all_in_progress_together": passed.Load(),
		"stuck": stuck.Load(), "start_spread_ms": (hi - lo) / 1e6, "max_in_flight": c.max.Load()})
	st.mu.Unlock()
	st.count("scenario", name)
	st.count("same_instant", fmt.Sprintf("%s:identical=%d/%d,together=%v", kind, largest, k, stuck.Load() == 0 && got == k))
}

// ---- scenario I
func poolStopSaturated(r *rand.Rand, n int, viaCancel bool, st *poolStats) {
	if st.givenUp() {
		return
	}
	how := "Stop()"
	if viaCancel {
		how = "cancellation of the Start context"
	}
	name := fmt.Sprintf("stop-saturated:pool-%d", n)
	s, err := quartz.NewStdScheduler(quartz.WithWorkerLimit(n), quartz.WithOutdatedThreshold(time.Hour))
	must(err)
	jobs := n + 2
	var c poolCounter
	release := make(chan struct{})
	for i := 0; i < jobs; i++ {
		j := &poolJob{name: fmt.Sprintf("h%d", i), run: func(ctx context.Context) error {
			c.enter()
			select {
			case <-release: // ignores ctx on purpose: the execution outlasts the stop
			case <-time.After(30 * time.Second):
			}
			c.leave()
			return nil
		}}
		must(s.ScheduleJob(quartz.NewJobDetail(j, quartz.NewJobKey(j.name)), quartz.NewRunOnceTrigger(time.Duration(3+r.Intn(5))*time.Millisecond)))
	}
	ctx, cancel := context.WithCancel(context.Background())
	s.Start(ctx)
	full := poolWaitCount(c.cur.Load, int64(n), 5*time.Second)
	// the loop has taken one more job off the queue (a run-once job is not put back) and, all workers being busy, offers it
	// in its hand-off select: the queue holds jobs-n-1 = 1 job
	handoff := false
	if full {
		handoff = poolWaitCount(func() int64 {
			keys, err := s.GetJobKeys()
			if err != nil {
				return -1
			}
			return int64(jobs - len(keys))
		}, int64(n+1), 5*time.Second)
	}
	time.Sleep(5 * time.Millisecond)
	maxBefore := c.max.Load()
	if viaCancel {
		cancel()
	} else {
		s.Stop()
	}
	exceeded := poolWaitCount(c.max.Load, int64(n+1), 300*time.Millisecond)
	maxAfter, curAfter := c.max.Load(), c.cur.Load()
	if maxBefore > int64(n) {
		st.violation("max in-flight exceeded bound: WorkerLimit %d, %d executions in progress at once, %d jobs due at once", n, maxBefore, jobs)
	} else if exceeded {
		st.violation("max in-flight exceeded bound: WorkerLimit %d, %d executions in progress at once after %s of a run (no restart) whose %d workers were all busy with executions that ignore their context "+
			"while a further due job was waiting in the loop's hand-off (%d jobs due at once, %d started in this run)", n, curAfter, how, n, jobs, c.started.Load())
	}
	if !full {
		st.mu.Lock()
		st.failures = append(st.failures, fmt.Sprintf("%s: the pool never had %d executions in progress within 5 s", name, n))
		st.mu.Unlock()
	} else if !handoff {
		st.mu.Lock()
		st.failures = append(st.failures, fmt.Sprintf("%s: the loop did not take a further due job off the queue within 5 s while the pool was busy", name))
		st.mu.Unlock()
	}
	close(release)
	if !poolShutdown(s, cancel) {
		st.mu.Lock()
		st.failures = append(st.failures, name+": Wait did not return within 10 s after Stop")
		st.mu.Unlock()
	}
	if final := c.max.Load(); final > int64(n) && !exceeded && maxBefore <= int64(n) {
		st.violation("max in-flight exceeded bound: WorkerLimit %d, %d executions in progress at once after %s of a saturated run and the end of its executions (no restart)", n, final, how)
	}
	st.mu.Lock()
	st.evals += int(c.started.Load())
	st.shapes[name] = true
	st.samples = append(st.samples, map[string]any{"scenario": name, "stopped_by": how, "jobs_due_at_once": jobs, "saturated": full, "job_in_handoff": handoff, "max_in_flight_before_stop": maxBefore,
		"max_in_flight_after_stop": maxAfter, "max_in_flight_final": c.max.Load(), "bound": n, "executions_started": c.started.Load()})
	st.mu.Unlock()
	st.count("scenario", name)
	st.count("stop_saturated", fmt.Sprintf("pool-%d:%s:max-after-stop=%d", n, map[bool]string{false: "stop", true: "cancel"}[viaCancel], maxAfter))
}

// poolSecondSet runs scenarios G, H, I once; its random choices come from a generator of its own so that the inputs of the
// first scenario set stay what they were for a given seed.
func poolSecondSet(r *rand.Rand, round int, st *poolStats) {
	poolPauseRunning(r, 0, st)
	poolPauseRunning(r, 2, st)
	poolSameInstant(r, "shared-trigger", st)
	poolSameInstant(r, "equal-triggers", st)
	if round == 0 {
		poolSameInstant(r, "cron", st)
	}
	poolStopSaturated(r, 2, false, st)
	poolStopSaturated(r, []int{1, 3, 4}[r.Intn(3)], r.Intn(2) == 0, st)
}
