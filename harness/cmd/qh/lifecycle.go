package main

// qh lifecycle — C10 "lifecycle: start/stop/cancel/wait/restart behave and leak nothing".
//
// Scripted and random call sequences on real StdSchedulers (public API only) in the three execution
// modes. IsStarted is judged against the call-order specification (the Go twin of `Lifecycle.expect` in
// lean/QuartzModel/Sched/Lifecycle.lean): true after Start, false after Stop or after cancelling the
// context of the current run. Jobs are instrumented (in-flight counter, "saw ctx.Done" flag). After
// Wait: nothing in flight, nothing starts, and the goroutine dump contains no frame of package quartz.
// All waits poll with generous deadlines; nothing is concluded from a sleep alone.
// No ops.txt: only stats.json.

import (
	"bytes"
	"context"
	"flag"
	"fmt"
	"math/rand"
	"os/exec"
	"runtime"
	"strings"
	"sync/atomic"
	"time"

	"github.com/reugn/go-quartz/quartz"
)

func init() {
	commands["lifecycle"] = lifecycleRun
	commands["lifecycle-child"] = lifecycleChild
}

const lcQuartzPkg = "github.com/reugn/go-quartz/quartz."

// "blocking+workers3": both options given — WorkerLimit is documented to be ignored then (no pool, nothing extra to wait for)
var lcModes = []string{"unbounded", "blocking", "workers3", "blocking+workers3"}

type lcEnv struct {
	viol     []string
	failures []string
	evals    int
	dist     map[string]map[string]int
	shapes   map[string]bool
	samples  []map[string]any
}

func (e *lcEnv) violation(format string, a ...any) {
	if len(e.viol) < 40 {
		e.viol = append(e.viol, "C10 "+fmt.Sprintf(format, a...))
	}
}

func (e *lcEnv) count(table, bucket string) {
	if e.dist[table] == nil {
		e.dist[table] = map[string]int{}
	}
	e.dist[table][bucket]++
}

// check counts one evaluation and records a violation when the condition fails.
func (e *lcEnv) check(ok bool, format string, a ...any) bool {
	e.evals++
	if !ok {
		e.violation(format, a...)
	}
	return ok
}

func lcNew(mode string) quartz.Scheduler {
	opts := []quartz.SchedulerOpt{quartz.WithOutdatedThreshold(time.Hour)}
	switch mode {
	case "blocking":
		opts = append(opts, quartz.WithBlockingExecution())
	case "workers3":
		opts = append(opts, quartz.WithWorkerLimit(3))
	case "blocking+workers3":
		opts = append(opts, quartz.WithBlockingExecution(), quartz.WithWorkerLimit(3))
	}
	s, err := quartz.NewStdScheduler(opts...)
	must(err)
	return s
}

func lcPoll(d time.Duration, f func() bool) bool {
	end := time.Now().Add(d)
	for {
		if f() {
			return true
		}
		if time.Now().After(end) {
			return false
		}
		time.Sleep(500 * time.Microsecond)
	}
}

// lcQuartzGoroutines returns, for every goroutine with a frame of package quartz, that frame's function.
func lcQuartzGoroutines() []string {
	buf := make([]byte, 1<<20)
	for {
		n := runtime.Stack(buf, true)
		if n < len(buf) {
			buf = buf[:n]
			break
		}
		buf = make([]byte, 2*len(buf))
	}
	var out []string
	for _, g := range strings.Split(string(buf), "\n\n") {
		for _, line := range strings.Split(g, "\n") {
			if strings.HasPrefix(line, lcQuartzPkg) {
				if i := strings.LastIndex(line, "("); i > 0 {
					line = line[:i]
				}
				out = append(out, strings.TrimPrefix(line, lcQuartzPkg))
				break
			}
		}
	}
	return out
}

// lcNoLeak: after a 200 ms grace (polling, at most 5 s) no goroutine may be inside package quartz.
func (e *lcEnv) lcNoLeak(where string) {
	var left []string
	ok := lcPoll(5*time.Second, func() bool { left = lcQuartzGoroutines(); return len(left) == 0 })
	e.check(ok, "goroutine leak: after %s and Wait, %d goroutine(s) of the scheduler are still alive: %v", where, len(left), left)
}

// lcJob: counts executions, tracks in-flight, and (when hold is set) stays inside Execute until its ctx is
// cancelled (honour = true) or until release is closed (honour = false).
type lcJob struct {
	name     string
	execs    atomic.Int64
	inflight atomic.Int64
	sawDone  atomic.Int64
	hold     atomic.Bool
	honour   bool
	release  chan struct{}
}

func (j *lcJob) Execute(ctx context.Context) error {
	j.inflight.Add(1)
	j.execs.Add(1)
	defer j.inflight.Add(-1)
	if j.hold.Load() {
		if j.honour {
			select {
			case <-ctx.Done():
				j.sawDone.Add(1)
			case <-j.release:
			}
		} else {
			<-j.release
		}
	}
	return nil
}
func (j *lcJob) Description() string { return j.name }

func lcSchedule(s quartz.Scheduler, j *lcJob, every time.Duration) {
	must(s.ScheduleJob(quartz.NewJobDetail(j, quartz.NewJobKey(j.name)), quartz.NewSimpleTrigger(every)))
}

func lcWait(s quartz.Scheduler, d time.Duration) (returned bool, took time.Duration) {
	ctx, c := context.WithTimeout(context.Background(), d)
	defer c()
	t := time.Now()
	s.Wait(ctx)
	return ctx.Err() == nil, time.Since(t)
}

// lcFires: the job's execution count grows within 2 s.
func lcFires(j *lcJob) bool {
	c0 := j.execs.Load()
	return lcPoll(2*time.Second, func() bool { return j.execs.Load() > c0 })
}

// ---- scripted scenarios -------------------------------------------------------------------------------------

func (e *lcEnv) idempotence(mode string) {
	// Stop before Start, Stop;Stop
	s := lcNew(mode)
	e.check(!s.IsStarted(), "%s: IsStarted is true on a scheduler that was never started", mode)
	s.Stop()
	s.Stop()
	e.check(!s.IsStarted(), "%s: IsStarted is true after Stop before Start", mode)
	ret, _ := lcWait(s, 2*time.Second)
	e.check(ret, "%s: Wait on a never-started scheduler did not return within 2 s", mode)
	// Start;Start: one loop, one watcher
	j := &lcJob{name: "tick", release: make(chan struct{})}
	lcSchedule(s, j, 10*time.Millisecond)
	ctx, cancel := context.WithCancel(context.Background())
	defer cancel()
	s.Start(ctx)
	e.check(s.IsStarted(), "%s: IsStarted is false right after Start", mode)
	s.Start(ctx)
	s.Start(context.Background())
	e.check(s.IsStarted(), "%s: IsStarted is false after Start;Start", mode)
	loops := 0
	lcPoll(time.Second, func() bool {
		loops = poolFrames("quartz.(*StdScheduler).startExecutionLoop")
		return loops == 1
	})
	e.check(loops == 1, "%s: Start;Start;Start is not idempotent: %d execution loops are running", mode, loops)
	e.check(lcFires(j), "%s: a job with a 10 ms trigger did not fire within 2 s after Start", mode)
	s.Stop()
	e.check(!s.IsStarted(), "%s: IsStarted is true right after Stop", mode)
	s.Stop()
	e.check(!s.IsStarted(), "%s: IsStarted is true after Stop;Stop", mode)
	ret, took := lcWait(s, 5*time.Second)
	e.check(ret, "%s: Wait did not return within 5 s after Stop (no job running), took %v", mode, took)
	e.lcNoLeak(mode + " Start;Start;Stop;Stop")
	e.shapes["idempotence:"+mode] = true
	e.count("scenario", "idempotence")
}

// restart: Start;Stop;Start ×reps with no delay in between, and Start;cancel;Start ×reps.
func (e *lcEnv) restart(mode string, how string, reps int) {
	s := lcNew(mode)
	j := &lcJob{name: "tick", release: make(chan struct{})}
	lcSchedule(s, j, 10*time.Millisecond)
	bad, stoppedLater, noFire := 0, 0, 0
	var lastCancel context.CancelFunc = func() {}
	for i := 0; i < reps; i++ {
		ctx1, cancel1 := context.WithCancel(context.Background())
		s.Start(ctx1)
		if how == "stop" {
			s.Stop()
		} else {
			cancel1()
		}
		if s.IsStarted() {
			bad++
			e.violation("%s: IsStarted is true right after %s (iteration %d)", mode, how, i)
		}
		ctx2, cancel2 := context.WithCancel(context.Background())
		s.Start(ctx2) // immediately
		if !s.IsStarted() {
			bad++
			e.violation("%s: Start;%s;Start: IsStarted is false right after the second Start (iteration %d)", mode, how, i)
		}
		// let the stale watcher of the first run react; the scheduler must stay started
		stayed := true
		lcPoll(time.Millisecond, func() bool { stayed = stayed && s.IsStarted(); return !stayed })
		if i%25 == 0 {
			lcPoll(30*time.Millisecond, func() bool { stayed = stayed && s.IsStarted(); return !stayed })
		}
		if !stayed {
			stoppedLater++
			if stoppedLater <= 3 {
				e.violation("%s: Start;%s;Start ended stopped: IsStarted became false after the second Start although nothing stopped the new run (iteration %d)", mode, how, i)
			}
		}
		if i%50 == 0 || i == reps-1 {
			if !lcFires(j) {
				noFire++
				e.violation("%s: after Start;%s;Start a job with a 10 ms trigger did not fire within 2 s (iteration %d)", mode, how, i)
			}
		}
		e.evals += 3
		if bad+stoppedLater+noFire >= 6 { // broken beyond doubt: do not spend 2 s per remaining iteration
			cancel1()
			cancel2()
			break
		}
		cancel1()
		s.Stop()
		lastCancel = cancel2
		if i%50 == 49 { // drain: do not pile up thousands of exiting goroutines
			lcWait(s, 5*time.Second)
		}
		cancel2()
	}
	lastCancel()
	s.Stop()
	ret, took := lcWait(s, 5*time.Second)
	e.check(ret, "%s: Wait did not return within 5 s after %d restarts, took %v", mode, reps, took)
	e.check(j.inflight.Load() == 0, "%s: a job execution is in progress after Wait returned", mode)
	e.lcNoLeak(fmt.Sprintf("%s %d×(Start;%s;Start)", mode, reps, how))
	e.shapes["restart-"+how+":"+mode] = true
	e.count("scenario", "restart-"+how)
	e.count("restart_"+how, fmt.Sprintf("%s:ok=%v", mode, bad == 0 && stoppedLater == 0 && noFire == 0))
	e.samples = append(e.samples, map[string]any{"scenario": "restart-" + how, "mode": mode, "iterations": reps, "isStarted_wrong": bad,
		"stopped_by_stale_watcher": stoppedLater, "job_did_not_fire": noFire, "executions": j.execs.Load()})
}

// shutdown: running jobs see ctx.Done, Wait returns, nothing runs or starts afterwards, nothing leaks;
// the same through Stop and through cancellation, with identical observable state.
func (e *lcEnv) shutdown(mode string) {
	type obs struct {
		isStartedAfter bool
		sawDone        bool
		waitReturned   bool
		inflightAfter  int64
		startedLater   bool
		restarted      bool
	}
	var res [2]obs
	for k, how := range []string{"stop", "cancel"} {
		s := lcNew(mode)
		holder := &lcJob{name: "holder", honour: true, release: make(chan struct{})}
		holder.hold.Store(true)
		tick := &lcJob{name: "tick", release: make(chan struct{})}
		lcSchedule(s, holder, 20*time.Millisecond)
		lcSchedule(s, tick, 10*time.Millisecond)
		ctx, cancel := context.WithCancel(context.Background())
		s.Start(ctx)
		running := lcPoll(5*time.Second, func() bool { return holder.inflight.Load() > 0 })
		if !running {
			e.failures = append(e.failures, mode+": the holder job never started within 5 s")
		}
		if how == "stop" {
			s.Stop()
		} else {
			cancel()
		}
		o := &res[k]
		o.isStartedAfter = !lcPoll(time.Second, func() bool { return !s.IsStarted() })
		e.check(!o.isStartedAfter, "%s: IsStarted still true 1 s after %s", mode, how)
		o.sawDone = lcPoll(time.Second, func() bool { return holder.sawDone.Load() > 0 })
		e.check(o.sawDone || !running, "%s: a running job did not observe ctx.Done() within 1 s after %s", mode, how)
		// a second cancel / Stop is harmless
		cancel()
		s.Stop()
		e.check(!s.IsStarted(), "%s: IsStarted true after a repeated %s", mode, how)
		var took time.Duration
		o.waitReturned, took = lcWait(s, 2*time.Second)
		e.check(o.waitReturned, "%s: Wait did not return within 2 s after %s although all jobs honour their context (took %v)", mode, how, took)
		if o.waitReturned {
			o.inflightAfter = holder.inflight.Load() + tick.inflight.Load()
			e.check(o.inflightAfter == 0, "%s: %d job execution(s) in progress after Wait returned (%s)", mode, o.inflightAfter, how)
			c0 := holder.execs.Load() + tick.execs.Load()
			o.startedLater = lcPoll(100*time.Millisecond, func() bool { return holder.execs.Load()+tick.execs.Load() != c0 })
			e.check(!o.startedLater, "%s: a job execution started after Wait had returned (%s)", mode, how)
			e.lcNoLeak(mode + " " + how)
		}
		// and it can be started again
		holder.hold.Store(false)
		ctx2, cancel2 := context.WithCancel(context.Background())
		s.Start(ctx2)
		o.restarted = s.IsStarted() && lcFires(tick)
		e.check(o.restarted, "%s: after %s and Wait the scheduler could not be started again (IsStarted=%v)", mode, how, s.IsStarted())
		cancel2()
		s.Stop()
		lcWait(s, 5*time.Second)
		e.lcNoLeak(mode + " " + how + " restart")
	}
	e.check(res[0] == res[1], "%s: cancelling the context is not equivalent to Stop: observable state after Stop %+v, after cancel %+v", mode, res[0], res[1])
	e.shapes["shutdown:"+mode] = true
	e.count("scenario", "shutdown")
	e.samples = append(e.samples, map[string]any{"scenario": "shutdown", "mode": mode, "after_stop": fmt.Sprintf("%+v", res[0]), "after_cancel": fmt.Sprintf("%+v", res[1])})
}

// waitExpires: jobs hang (ignore ctx): Wait with an expiring ctx returns at its deadline, not before.
func (e *lcEnv) waitExpires(mode string) {
	s := lcNew(mode)
	hang := &lcJob{name: "hang", honour: false, release: make(chan struct{})}
	hang.hold.Store(true)
	lcSchedule(s, hang, 20*time.Millisecond)
	ctx, cancel := context.WithCancel(context.Background())
	defer cancel()
	s.Start(ctx)
	running := lcPoll(5*time.Second, func() bool { return hang.inflight.Load() > 0 })
	if !running {
		e.failures = append(e.failures, mode+": the hanging job never started within 5 s")
	}
	s.Stop()
	wctx, wc := context.WithTimeout(context.Background(), 150*time.Millisecond)
	t := time.Now()
	s.Wait(wctx)
	took := time.Since(t)
	expired := wctx.Err() != nil
	wc()
	e.check(took < 150*time.Millisecond+2*time.Second, "%s: Wait with a 150 ms context returned only after %v while a job hangs", mode, took)
	e.check(expired || hang.inflight.Load() == 0, "%s: Wait returned after %v, before its context expired, while a job execution was still in progress", mode, took)
	close(hang.release)
	ret, took2 := lcWait(s, 5*time.Second)
	e.check(ret, "%s: Wait did not return within 5 s after the hanging job was released (took %v)", mode, took2)
	e.check(hang.inflight.Load() == 0, "%s: a job execution is in progress after Wait returned", mode)
	e.lcNoLeak(mode + " hanging job released")
	e.shapes["wait-expires:"+mode] = true
	e.count("scenario", "wait-expires")
	e.samples = append(e.samples, map[string]any{"scenario": "wait-expires", "mode": mode, "wait_took_ms": took.Milliseconds(), "ctx_expired": expired})
}

// expiredWaits: Wait creates no goroutine: the number of goroutines of the process does not depend on how many
// Waits have expired on a running scheduler (100 vs 1000), and nothing is left after Stop; Wait.
func (e *lcEnv) expiredWaits(mode string) {
	s := lcNew(mode)
	tick := &lcJob{name: "tick", release: make(chan struct{})}
	lcSchedule(s, tick, 10*time.Millisecond)
	ctx, cancel := context.WithCancel(context.Background())
	defer cancel()
	s.Start(ctx)
	expired := func(n int) {
		for i := 0; i < n; i++ {
			var wctx context.Context
			var wc context.CancelFunc
			if i%10 == 0 {
				wctx, wc = context.WithTimeout(context.Background(), 50*time.Microsecond)
			} else {
				wctx, wc = context.WithDeadline(context.Background(), time.Now().Add(-time.Second))
			}
			s.Wait(wctx)
			wc()
		}
	}
	settle := func() int {
		n := runtime.NumGoroutine()
		for i := 0; i < 20; i++ { // the minimum over a short window: jobs of the unbounded mode come and go
			time.Sleep(500 * time.Microsecond)
			if m := runtime.NumGoroutine(); m < n {
				n = m
			}
		}
		return n
	}
	expired(100)
	g100 := settle()
	expired(900)
	g1000 := settle()
	e.check(g1000 <= g100+20, "%s: the number of goroutines grows with the number of expired Waits: %d after 100, %d after 1000 (Wait leaves a goroutine behind)", mode, g100, g1000)
	e.check(s.IsStarted(), "%s: IsStarted is false after 1000 expired Waits on a running scheduler", mode)
	e.check(lcFires(tick), "%s: after 1000 expired Waits a job with a 10 ms trigger does not fire within 2 s", mode)
	s.Stop()
	ret, took := lcWait(s, 5*time.Second)
	e.check(ret, "%s: Wait did not return within 5 s after 1000 expired Waits and Stop (took %v)", mode, took)
	e.lcNoLeak(mode + " 1000 expired Waits; Stop")
	e.shapes["expired-waits:"+mode] = true
	e.count("scenario", "expired-waits")
	e.samples = append(e.samples, map[string]any{"scenario": "expired-waits", "mode": mode, "goroutines_after_100": g100, "goroutines_after_1000": g1000})
}

// waitThenRestart runs `Start; Wait(expiring ctx)×64; Stop; Start; Stop; Wait` ×iters in a CHILD process: a runtime panic
// ("WaitGroup is reused before previous Wait has returned") kills the process and cannot be recovered in-process.
func (e *lcEnv) waitThenRestart(iters int) {
	cctx, cancel := context.WithTimeout(context.Background(), 120*time.Second)
	defer cancel()
	cmd := exec.CommandContext(cctx, selfExe(), "lifecycle-child", "--iters", fmt.Sprint(iters), "--waits", "64")
	var out bytes.Buffer
	cmd.Stdout, cmd.Stderr = &out, &out
	err := cmd.Run()
	text := out.String()
	tail := text
	if len(tail) > 700 {
		tail = tail[:400] + " … " + tail[len(tail)-250:]
	}
	tail = strings.Join(strings.Fields(tail), " ")
	e.evals++
	if err != nil {
		e.violation("process died during %d×(Start; Wait(expiring ctx)×64; Stop; Start; Stop; Wait) in the three modes: %v: %s", iters, err, tail)
	}
	for _, line := range strings.Split(text, "\n") {
		if strings.HasPrefix(line, "V ") {
			e.evals++
			e.violation("%s", strings.TrimPrefix(line, "V "))
		}
		if strings.HasPrefix(line, "checks ") {
			var n int
			fmt.Sscanf(line, "checks %d", &n)
			e.evals += n
		}
	}
	e.shapes["wait-then-restart"] = true
	e.count("scenario", "wait-then-restart")
	e.count("wait_then_restart_child", fmt.Sprintf("exit-ok=%v", err == nil))
}

func lifecycleChild(args []string) int {
	fs := flag.NewFlagSet("lifecycle-child", flag.ExitOnError)
	iters := fs.Int("iters", 50, "")
	waits := fs.Int("waits", 64, "")
	fs.Parse(args)
	checks := 0
	for _, mode := range lcModes {
		s := lcNew(mode)
		tick := &lcJob{name: "tick", release: make(chan struct{})}
		lcSchedule(s, tick, 5*time.Millisecond)
		for i := 0; i < *iters; i++ {
			s.Start(context.Background())
			for k := 0; k < *waits; k++ {
				wctx, wc := context.WithTimeout(context.Background(), 20*time.Microsecond)
				s.Wait(wctx)
				wc()
			}
			s.Stop()
			s.Start(context.Background())
			checks++
			if !s.IsStarted() {
				fmt.Printf("V %s: Start; Wait(expiring ctx)×%d; Stop; Start: IsStarted is false after the second Start (iteration %d)\n", mode, *waits, i)
			}
			if i%10 == 0 {
				checks++
				if !lcFires(tick) {
					fmt.Printf("V %s: Start; Wait(expiring ctx)×%d; Stop; Start: a job with a 5 ms trigger does not fire within 2 s (iteration %d)\n", mode, *waits, i)
				}
			}
			s.Stop()
			checks++
			if ret, took := lcWait(s, 5*time.Second); !ret {
				fmt.Printf("V %s: Start; Wait(expiring ctx)×%d; Stop; Start; Stop; Wait: the final Wait did not return within 5 s (took %v, iteration %d)\n", mode, *waits, took, i)
			}
		}
	}
	var left []string
	checks++
	if !lcPoll(5*time.Second, func() bool { left = lcQuartzGoroutines(); return len(left) == 0 }) {
		fmt.Printf("V goroutine leak: after %d×(Start; Wait(expiring ctx)×%d; Stop; Start; Stop; Wait) %d goroutine(s) of the scheduler are still alive: %v\n", *iters, *waits, len(left), left)
	}
	fmt.Printf("checks %d\n", checks)
	return 0
}

// ---- random call sequences against the call-order specification -------------------------------------------

func (e *lcEnv) randomScript(r *rand.Rand, mode string, length int) string {
	s := lcNew(mode)
	tick := &lcJob{name: "tick", release: make(chan struct{})}
	lcSchedule(s, tick, 5*time.Millisecond)
	var cancels []context.CancelFunc // cancels[g-1] cancels the context given to the g-th effective Start
	want := false
	var hist, shape []string
	for i := 0; i < length; i++ {
		op := []string{"start", "start", "stop", "cancel-cur", "cancel-old", "start-cancelled", "yield"}[r.Intn(7)]
		switch op {
		case "start":
			ctx, c := context.WithCancel(context.Background())
			s.Start(ctx)
			if !want {
				cancels = append(cancels, c)
			} else {
				c() // this Start was a no-op: its context is not the run's context
			}
			want = true
		case "start-cancelled": // Start with a context that is already cancelled = Start; cancel
			ctx, c := context.WithCancel(context.Background())
			c()
			s.Start(ctx)
			if !want {
				cancels = append(cancels, c)
				want = false
			}
			// (a no-op Start on a running scheduler leaves it running)
		case "stop":
			s.Stop()
			want = false
		case "cancel-cur":
			if len(cancels) == 0 {
				continue
			}
			cancels[len(cancels)-1]()
			want = false
		case "cancel-old":
			if len(cancels) < 2 {
				continue
			}
			cancels[r.Intn(len(cancels)-1)]()
		case "yield": // let watchers and loops of all generations run
			time.Sleep(time.Duration(r.Intn(3)) * time.Millisecond)
		}
		hist = append(hist, op)
		shape = append(shape, op)
		got := s.IsStarted()
		if !e.check(got == want, "%s: IsStarted = %v after %v, the most recent Start/Stop/cancellation requires %v", mode, got, hist, want) {
			break
		}
	}
	// settle: the answer must not change once all watchers have reacted
	time.Sleep(2 * time.Millisecond)
	got := s.IsStarted()
	e.check(got == want, "%s: IsStarted = %v some ms after %v (stale watchers have run), the most recent Start/Stop/cancellation requires %v", mode, got, hist, want)
	if want {
		e.check(lcFires(tick), "%s: the scheduler reports started after %v but a job with a 5 ms trigger does not fire within 2 s", mode, hist)
	}
	for _, c := range cancels {
		c()
	}
	s.Stop()
	ret, took := lcWait(s, 5*time.Second)
	e.check(ret, "%s: Wait did not return within 5 s after %v; Stop (took %v)", mode, hist, took)
	e.check(tick.inflight.Load() == 0, "%s: a job execution is in progress after Wait returned (%v)", mode, hist)
	return mode + ":" + strings.Join(shape, ",")
}

func lifecycleRun(args []string) int {
	fs := flag.NewFlagSet("lifecycle", flag.ExitOnError)
	seed := fs.Int64("seed", 1, "")
	n := fs.Int("n", 60, "random call sequences")
	reps := fs.Int("reps", 300, "iterations of Start;Stop;Start (Start;cancel;Start gets 2/3 of it)")
	maxLen := fs.Int("len", 14, "")
	childIters := fs.Int("child-iters", 50, "iterations of Start; Wait(expiring)×64; Stop; Start; Stop; Wait per mode in the child process")
	out := fs.String("out", "", "")
	fs.Parse(args)
	r := rand.New(rand.NewSource(*seed))
	e := &lcEnv{dist: map[string]map[string]int{}, shapes: map[string]bool{}}
	t0 := time.Now()
	for _, mode := range lcModes {
		e.idempotence(mode)
		e.restart(mode, "stop", *reps)
		e.restart(mode, "cancel", *reps*2/3)
		e.shutdown(mode)
		e.waitExpires(mode)
		e.expiredWaits(mode)
	}
	for i, mode := range lcModes {
		e.traffic(r, mode, 600)
		e.restartBuiltin(mode, []string{"stop", "cancel"}[i%2])
		e.restartBuiltin(mode, []string{"cancel", "stop"}[i%2])
		for k, op := range []string{"size", "head", "pop", "push", "all"} {
			e.outageShutdown(mode, op, []string{"stop", "cancel"}[(i+k)%2])
		}
		e.lcNoLeak("traffic, restart-builtin and outage-shutdown scenarios (" + mode + ")")
	}
	e.waitThenRestart(*childIters)
	seen := map[string]bool{}
	for k := 0; k < *n; k++ {
		mode := lcModes[r.Intn(len(lcModes))]
		sh := e.randomScript(r, mode, 3+r.Intn(*maxLen))
		if !seen[sh] {
			seen[sh] = true
		}
		e.count("scenario", "random-script")
		e.count("random_script_mode", mode)
		if k%20 == 19 {
			e.lcNoLeak("a batch of random call sequences")
		}
	}
	e.lcNoLeak("all scenarios")
	viol := e.viol
	if viol == nil {
		viol = []string{}
	}
	writeJSON(*out+"/stats.json", map[string]any{"seed": *seed, "evaluations": e.evals, "distinct_nontrivial": len(e.shapes) + len(seen),
		"distribution": e.dist, "violations": viol, "samples": e.samples, "harness_failures": e.failures, "wall_ms": time.Since(t0).Milliseconds()})
	fmt.Printf("lifecycle: %d checks, %d scripted scenario runs + %d random call sequences (%d distinct), %d property violations, %d harness failures, %d ms\n",
		e.evals, len(e.shapes), *n, len(seen), len(viol), len(e.failures), time.Since(t0).Milliseconds())
	if len(e.failures) > 0 {
		fmt.Println("lifecycle: harness failures:", e.failures)
		return 4
	}
	return 0
}
