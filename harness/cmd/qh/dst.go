package main

import (
	"flag"
	"fmt"
	"math/rand"
	"runtime"
	"sort"
	"strconv"
	"strings"
	"time"

	"verif/harness/internal/sup"
)

func init() { commands["dst"] = dstRun }

var dstCore = []string{"America/New_York", "Europe/Berlin", "Europe/London", "Europe/Dublin", "Australia/Lord_Howe", "Australia/Sydney",
	"Pacific/Chatham", "Asia/Kathmandu", "America/St_Johns", "Pacific/Apia", "Africa/Casablanca", "America/Sao_Paulo", "Asia/Tehran",
	"Antarctica/Troll", "America/Havana", "Asia/Gaza", "America/Santiago", "Pacific/Auckland", "Asia/Kolkata", "America/Caracas",
	"Pacific/Kiritimati", "America/Godthab", "Africa/Cairo", "Asia/Amman", "America/Asuncion", "Pacific/Fiji", "Europe/Moscow",
	"America/Scoresbysund", "Atlantic/Azores", "Pacific/Norfolk", "Pacific/Kwajalein", "America/Metlakatla"}

type tsp struct {
	sec, min, hour, dow []int // empty = any
}

func (s *tsp) match(t time.Time) bool {
	return in2(s.hour, t.Hour()) && in2(s.min, t.Minute()) && in2(s.sec, t.Second()) && in2(s.dow, int(t.Weekday()))
}

func in2(set []int, v int) bool {
	if len(set) == 0 {
		return true
	}
	for _, x := range set {
		if x == v {
			return true
		}
	}
	return false
}

func genSet(r *rand.Rand, n int) (string, []int) {
	switch r.Intn(5) {
	case 0:
		return "*", nil
	case 1, 2:
		v := r.Intn(n)
		return fmt.Sprint(v), []int{v}
	case 3:
		st := 1 + r.Intn(n/2)
		var vs []int
		for i := 0; i < n; i += st {
			vs = append(vs, i)
		}
		return fmt.Sprintf("*/%d", st), vs
	default:
		a, b := r.Intn(n), r.Intn(n)
		if a > b {
			a, b = b, a
		}
		var vs []int
		for i := a; i <= b; i++ {
			vs = append(vs, i)
		}
		return fmt.Sprintf("%d-%d", a, b), vs
	}
}

type zoneInfo struct {
	name  string
	loc   *time.Location
	base  int
	trans [][2]int64 // start, offset
}

func loadZone(name string) *zoneInfo {
	loc, err := time.LoadLocation(name)
	if err != nil {
		return nil
	}
	z := &zoneInfo{name: name, loc: loc}
	offAt := func(u int64) int {
		_, o := time.Unix(u, 0).In(loc).Zone()
		return o
	}
	start := time.Date(1960, 1, 1, 0, 0, 0, 0, time.UTC).Unix()
	stop := time.Date(2263, 1, 1, 0, 0, 0, 0, time.UTC).Unix()
	z.base = offAt(start)
	// Transitions are located by probing the offset every six hours and bisecting to the second. (Time.ZoneBounds cannot be
	// used throughout: from the hand-over of the tabulated transitions to the TZ rule on — 2037/2040 — it returns stale bounds.)
	const step = 6 * 3600
	prev := z.base
	for u := start; u < stop; u += step {
		o := offAt(u + step)
		if o == prev {
			continue
		}
		lo, hi := u, u+step // offAt(lo) == prev, offAt(hi) != prev
		for hi-lo > 1 {
			mid := lo + (hi-lo)/2
			if offAt(mid) == prev {
				lo = mid
			} else {
				hi = mid
			}
		}
		z.trans = append(z.trans, [2]int64{hi, int64(offAt(hi))})
		prev = offAt(hi)
		if prev != o { // a second change inside the same six hours: go on from the first one
			u = hi - step
		}
	}
	return z
}

func (z *zoneInfo) line() string {
	var b strings.Builder
	fmt.Fprintf(&b, "cron zone %s %d", z.name, z.base)
	for _, t := range z.trans {
		fmt.Fprintf(&b, " %d %d", t[0], t[1])
	}
	return b.String()
}

// repeated reports whether the wall-clock reading of instant u occurs at another instant too: for every other
// offset o2 in force within two days of u, the instant u + o1 - o2 would show the same reading if o2 is in force there.
func repeated(loc *time.Location, u int64) bool {
	_, o1 := time.Unix(u, 0).In(loc).Zone()
	offs := map[int]bool{}
	for d := int64(-2 * 86400); d <= 2*86400; d += 900 {
		_, o := time.Unix(u+d, 0).In(loc).Zone()
		offs[o] = true
	}
	for o2 := range offs {
		if o2 == o1 {
			continue
		}
		v := u + int64(o1) - int64(o2)
		if _, o := time.Unix(v, 0).In(loc).Zone(); o == o2 {
			return true
		}
	}
	return false
}

// firstMatch is the per-second wall-clock oracle: the least instant after prev whose local reading matches.
func firstMatch(loc *time.Location, sp *tsp, prev int64) int64 {
	horizon := int64(3 * 86400)
	if len(sp.dow) > 0 {
		horizon = 9 * 86400
	}
	for u := prev + 1; u < prev+horizon; u++ {
		if sp.match(time.Unix(u, 0).In(loc)) {
			return u
		}
	}
	return -1
}

func dstRun(args []string) int {
	fs := flag.NewFlagSet("dst", flag.ExitOnError)
	seed := fs.Int64("seed", 1, "")
	nz := fs.Int("zones", 24, "zones beyond the core set (0 = all)")
	perZone := fs.Int("per-zone", 10, "transitions sampled per zone")
	chain := fs.Int("chain", 5, "")
	dateSamples := fs.Int("date-samples", 40, "time.Date validations per sampled transition")
	out := fs.String("out", "", "")
	workers := fs.Int("workers", runtime.NumCPU(), "")
	fs.Parse(args)
	r := rand.New(rand.NewSource(*seed))
	names := append([]string{}, dstCore...)
	rest := append([]string{}, zoneNames...)
	r.Shuffle(len(rest), func(i, j int) { rest[i], rest[j] = rest[j], rest[i] })
	if *nz == 0 || *nz > len(rest) {
		*nz = len(rest)
	}
	names = append(names, rest[:*nz]...)
	seenZ := map[string]bool{}
	var zones []*zoneInfo
	for _, n := range names {
		if seenZ[n] {
			continue
		}
		seenZ[n] = true
		if z := loadZone(n); z != nil && len(z.trans) > 0 {
			zones = append(zones, z)
		}
	}
	sort.Slice(zones, func(i, j int) bool { return zones[i].name < zones[j].name })

	var ops, impl []string
	type ncase struct {
		idx   int
		z     *zoneInfo
		expr  string
		sp    tsp
		prev  int64 // seconds
		place string
		want  int64
	}
	var ncases []ncase
	var reqs []string
	dist := map[string]map[string]int{"place": {}, "outcome": {}, "kind": {}, "shift": {}}
	for _, z := range zones {
		ops = append(ops, z.line())
		impl = append(impl, "ok")
		for k := 0; k < *perZone; k++ {
			tr := z.trans[r.Intn(len(z.trans))]
			for tries := 0; tries < 6; tries++ { // prefer transitions that move the clock
				_, ob := time.Unix(tr[0]-1, 0).In(z.loc).Zone()
				if int64(ob) != tr[1] {
					break
				}
				tr = z.trans[r.Intn(len(z.trans))]
			}
			if time.Unix(tr[0], 0).Year() < 1971 || time.Unix(tr[0], 0).Year() > 2260 {
				continue
			}
			// validate the model of time.Date around this transition
			for j := 0; j < *dateSamples; j++ {
				_, offBefore := time.Unix(tr[0]-1, 0).In(z.loc).Zone()
				w := tr[0] + int64(offBefore) + int64(r.Intn(6*3600)-3*3600)
				wt := time.Unix(w, 0).UTC()
				got := time.Date(wt.Year(), wt.Month(), wt.Day(), wt.Hour(), wt.Minute(), wt.Second(), 0, z.loc)
				_, offW := time.Unix(w, 0).In(z.loc).Zone()
				ops = append(ops, fmt.Sprintf("cron date %s %d", z.name, w))
				impl = append(impl, fmt.Sprintf("%d %d", got.Unix(), offW))
				dist["kind"]["date"]++
			}
			_, o0 := time.Unix(tr[0]-1, 0).In(z.loc).Zone()
			dist["shift"][strconv.FormatInt(tr[1]-int64(o0), 10)]++
			// expressions around this transition
			var sp tsp
			var f [3]string
			f[0], sp.sec = genSet(r, 60)
			f[1], sp.min = genSet(r, 60)
			f[2], sp.hour = genSet(r, 24)
			if r.Intn(2) == 0 {
				f[0], sp.sec = "0", []int{0}
			}
			if r.Intn(3) == 0 { // the hour of the transition itself, which is where gaps and overlaps bite
				hh := time.Unix(tr[0]-1, 0).In(z.loc).Hour()
				hh = (hh + r.Intn(3) - 1 + 24) % 24
				f[2], sp.hour = fmt.Sprint(hh), []int{hh}
			}
			dowS := "?"
			if r.Intn(5) == 0 {
				d := r.Intn(7)
				dowS, sp.dow = fmt.Sprint(d+1), []int{d}
			}
			expr := fmt.Sprintf("%s %s %s * * %s", f[0], f[1], f[2], dowS)
			if dowS == "?" && r.Intn(2) == 0 {
				expr = fmt.Sprintf("%s %s %s ? * *", f[0], f[1], f[2])
			}
			var prev int64
			place := ""
			switch r.Intn(5) {
			case 0:
				prev, place = tr[0]-1-int64(r.Intn(3600)), "hour-before"
			case 1:
				prev, place = tr[0]+int64(r.Intn(3600)), "hour-after"
			case 2:
				prev, place = tr[0]-int64(r.Intn(36*3600)), "36h-before"
			case 3:
				prev, place = tr[0]+int64(r.Intn(4*3600))-7200, "around"
			default:
				prev, place = tr[0]-1, "last-second-before"
			}
			// a yearly schedule pinned to the transition's own calendar day and hour, approached from months earlier (the other
			// side of the previous transition): the search jumps straight to the gap / overlap day with a different offset at prev
			{
				lt := time.Unix(tr[0]-1, 0).In(z.loc)
				hh := (lt.Hour() + r.Intn(2)) % 24
				mm := r.Intn(60)
				fexpr := fmt.Sprintf("0 %d %d %d %d ?", mm, hh, lt.Day(), int(lt.Month()))
				fprev := tr[0] - int64(60+r.Intn(200))*86400
				if fprev > 0 {
					ncases = append(ncases, ncase{len(ops), z, fexpr, tsp{}, fprev, "far-before", -2})
					ops = append(ops, fmt.Sprintf("cron nextz %s %s %d", encRunes(fexpr), z.name, fprev*1e9))
					impl = append(impl, "")
					reqs = append(reqs, fmt.Sprintf("N %s %s %d", hexArg(fexpr), z.name, fprev*1e9))
					dist["place"]["far-before"]++
					dist["kind"]["nextz"]++
				}
			}
			// a ONE-SHOT schedule (with its year) for a reading inside a repeated interval, asked from inside the first pass after the
			// reading's first occurrence: its second occurrence is still in the future, so expiry must not be reported
			// ("never reports expiry while matching local times remain in the future")
			{
				_, offBefore := time.Unix(tr[0]-1, 0).In(z.loc).Zone()
				delta := int64(offBefore) - tr[1]
				if delta >= 600 && tr[0]-delta > 0 {
					a := int64(r.Intn(int(delta - 120)))
					b := 1 + int64(r.Intn(int(delta-a-1)))
					first := tr[0] - delta + a // first occurrence of the reading
					second := tr[0] + a        // second occurrence
					lt := time.Unix(second, 0).In(z.loc)
					if time.Unix(first, 0).In(z.loc).Format("15:04:05") == lt.Format("15:04:05") && first+b < tr[0] && lt.Year() <= 2200 {
						oexpr := fmt.Sprintf("%d %d %d %d %d ? %d", lt.Second(), lt.Minute(), lt.Hour(), lt.Day(), int(lt.Month()), lt.Year())
						ncases = append(ncases, ncase{len(ops), z, oexpr, tsp{}, first + b, "one-shot-in-first-pass", -3 - second})
						ops = append(ops, fmt.Sprintf("cron nextz %s %s %d", encRunes(oexpr), z.name, (first+b)*1e9))
						impl = append(impl, "")
						reqs = append(reqs, fmt.Sprintf("N %s %s %d", hexArg(oexpr), z.name, (first+b)*1e9))
						dist["place"]["one-shot-in-first-pass"]++
						dist["kind"]["nextz"]++
					}
				}
			}
			add := func(expr string, sp tsp, prev int64, place string, oracle bool) {
				want := int64(-2)
				if oracle {
					want = firstMatch(z.loc, &sp, prev)
				}
				ncases = append(ncases, ncase{len(ops), z, expr, sp, prev, place, want})
				ops = append(ops, fmt.Sprintf("cron nextz %s %s %d", encRunes(expr), z.name, prev*1e9))
				impl = append(impl, "")
				reqs = append(reqs, fmt.Sprintf("N %s %s %d", hexArg(expr), z.name, prev*1e9))
				dist["place"][place]++
				dist["kind"]["nextz"]++
			}
			// prev INSIDE THE SECOND PASS of a repeated interval (fourth mutation round): readings ahead of prev in that pass are shown for
			// the second time; whatever the size of the shift (30 min in Caracas 2007, 2 h in St John's 1988, 24 h at the date line), the
			// offset in force at prev resolves them. Several matches per hour and every second, chained.
			if _, offBefore := time.Unix(tr[0]-1, 0).In(z.loc).Zone(); int64(offBefore)-tr[1] >= 600 {
				delta := int64(offBefore) - tr[1]
				pv := tr[0] + int64(r.Intn(int(delta-60)))
				m := []int{1, 5, 10, 15}[r.Intn(4)]
				var mins []int
				for i := 0; i < 60; i += m {
					mins = append(mins, i)
				}
				sps := tsp{sec: []int{0}, min: mins}
				for c, q := 0, pv; c < 3 && q > 0; c++ {
					add(fmt.Sprintf("0 */%d * * * ?", m), sps, q, "second-pass", true)
					q = firstMatch(z.loc, &sps, q)
				}
				add("* * * * * ?", tsp{}, pv, "second-pass", true)
				add("30 * * * * ?", tsp{sec: []int{30}}, tr[0]+int64(r.Intn(int(delta-60))), "second-pass", true)
			}
			// expressions aimed at a spring-forward gap itself (second mutation round)
			if _, offBefore := time.Unix(tr[0]-1, 0).In(z.loc).Zone(); tr[1] > int64(offBefore) {
				gap := tr[1] - int64(offBefore)
				// (a) a reading INSIDE the gap, selected by its calendar day / its weekday (a gap of 24 h removes a whole day)
				w := time.Unix(tr[0]+int64(offBefore)+int64(r.Intn(int(gap))), 0).UTC() // the missing reading, as a UTC-labelled civil time
				before := tr[0] - 1 - int64(r.Intn(36*3600))
				add(fmt.Sprintf("%d %d %d %d %d ?", w.Second(), w.Minute(), w.Hour(), w.Day(), int(w.Month())), tsp{}, before, "gap-pinned-date", false)
				wd := int(w.Weekday())
				add(fmt.Sprintf("%d %d %d ? * %d", w.Second(), w.Minute(), w.Hour(), wd+1),
					tsp{sec: []int{w.Second()}, min: []int{w.Minute()}, hour: []int{w.Hour()}, dow: []int{wd}}, before, "gap-pinned-weekday", true)
				// the weekday of the transition day at noon (the calendar helpers must not depend on whether local midnight exists)
				add(fmt.Sprintf("0 30 12 ? * %d", wd+1), tsp{sec: []int{0}, min: []int{30}, hour: []int{12}, dow: []int{wd}}, before, "gap-day-weekday-noon", true)
				// (b) several matches per hour across a gap that need not end on the hour
				m := []int{5, 10, 15, 20}[r.Intn(4)]
				var mins []int
				for i := 0; i < 60; i += m {
					mins = append(mins, i)
				}
				pv := tr[0] - 1 - int64(r.Intn(3600))
				spb := tsp{sec: []int{0}, min: mins}
				for c := 0; c < 4 && pv > 0; c++ {
					add(fmt.Sprintf("0 */%d * * * ?", m), spb, pv, "gap-every-few-minutes", true)
					pv = firstMatch(z.loc, &spb, pv)
				}
				// (d) every second, from the last seconds before the gap: the search steps over every missing reading (3600 and more)
				if gap >= 1800 {
					add("* * * * * ?", tsp{}, tr[0]-1, "gap-every-second", true)
					add("* * * * * ?", tsp{}, tr[0]-2, "gap-every-second", true)
					hh := time.Unix(tr[0]+int64(offBefore), 0).UTC().Hour() // the first missing hour
					add(fmt.Sprintf("* * %d,%d * * ?", hh, (hh+int(gap/3600)+1)%24), tsp{hour: []int{hh, (hh + int(gap/3600) + 1) % 24}}, tr[0]-1-int64(r.Intn(7200)), "gap-every-second", true)
				}
				// (c) the last second of the gap and the first second after it both match
				spc := tsp{sec: []int{0, 59}}
				add("0,59 * * * * ?", spc, tr[0]-1-int64(r.Intn(3)), "gap-edge-seconds", true)
				spd := tsp{sec: []int{0, 59}, min: []int{0, 59}}
				add("59,0 59,0 * * * ?", spd, tr[0]-1-int64(r.Intn(3)), "gap-edge-seconds", true)
			}
			for c := 0; c < *chain; c++ {
				// oracle: least instant > prev whose reading matches, within 9 days
				want := firstMatch(z.loc, &sp, prev)
				ncases = append(ncases, ncase{len(ops), z, expr, sp, prev, place, want})
				ops = append(ops, fmt.Sprintf("cron nextz %s %s %d", encRunes(expr), z.name, prev*1e9))
				impl = append(impl, "")
				reqs = append(reqs, fmt.Sprintf("N %s %s %d", hexArg(expr), z.name, prev*1e9))
				dist["place"][place]++
				dist["kind"]["nextz"]++
				if want < 0 {
					break
				}
				prev, place = want, "chain"
			}
		}
	}
	// corpus of past failures (D9): evaluated on every run
	for _, fc := range []struct {
		zone, expr string
		sp         tsp
		prev       string
	}{
		{"America/New_York", "0 30 2 * * ?", tsp{sec: []int{0}, min: []int{30}, hour: []int{2}}, "2024-03-09T17:00:00Z"},
		{"America/New_York", "0 30 2 * * ?", tsp{sec: []int{0}, min: []int{30}, hour: []int{2}}, "2024-03-10T06:59:59Z"},
		{"America/New_York", "0 45 1 * * ?", tsp{sec: []int{0}, min: []int{45}, hour: []int{1}}, "2024-11-03T06:30:00Z"},
		{"America/New_York", "0 45 1 * * ?", tsp{sec: []int{0}, min: []int{45}, hour: []int{1}}, "2024-11-03T05:30:00Z"},
		{"Europe/London", "0 */15 1 * * ?", tsp{sec: []int{0}, min: []int{0, 15, 30, 45}, hour: []int{1}}, "2024-10-27T00:20:00Z"},
		{"Australia/Lord_Howe", "0 15 2 * * ?", tsp{sec: []int{0}, min: []int{15}, hour: []int{2}}, "2024-10-05T12:00:00Z"},
	} {
		for _, z := range zones {
			if z.name != fc.zone {
				continue
			}
			t, _ := time.Parse(time.RFC3339, fc.prev)
			sp := fc.sp
			ncases = append(ncases, ncase{len(ops), z, fc.expr, sp, t.Unix(), "corpus", firstMatch(z.loc, &sp, t.Unix())})
			ops = append(ops, fmt.Sprintf("cron nextz %s %s %d", encRunes(fc.expr), z.name, t.Unix()*1e9))
			impl = append(impl, "")
			reqs = append(reqs, fmt.Sprintf("N %s %s %d", hexArg(fc.expr), z.name, t.Unix()*1e9))
			dist["place"]["corpus"]++
		}
	}
	ans := sup.Map(*workers, 5*time.Second, []string{selfExe(), "cron-worker"}, reqs)
	viol := []string{}
	known := []string{} // instances of recorded findings (at most two are listed; they do not use up the violation list)
	knownExp := 0
	nontrivial := 0
	var samples []map[string]any
	for i, c := range ncases {
		impl[c.idx] = ans[i]
		f := strings.Fields(ans[i] + " ")
		kind := "?"
		if len(f) > 0 {
			kind = f[0]
		}
		dist["outcome"][kind]++
		flagV := func(msg string) {
			if len(viol) < 40 {
				viol = append(viol, fmt.Sprintf("C14 %s: zone=%s expr=%q prev=%s impl=%s", msg, c.z.name, c.expr, time.Unix(c.prev, 0).In(c.z.loc).Format(time.RFC3339), ans[i]))
			}
		}
		// does a transition lie within a day of [prev, want]?
		if c.want <= -3 { // one-shot reading in a repeated interval, asked from inside the first pass: the second occurrence remains
			second := -3 - c.want
			nontrivial++
			switch kind {
			case "ok":
				got, _ := strconv.ParseInt(f[1], 10, 64)
				if got != second*1e9 {
					flagV(fmt.Sprintf("a one-shot schedule asked from inside the first pass of its repeated hour did not answer the second occurrence (%d)", second))
				}
			case "expired":
				knownExp++
				if knownExp <= 2 {
					known = append(known, fmt.Sprintf("C14 KNOWN[overlap-first-pass-expiry] reported expiry although the second occurrence of the matching local time (%s) is still in the future: zone=%s expr=%q prev=%s",
						time.Unix(second, 0).In(c.z.loc).Format(time.RFC3339), c.z.name, c.expr, time.Unix(c.prev, 0).In(c.z.loc).Format(time.RFC3339)))
				}
			default:
				flagV("NextFireTime did not return normally")
			}
			continue
		}
		if c.want == -2 { // no per-second oracle for a yearly schedule: termination, sanity and (by the diff) the model decide
			switch kind {
			case "ok":
				got, _ := strconv.ParseInt(f[1], 10, 64)
				if got%1e9 != 0 || got/1e9 <= c.prev {
					flagV("result is not a whole second strictly after prev")
				}
				nontrivial++
			case "expired":
			case "hang", "crash", "panic", "impure":
				if len(viol) < 40 {
					viol = append(viol, fmt.Sprintf("C06 NextFireTime did not return normally (%s): zone=%s expr=%q prev=%s", ans[i], c.z.name, c.expr, time.Unix(c.prev, 0).In(c.z.loc).Format(time.RFC3339)))
				}
				flagV("NextFireTime did not return normally")
			default:
				flagV("unexpected answer")
			}
			continue
		}
		want := c.want
		near := false
		for _, t := range c.z.trans {
			if t[0] > c.prev-2*86400 && (want < 0 || t[0] < want+2*86400) && t[0] < c.prev+11*86400 {
				near = true
			}
		}
		if near {
			nontrivial++
		}
		switch kind {
		case "ok":
			got, _ := strconv.ParseInt(f[1], 10, 64)
			g := got / 1e9
			if got%1e9 != 0 || g <= c.prev {
				flagV("result is not a whole second strictly after prev")
				continue
			}
			if !c.sp.match(time.Unix(g, 0).In(c.z.loc)) {
				// latitude: the first instant after a gap that swallowed a matching local time
				_, oa := time.Unix(g, 0).In(c.z.loc).Zone()
				_, ob := time.Unix(g-1, 0).In(c.z.loc).Zone()
				if !(oa > ob) {
					flagV("fired at an instant whose local reading does not satisfy the expression")
					continue
				}
			}
			if want >= 0 && g != want {
				if g < want {
					flagV("oracle disagreement (earlier than the first match?)")
					continue
				}
				for u := c.prev + 1; u < g; u++ {
					if c.sp.match(time.Unix(u, 0).In(c.z.loc)) && !repeated(c.z.loc, u) {
						flagV(fmt.Sprintf("missed the matching local time %s", time.Unix(u, 0).In(c.z.loc).Format(time.RFC3339)))
						break
					}
				}
				if !near {
					flagV("away from any transition the result is not the earliest matching local time")
				}
			}
		case "expired":
			if want >= 0 {
				flagV("reported expiry although matching local times remain")
			}
		default:
			flagV("unexpected answer")
		}
		if len(samples) < 6 && near {
			samples = append(samples, map[string]any{"zone": c.z.name, "expr": c.expr, "prev": time.Unix(c.prev, 0).In(c.z.loc).Format(time.RFC3339), "impl": ans[i]})
		}
	}
	dist["outcome"]["one-shot-in-first-pass: expired (known finding)"] = knownExp
	viol = append(viol, known...)
	writeLines(*out+"/ops.txt", ops)
	writeLines(*out+"/impl.txt", impl)
	writeJSON(*out+"/stats.json", map[string]any{"seed": *seed, "evaluations": len(ops), "distinct_nontrivial": nontrivial, "zones": len(zones),
		"distribution": dist, "violations": viol, "samples": samples})
	fmt.Printf("dst: %d zones, %d ops (%d NextFireTime near transitions), %d property violations\n", len(zones), len(ops), nontrivial, len(viol))
	return 0
}
