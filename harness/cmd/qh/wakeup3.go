package main

// qh wakeup3 — C05 after a restart that overlaps the previous run.
//
// "On a running scheduler a job is dispatched promptly once its fire time arrives, no matter what the scheduler was waiting for when the
// job was scheduled, replaced or resumed" — a scheduler that was stopped and started again is a running scheduler. The scenarios of
// wakeup.go / wakeup2.go restart an IDLE scheduler and wait for the old run to end before they go on; here the execution loop of the
// previous run is still alive when the new one starts and ends LATER than the new one begins:
//
//	busy     blocking execution; a job that ignores its context (120..300 ms) is executing when the scheduler is restarted
//	         (Stop; Start  or  cancel of the run's context; Start). The harness waits until that job has RETURNED (so the permitted
//	         delay "a job executing in blocking mode" is over) plus 100 ms, then makes the call under test on the otherwise idle scheduler
//	idle     default execution; Stop; Start back to back on an idle scheduler (both loops runnable at the same time), 20 ms pause, the call
//
// x the new loop is parked on {empty queue, far-future head (1 h), paused head} x the call under test is {ScheduleJob of a new job due in
// 20 ms, ScheduleJob with Replace bringing a 1 h job forward, ResumeJob of a paused job whose trigger is due in 20 ms}.
// Verdict (one-sided): Execute of the target starts within wuLimit + wuWatch (2.3 s) of max(API return, fire time). No API call is made
// between the call under test and the verdict, so only the call's own wake-up can make the loop look at the queue.

import (
	"context"
	"flag"
	"fmt"
	"math/rand"
	"sync"
	"sync/atomic"
	"time"

	"github.com/reugn/go-quartz/quartz"
)

func init() { commands["wakeup3"] = wakeup3Run }

// w3Slow: does not watch its context
type w3Slow struct {
	d       time.Duration
	entered chan struct{}
	left    chan struct{}
	n       atomic.Int32
}

func (j *w3Slow) Execute(context.Context) error {
	if j.n.Add(1) == 1 {
		close(j.entered)
		time.Sleep(j.d)
		close(j.left)
	}
	return nil
}
func (j *w3Slow) Description() string { return "slow, ignores its context" }

type w3Case struct {
	ID      int
	Kind    string // busy | idle
	Restart string // stop-start | cancel-start
	Park    string // empty | far | paused
	Call    string // schedule | replace | resume
	SlowMs  int
}

func (c w3Case) String() string {
	if c.Kind == "busy" {
		return fmt.Sprintf("#%d blocking execution, %s while a %d ms job that ignores its context is executing; after that job has returned (+100 ms) and with the new loop parked on %s: call=%s, due in 20 ms",
			c.ID, c.Restart, c.SlowMs, c.Park, c.Call)
	}
	return fmt.Sprintf("#%d idle scheduler, %s back to back, 20 ms later and with the new loop parked on %s: call=%s, due in 20 ms", c.ID, c.Restart, c.Park, c.Call)
}

type w3Result struct {
	Scenario  string  `json:"scenario"`
	Outcome   string  `json:"outcome"` // ok | never | setup
	LatencyMs float64 `json:"latency_ms"`
	Detail    string  `json:"detail,omitempty"`
}

func w3Run(c w3Case) (res w3Result) {
	res = w3Result{Scenario: c.String(), Outcome: "setup", LatencyMs: -1}
	opts := []quartz.SchedulerOpt{quartz.WithOutdatedThreshold(10 * time.Second)}
	if c.Kind == "busy" {
		opts = append(opts, quartz.WithBlockingExecution())
	}
	s, err := quartz.NewStdScheduler(opts...)
	if err != nil {
		res.Detail = err.Error()
		return res
	}
	ctx1, cancel1 := context.WithCancel(context.Background())
	ctx2, cancel2 := context.WithCancel(context.Background())
	defer func() {
		s.Stop()
		cancel1()
		cancel2()
		wctx, wc := context.WithTimeout(context.Background(), 3*time.Second)
		s.Wait(wctx)
		wc()
	}()
	target := &wuJob{}
	key := quartz.NewJobKey("target")
	paused := func(k *quartz.JobKey) *quartz.JobDetail {
		o := quartz.NewDefaultJobDetailOptions()
		o.Suspended = true
		return quartz.NewJobDetailWithOptions(&wuJob{}, k, o)
	}
	trig := &wuOnce{delay: 20 * time.Millisecond}
	// what the new loop will be parked on
	switch c.Park {
	case "far":
		if err := s.ScheduleJob(quartz.NewJobDetail(&wuJob{}, quartz.NewJobKey("far")), quartz.NewSimpleTrigger(time.Hour)); err != nil {
			res.Detail = err.Error()
			return res
		}
	case "paused":
		if err := s.ScheduleJob(paused(quartz.NewJobKey("parked")), quartz.NewSimpleTrigger(10*time.Millisecond)); err != nil {
			res.Detail = err.Error()
			return res
		}
	}
	switch c.Call {
	case "replace":
		if err := s.ScheduleJob(quartz.NewJobDetail(target, key), quartz.NewSimpleTrigger(time.Hour)); err != nil {
			res.Detail = err.Error()
			return res
		}
	case "resume":
		o := quartz.NewDefaultJobDetailOptions()
		o.Suspended = true
		if err := s.ScheduleJob(quartz.NewJobDetailWithOptions(target, key, o), trig); err != nil {
			res.Detail = err.Error()
			return res
		}
		trig.fire.Store(0) // the fire time that counts is the one ResumeJob computes
	}
	s.Start(ctx1)
	restart := func() {
		if c.Restart == "cancel-start" {
			cancel1()
		} else {
			s.Stop()
		}
		s.Start(ctx2)
	}
	if c.Kind == "busy" {
		slow := &w3Slow{d: time.Duration(c.SlowMs) * time.Millisecond, entered: make(chan struct{}), left: make(chan struct{})}
		if err := s.ScheduleJob(quartz.NewJobDetail(slow, quartz.NewJobKey("slow")), &wuOnce{delay: 5 * time.Millisecond}); err != nil {
			res.Detail = err.Error()
			return res
		}
		select {
		case <-slow.entered:
		case <-time.After(5 * time.Second):
			res.Detail = "the slow job was not dispatched"
			return res
		}
		restart() // the loop of the first run is inside Execute
		select {
		case <-slow.left:
		case <-time.After(5 * time.Second):
			res.Detail = "the slow job did not return"
			return res
		}
		time.Sleep(100 * time.Millisecond) // nothing is executing any more; the loop of the first run has seen its context and left
	} else {
		time.Sleep(5 * time.Millisecond)
		restart()
		time.Sleep(20 * time.Millisecond)
	}
	if !s.IsStarted() {
		res.Detail = "IsStarted() is false after the restart"
		return res
	}
	// the call under test
	switch c.Call {
	case "schedule":
		err = s.ScheduleJob(quartz.NewJobDetail(target, key), trig)
	case "replace":
		o := quartz.NewDefaultJobDetailOptions()
		o.Replace = true
		err = s.ScheduleJob(quartz.NewJobDetailWithOptions(target, key, o), trig)
	case "resume":
		err = s.ResumeJob(key)
	}
	if err != nil {
		res.Detail = "the call under test failed: " + err.Error()
		return res
	}
	ref := time.Now().UnixNano()
	if f := trig.fire.Load(); f > ref {
		ref = f
	}
	for target.started.Load() == 0 && time.Now().UnixNano() < ref+int64(wuLimit+wuWatch) {
		time.Sleep(250 * time.Microsecond)
	}
	st := target.started.Load()
	if st == 0 {
		res.Outcome = "never"
		res.Detail = fmt.Sprintf("Execute had not started %v after max(API return, fire time) although IsStarted() is true, nothing is executing and no pool is full", wuLimit+wuWatch)
		return res
	}
	res.Outcome = "ok"
	if lat := time.Duration(st - ref); lat > 0 {
		res.LatencyMs = float64(lat.Microseconds()) / 1000
	} else {
		res.LatencyMs = 0
	}
	return res
}

func wakeup3Run(args []string) int {
	fs := flag.NewFlagSet("wakeup3", flag.ExitOnError)
	seed := fs.Int64("seed", 1, "")
	n := fs.Int("n", 1, "rounds of the 30-scenario matrix")
	par := fs.Int("par", 8, "schedulers side by side")
	out := fs.String("out", "", "")
	fs.Parse(args)
	r := rand.New(rand.NewSource(*seed))
	t0 := time.Now()
	var cases []w3Case
	for round := 0; round < *n; round++ {
		for _, park := range []string{"empty", "far", "paused"} {
			for _, call := range []string{"schedule", "replace", "resume"} {
				for _, rs := range []string{"stop-start", "cancel-start"} {
					cases = append(cases, w3Case{Kind: "busy", Restart: rs, Park: park, Call: call, SlowMs: 120 + r.Intn(181)})
				}
				cases = append(cases, w3Case{Kind: "idle", Restart: "stop-start", Park: park, Call: call})
			}
		}
		cases = append(cases, w3Case{Kind: "idle", Restart: "cancel-start", Park: "empty", Call: "schedule"},
			w3Case{Kind: "idle", Restart: "cancel-start", Park: "far", Call: "replace"}, w3Case{Kind: "idle", Restart: "cancel-start", Park: "paused", Call: "resume"})
	}
	for i := range cases {
		cases[i].ID = i
	}
	results := make([]w3Result, len(cases))
	var wg sync.WaitGroup
	sem := make(chan struct{}, *par)
	for i := range cases {
		wg.Add(1)
		sem <- struct{}{}
		go func(i int) {
			defer wg.Done()
			defer func() { <-sem }()
			results[i] = w3Run(cases[i])
		}(i)
	}
	wg.Wait()
	viol := []string{}
	dist := map[string]map[string]int{"restart": {}, "park": {}, "call": {}, "outcome": {}, "latency": {}}
	distinct := map[string]bool{}
	setup := 0
	maxLat := 0.0
	for i, res := range results {
		c := cases[i]
		dist["outcome"][res.Outcome]++
		switch res.Outcome {
		case "setup":
			setup++
			continue
		case "never":
			if len(viol) < 10 {
				viol = append(viol, fmt.Sprintf("C05 lost wake-up after a restart that overlaps the previous run: %s (%s)", res.Detail, c))
			}
		}
		dist["restart"][c.Kind+"/"+c.Restart]++
		dist["park"][c.Park]++
		dist["call"][c.Call]++
		distinct[c.Kind+"/"+c.Restart+"/"+c.Park+"/"+c.Call] = true
		switch {
		case res.LatencyMs < 0:
		case res.LatencyMs <= 20:
			dist["latency"]["<=20ms"]++
		case res.LatencyMs <= 300:
			dist["latency"]["<=300ms"]++
		default:
			dist["latency"][">300ms (within the 2.3 s deadline)"]++
		}
		if res.LatencyMs > maxLat {
			maxLat = res.LatencyMs
		}
	}
	if setup > len(results)/4 {
		first := ""
		for _, res := range results {
			if res.Outcome == "setup" {
				first = res.Scenario + ": " + res.Detail
				break
			}
		}
		viol = append(viol, fmt.Sprintf("C05 harness could not set up %d of %d restart scenarios (first: %s)", setup, len(results), first))
	}
	samples := []w3Result{}
	for i := 0; i < len(results) && len(samples) < 4; i += len(results)/4 + 1 {
		samples = append(samples, results[i])
	}
	// BlockingExecution together with WorkerLimit (round 5): no pool exists, a due job is dispatched promptly
	viol = append(viol, bothOptions("C05")...)
	distinct["both-options"] = true
	writeJSON(*out+"/stats.json", map[string]any{"seed": *seed, "evaluations": len(results) - setup, "distinct_nontrivial": len(distinct),
		"distribution": dist, "violations": viol, "samples": samples, "setup_failures": setup, "max_latency_ms": maxLat,
		"deadline_ms": (wuLimit + wuWatch).Milliseconds(), "wall_s": time.Since(t0).Seconds()})
	fmt.Printf("wakeup3: %d restart-overlap scenarios (%d distinct cells) in %.1fs, max latency %.2f ms, %d setup failures, %d violations\n",
		len(results), len(distinct), time.Since(t0).Seconds(), maxLat, setup, len(viol))
	return 0
}
