package main

// qh pool5 — C12, default mode: an execution that is WAITING FOR ITS RETRY is a long-running execution like any other.
//
// "with neither option a long-running job never delays the dispatch of other due jobs or of its own next fire time". The scenarios
// of pool.go / pool2.go make an execution long by not returning from Execute. The other way an execution of the default mode lasts
// long is the retry sequence: Execute returned an error, MaxRetries > 0, and the goroutine of that execution sits in the retry wait
// for RetryInterval — much longer than the interval of the job's trigger. The job's own next fire times (and every other job) must be
// dispatched during that wait exactly as if the first execution were still inside Execute.
//
//	flaky     SimpleTrigger(50 ms), MaxRetries 1 / 2, RetryInterval 1 s; which executions fail: only the first | every one |
//	          every third. A sibling job (SimpleTrigger 50 ms, never fails, no retries) runs next to it.
//	window    from the moment the first failing Execute RETURNED to 900 ms later. A timer never fires early, so no retry attempt can
//	          fall into the window: every Execute entered in it is the dispatch of one of the job's own next fire times (about 18).
//	verdict   at least 3 executions of the flaky job and at least 3 of the sibling are entered in the window (one-sided, 1/6 of what
//	          an idle machine shows). Fewer: the scenario is run once more, alone, and is a violation only if it fails again.
//
// Public API only; neither BlockingExecution nor WorkerLimit.

import (
	"context"
	"errors"
	"flag"
	"fmt"
	"sort"
	"sync"
	"time"

	"github.com/reugn/go-quartz/quartz"
)

func init() { commands["pool5"] = pool5Run }

type p5Case struct {
	MaxRetries int
	Fails      string // first | all | third
	Trigger    string // simple | custom
}

func (c p5Case) String() string {
	return fmt.Sprintf("default mode (no BlockingExecution, no WorkerLimit); job with %s 50 ms trigger, MaxRetries=%d, RetryInterval=1s, failing executions: %s; sibling job every 50 ms",
		c.Trigger, c.MaxRetries, c.Fails)
}

type p5Job struct {
	mu        sync.Mutex
	calls     int
	starts    []time.Time
	firstFail time.Time // return of the first failing call
	fails     string
}

var errP5 = errors.New("pool5: scripted failure")

func (j *p5Job) Execute(context.Context) error {
	now := time.Now()
	j.mu.Lock()
	j.calls++
	k := j.calls
	j.starts = append(j.starts, now)
	j.mu.Unlock()
	fail := false
	switch j.fails {
	case "first":
		fail = k == 1
	case "all":
		fail = true
	case "third":
		fail = k%3 == 1
	}
	if !fail {
		return nil
	}
	j.mu.Lock()
	if j.firstFail.IsZero() {
		j.firstFail = time.Now()
	}
	j.mu.Unlock()
	return errP5
}
func (j *p5Job) Description() string { return "pool5-flaky" }

type p5Every struct{ d time.Duration }

func (t p5Every) NextFireTime(prev int64) (int64, error) { return prev + int64(t.d), nil }
func (t p5Every) Description() string                    { return "p5Every" }

type p5Result struct {
	Case     string  `json:"case"`
	Reached  bool    `json:"reached"`
	OwnInWin int     `json:"own_executions_entered_in_window"`
	SibInWin int     `json:"sibling_executions_entered_in_window"`
	OwnTotal int     `json:"own_calls_total"`
	StartsMs []int64 `json:"own_starts_ms_after_first_failure"`
	Rerun    bool    `json:"rerun"`
	viol     []string
}

const (
	p5Interval = time.Second
	p5Window   = 900 * time.Millisecond
	p5Need     = 3
)

func p5Run(c p5Case) (res p5Result) {
	res.Case = c.String()
	s, err := quartz.NewStdScheduler(quartz.WithOutdatedThreshold(time.Minute))
	must(err)
	ctx, cancel := context.WithCancel(context.Background())
	defer func() {
		s.Stop()
		cancel()
		wctx, wc := context.WithTimeout(context.Background(), 3*time.Second)
		s.Wait(wctx)
		wc()
	}()
	s.Start(ctx)
	flaky := &p5Job{fails: c.Fails}
	sib := &p5Job{fails: "none"}
	jo := quartz.NewDefaultJobDetailOptions()
	jo.MaxRetries, jo.RetryInterval = c.MaxRetries, p5Interval
	var trig quartz.Trigger = quartz.NewSimpleTrigger(50 * time.Millisecond)
	if c.Trigger == "custom" {
		trig = p5Every{50 * time.Millisecond}
	}
	must(s.ScheduleJob(quartz.NewJobDetailWithOptions(flaky, quartz.NewJobKeyWithGroup("flaky", "p5"), jo), trig))
	must(s.ScheduleJob(quartz.NewJobDetail(sib, quartz.NewJobKey("sibling")), quartz.NewSimpleTrigger(50*time.Millisecond)))
	// wait for the first failure (deadline 5 s), then for the window
	dl := time.Now().Add(5 * time.Second)
	var t0 time.Time
	for time.Now().Before(dl) {
		flaky.mu.Lock()
		t0 = flaky.firstFail
		flaky.mu.Unlock()
		if !t0.IsZero() {
			break
		}
		time.Sleep(time.Millisecond)
	}
	if t0.IsZero() {
		res.viol = append(res.viol, fmt.Sprintf("C12 the job's first execution did not take place within 5 s of ScheduleJob on an idle scheduler [%s]", res.Case))
		return res
	}
	res.Reached = true
	time.Sleep(time.Until(t0.Add(p5Window)) + 20*time.Millisecond)
	count := func(j *p5Job) (in int, total int, ms []int64) {
		j.mu.Lock()
		defer j.mu.Unlock()
		for _, st := range j.starts {
			if st.After(t0) && st.Before(t0.Add(p5Window)) {
				in++
				ms = append(ms, st.Sub(t0).Milliseconds())
			}
		}
		return in, len(j.starts), ms
	}
	res.OwnInWin, res.OwnTotal, res.StartsMs = count(flaky)
	res.SibInWin, _, _ = count(sib)
	if res.OwnInWin < p5Need {
		res.viol = append(res.viol, fmt.Sprintf("C12 an execution waiting for its retry delays the job's own next fire times: in the %v after the first execution returned its error (RetryInterval %v, so no retry attempt falls into that time) only %d execution(s) of the job were started (at %v ms), its 50 ms trigger has about %d fire times there and the sibling job was started %d times [%s]",
			p5Window, p5Interval, res.OwnInWin, res.StartsMs, int(p5Window/(50*time.Millisecond)), res.SibInWin, res.Case))
	}
	if res.SibInWin < p5Need {
		res.viol = append(res.viol, fmt.Sprintf("C12 an execution waiting for its retry delays another due job: in the %v after the flaky job's first execution returned its error the sibling job (every 50 ms) was started only %d time(s) [%s]",
			p5Window, res.SibInWin, res.Case))
	}
	return res
}

func pool5Run(args []string) int {
	fs := flag.NewFlagSet("pool5", flag.ExitOnError)
	seed := fs.Int64("seed", 1, "")
	n := fs.Int("n", 1, "rounds")
	out := fs.String("out", "", "")
	fs.Parse(args)
	t0 := time.Now()
	var cases []p5Case
	for round := 0; round < *n; round++ {
		for _, fails := range []string{"first", "all", "third"} {
			for _, mr := range []int{1, 2} {
				cases = append(cases, p5Case{MaxRetries: mr, Fails: fails, Trigger: []string{"simple", "custom"}[(mr+round)%2]})
			}
		}
	}
	results := make([]p5Result, len(cases))
	var wg sync.WaitGroup
	for i := range cases {
		wg.Add(1)
		go func(i int) {
			defer wg.Done()
			results[i] = p5Run(cases[i])
		}(i)
	}
	wg.Wait()
	// second opinion, alone
	reruns := 0
	for i := range results {
		if len(results[i].viol) > 0 {
			reruns++
			again := p5Run(cases[i])
			again.Rerun = true
			if len(again.viol) == 0 {
				results[i] = again
			} else {
				results[i].Rerun = true
			}
		}
	}
	viol := []string{}
	dist := map[string]map[string]int{"failing executions": {}, "MaxRetries": {}, "own executions entered in the window": {}, "reached": {}}
	distinct := map[string]bool{}
	evals := 0
	samples := []any{}
	for i, res := range results {
		c := cases[i]
		evals += res.OwnTotal + res.SibInWin
		dist["failing executions"][c.Fails]++
		dist["MaxRetries"][fmt.Sprint(c.MaxRetries)]++
		b := "0..2"
		switch {
		case res.OwnInWin >= 12:
			b = ">=12"
		case res.OwnInWin >= 3:
			b = "3..11"
		}
		dist["own executions entered in the window"][b]++
		if res.Reached {
			dist["reached"]["yes"]++
			distinct[fmt.Sprintf("%s/%d/%s", c.Fails, c.MaxRetries, c.Trigger)] = true
		} else {
			dist["reached"]["no"]++
		}
		viol = append(viol, res.viol...)
		if len(samples) < 4 {
			samples = append(samples, res)
		}
	}
	sort.Strings(viol)
	writeJSON(*out+"/stats.json", map[string]any{"seed": *seed, "evaluations": evals, "scenarios": len(cases), "distinct_nontrivial": len(distinct),
		"distribution": dist, "violations": viol, "samples": samples, "reruns": reruns, "wall_s": time.Since(t0).Seconds()})
	fmt.Printf("pool5: %d retry-wait scenarios in %.1fs, %d executions observed, %d re-run, %d property violations\n",
		len(cases), time.Since(t0).Seconds(), evals, reruns, len(viol))
	return 0
}
