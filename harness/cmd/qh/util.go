package main

import (
	"bufio"
	"encoding/json"
	"fmt"
	"os"
	"path/filepath"
	"strconv"
	"strings"
)

// encRunes renders a Go string as the code points Go itself iterates over
// (invalid bytes become U+FFFD), "-" for the empty string.
func encRunes(s string) string {
	rs := []rune(s)
	if len(rs) == 0 {
		return "-"
	}
	var b strings.Builder
	for i, r := range rs {
		if i > 0 {
			b.WriteByte(',')
		}
		b.WriteString(strconv.Itoa(int(r)))
	}
	return b.String()
}

func hexOf(s string) string { return fmt.Sprintf("%x", s) }

func unhex(h string) string {
	if h == "-" {
		return ""
	}
	b := make([]byte, len(h)/2)
	for i := range b {
		v, _ := strconv.ParseUint(h[2*i:2*i+2], 16, 8)
		b[i] = byte(v)
	}
	return string(b)
}

func hexArg(s string) string {
	if s == "" {
		return "-"
	}
	return hexOf(s)
}

func writeLines(path string, lines []string) {
	must(os.MkdirAll(filepath.Dir(path), 0o755))
	f, err := os.Create(path)
	must(err)
	w := bufio.NewWriterSize(f, 1<<20)
	for _, l := range lines {
		w.WriteString(l)
		w.WriteByte('\n')
	}
	must(w.Flush())
	must(f.Close())
}

func writeJSON(path string, v any) {
	must(os.MkdirAll(filepath.Dir(path), 0o755))
	b, err := json.MarshalIndent(v, "", " ")
	must(err)
	must(os.WriteFile(path, b, 0o644))
}

func must(err error) {
	if err != nil {
		fmt.Fprintln(os.Stderr, "qh:", err)
		os.Exit(3)
	}
}

func selfExe() string {
	p, err := os.Executable()
	must(err)
	return p
}

func mustJSON(v any) string {
	b, err := json.Marshal(v)
	must(err)
	return string(b)
}
