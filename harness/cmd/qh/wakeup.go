package main

import (
	"context"
	"errors"
	"flag"
	"fmt"
	"math/rand"
	"sort"
	"sync"
	"sync/atomic"
	"time"

	"github.com/reugn/go-quartz/quartz"
)

// qh wakeup — C05 scenario matrix on the real scheduler (public API only).
//
//	park       what the execution loop is waiting for when the call arrives:
//	           empty queue | far-future head (1 h) | paused head | inside a 100 ms job in blocking mode |
//	           blocked on a full worker pool (WorkerLimit 1, the worker busy for 100 ms) | "vanishing": a due job that
//	           was deleted between the loop's Head() and its tick, so that the tick finds an honestly empty queue
//	           (RetryInterval is 2 s in every scenario: a back-off started by that empty Pop would hold the job back) |
//	           "ended": a job whose custom trigger ends with an error of its own (NOT quartz.ErrTriggerExpired; the
//	           Trigger interface only says "error") has just fired for the last time: the queue is healthy, so the
//	           loop must not be in its failure back-off (2 s) when the call under test arrives
//	end error  the one-shot triggers of the auxiliary jobs (blocker, pool filler, vanishing job) and of the job under
//	           test end with ErrTriggerExpired | an error of their own | ErrTriggerExpired wrapped | their own wrapped
//	call       ScheduleJob of a new due-soon job | ScheduleJob with Replace bringing an existing job forward |
//	           ResumeJob of a paused job whose trigger is due soon
//	stall      the loop's next Size() / Head() call (made by the loop only) reads the queue and then sleeps
//	           20–40 ms; the call under test is issued while the loop is inside that call, i.e. inside the window
//	           between reading the queue and blocking in select | the queue mutation of the call under test itself
//	           sleeps 5–15 ms before it takes effect (a token sent before the mutation would be used up) | none
//	interleave concurrently with the call, other jobs are deleted / paused, or the queue is cleared just before it
//
// Verdict per scenario: the job's Execute starts within 300 ms of max(API return, its fire time, end of the
// blocking job / the worker becoming free). A job that has not started after 300 ms is watched for another
// 2 s: "never" is a violation at once (a lost wake-up leaves the loop asleep for an hour or for ever); "late"
// is re-run alone up to three times and is a violation only if it is late again (machine load must not alarm).

func init() { commands["wakeup"] = wakeupRun }

type wuStallQ struct {
	quartz.JobQueue
	stallSize, stallHead atomic.Int64 // ns the next call sleeps after reading
	stallMut             atomic.Int64 // ns the next Remove/Push sleeps before it takes effect
	inSize, inHead       chan struct{}
	lastCall             atomic.Int64
	pops                 atomic.Int64
}

func (q *wuStallQ) Size() (int, error) {
	n, err := q.JobQueue.Size()
	q.lastCall.Store(time.Now().UnixNano())
	if d := q.stallSize.Swap(0); d > 0 {
		select {
		case q.inSize <- struct{}{}:
		default:
		}
		time.Sleep(time.Duration(d))
	}
	return n, err
}

func (q *wuStallQ) Head() (quartz.ScheduledJob, error) {
	j, err := q.JobQueue.Head()
	q.lastCall.Store(time.Now().UnixNano())
	if d := q.stallHead.Swap(0); d > 0 {
		select {
		case q.inHead <- struct{}{}:
		default:
		}
		time.Sleep(time.Duration(d))
	}
	return j, err
}

func (q *wuStallQ) Push(j quartz.ScheduledJob) error {
	if d := q.stallMut.Swap(0); d > 0 {
		time.Sleep(time.Duration(d))
	}
	return q.JobQueue.Push(j)
}

func (q *wuStallQ) Remove(k *quartz.JobKey) (quartz.ScheduledJob, error) {
	if d := q.stallMut.Swap(0); d > 0 {
		time.Sleep(time.Duration(d))
	}
	return q.JobQueue.Remove(k)
}

func (q *wuStallQ) Pop() (quartz.ScheduledJob, error) {
	j, err := q.JobQueue.Pop()
	q.lastCall.Store(time.Now().UnixNano())
	q.pops.Add(1)
	return j, err
}

// wuJob records when Execute first started; optionally blocks for a while.
type wuJob struct {
	started atomic.Int64
	ended   atomic.Int64
	block   time.Duration
	sig     chan struct{}
}

func (j *wuJob) Execute(ctx context.Context) error {
	if j.started.CompareAndSwap(0, time.Now().UnixNano()) && j.sig != nil {
		close(j.sig)
	}
	if j.block > 0 {
		t := time.NewTimer(j.block)
		select {
		case <-t.C:
		case <-ctx.Done():
			t.Stop()
		}
	}
	j.ended.CompareAndSwap(0, time.Now().UnixNano())
	return nil
}
func (j *wuJob) Description() string { return "wakeup" }

// wuOnce fires once, delay after the time it is asked, and records that fire time. Afterwards it answers with
// endErr (nil: quartz.ErrTriggerExpired): the Trigger interface does not prescribe which error ends a schedule.
type wuOnce struct {
	delay  time.Duration
	fire   atomic.Int64
	endErr error
}

// errWuDone is a trigger's own way of saying "no further fire time" (deliberately not quartz.ErrTriggerExpired).
var errWuDone = errors.New("wakeup harness: schedule of this trigger is complete")

func wuEndErr(kind string) error {
	switch kind {
	case "own":
		return errWuDone
	case "own-wrapped":
		return fmt.Errorf("no more fire times: %w", errWuDone)
	case "expired-wrapped":
		return fmt.Errorf("no more fire times: %w", quartz.ErrTriggerExpired)
	}
	return nil
}

func (t *wuOnce) NextFireTime(prev int64) (int64, error) {
	v := prev + int64(t.delay)
	if !t.fire.CompareAndSwap(0, v) {
		if t.endErr != nil {
			return 0, t.endErr
		}
		return 0, quartz.ErrTriggerExpired
	}
	return v, nil
}
func (t *wuOnce) Description() string { return "once" }

type wuScenario struct {
	Park, Call, Stall, Inter string
	EndErr                   string // how the one-shot triggers of the scenario end: expired | own | own-wrapped | expired-wrapped
	Delay, StallFor          time.Duration
	InterFirst               bool // the interleaver starts slightly before the call
	ID                       int
}

func (sc wuScenario) String() string {
	return fmt.Sprintf("#%d park=%s call=%s stall=%s(%v) interleave=%s due-in=%v trigger-end-error=%s", sc.ID, sc.Park, sc.Call, sc.Stall, sc.StallFor, sc.Inter, sc.Delay, sc.EndErr)
}

type wuResult struct {
	Scenario  string  `json:"scenario"`
	Outcome   string  `json:"outcome"` // ok | late | never | setup
	LatencyMs float64 `json:"latency_ms"`
	StallHit  bool    `json:"stall_hit"`
	Detail    string  `json:"detail,omitempty"`
}

const (
	wuLimit = 300 * time.Millisecond
	wuWatch = 2 * time.Second
)

func wuRunScenario(sc wuScenario) (res wuResult) {
	res.Scenario = sc.String()
	defer func() {
		if r := recover(); r != nil {
			res.Outcome, res.Detail = "setup", fmt.Sprint("panic in harness: ", r)
		}
	}()
	q := &wuStallQ{JobQueue: quartz.NewJobQueue(), inSize: make(chan struct{}, 1), inHead: make(chan struct{}, 1)}
	// RetryInterval far above the latency limit: a back-off that is started without a queue failure (C15) shows up here
	opts := []quartz.SchedulerOpt{quartz.WithQueue(q, &sync.Mutex{}), quartz.WithOutdatedThreshold(10 * time.Second),
		quartz.WithRetryInterval(2 * time.Second)}
	switch sc.Park {
	case "blocking":
		opts = append(opts, quartz.WithBlockingExecution())
	case "pool":
		opts = append(opts, quartz.WithWorkerLimit(1))
	}
	s, err := quartz.NewStdScheduler(opts...)
	if err != nil {
		return wuResult{Scenario: res.Scenario, Outcome: "setup", Detail: err.Error()}
	}
	ctx, cancel := context.WithCancel(context.Background())
	s.Start(ctx)
	defer func() {
		s.Stop()
		cancel()
		wctx, wc := context.WithTimeout(context.Background(), 3*time.Second)
		s.Wait(wctx)
		wc()
	}()
	fail := func(what string, err error) wuResult {
		return wuResult{Scenario: res.Scenario, Outcome: "setup", Detail: fmt.Sprintf("%s: %v", what, err)}
	}
	hour := quartz.NewSimpleTrigger(time.Hour)
	suspended := func() *quartz.JobDetailOptions {
		o := quartz.NewDefaultJobDetailOptions()
		o.Suspended = true
		return o
	}
	// what the loop is parked on
	prescheduled := false
	switch sc.Park {
	case "far":
		if err := s.ScheduleJob(quartz.NewJobDetail(&wuJob{}, quartz.NewJobKey("far")), hour); err != nil {
			return fail("schedule far", err)
		}
		prescheduled = true
	case "paused":
		if err := s.ScheduleJob(quartz.NewJobDetailWithOptions(&wuJob{}, quartz.NewJobKey("paused-head"), suspended()), hour); err != nil {
			return fail("schedule paused head", err)
		}
	case "blocking", "pool":
		prescheduled = true
	}
	others := []*quartz.JobKey{quartz.NewJobKey("other1"), quartz.NewJobKey("other2")}
	scheduleOthers := func() {
		for i, k := range others {
			_ = s.ScheduleJob(quartz.NewJobDetail(&wuJob{}, k), quartz.NewSimpleTrigger(time.Duration(2+i)*time.Hour))
		}
	}
	if prescheduled && sc.Inter != "none" {
		scheduleOthers()
	}
	// the job under test and its pre-state
	target := &wuJob{}
	key := quartz.NewJobKey("target")
	trig := &wuOnce{delay: sc.Delay, endErr: wuEndErr(sc.EndErr)}
	switch sc.Call {
	case "resume":
		if err := s.ScheduleJob(quartz.NewJobDetailWithOptions(target, key, suspended()), trig); err != nil {
			return fail("schedule paused target", err)
		}
	case "replace":
		if err := s.ScheduleJob(quartz.NewJobDetail(target, key), hour); err != nil {
			return fail("schedule target to be replaced", err)
		}
	}
	settle := func() { // let the loop settle in its select
		dl := time.Now().Add(300 * time.Millisecond)
		for time.Now().Before(dl) {
			if lc := q.lastCall.Load(); lc != 0 && time.Since(time.Unix(0, lc)) > 3*time.Millisecond {
				break
			}
			time.Sleep(500 * time.Microsecond)
		}
	}
	if sc.Park == "vanishing" {
		// a job that is due at once is read by the loop (its Head() call sleeps after reading), deleted while the loop is
		// inside that call, and the timer armed for it has expired when the loop reaches its select: the loop either
		// takes the token of the DeleteJob or ticks and finds nothing (or only the job under test's pre-state) to pop.
		// Either way it must end up parked as if the job had never been there — in particular without a back-off.
		settle()
		q.stallHead.Store(int64(25 * time.Millisecond))
		gone := quartz.NewJobKey("vanishing")
		if err := s.ScheduleJob(quartz.NewJobDetail(&wuJob{}, gone), &wuOnce{delay: 2 * time.Millisecond, endErr: wuEndErr(sc.EndErr)}); err != nil {
			return fail("schedule vanishing job", err)
		}
		select {
		case <-q.inHead:
		case <-time.After(200 * time.Millisecond):
		}
		if sc.ID%2 == 0 {
			_ = s.DeleteJob(gone) // sends a token: the loop takes it or ticks, whichever select picks
		} else {
			// taken away behind the scheduler's back, as another node sharing the queue would: no token, the loop
			// ticks for a job that is no longer there
			_, _ = q.JobQueue.Remove(gone)
		}
		time.Sleep(32 * time.Millisecond)
		q.stallHead.Store(0)
		select {
		case <-q.inHead:
		default:
		}
	}
	if sc.Park == "ended" {
		// a job whose trigger has one fire time and then ends with its own error fires (for the last time) and leaves
		// the queue: nothing has failed, the loop goes back to waiting for the head / for a queue change
		ender := &wuJob{sig: make(chan struct{})}
		if err := s.ScheduleJob(quartz.NewJobDetail(ender, quartz.NewJobKey("ender")), &wuOnce{delay: 2 * time.Millisecond, endErr: wuEndErr(sc.EndErr)}); err != nil {
			return fail("schedule ender", err)
		}
		select {
		case <-ender.sig:
		case <-time.After(3 * time.Second):
			return fail("ender", fmt.Errorf("did not start within 3 s"))
		}
	}
	// busy loop: a 100 ms job in blocking mode / on the only worker (+ a second due job that finds the pool full)
	var blocker *wuJob
	if sc.Park == "blocking" || sc.Park == "pool" {
		blocker = &wuJob{block: 100 * time.Millisecond, sig: make(chan struct{})}
		if err := s.ScheduleJob(quartz.NewJobDetail(blocker, quartz.NewJobKey("blocker")), &wuOnce{delay: 2 * time.Millisecond, endErr: wuEndErr(sc.EndErr)}); err != nil {
			return fail("schedule blocker", err)
		}
		select {
		case <-blocker.sig:
		case <-time.After(3 * time.Second):
			return fail("blocker", fmt.Errorf("did not start within 3 s"))
		}
		if sc.Park == "pool" {
			pops := q.pops.Load()
			if err := s.ScheduleJob(quartz.NewJobDetail(&wuJob{}, quartz.NewJobKey("filler")), &wuOnce{delay: time.Millisecond, endErr: wuEndErr(sc.EndErr)}); err != nil {
				return fail("schedule filler", err)
			}
			// the loop has popped the filler and now waits for the busy worker
			dl := time.Now().Add(80 * time.Millisecond)
			for q.pops.Load() == pops && time.Now().Before(dl) {
				time.Sleep(200 * time.Microsecond)
			}
			time.Sleep(time.Millisecond)
		}
	} else {
		settle()
	}
	// open the re-arm window
	if sc.Stall == "mutation" {
		res.StallHit = true
	} else if sc.Stall != "none" {
		var in chan struct{}
		if sc.Stall == "size" {
			q.stallSize.Store(int64(sc.StallFor))
			in = q.inSize
		} else {
			q.stallHead.Store(int64(sc.StallFor))
			in = q.inHead
		}
		wait := 150 * time.Millisecond
		if blocker == nil {
			s.(*quartz.StdScheduler).Reset() // wake the parked loop; it runs into the stalled call
		} else {
			wait = 400 * time.Millisecond // the loop gets there by itself once the blocking job / the worker is done
		}
		select {
		case <-in:
			res.StallHit = true
		case <-time.After(wait):
			// Head() is not called on an empty queue: the scenario degenerates to "no stall"
			q.stallSize.Store(0)
			q.stallHead.Store(0)
		}
	}
	// interleaved changes to other jobs
	var iwg sync.WaitGroup
	interleave := func() {
		defer iwg.Done()
		if !prescheduled {
			scheduleOthers()
		}
		for _, k := range others {
			switch sc.Inter {
			case "delete":
				_ = s.DeleteJob(k)
			case "pause":
				_ = s.PauseJob(k)
			}
		}
		if sc.Inter == "delete" && sc.Park == "far" {
			_ = s.DeleteJob(quartz.NewJobKey("far")) // the head the loop is waiting for goes away, too
		}
	}
	switch sc.Inter {
	case "delete", "pause":
		iwg.Add(1)
		go interleave()
		if sc.InterFirst {
			time.Sleep(300 * time.Microsecond)
		}
	case "clear":
		// Clear() would remove the job under test as well, so it comes immediately before the call
		if !prescheduled {
			scheduleOthers()
		}
		if err := s.Clear(); err != nil {
			return fail("clear", err)
		}
	}
	// the call under test
	if sc.Stall == "mutation" {
		q.stallMut.Store(int64(sc.StallFor) / 3)
	}
	switch sc.Call {
	case "schedule":
		err = s.ScheduleJob(quartz.NewJobDetail(target, key), trig)
	case "replace":
		o := quartz.NewDefaultJobDetailOptions()
		o.Replace = true
		err = s.ScheduleJob(quartz.NewJobDetailWithOptions(target, key, o), trig)
	case "resume":
		err = s.ResumeJob(key)
	}
	ret := time.Now().UnixNano()
	q.stallMut.Store(0)
	if err != nil {
		iwg.Wait()
		return fail("call under test", err)
	}
	fire := trig.fire.Load()
	// watch
	ref := func() int64 {
		r := ret
		if fire > r {
			r = fire
		}
		if blocker != nil {
			e := blocker.ended.Load()
			if e == 0 {
				e = time.Now().UnixNano() // still running: the permitted delay has not ended yet
			}
			if e > r {
				r = e
			}
		}
		return r
	}
	for target.started.Load() == 0 && time.Now().UnixNano() < ref()+int64(wuLimit+wuWatch) {
		time.Sleep(250 * time.Microsecond)
	}
	iwg.Wait()
	st := target.started.Load()
	switch {
	case st == 0:
		res.Outcome = "never"
		res.LatencyMs = -1
		n, _ := q.JobQueue.Size()
		res.Detail = fmt.Sprintf("Execute had not started %v after max(API return, fire time, end of the permitted delay); %d job(s) in the queue", wuLimit+wuWatch, n)
	default:
		lat := time.Duration(st - ref())
		if lat < 0 {
			lat = 0
		}
		res.LatencyMs = float64(lat.Microseconds()) / 1000
		if lat > wuLimit {
			res.Outcome = "late"
			res.Detail = fmt.Sprintf("Execute started %v after max(API return, fire time, end of the permitted delay)", lat)
		} else {
			res.Outcome = "ok"
		}
	}
	return res
}

func wakeupRun(args []string) int {
	fs := flag.NewFlagSet("wakeup", flag.ExitOnError)
	seed := fs.Int64("seed", 1, "")
	n := fs.Int("n", 672, "number of scenarios (the matrix has 336 cells)")
	par := fs.Int("par", 12, "schedulers running in parallel")
	out := fs.String("out", "", "")
	fs.Parse(args)
	r := rand.New(rand.NewSource(*seed))

	var cells []wuScenario
	for _, park := range []string{"empty", "far", "paused", "blocking", "pool", "vanishing", "ended"} {
		for _, call := range []string{"schedule", "replace", "resume"} {
			for _, stall := range []string{"none", "size", "head", "mutation"} {
				for _, inter := range []string{"none", "delete", "pause", "clear"} {
					if inter == "clear" && call != "schedule" {
						inter = "delete+pause-first" // Clear() would remove the job to be replaced / resumed
					}
					cells = append(cells, wuScenario{Park: park, Call: call, Stall: stall, Inter: inter})
				}
			}
		}
	}
	var scs []wuScenario
	for i := 0; i < *n; i++ {
		sc := cells[i%len(cells)]
		sc.ID = i
		sc.Delay = time.Duration(3+r.Intn(8)) * time.Millisecond
		sc.StallFor = time.Duration(20+r.Intn(21)) * time.Millisecond
		sc.InterFirst = r.Intn(2) == 0
		sc.EndErr = []string{"expired", "own", "own-wrapped", "expired-wrapped"}[(i/len(cells)+i%len(cells))%4]
		if sc.Park == "ended" { // the park class is about a trigger's own error
			sc.EndErr = []string{"own", "own-wrapped"}[(i/len(cells)+i%len(cells))%2]
		}
		if sc.Inter == "delete+pause-first" {
			sc.Inter = []string{"delete", "pause"}[r.Intn(2)]
			sc.InterFirst = true
		}
		scs = append(scs, sc)
	}
	order := r.Perm(len(scs)) // mix the long (blocking) and the short scenarios

	t0 := time.Now()
	results := make([]wuResult, len(scs))
	var wg sync.WaitGroup
	work := make(chan int)
	for w := 0; w < *par; w++ {
		wg.Add(1)
		go func() {
			defer wg.Done()
			for i := range work {
				results[i] = wuRunScenario(scs[i])
			}
		}()
	}
	for _, i := range order {
		work <- i
	}
	close(work)
	wg.Wait()

	// second opinion for late scenarios, alone on the machine
	viol := []string{}
	dist := map[string]map[string]int{"park": {}, "call": {}, "stall": {}, "interleave": {}, "outcome": {}, "latency": {}, "trigger_end_error": {}}
	reruns, confirmed := 0, 0
	for i := range results {
		res := &results[i]
		if res.Outcome == "late" && confirmed >= 8 {
			// eight scenarios have been confirmed late by a run alone already: the verdict of the run is settled, the
			// remaining late ones are listed without a second opinion of their own (each re-run costs seconds)
			res.Outcome = "late-not-rerun"
			continue
		}
		if res.Outcome == "late" {
			again := 0
			for k := 0; k < 3; k++ {
				reruns++
				rr := wuRunScenario(scs[i])
				if rr.Outcome == "late" || rr.Outcome == "never" {
					again++
					res.Detail += fmt.Sprintf("; re-run alone: %s (%s)", rr.Outcome, rr.Detail)
					break
				}
			}
			if again == 0 {
				res.Outcome = "late-under-load"
			} else {
				confirmed++
			}
		}
	}
	setupFailures := 0
	var lats []float64
	distinct := map[string]bool{}
	for i, res := range results {
		sc := scs[i]
		dist["park"][sc.Park]++
		dist["call"][sc.Call]++
		st := sc.Stall
		if st != "none" && !res.StallHit {
			st += "-not-reached"
		}
		dist["stall"][st]++
		dist["interleave"][sc.Inter]++
		dist["trigger_end_error"][sc.EndErr]++
		dist["outcome"][res.Outcome]++
		switch res.Outcome {
		case "never", "late":
			if len(viol) < 40 {
				viol = append(viol, fmt.Sprintf("C05 lost or late wake-up: %s: %s", sc.String(), res.Detail))
			}
		case "setup":
			setupFailures++
		}
		if res.Outcome != "setup" {
			distinct[sc.Park+"/"+sc.Call+"/"+st+"/"+sc.Inter] = true
		}
		if res.LatencyMs >= 0 && res.Outcome != "setup" {
			lats = append(lats, res.LatencyMs)
			switch {
			case res.LatencyMs <= 5:
				dist["latency"]["<=5ms"]++
			case res.LatencyMs <= 20:
				dist["latency"]["<=20ms"]++
			case res.LatencyMs <= 100:
				dist["latency"]["<=100ms"]++
			case res.LatencyMs <= 300:
				dist["latency"]["<=300ms"]++
			default:
				dist["latency"][">300ms"]++
			}
		}
	}
	// the call overlaps Start
	duringStart := 0
	for k := 0; k < 4; k++ {
		for _, call := range []string{"schedule", "resume"} {
			for _, restart := range []bool{false, true} {
				v, ok := wuDuringStart(call, restart, time.Duration(3+r.Intn(8))*time.Millisecond)
				if !ok {
					setupFailures++
					continue
				}
				duringStart++
				dist["park"]["starting"]++
				distinct["starting/"+call+"/"+fmt.Sprint(restart)] = true
				if v != "" && len(viol) < 40 {
					viol = append(viol, v)
				}
			}
		}
	}
	// an interval beyond the largest representable time beside a short one: no starvation, no spin
	neverBeside := 0
	for k := 0; k < 2; k++ {
		for _, neverFirst := range []bool{true, false} {
			v, ok := wuNeverBeside(neverFirst)
			if !ok {
				setupFailures++
				continue
			}
			neverBeside++
			dist["park"]["never-beside"]++
			distinct["never-beside/"+fmt.Sprint(neverFirst)] = true
			if v != "" && len(viol) < 40 {
				viol = append(viol, v)
			}
		}
	}
	if setupFailures > len(results)/10 {
		viol = append(viol, fmt.Sprintf("C05 harness could not set up %d of %d scenarios (first: %s)", setupFailures, len(results), wuFirstSetup(results)))
	}
	sort.Float64s(lats)
	pct := func(p float64) float64 {
		if len(lats) == 0 {
			return -1
		}
		return lats[int(p*float64(len(lats)-1))]
	}
	samples := []wuResult{}
	for i := 0; i < len(results) && len(samples) < 8; i += len(results)/8 + 1 {
		samples = append(samples, results[i])
	}
	writeJSON(*out+"/stats.json", map[string]any{"seed": *seed, "evaluations": len(results) + duringStart + neverBeside, "distinct_nontrivial": len(distinct),
		"distribution": dist, "violations": viol, "samples": samples, "during_start_scenarios": duringStart, "never_beside_scenarios": neverBeside, "latency_ms": map[string]float64{"p50": pct(0.5), "p99": pct(0.99), "max": pct(1)},
		"reruns": reruns, "setup_failures": setupFailures, "wall_s": time.Since(t0).Seconds(), "limit_ms": wuLimit.Milliseconds()})
	fmt.Printf("wakeup: %d scenarios (%d distinct cells) in %.1fs, latency p50 %.2f ms p99 %.2f ms max %.2f ms, %d setup failures, %d violations\n",
		len(results), len(distinct), time.Since(t0).Seconds(), pct(0.5), pct(0.99), pct(1), setupFailures, len(viol))
	return 0
}

func wuFirstSetup(rs []wuResult) string {
	for _, r := range rs {
		if r.Outcome == "setup" {
			return r.Scenario + ": " + r.Detail
		}
	}
	return ""
}
