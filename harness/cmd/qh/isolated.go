package main

// qh isolated — C17: a job wrapped by job.NewIsolatedJob never has two executions of the underlying job
// overlapping; an overlapping call fails fast with an error without invoking the job; the gate reopens
// after every completion (nil, error, panic).
//
// Concurrency property: there is no exact differential run against the Lean model (no ops.txt); the
// harness judges the property itself on the real code and writes stats.json only. Phases:
//   storm      many goroutines hammer Execute; the underlying job counts executions in flight
//   quiescent  after each storm, with nothing running, one call must be admitted
//   sequential one goroutine, every call must be admitted whatever the previous one did
//   handshake  an execution is held inside the delegate: every call meanwhile must be refused with an error
//              and must not reach the delegate; once it has finished (nil/error/panic) the next is admitted
//   lingering  an execution is held; an overlapping call is made from its own goroutine and NOT waited for (the underlying job's
//              Description() blocks once if the wrapper happens to call it); the execution finishes: the next call must be admitted
//              whether or not the overlapping call has returned yet
//   scheduler  the wrapped job on a real scheduler (unbounded mode) with an interval shorter than its duration

import (
	"context"
	"errors"
	"flag"
	"fmt"
	"math/rand"
	"runtime"
	"sync"
	"sync/atomic"
	"time"

	"github.com/reugn/go-quartz/job"
	"github.com/reugn/go-quartz/quartz"
)

func init() { commands["isolated"] = isolatedRun }

var errUnderlying = errors.New("underlying job failed")

type isoPanic struct{ inv int64 }

type isoRecKey struct{}

// isoRec travels in the context of one call: the delegate marks that it ran and what it did.
type isoRec struct {
	ran bool
	out byte
}

type isoPlan struct {
	out  byte // o e p
	kind byte // 0 return at once, 1 yield, 2 spin, 3 sleep
	dur  time.Duration
}

// isoUnder is the underlying job: it counts executions in flight.
type isoUnder struct {
	plan     []isoPlan
	inflight atomic.Int32
	maxSeen  atomic.Int32
	overlaps atomic.Int64
	inv      atomic.Int64
	byOut    [3]atomic.Int64
	hold     atomic.Pointer[isoHold] // handshake phase: block inside the delegate
	fixed    atomic.Pointer[isoPlan] // scheduler phase: fixed behaviour
}

type isoHold struct {
	entered chan struct{}
	release chan byte
}

func (u *isoUnder) Description() string { return "in-flight counter" }

func (u *isoUnder) Execute(ctx context.Context) error {
	n := u.inflight.Add(1)
	for {
		m := u.maxSeen.Load()
		if n <= m || u.maxSeen.CompareAndSwap(m, n) {
			break
		}
	}
	if n > 1 {
		u.overlaps.Add(1)
	}
	// the decrement runs before the wrapper's deferred Store(false): a later admission never sees this one
	defer u.inflight.Add(-1)
	k := u.inv.Add(1)
	rec, _ := ctx.Value(isoRecKey{}).(*isoRec)
	if rec != nil {
		rec.ran = true
	}
	p := u.plan[int(k)%len(u.plan)]
	if f := u.fixed.Load(); f != nil {
		p = *f
	}
	if h := u.hold.Load(); h != nil {
		h.entered <- struct{}{}
		p = isoPlan{out: <-h.release}
	}
	switch p.kind {
	case 1:
		runtime.Gosched()
	case 2:
		for t0 := time.Now(); time.Since(t0) < p.dur; {
		}
	case 3:
		time.Sleep(p.dur)
	}
	if rec != nil {
		rec.out = p.out
	}
	switch p.out {
	case 'e':
		u.byOut[1].Add(1)
		return errUnderlying
	case 'p':
		u.byOut[2].Add(1)
		panic(isoPanic{k})
	}
	u.byOut[0].Add(1)
	return nil
}

// isoSlowDesc is an underlying job whose Description() can be armed to block ONCE on a channel (a description that formats
// something slow, takes a lock, asks a remote registry …). Execute is isoUnder's.
type isoSlowDesc struct {
	*isoUnder
	armed       atomic.Bool
	descEntered chan struct{} // capacity 1
	descRelease chan struct{} // closed to let the blocked Description go
	descCalls   atomic.Int64
}

func (d *isoSlowDesc) Description() string {
	d.descCalls.Add(1)
	if d.armed.CompareAndSwap(true, false) {
		select {
		case d.descEntered <- struct{}{}:
		default:
		}
		select {
		case <-d.descRelease:
		case <-time.After(30 * time.Second):
		}
	}
	return "job with a slow description"
}

// isoCall makes one call and classifies it: "o" "e" "p" = the delegate ran and this is what came back,
// "r" = refused with an error, anything else is a violation description.
func isoCall(j quartz.Job) (string, *isoRec) { return isoCallCtx(j, context.Background()) }

// isoCallCtx: the same with a parent context of the caller's choice (already ended, or ended while the execution runs)
func isoCallCtx(j quartz.Job, parent context.Context) (string, *isoRec) {
	rec := &isoRec{}
	ctx := context.WithValue(parent, isoRecKey{}, rec)
	var err error
	var pan any
	func() {
		defer func() { pan = recover() }()
		err = j.Execute(ctx)
	}()
	if !rec.ran {
		switch {
		case pan != nil:
			return fmt.Sprintf("a call that did not reach the underlying job panicked: %v", pan), rec
		case err == nil:
			return "a call that did not run the underlying job returned nil instead of an error", rec
		case errors.Is(err, errUnderlying):
			return "a call that did not run the underlying job returned the underlying job's error", rec
		}
		return "r", rec
	}
	switch rec.out {
	case 'o':
		if err != nil || pan != nil {
			return fmt.Sprintf("the underlying job returned nil but the call gave err=%v panic=%v", err, pan), rec
		}
	case 'e':
		if !errors.Is(err, errUnderlying) || pan != nil {
			return fmt.Sprintf("the underlying job returned its error but the call gave err=%v panic=%v", err, pan), rec
		}
	case 'p':
		if _, ok := pan.(isoPanic); !ok {
			return fmt.Sprintf("the underlying job panicked but the call gave err=%v panic=%v", err, pan), rec
		}
	}
	return string(rec.out), rec
}

func isolatedRun(args []string) int {
	fs := flag.NewFlagSet("isolated", flag.ExitOnError)
	seed := fs.Int64("seed", 1, "")
	n := fs.Int("n", 2500, "calls per goroutine and storm")
	out := fs.String("out", "", "")
	gor := fs.Int("goroutines", 32, "")
	rounds := fs.Int("rounds", 8, "storms (each followed by a quiescent probe)")
	seqN := fs.Int("seq", 3000, "calls of the sequential phase")
	hsN := fs.Int("handshake", 300, "held executions of the handshake phase")
	schedMs := fs.Int("schedms", 1200, "upper bound of the scheduler phase in ms")
	fs.Parse(args)
	r := rand.New(rand.NewSource(*seed))

	viol := []string{}
	var vmu sync.Mutex
	flagV := func(format string, a ...any) {
		vmu.Lock()
		if len(viol) < 40 {
			viol = append(viol, "C17 "+fmt.Sprintf(format, a...))
		}
		vmu.Unlock()
	}
	dist := map[string]map[string]int{"storm": {}, "quiescent_probe": {}, "sequential": {}, "handshake": {}, "scheduler": {}}
	samples := []any{}

	u := &isoUnder{}
	for i := 0; i < 4096; i++ {
		p := isoPlan{out: "oooooeep"[r.Intn(8)], kind: byte(r.Intn(4))}
		switch p.kind {
		case 2:
			p.dur = time.Duration(r.Intn(30)) * time.Microsecond
		case 3:
			p.dur = time.Duration(r.Intn(150)) * time.Microsecond
		}
		u.plan = append(u.plan, p)
	}
	j := job.NewIsolatedJob(u)
	evaluations := 0
	contended := 0

	// ---- storms + quiescent probes
	for round := 0; round < *rounds; round++ {
		var wg sync.WaitGroup
		counts := make([]map[string]int, *gor)
		inv0 := u.inv.Load()
		for g := 0; g < *gor; g++ {
			counts[g] = map[string]int{}
			wg.Add(1)
			go func(g int, gr *rand.Rand) {
				defer wg.Done()
				for i := 0; i < *n; i++ {
					c, _ := isoCall(j)
					if len(c) > 1 {
						flagV("%s (storm %d, goroutine %d, call %d)", c, round, g, i)
						c = "violation"
					}
					counts[g][c]++
					switch gr.Intn(4) {
					case 0:
						runtime.Gosched()
					case 1, 2:
						time.Sleep(time.Duration(gr.Intn(200)) * time.Microsecond)
					}
				}
			}(g, rand.New(rand.NewSource(*seed*1000003+int64(round*1000+g))))
		}
		wg.Wait()
		ran := 0
		for _, m := range counts {
			for k, v := range m {
				dist["storm"][map[string]string{"o": "ran: nil", "e": "ran: error", "p": "ran: panic", "r": "refused with an error", "violation": "violation"}[k]] += v
				evaluations += v
				if k == "r" {
					contended += v
				} else if k != "violation" {
					ran += v
				}
			}
		}
		if got := int(u.inv.Load() - inv0); got != ran {
			flagV("storm %d: %d calls came back as executed but the underlying job was invoked %d times", round, ran, got)
		}
		// quiescent: nothing is running now, so the next call must be admitted
		if u.inflight.Load() != 0 {
			flagV("storm %d: %d executions still in flight although every call has returned", round, u.inflight.Load())
		}
		c, _ := isoCall(j)
		evaluations++
		switch {
		case c == "r":
			flagV("after storm %d, with no execution in progress, a call was refused: the gate did not reopen", round)
			dist["quiescent_probe"]["refused"]++
		case len(c) > 1:
			flagV("%s (quiescent probe after storm %d)", c, round)
		default:
			dist["quiescent_probe"]["admitted"]++
		}
	}
	if m := u.maxSeen.Load(); m > 1 {
		flagV("%d executions of the underlying job were in flight at the same time (%d overlapping entries observed)", m, u.overlaps.Load())
	}
	// ---- nested wrappers: an isolated job that is wrapped again (a helper that isolates whatever it is given). Calls come through the
	// inner and through the outer wrapper at the same time; the job under the inner wrapper must still never overlap, and a call that is
	// refused by either gate must not reach it.
	{
		outer := job.NewIsolatedJob(j)
		var wg sync.WaitGroup
		var refused, ran atomic.Int64
		inv0 := u.inv.Load()
		for g := 0; g < *gor; g++ {
			wg.Add(1)
			go func(g int, gr *rand.Rand) {
				defer wg.Done()
				w := j
				if g%2 == 1 {
					w = outer
				}
				for i := 0; i < *n/2; i++ {
					c, _ := isoCall(w)
					switch {
					case len(c) > 1:
						flagV("%s (nested wrappers, goroutine %d through the %s wrapper, call %d)", c, g, map[bool]string{true: "outer", false: "inner"}[g%2 == 1], i)
					case c == "r":
						refused.Add(1)
					default:
						ran.Add(1)
					}
					if gr.Intn(3) == 0 {
						time.Sleep(time.Duration(gr.Intn(150)) * time.Microsecond)
					}
				}
			}(g, rand.New(rand.NewSource(*seed*7919+int64(g))))
		}
		wg.Wait()
		evaluations += int(refused.Load() + ran.Load())
		dist["nested"] = map[string]int{"ran": int(ran.Load()), "refused with an error": int(refused.Load())}
		if got := u.inv.Load() - inv0; got != ran.Load() {
			flagV("nested wrappers: %d calls came back as executed but the underlying job was invoked %d times", ran.Load(), got)
		}
		if m := u.maxSeen.Load(); m > 1 {
			flagV("nested wrappers: %d executions of the underlying job were in flight at the same time (calls through the inner and the outer wrapper of one job)", m)
		}
		for _, w := range []quartz.Job{outer, j} {
			if c, _ := isoCall(w); c == "r" || len(c) > 1 {
				flagV("nested wrappers: with no execution in progress a call was not admitted (%s)", c)
			}
			evaluations++
		}
	}
	samples = append(samples, map[string]any{"phase": "storm", "goroutines": *gor, "rounds": *rounds, "calls": evaluations,
		"max_in_flight": u.maxSeen.Load(), "underlying_invocations": u.inv.Load(), "refused": contended})

	// ---- sequential: whatever the previous call did, the next one is admitted
	prev := "-"
	for i := 0; i < *seqN; i++ {
		c, _ := isoCall(j)
		evaluations++
		if c == "r" {
			flagV("a call made after the previous execution had finished (%s) was refused (sequential call %d)", prev, i)
			dist["sequential"]["refused after "+prev]++
		} else if len(c) > 1 {
			flagV("%s (sequential call %d)", c, i)
		} else {
			dist["sequential"]["admitted after "+prev]++
		}
		prev = map[string]string{"o": "nil", "e": "error", "p": "panic", "r": "refusal"}[c]
	}

	// ---- handshake: hold an execution inside the delegate
	for i := 0; i < *hsN; i++ {
		if i%3 == 2 {
			// a call whose context has already ended (a stopping scheduler makes such calls): whatever it does, it must leave the
			// gate open — the held call below is made "with nothing running"
			dead, cancelDead := context.WithCancel(context.Background())
			cancelDead()
			c, _ := isoCallCtx(j, dead)
			evaluations++
			dist["handshake"]["call with an ended context: "+map[bool]string{true: "refused", false: "ran"}[c == "r"]]++
		}
		h := &isoHold{entered: make(chan struct{}), release: make(chan byte)}
		u.hold.Store(h)
		res := make(chan string, 1)
		heldCtx, cancelHeld := context.WithCancel(context.Background())
		go func() { c, _ := isoCallCtx(j, heldCtx); res <- c }()
		if i%3 == 1 {
			// the context of the execution in progress ends while it is still running (Stop during a slow job): the execution is
			// still in progress, the calls below must still be refused
			defer cancelHeld()
			go func() { time.Sleep(200 * time.Microsecond); cancelHeld() }()
			dist["handshake"]["context of the held execution cancelled meanwhile"]++
		} else {
			defer cancelHeld()
		}
		select {
		case <-h.entered:
		case c := <-res:
			flagV("with nothing running a call was not admitted: %s (handshake %d)", c, i)
			u.hold.Store(nil)
			continue
		case <-time.After(10 * time.Second):
			flagV("a call neither entered the underlying job nor returned within 10s (handshake %d)", i)
			u.hold.Store(nil)
			continue
		}
		u.hold.Store(nil)
		if i%3 == 1 {
			time.Sleep(400 * time.Microsecond) // the cancellation above has happened
		}
		// an execution is in progress right now: every call must be refused without reaching the delegate
		k := 1 + r.Intn(4)
		for q := 0; q < k; q++ {
			c, _ := isoCall(j)
			evaluations++
			if c != "r" {
				if len(c) == 1 {
					c = "it ran the underlying job (" + c + ")"
				}
				flagV("a call made while an execution was in progress was not refused: %s (handshake %d)", c, i)
				dist["handshake"]["overlapping call not refused"]++
			} else {
				dist["handshake"]["overlapping call refused"]++
				contended++
			}
		}
		o := "oep"[r.Intn(3)]
		h.release <- o
		var c string
		select {
		case c = <-res:
		case <-time.After(10 * time.Second):
			flagV("the held call did not return within 10s after the underlying job finished (handshake %d)", i)
			continue
		}
		evaluations++
		if c != string(o) {
			flagV("the held call came back as %q, the underlying job did %q (handshake %d)", c, string(o), i)
		}
		// it has finished: the next call must be admitted
		c, _ = isoCall(j)
		evaluations++
		how := map[byte]string{'o': "nil", 'e': "error", 'p': "panic"}[o]
		if c == "r" {
			flagV("the call made right after an execution finished with %s was refused: the gate did not reopen (handshake %d)", how, i)
			dist["handshake"]["refused after "+how]++
		} else if len(c) > 1 {
			flagV("%s (handshake %d)", c, i)
		} else {
			dist["handshake"]["admitted after "+how]++
		}
	}
	if m := u.maxSeen.Load(); m > 1 && len(viol) == 0 {
		flagV("%d executions of the underlying job were in flight at the same time", m)
	}

	// ---- lingering refused call: "as soon as an execution finishes … the next call is admitted" — whatever OTHER calls are doing.
	// A is held inside the underlying job. B overlaps it (own goroutine, not waited for: it may return at once, or linger inside the
	// wrapper, e.g. in the underlying job's Description(), which blocks once here if it is called at all). A finishes and its Execute
	// returns. Now nothing is running: C must be admitted, whether or not B has come back. Only then is Description released and B joined.
	lingerN := *hsN / 10
	if lingerN < 12 {
		lingerN = 12
	}
	dist["lingering"] = map[string]int{}
	for i := 0; i < lingerN; i++ {
		const dl = 10 * time.Second
		ud := &isoSlowDesc{isoUnder: &isoUnder{plan: []isoPlan{{out: 'o'}}}, descEntered: make(chan struct{}, 1), descRelease: make(chan struct{})}
		jd := job.NewIsolatedJob(ud)
		h := &isoHold{entered: make(chan struct{}), release: make(chan byte)}
		ud.hold.Store(h)
		resA := make(chan string, 1)
		go func() { c, _ := isoCall(jd); resA <- c }()
		select {
		case <-h.entered:
		case c := <-resA:
			flagV("with nothing running a call was not admitted: %s (lingering %d)", c, i)
			continue
		case <-time.After(dl):
			flagV("a call neither entered the underlying job nor returned within %v (lingering %d)", dl, i)
			ud.hold.Store(nil)
			continue
		}
		ud.hold.Store(nil)
		// B overlaps A
		ud.armed.Store(true)
		resB := make(chan string, 1)
		go func() { c, _ := isoCall(jd); resB <- c }()
		bState, bRes := "neither returned nor reached Description within 10s", ""
		select {
		case bRes = <-resB:
			bState = "had returned"
			evaluations++
			if bRes != "r" {
				if len(bRes) == 1 {
					bRes = "it ran the underlying job (" + bRes + ")"
				}
				flagV("a call made while an execution was in progress was not refused: %s (lingering %d)", bRes, i)
			} else {
				contended++
			}
		case <-ud.descEntered:
			bState = "was still inside Execute (in the underlying job's Description())"
		case <-time.After(dl):
		}
		dist["lingering"]["when the execution finished the overlapping call "+bState]++
		// A finishes
		o := "oep"[i%3]
		how := map[byte]string{'o': "nil", 'e': "error", 'p': "panic"}[o]
		h.release <- o
		select {
		case c := <-resA:
			evaluations++
			if c != string(o) {
				flagV("the held call came back as %q, the underlying job did %q (lingering %d)", c, string(o), i)
			}
		case <-time.After(dl):
			flagV("the held call did not return within %v after the underlying job finished (lingering %d)", dl, i)
			close(ud.descRelease)
			continue
		}
		// nothing is running: C must be admitted. (B is somewhere between its call and its return; it runs the job only if it is itself
		// admitted, which the final invocation count shows: the verdict is given after B has been joined.)
		resC := make(chan string, 1)
		go func() { c, _ := isoCall(jd); resC <- c }()
		c := ""
		select {
		case c = <-resC:
		case <-time.After(dl):
		}
		cHung := c == ""
		evaluations++
		close(ud.descRelease)
		if bRes == "" {
			select {
			case bRes = <-resB:
				evaluations++
				if len(bRes) > 1 {
					flagV("%s (lingering %d, overlapping call)", bRes, i)
				}
			case <-time.After(dl):
				flagV("an overlapping call did not return within %v after everything else had finished (lingering %d)", dl, i)
			}
		}
		if cHung {
			select {
			case c = <-resC:
			case <-time.After(dl):
			}
		}
		inv := ud.inv.Load()
		// inv == 1 and B refused: the underlying job ran exactly once in this whole case (A), and A's Execute had returned before C was called
		onlyA := inv == 1 && bRes == "r"
		switch {
		case cHung && onlyA:
			flagV("after the only execution had finished (%s) and its Execute had returned, the next call neither ran the underlying job nor returned within %v "+
				"(an overlapping call made during that execution %s when it finished) (lingering %d)", how, dl, bState, i)
		case c == "r" && onlyA:
			flagV("the call made after an execution had finished (%s) and its Execute had returned was refused although no execution was in progress: "+
				"the gate did not reopen as soon as the execution finished (an overlapping call made during that execution %s when it finished and was itself refused; "+
				"the underlying job was invoked once in all, Description() %d time(s)) (lingering %d)", how, bState, ud.descCalls.Load(), i)
			dist["lingering"]["next call refused with nothing running"]++
		case c == "r" || cHung:
			dist["lingering"]["next call refused while the late overlapping call was executing (inconclusive)"]++
		case len(c) > 1:
			flagV("%s (lingering %d, call after the execution finished)", c, i)
		default:
			dist["lingering"]["next call admitted after "+how]++
		}
		if m := ud.maxSeen.Load(); m > 1 {
			flagV("%d executions of the underlying job were in flight at the same time (lingering %d)", m, i)
		}
	}

	// ---- scheduler: unbounded mode, interval shorter than the job
	{
		us := &isoUnder{plan: []isoPlan{{out: 'o'}}}
		us.fixed.Store(&isoPlan{out: 'o', kind: 3, dur: 5 * time.Millisecond})
		lg := &retryLog{ch: make(chan struct{}, 1)}
		s, err := quartz.NewStdScheduler(quartz.WithLogger(lg), quartz.WithOutdatedThreshold(time.Minute))
		must(err)
		ctx, cancel := context.WithCancel(context.Background())
		s.Start(ctx)
		key := quartz.NewJobKey("isolated")
		must(s.ScheduleJob(quartz.NewJobDetail(job.NewIsolatedJob(us), key), quartz.NewSimpleTrigger(time.Millisecond)))
		t0 := time.Now()
		refused := 0
		for time.Since(t0) < time.Duration(*schedMs)*time.Millisecond {
			time.Sleep(20 * time.Millisecond)
			_, refused, _, _ = lg.counts(key.String(), 0)
			if us.inv.Load() >= 40 && refused >= 40 {
				break
			}
		}
		s.Stop()
		wctx, wc := context.WithTimeout(context.Background(), 10*time.Second)
		s.Wait(wctx)
		if wctx.Err() != nil {
			flagV("scheduler phase: Wait did not return within 10s after Stop")
		}
		wc()
		cancel()
		_, refused, _, _ = lg.counts(key.String(), 0)
		if m := us.maxSeen.Load(); m > 1 {
			flagV("under a real scheduler (unbounded mode, 1ms interval, 5ms job) %d executions of the isolated job overlapped", m)
		}
		if us.inflight.Load() != 0 {
			flagV("scheduler phase: %d executions in flight after Wait returned", us.inflight.Load())
		}
		dist["scheduler"]["executed"] = int(us.inv.Load())
		dist["scheduler"]["refused (\"Job terminated\" logged)"] = refused
		evaluations += int(us.inv.Load()) + refused
		contended += refused
		samples = append(samples, map[string]any{"phase": "scheduler", "mode": "unbounded", "interval": "1ms", "job_duration": "5ms",
			"executed": us.inv.Load(), "refused": refused, "max_in_flight": us.maxSeen.Load(), "ran_for_ms": time.Since(t0).Milliseconds()})
	}

	writeJSON(*out+"/stats.json", map[string]any{"seed": *seed, "evaluations": evaluations, "distinct_nontrivial": contended,
		"distribution": dist, "violations": viol, "samples": samples,
		"underlying_invocations": u.inv.Load(), "max_in_flight": u.maxSeen.Load()})
	fmt.Printf("isolated: %d calls, %d refused under contention, max executions in flight %d, %d property violations\n",
		evaluations, contended, u.maxSeen.Load(), len(viol))
	return 0
}
