package main

import (
	"flag"
	"fmt"
	"math/rand"
	"time"
)

func init() { commands["cal"] = calRun }

// calRun validates the Lean calendar (Calendar.lean: civil <-> seconds, weekday, month length)
// against Go's time package, which is the calendar the cron code actually uses.
func calRun(args []string) int {
	fs := flag.NewFlagSet("cal", flag.ExitOnError)
	seed := fs.Int64("seed", 1, "")
	stride := fs.Int("stride", 7, "visit every stride-th day of 1969-12-30 … 2262-04-12 (1 = exhaustive)")
	out := fs.String("out", "", "")
	fs.Parse(args)
	r := rand.New(rand.NewSource(*seed))
	var ops, impl []string
	start := time.Date(1969, 12, 30, 0, 0, 0, 0, time.UTC).Unix()
	end := time.Date(2262, 4, 12, 0, 0, 0, 0, time.UTC).Unix()
	days := 0
	emit := func(s int64) {
		t := time.Unix(s, 0).UTC()
		dim := time.Date(t.Year(), t.Month()+1, 0, 0, 0, 0, 0, time.UTC).Day()
		back := time.Date(t.Year(), t.Month(), t.Day(), t.Hour(), t.Minute(), t.Second(), 0, time.UTC).Unix()
		ops = append(ops, fmt.Sprintf("cron cal %d", s))
		impl = append(impl, fmt.Sprintf("%d %d %d %d %d %d %d %d %d", t.Year(), int(t.Month()), t.Day(), t.Hour(), t.Minute(), t.Second(), int(t.Weekday()), dim, back))
	}
	off := int64(0)
	if *stride > 1 {
		off = int64(r.Intn(*stride))
	}
	for d := start + off*86400; d < end; d += int64(*stride) * 86400 {
		days++
		emit(d)
		emit(d + 86399)
		emit(d + int64(r.Intn(86400)))
	}
	writeLines(*out+"/ops.txt", ops)
	writeLines(*out+"/impl.txt", impl)
	writeJSON(*out+"/stats.json", map[string]any{"seed": *seed, "evaluations": len(ops), "distinct_nontrivial": len(ops), "exhaustive": *stride == 1,
		"distribution": map[string]map[string]int{"days": {"visited": days}}, "violations": []string{}})
	fmt.Printf("cal: %d days, %d instants compared with Go's time package\n", days, len(ops))
	return 0
}
