package main

import (
	"context"
	"errors"
	"flag"
	"fmt"
	"hash/fnv"
	"math"
	"math/rand"
	"sort"
	"strings"
	"sync"
	"time"

	"github.com/reugn/go-quartz/quartz"
)

func init() { commands["sched"] = schedRun }

var errScript = errors.New("scripted trigger error")

type trigCall struct {
	tag    int
	prev   int64
	result *int64
}

func (c trigCall) String() string {
	if c.result == nil {
		return fmt.Sprintf("%d:%d:e", c.tag, c.prev)
	}
	return fmt.Sprintf("%d:%d:%d", c.tag, c.prev, *c.result)
}

// recTrig records every NextFireTime call; it wraps the real SimpleTrigger / RunOnceTrigger or plays a script.
type recTrig struct {
	tag     int
	inner   quartz.Trigger
	answers []*int64
	fixed   *int64
	endErr  error // what a scripted "no fire time" answer returns (nil: errScript); the Trigger interface only says "error"
	log     *[]trigCall
	mu      *sync.Mutex
}

func (t *recTrig) NextFireTime(prev int64) (int64, error) {
	var res int64
	var err error
	switch {
	case t.inner != nil:
		res, err = t.inner.NextFireTime(prev)
	case t.fixed != nil:
		res = *t.fixed
	case len(t.answers) == 0 || t.answers[0] == nil:
		err = errScript
		if t.endErr != nil {
			err = t.endErr
		}
		if len(t.answers) > 0 {
			t.answers = t.answers[1:]
		}
	default:
		res = *t.answers[0]
		t.answers = t.answers[1:]
	}
	t.mu.Lock()
	if err != nil {
		*t.log = append(*t.log, trigCall{t.tag, prev, nil})
	} else {
		r := res
		*t.log = append(*t.log, trigCall{t.tag, prev, &r})
	}
	t.mu.Unlock()
	return res, err
}
func (t *recTrig) Description() string { return "rec" }

func serr(err error) string {
	switch {
	case err == nil:
		return "ok"
	case errors.Is(err, quartz.ErrIllegalArgument):
		return "err illegal-argument"
	case errors.Is(err, quartz.ErrJobAlreadyExists):
		return "err exists"
	case errors.Is(err, quartz.ErrJobNotFound):
		return "err notfound"
	case errors.Is(err, quartz.ErrJobIsSuspended):
		return "err suspended"
	case errors.Is(err, quartz.ErrJobIsActive):
		return "err active"
	case errors.Is(err, errScript), errors.Is(err, quartz.ErrTriggerExpired):
		return "err trigger"
	case errors.Is(err, quartz.ErrQueueEmpty):
		return "err empty"
	}
	return "err other " + err.Error()
}

type schedHarness struct {
	inner   quartz.JobQueue
	g       *gateQ
	s       quartz.Scheduler
	misf    chan quartz.ScheduledJob
	cancel  context.CancelFunc
	pending *gcall
	tlog    []trigCall
	tmu     sync.Mutex
	execs   []int
	emu     sync.Mutex
	fakeJD  *quartz.JobDetail
	thr     time.Duration
}

func newSchedHarness(thr time.Duration) *schedHarness {
	h := &schedHarness{inner: quartz.NewJobQueue(), misf: make(chan quartz.ScheduledJob, 64), thr: thr}
	h.g = newGateQ(h.inner)
	s, err := quartz.NewStdScheduler(quartz.WithQueue(h.g, &sync.Mutex{}), quartz.WithOutdatedThreshold(thr),
		quartz.WithBlockingExecution(), quartz.WithMisfiredChan(h.misf), quartz.WithRetryInterval(time.Millisecond))
	must(err)
	h.s = s
	h.fakeJD = quartz.NewJobDetail(&tagJob{tag: -1}, quartz.NewJobKey("fake-head"))
	ctx, cancel := context.WithCancel(context.Background())
	h.cancel = cancel
	s.Start(ctx)
	h.pending = h.next() // the loop's first Size call
	return h
}

func (h *schedHarness) next() *gcall {
	select {
	case c := <-h.g.calls:
		return c
	case <-time.After(20 * time.Second):
		panic("sched harness: the execution loop made no queue call within 20s (deadlock or hang)")
	}
}

func (h *schedHarness) close() {
	h.g.open()
	if h.pending != nil {
		h.pending.release <- grel{}
		h.pending = nil
	}
	h.cancel()
	h.s.Stop()
	ctx, c := context.WithTimeout(context.Background(), 5*time.Second)
	h.s.Wait(ctx)
	c()
}

func (h *schedHarness) api(f func() error) (error, []trigCall, int64, int64) {
	h.tmu.Lock()
	n0 := len(h.tlog)
	h.tmu.Unlock()
	lo := quartz.NowNano()
	h.g.apiMode.Store(true)
	err := f()
	h.g.apiMode.Store(false)
	hi := quartz.NowNano()
	h.tmu.Lock()
	calls := append([]trigCall{}, h.tlog[n0:]...)
	h.tmu.Unlock()
	return err, calls, lo, hi
}

type stepRes struct {
	popped, pushed quartz.ScheduledJob
	popErr         error
	calls          []trigCall
	execs          []int
	misfired       []int
	lo, hi         int64
}

// step drives the real loop through exactly one fetchAndReschedule and parks it again.
func (h *schedHarness) step() stepRes {
	var res stepRes
	h.tmu.Lock()
	n0 := len(h.tlog)
	h.tmu.Unlock()
	h.emu.Lock()
	h.execs = nil
	h.emu.Unlock()
	for round := 0; round < 200; round++ {
		c := h.pending
		h.pending = nil
		if c.op != "size" {
			panic("sched harness: parked on " + c.op)
		}
		n, _ := h.inner.Size()
		if n < 1 {
			n = 1
		}
		c.release <- grel{override: true, n: n}
		<-c.done
		c = h.next()
		if c.op == "size" { // the loop is backing off after a failed or empty Pop: it does not look at the head in this iteration
			h.pending = c
			continue
		}
		for k := 0; c.op == "head" && k < 4; k++ { // (more than one look at the head per iteration is tolerated: the answer stays "due")
			c.release <- grel{override: true, job: &fakeDue{h.fakeJD, quartz.NowNano() - int64(time.Millisecond)}}
			<-c.done
			c = h.next()
		}
		if c.op == "size" { // the select took a pending interrupt token: go round again
			h.pending = c
			continue
		} // (no head call at all: the tick that ends a back-off pops without looking at the head again)
		if c.op != "pop" {
			panic("sched harness: expected Pop, got " + c.op)
		}
		res.lo = quartz.NowNano()
		c.release <- grel{}
		<-c.done
		res.popped, res.popErr = c.resJob, c.resErr
		c = h.next()
		if res.popErr != nil && c.op == "size" {
			// nothing to pop: the scheduler asks, still inside the critical section, whether the queue is honestly empty
			c.release <- grel{}
			<-c.done
			c = h.next()
		}
		if c.op == "push" {
			res.pushed = c.arg
			c.release <- grel{}
			<-c.done
			c = h.next()
		}
		if c.op != "size" {
			panic("sched harness: expected Size after the step, got " + c.op)
		}
		res.hi = quartz.NowNano()
		h.pending = c
		break
	}
	h.tmu.Lock()
	res.calls = append([]trigCall{}, h.tlog[n0:]...)
	h.tmu.Unlock()
	h.emu.Lock()
	res.execs = append([]int{}, h.execs...)
	h.emu.Unlock()
	for {
		select {
		case sj := <-h.misf:
			if tj, ok := sj.JobDetail().Job().(*tagJob); ok {
				res.misfired = append(res.misfired, tj.tag)
			}
			continue
		default:
		}
		break
	}
	return res
}

func callsString(cs []trigCall) string {
	if len(cs) == 0 {
		return "-"
	}
	var p []string
	for _, c := range cs {
		p = append(p, c.String())
	}
	return strings.Join(p, ",")
}

// ownFire relates every execution to the fire time that caused it (C03: "a job is executed only in response to a fire time
// produced by its own trigger, never before that fire time, and at most once per fire time"). Jobs and the triggers they are
// scheduled with carry the same tag; produced[tag][t] counts how often the trigger with that tag has answered t so far.
type ownFire struct {
	produced, dispatched map[int]map[int64]int
}

func newOwnFire() *ownFire {
	return &ownFire{produced: map[int]map[int64]int{}, dispatched: map[int]map[int64]int{}}
}

// note records the answers of trigger calls (after the operation that made them has been judged).
func (o *ownFire) note(calls []trigCall) {
	for _, c := range calls {
		if c.result == nil {
			continue
		}
		if o.produced[c.tag] == nil {
			o.produced[c.tag] = map[int64]int{}
		}
		o.produced[c.tag][*c.result]++
	}
}

// dispatch judges one execution of the job with the given tag, dequeued with fire time f; "" = fine.
func (o *ownFire) dispatch(tag int, f int64) string {
	if o.dispatched[tag] == nil {
		o.dispatched[tag] = map[int64]int{}
	}
	o.dispatched[tag][f]++
	n := o.produced[tag][f]
	switch {
	case n == 0:
		var have []string
		for t := range o.produced[tag] {
			have = append(have, fmt.Sprint(t))
		}
		sort.Strings(have)
		if len(have) > 6 {
			have = append(have[:6], "…")
		}
		return fmt.Sprintf("C03 job %d was executed in response to the fire time %d, which its own trigger never produced (all answers of its trigger so far: [%s]): "+
			"the fire time was invented by the scheduler or taken over from another trigger", tag, f, strings.Join(have, " "))
	case o.dispatched[tag][f] > n:
		return fmt.Sprintf("C03 job %d was executed %d times in response to the fire time %d, which its trigger produced %d time(s)", tag, o.dispatched[tag][f], f, n)
	}
	return ""
}

type absJob struct {
	susp bool
	tag  int
}

// satAddGo is the harness's own expectation of what an interval trigger answers: prev + d, or the largest
// representable time when that sum is beyond it (d > 0). Written without relying on wrap-around.
func satAddGo(prev, d int64) int64 {
	if d > 0 && prev > math.MaxInt64-d {
		return math.MaxInt64
	}
	return prev + d
}

// the intervals / delays of the real SimpleTrigger and RunOnceTrigger under test: small ones around the
// classification boundaries, and two beyond every practical horizon: MaxInt64 ("never": already the first
// addition to a clock reading overflows) and 3/4 of it (the first addition fits, the second one overflows)
var (
	schedBigIntervals = []int64{math.MaxInt64, math.MaxInt64 / 4 * 3}
	// prev arguments for the direct trigger differential (all non-negative: the model does not cover the wrap
	// below MinInt64)
	schedFirePrevs = []int64{0, 1, 1 << 62, math.MaxInt64 / 4, math.MaxInt64/4 + 2, math.MaxInt64/4 + 3, math.MaxInt64 - int64(time.Hour), math.MaxInt64 - int64(time.Hour) + 1,
		math.MaxInt64 - int64(30*time.Minute), math.MaxInt64 - 1, math.MaxInt64}
)

func schedRun(args []string) int {
	fs := flag.NewFlagSet("sched", flag.ExitOnError)
	seed := fs.Int64("seed", 1, "")
	nseq := fs.Int("n", 60, "number of sequences")
	maxLen := fs.Int("len", 40, "")
	out := fs.String("out", "", "")
	fs.Parse(args)
	r := rand.New(rand.NewSource(*seed))
	var ops, impl []string
	viol := []string{}
	dist := map[string]map[string]int{"op": {}, "outcome": {}, "class": {}, "trigger": {}}
	seen := map[uint64]bool{}
	nontrivial := 0
	tag := 0
	thr := time.Hour
	minute, hour := int64(time.Minute), int64(time.Hour)
	// the pools contain two keys whose "group::name" renderings coincide and keys differing only by case
	groups := []string{"default", "g1", "etl", "etl::daily", "G1"}
	names := []string{"a", "b", "ab", "daily::load", "load", "A"}
	offsets := []int64{-3 * hour, -2 * hour, -90 * minute, -30 * minute, -10 * minute, 20 * minute, hour, 2 * hour, 5 * hour}

	// known finding `paused-run-once` (C08): a run-once job paused before its fire time cannot be resumed — replayed on the real code
	if k := schedKnownPausedRunOnce(); k != "" {
		viol = append(viol, k)
	}
	// directed sequences on the exact step harness: every execution answers a fire time of the job's own trigger
	for _, v := range schedDirectedOwnFire() {
		viol = append(viol, v)
	}
	dist["class"]["directed-own-fire-time"] = 4
	for s := 0; s < *nseq; s++ {
		thr := thr
		if r.Intn(6) == 0 { // "never treat a fire time as outdated"
			thr = time.Duration(math.MaxInt64)
			dist["class"]["threshold-maxint64"]++
		}
		h := newSchedHarness(thr)
		// application code commonly builds many jobs from one options value: the jobs must stay independent
		optPool := map[[2]bool]*quartz.JobDetailOptions{}
		abs := map[string]*absJob{}
		T0 := quartz.NowNano()
		ops = append(ops, fmt.Sprintf("sched new %d", thr.Nanoseconds()))
		impl = append(impl, "ok")
		hh := fnv.New64a()
		flagV := func(msg string) {
			if len(viol) < 60 {
				viol = append(viol, fmt.Sprintf("%s | after %v", msg, ops[max(0, len(ops)-6):]))
			}
		}
		// interval of the real SimpleTrigger / RunOnceTrigger behind a tag; every answer such a trigger gives is judged
		// here against the property (no fire time is invented: the next one is prev + interval, and if that is beyond
		// the largest representable time, that largest time — never a time before prev for a positive interval)
		ivl := map[int]int64{}
		own := newOwnFire()
		checkCalls := func(calls []trigCall) {
			defer own.note(calls)
			for _, c := range calls {
				d, ok := ivl[c.tag]
				if !ok || c.result == nil {
					continue
				}
				want := satAddGo(c.prev, d)
				if d > 0 && c.prev > math.MaxInt64-d { // the exact sum is not representable
					dist["class"]["interval-overflow"]++
				}
				switch {
				case d > 0 && *c.result < c.prev:
					flagV(fmt.Sprintf("C04 the trigger answered a fire time before prev for a positive interval: NextFireTime(%d) = %d, interval %d (overflow: the fire time was invented, want %d)", c.prev, *c.result, d, want))
				case *c.result != want:
					flagV(fmt.Sprintf("C04 the interval trigger answered NextFireTime(%d) = %d, interval %d, want %d", c.prev, *c.result, d, want))
				}
			}
		}
		dump := func() string {
			jobs, _ := h.inner.ScheduledJobs(nil)
			var p []string
			for _, j := range jobs {
				p = append(p, entryString(j))
			}
			return strings.Join(p, ";")
		}
		l := 3 + r.Intn(*maxLen)
		for i := 0; i < l; i++ {
			g, n := groups[r.Intn(2)], names[r.Intn(3)]
			switch r.Intn(8) {
			case 0:
				g, n = "etl", "daily::load"
			case 1:
				g, n = "etl::daily", "load"
			case 2:
				g, n = []string{"g1", "G1"}[r.Intn(2)], []string{"a", "A"}[r.Intn(2)]
			}
			op := []string{"schedule", "schedule", "schedule", "step", "step", "step", "pause", "pause", "resume", "resume", "delete", "get", "keys", "clear", "dump", "fire"}[r.Intn(16)]
			if op != "schedule" && len(abs) > 0 && r.Intn(10) < 7 { // mostly address jobs that exist
				var ks []string
				for k := range abs {
					ks = append(ks, k)
				}
				sort.Strings(ks)
				pickFrom := ks
				if op == "resume" { // prefer paused jobs
					var pk []string
					for _, k := range ks {
						if abs[k].susp {
							pk = append(pk, k)
						}
					}
					if len(pk) > 0 {
						pickFrom = pk
					}
				}
				kk := strings.SplitN(pickFrom[r.Intn(len(pickFrom))], "\x00", 2)
				if kk[1] != "" {
					g, n = kk[0], kk[1]
				}
			}
			key := g + "\x00" + n
			before := dump()
			var line, ans string
			if op == "clear" && r.Intn(3) != 0 {
				op = "step"
			}
			switch op {
			case "schedule":
				tag++
				susp, repl := r.Intn(5) == 0, r.Intn(4) == 0
				var tr quartz.Trigger
				spec := ""
				rt := &recTrig{tag: tag, log: &h.tlog, mu: &h.tmu}
				firstErr := false
				switch k := r.Intn(10); {
				case k < 5: // script
					var parts []string
					for j := 0; j < 1+r.Intn(4); j++ {
						if r.Intn(6) == 0 {
							rt.answers = append(rt.answers, nil)
							parts = append(parts, "e")
						} else {
							v := T0 + offsets[r.Intn(len(offsets))] + int64(r.Intn(1000))
							rt.answers = append(rt.answers, &v)
							parts = append(parts, fmt.Sprint(v))
						}
					}
					firstErr = rt.answers[0] == nil
					// the error a custom trigger ends / fails with is its own business: a sentinel of its own, quartz.ErrTriggerExpired, either of them wrapped
					ek := r.Intn(5)
					rt.endErr = []error{nil, nil, fmt.Errorf("schedule complete: %w", errScript), quartz.ErrTriggerExpired, fmt.Errorf("schedule complete: %w", quartz.ErrTriggerExpired)}[ek]
					dist["trigger"]["script-error:"+[]string{"own", "own", "own-wrapped", "expired", "expired-wrapped"}[ek]]++
					spec = "X" + strings.Join(parts, ";")
					tr = rt
					dist["trigger"]["script"]++
				case k == 5 && r.Intn(2) == 0: // a real CronTrigger in a fixed-offset location: parser + engine + scheduler end to end
					exprs := []string{"0 0 12 * * ?", "0 0/5 * * * ?", "15 30 2 L * ?", "0 0 0 ? * MON-FRI", "0 0 9 ? * 6#3", "0 15 10 15W * ? *", "* * * * * ?", "0 0 0 1 1 ? 2030-2040"}
					e := exprs[r.Intn(len(exprs))]
					off := []int{0, 3600, -18000, 19800}[r.Intn(4)]
					loc := time.UTC
					if off != 0 {
						loc = time.FixedZone("f", off)
					}
					ct, cerr := quartz.NewCronTriggerWithLoc(e, loc)
					must(cerr)
					rt.inner = ct
					spec = fmt.Sprintf("C%s:%d", encRunes(e), off)
					tr = rt
					dist["trigger"]["cron"]++
				case k < 7:
					d := []int64{-2 * hour, -10 * minute, hour}[r.Intn(3)]
					if r.Intn(4) == 0 {
						d = schedBigIntervals[r.Intn(len(schedBigIntervals))]
						dist["trigger"]["runonce-huge"]++
					}
					rt.inner = quartz.NewRunOnceTrigger(time.Duration(d))
					spec = fmt.Sprintf("R%d", d)
					tr = rt
					ivl[tag] = d
					dist["trigger"]["runonce"]++
				case k < 9:
					d := []int64{-2 * hour, -10 * minute, 30 * minute, hour}[r.Intn(4)]
					if r.Intn(4) == 0 {
						d = schedBigIntervals[r.Intn(len(schedBigIntervals))]
						dist["trigger"]["simple-huge"]++
					}
					rt.inner = quartz.NewSimpleTrigger(time.Duration(d))
					spec = fmt.Sprintf("S%d", d)
					tr = rt
					ivl[tag] = d
					dist["trigger"]["simple"]++
				default:
					spec = "nil"
					dist["trigger"]["nil"]++
				}
				flags := ""
				opts := optPool[[2]bool{susp, repl}]
				if opts == nil || r.Intn(2) == 0 {
					opts = quartz.NewDefaultJobDetailOptions()
					opts.Suspended, opts.Replace = susp, repl
					// retries are configured but the job succeeds: it must still run once per fire time
					opts.MaxRetries, opts.RetryInterval = r.Intn(3), time.Millisecond
					optPool[[2]bool{susp, repl}] = opts
				} else {
					dist["class"]["shared-options-value"]++
				}
				nm := n
				if r.Intn(15) == 0 {
					nm = ""
				}
				var jd *quartz.JobDetail
				switch r.Intn(25) {
				case 0:
					flags = " nodetail"
				case 1:
					flags = " nokey"
					jd = quartz.NewJobDetailWithOptions(&tagJob{tag: tag, run: h.recordExec}, nil, opts)
				case 2: // a job detail without options is an illegal argument too (the model files it under "nil inside the detail")
					flags = " nodetail"
					jd = quartz.NewJobDetailWithOptions(&tagJob{tag: tag, run: h.recordExec}, quartz.NewJobKeyWithGroup(nm, g), nil)
				default:
					jd = quartz.NewJobDetailWithOptions(&tagJob{tag: tag, run: h.recordExec}, quartz.NewJobKeyWithGroup(nm, g), opts)
				}
				err, calls, lo, hi := h.api(func() error {
					if tr == nil {
						return h.s.ScheduleJob(jd, nil)
					}
					return h.s.ScheduleJob(jd, tr)
				})
				now := lo
				if len(calls) > 0 {
					now = calls[0].prev
					if now < lo || now > hi {
						flagV("C04 ScheduleJob did not compute the first fire time from the current time")
					}
				}
				checkCalls(calls)
				line = fmt.Sprintf("sched schedule %d %s %s %s %s %d %s%s", now, hexArg(g), hexArg(nm), b01(susp), b01(repl), tag, spec, flags)
				ans = serr(err) + " calls=" + callsString(calls)
				// documented sentinel exactly when the precondition fails
				want := "ok"
				_, exists := abs[g+"\x00"+nm]
				switch {
				case flags != "" || nm == "" || tr == nil:
					want = "err illegal-argument"
				case !susp && (firstErr):
					want = "err trigger"
				case exists && !repl:
					want = "err exists"
				}
				if serr(err) != want {
					flagV(fmt.Sprintf("C09 ScheduleJob returned %q, its preconditions require %q", serr(err), want))
				}
				if err == nil {
					abs[g+"\x00"+nm] = &absJob{susp, tag}
				}
			case "delete", "pause", "resume", "get":
				nilKey := r.Intn(20) == 0
				var k *quartz.JobKey
				if !nilKey {
					k = quartz.NewJobKeyWithGroup(n, g)
				}
				var got quartz.ScheduledJob
				err, calls, lo, hi := h.api(func() error {
					switch op {
					case "delete":
						return h.s.DeleteJob(k)
					case "pause":
						return h.s.PauseJob(k)
					case "resume":
						return h.s.ResumeJob(k)
					}
					var e error
					got, e = h.s.GetScheduledJob(k)
					return e
				})
				checkCalls(calls)
				a, exists := abs[key]
				want := "ok"
				switch {
				case nilKey:
					want = "err illegal-argument"
				case !exists:
					want = "err notfound"
				case op == "pause" && a.susp:
					want = "err suspended"
				case op == "resume" && !a.susp:
					want = "err active"
				case op == "resume" && len(calls) == 1 && calls[0].result == nil:
					want = "err trigger"
				}
				if serr(err) != want {
					flagV(fmt.Sprintf("C09 %s returned %q, its preconditions require %q", op, serr(err), want))
				}
				keyArgs := "nil"
				if !nilKey {
					keyArgs = hexArg(g) + " " + hexArg(n)
				}
				switch op {
				case "resume":
					now := lo
					if len(calls) > 0 {
						now = calls[0].prev
						if now < lo || now > hi {
							flagV("C08 ResumeJob did not compute the fire time from the moment of resumption")
						}
					}
					line = fmt.Sprintf("sched resume %d %s", now, keyArgs)
					ans = serr(err) + " calls=" + callsString(calls)
				case "get":
					line = "sched get " + keyArgs
					ans = serr(err)
					if err == nil {
						ans = "ok " + entryString(got)
					}
				default:
					line = fmt.Sprintf("sched %s %s", op, keyArgs)
					ans = serr(err)
					if len(calls) > 0 {
						flagV("C08 " + op + " consumed a fire time of the trigger")
					}
				}
				if err == nil && a == nil && op != "get" {
					flagV(fmt.Sprintf("C09 %s succeeded on a key that was never scheduled (keys are (group, name) pairs)", op))
				}
				if err == nil && a != nil {
					switch op {
					case "delete":
						delete(abs, key)
					case "pause":
						a.susp = true
					case "resume":
						a.susp = false
					}
				}
			case "clear":
				err, _, _, _ := h.api(func() error { return h.s.Clear() })
				line, ans = "sched clear", serr(err)
				if err == nil {
					abs = map[string]*absJob{}
				}
			case "dump":
				line, ans = "sched dump", "ok "+dump()
			case "keys":
				ms := genMatchers(r)
				var parts []string
				var built []quartz.Matcher[quartz.ScheduledJob]
				for _, m := range ms {
					parts = append(parts, m.String())
					built = append(built, m.build())
				}
				var keys []*quartz.JobKey
				err, _, _, _ := h.api(func() error {
					var e error
					keys, e = h.s.GetJobKeys(built...)
					return e
				})
				line = strings.TrimSpace("sched keys " + strings.Join(parts, " "))
				var p []string
				for _, k := range keys {
					p = append(p, hexArg(k.Group())+"/"+hexArg(k.Name()))
				}
				ans = serr(err)
				if err == nil {
					ans = "ok " + strings.Join(p, ";")
				}
			case "fire":
				// the real trigger code asked directly, k times in a row, each time with its previous answer (what the
				// scheduler does after an on-time execution), from a prev that may be close to the end of time: the
				// additions that a step at the real clock cannot reach
				d := []int64{hour, 30 * minute, -10 * minute, math.MaxInt64, math.MaxInt64 / 4 * 3, 1, math.MaxInt64 / 2, math.MaxInt64/2 + 1}[r.Intn(8)]
				prev := T0 + int64(r.Intn(1000))
				if r.Intn(3) != 0 {
					prev = schedFirePrevs[r.Intn(len(schedFirePrevs))]
				}
				kind := "S"
				var tr quartz.Trigger = quartz.NewSimpleTrigger(time.Duration(d))
				if r.Intn(3) == 0 {
					kind, tr = "R", quartz.NewRunOnceTrigger(time.Duration(d))
				}
				k := 1 + r.Intn(3)
				line = fmt.Sprintf("sched fire %s%d %d %d", kind, d, prev, k)
				var calls []trigCall
				var parts []string
				p := prev
				for j := 0; j < k; j++ {
					v, err := tr.NextFireTime(p)
					if err != nil {
						if !(kind == "R" && j > 0 && errors.Is(err, quartz.ErrTriggerExpired)) {
							flagV(fmt.Sprintf("C04 NextFireTime(%d) of a %s trigger with interval %d failed: %v", p, kind, d, err))
						}
						parts = append(parts, "e")
						break
					}
					if kind == "R" && j > 0 {
						flagV("C04 a run-once trigger answered a second fire time")
					}
					vv := v
					calls = append(calls, trigCall{0, p, &vv})
					parts = append(parts, fmt.Sprint(v))
					p = v
				}
				ivl[0] = d
				checkCalls(calls)
				delete(ivl, 0)
				ans = "ok " + strings.Join(parts, ",")
			case "step":
				sr := h.step()
				if sr.popErr == nil && len(sr.execs) > 0 { // judged before this step's own trigger answers are recorded
					if tj, ok := sr.popped.JobDetail().Job().(*tagJob); ok {
						if v := own.dispatch(tj.tag, sr.popped.NextRunTime()); v != "" {
							flagV(v)
						}
						dist["class"]["dispatch-related-to-own-fire-time"]++
					}
				}
				checkCalls(sr.calls)
				now := sr.lo
				cls := ""
				if sr.popErr != nil {
					line, ans = fmt.Sprintf("sched step %d", now), "none"
					if !errors.Is(sr.popErr, quartz.ErrQueueEmpty) {
						ans = "pop-error " + sr.popErr.Error()
					}
				} else {
					e := sr.popped
					f := e.NextRunTime()
					susp := e.JobDetail().Options().Suspended
					ptag := -1
					if tj, ok := e.JobDetail().Job().(*tagJob); ok {
						ptag = tj.tag
					}
					switch {
					case susp:
						cls = "suspended"
					case len(sr.calls) == 0:
						cls = "notdue"
					case sr.calls[0].prev == f && f <= sr.hi && f >= sr.lo-thr.Nanoseconds():
						cls = "valid"
					default:
						cls = "outdated"
						now = sr.calls[0].prev
					}
					dist["class"][cls]++
					disp := len(sr.execs) > 0
					misf := len(sr.misfired) > 0
					pushS := "-"
					if sr.pushed != nil {
						pushS = entryString(sr.pushed)
					}
					line = fmt.Sprintf("sched step %d", now)
					ans = fmt.Sprintf("pop=%s cls=%s disp=%s misfire=%s calls=%s push=%s", entryString(e), cls, b01(disp), b01(misf), callsString(sr.calls), pushS)
					// property-level judgments, independent of the Lean model
					for _, tc := range sr.calls {
						if tc.tag != ptag {
							flagV(fmt.Sprintf("C03 the fire time of job %d was asked of the trigger of job %d: not its own trigger (the entry carries a trigger it was not scheduled with)", ptag, tc.tag))
							break
						}
					}
					if disp {
						if len(sr.execs) > 1 || sr.execs[0] != ptag {
							flagV("C03 a job other than the dequeued one was executed, or it ran more than once")
						}
						if f > sr.hi {
							flagV(fmt.Sprintf("C03 job executed %d ns before its fire time", f-sr.hi))
						}
						if susp {
							flagV("C08 a paused job was executed")
						}
						if len(sr.calls) != 1 || sr.calls[0].prev != f {
							flagV("C04 after an on-time execution the next fire time was not computed from the scheduled fire time")
						}
						if f < sr.lo-thr.Nanoseconds() {
							flagV("C04 a fire time later than OutdatedThreshold was executed instead of misfired")
						}
					}
					if susp && (len(sr.calls) > 0 || misf || sr.pushed == nil || sr.pushed.NextRunTime() != math.MaxInt64) {
						flagV("C08 a paused entry consumed a fire time, was misfired or left its parking position")
					}
					if !susp && !disp {
						switch {
						case f > sr.hi: // not due
							if len(sr.calls) > 0 || sr.pushed == nil || sr.pushed.NextRunTime() != f || misf {
								flagV("C04 a fire time that is not due yet was consumed, changed or dropped")
							}
						case f < sr.lo-thr.Nanoseconds(): // outdated
							if !misf {
								flagV("C04 an outdated fire time was skipped without being offered to MisfiredChan")
							}
							if len(sr.calls) != 1 || sr.calls[0].prev < sr.lo || sr.calls[0].prev > sr.hi {
								flagV("C04 a misfired job was not re-based on the current time")
							}
						case f <= sr.lo && f >= sr.hi-thr.Nanoseconds():
							flagV("C04 a fire time that was due and on time was not executed")
						}
					}
					if misf && !(f < sr.hi-thr.Nanoseconds()) {
						flagV("C04 a job was reported as misfired although it was not more than OutdatedThreshold late")
					}
					if len(sr.calls) == 1 && sr.calls[0].result != nil {
						if sr.pushed == nil || sr.pushed.NextRunTime() != *sr.calls[0].result {
							flagV("C04 the trigger's next fire time was not scheduled")
						}
					}
					if len(sr.calls) == 1 && sr.calls[0].result == nil && sr.pushed != nil {
						flagV("C04 the job stayed in the registry although its trigger reported that no further fire time exists")
					}
					// registry bookkeeping
					k := e.JobDetail().JobKey()
					if sr.pushed == nil {
						delete(abs, k.Group()+"\x00"+k.Name())
					}
				}
			}
			if strings.HasPrefix(ans, "err") && op != "step" {
				if after := dump(); after != before {
					flagV(fmt.Sprintf("C09 %s returned an error but changed the registry: %s -> %s", op, before, after))
				}
			}
			ops = append(ops, line)
			impl = append(impl, ans)
			dist["op"][op]++
			dist["outcome"][op+":"+strings.Join(strings.Fields(ans + " ")[:min(2, len(strings.Fields(ans)))], " ")]++
			fmt.Fprintf(hh, "%s|", strings.Join(strings.Fields(line)[:min(2, len(strings.Fields(line)))], " "))
			_ = key
		}
		h.close()
		if !seen[hh.Sum64()] {
			seen[hh.Sum64()] = true
			nontrivial++
		}
	}
	// canonicalise the outcome table (entries contain priorities): keep op:first-word only
	canon := map[string]int{}
	for k, v := range dist["outcome"] {
		f := strings.Fields(k)
		kk := f[0]
		if len(f) > 1 && strings.HasPrefix(f[0], "step") {
			kk = "step:popped"
			if f[0] == "step:none" {
				kk = "step:none"
			}
		} else if len(f) > 1 && strings.HasSuffix(f[0], ":err") {
			kk = f[0] + " " + f[1]
		}
		canon[kk] += v
	}
	dist["outcome"] = canon
	writeLines(*out+"/ops.txt", ops)
	writeLines(*out+"/impl.txt", impl)
	writeJSON(*out+"/stats.json", map[string]any{"seed": *seed, "evaluations": len(ops), "sequences": *nseq, "distinct_nontrivial": nontrivial,
		"distribution": dist, "violations": viol})
	fmt.Printf("sched: %d ops in %d sequences (%d distinct op-shapes), %d property violations\n", len(ops), *nseq, nontrivial, len(viol))
	return 0
}

func (h *schedHarness) recordExec(_ context.Context, tag int) error {
	h.emu.Lock()
	h.execs = append(h.execs, tag)
	h.emu.Unlock()
	return nil
}

func b01(b bool) string {
	if b {
		return "1"
	}
	return "0"
}

// schedKnownPausedRunOnce: ScheduleJob(RunOnceTrigger 1 h); PauseJob; ResumeJob on a fresh, never started scheduler. ScheduleJob has
// consumed the trigger's only fire time, so ResumeJob, which asks the trigger "from the moment of resumption", gets ErrTriggerExpired:
// the job stays paused for ever although it never ran. Returns the KNOWN string if the real code behaves like that, "" if ResumeJob
// re-activates the job, and an ordinary violation for anything else.
func schedKnownPausedRunOnce() string {
	s, err := quartz.NewStdScheduler()
	if err != nil {
		return ""
	}
	key := quartz.NewJobKey("paused-once")
	if err := s.ScheduleJob(quartz.NewJobDetail(&tagJob{tag: -2}, key), quartz.NewRunOnceTrigger(time.Hour)); err != nil {
		return "C08 ScheduleJob of a run-once job failed: " + err.Error()
	}
	if err := s.PauseJob(key); err != nil {
		return "C08 PauseJob of a run-once job that has not fired yet failed: " + err.Error()
	}
	err = s.ResumeJob(key)
	sj, gerr := s.GetScheduledJob(key)
	switch {
	case err == nil && gerr == nil && !sj.JobDetail().Options().Suspended && sj.NextRunTime() != math.MaxInt64:
		return "" // re-activated: the finding is gone
	case errors.Is(err, quartz.ErrTriggerExpired) && gerr == nil && sj.JobDetail().Options().Suspended && sj.NextRunTime() == math.MaxInt64:
		return "C08 KNOWN[paused-run-once] ScheduleJob(RunOnceTrigger 1h); PauseJob; ResumeJob -> " + err.Error() + ": the job stays listed as paused and can never be re-activated, although it has not run"
	}
	return fmt.Sprintf("C08 ScheduleJob(RunOnceTrigger 1h); PauseJob; ResumeJob returned %v and left the registry in an inconsistent state (get: %v)", err, gerr)
}

// schedDirectedOwnFire: four short sequences on the exact step harness (OutdatedThreshold 1 h) in which a scheduler that makes up a
// fire time, or lets an entry keep the fire time of another trigger, executes a job; judged by ownFire only (property text).
//
//	A  ScheduleJob(run-once: real RunOnceTrigger(1 h)); PauseJob; ResumeJob (the trigger reports expiry); step
//	A' the same with a scripted one-shot trigger [T0-10min] that ends with ErrTriggerExpired
//	B  ScheduleJob(script [T0-3h, T0-2h, T0+1h]); step; step; step   (a misfire that spans more than one occurrence)
//	C  ScheduleJob(K, script [T0-10min, T0+1h]); ScheduleJob(K, Replace, script [T0+2h], same Description()); step
func schedDirectedOwnFire() (viol []string) {
	minute, hour := int64(time.Minute), int64(time.Hour)
	for _, sc := range []string{"A", "A'", "B", "C"} {
		func() {
			defer func() {
				if r := recover(); r != nil {
					viol = append(viol, fmt.Sprintf("C03 directed sequence %s: the step harness lost track of the execution loop: %v", sc, r))
				}
			}()
			h := newSchedHarness(time.Hour)
			defer h.close()
			own := newOwnFire()
			T0 := quartz.NowNano()
			key := quartz.NewJobKey("directed")
			var trace []string
			script := func(tag int, endErr error, at ...int64) *recTrig {
				rt := &recTrig{tag: tag, log: &h.tlog, mu: &h.tmu, endErr: endErr}
				for _, a := range at {
					v := a
					rt.answers = append(rt.answers, &v)
				}
				return rt
			}
			api := func(what string, f func() error) {
				err, calls, _, _ := h.api(f)
				own.note(calls)
				trace = append(trace, fmt.Sprintf("%s -> %s calls=%s", what, serr(err), callsString(calls)))
			}
			step := func() {
				sr := h.step()
				if sr.popErr == nil && len(sr.execs) > 0 {
					if tj, ok := sr.popped.JobDetail().Job().(*tagJob); ok {
						if v := own.dispatch(tj.tag, sr.popped.NextRunTime()); v != "" {
							viol = append(viol, fmt.Sprintf("%s | directed sequence %s (T0=%d): %s; step popped %s and executed job(s) %v", v, sc, T0, strings.Join(trace, "; "), entryString(sr.popped), sr.execs))
						}
					}
				}
				own.note(sr.calls)
				trace = append(trace, fmt.Sprintf("step -> execs=%v calls=%s", sr.execs, callsString(sr.calls)))
			}
			jd := func(tag int, replace bool) *quartz.JobDetail {
				o := quartz.NewDefaultJobDetailOptions()
				o.Replace = replace
				return quartz.NewJobDetailWithOptions(&tagJob{tag: tag, run: h.recordExec}, key, o)
			}
			switch sc {
			case "A", "A'":
				var tr quartz.Trigger = &recTrig{tag: 1, log: &h.tlog, mu: &h.tmu, inner: quartz.NewRunOnceTrigger(time.Hour)}
				if sc == "A'" {
					tr = script(1, quartz.ErrTriggerExpired, T0-10*minute)
				}
				api("ScheduleJob(one-shot trigger)", func() error { return h.s.ScheduleJob(jd(1, false), tr) })
				api("PauseJob", func() error { return h.s.PauseJob(key) })
				api("ResumeJob", func() error { return h.s.ResumeJob(key) })
				step()
			case "B":
				api("ScheduleJob(script T0-3h, T0-2h, T0+1h)", func() error { return h.s.ScheduleJob(jd(1, false), script(1, nil, T0-3*hour, T0-2*hour, T0+hour)) })
				step()
				step()
				step()
			case "C":
				api("ScheduleJob(K, script T0-10min, T0+1h)", func() error { return h.s.ScheduleJob(jd(1, false), script(1, nil, T0-10*minute, T0+hour)) })
				api("ScheduleJob(K, Replace, script T0+2h)", func() error { return h.s.ScheduleJob(jd(2, true), script(2, nil, T0+2*hour)) })
				step()
			}
		}()
	}
	return viol
}
