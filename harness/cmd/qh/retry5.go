package main

// qh retry5 — C13 when the scheduler's context ends by an expired DEADLINE.
//
// "A job execution that returns an error is re-attempted until it succeeds, MaxRetries further attempts have been made or the
// scheduler's context ends, with at least RetryInterval between attempts". The context given to Start may end in two ways: it is
// cancelled (cancel() / Stop(): ctx.Err() == context.Canceled — the scenarios of retry.go) or its deadline expires
// (context.WithTimeout / WithDeadline on it or on an ancestor: ctx.Err() == context.DeadlineExceeded). Nothing in the property makes
// a difference between the two, so the retry sequence has to end either way. Scenarios, every one in the three dispatch modes, with
// the deadline on the context passed to Start itself ("direct") and on its grandparent ("ancestor"):
//
//	wait k     every attempt fails at once, MaxRetries 3, RetryInterval 300 ms; the deadline expires in the middle of the k-th retry
//	           wait (k = 1, 2). Nobody calls cancel() or Stop() before the verdict.
//	attempt k  every attempt fails, MaxRetries 4, RetryInterval 20 ms / 0 / -1 ms; attempt k (k = 1, 2) stays inside Execute until
//	           it has SEEN the context end (deadline 150 ms), then fails 2 ms later.
//
// Judged against the property text only (all one-sided; no load on the machine can make the unchanged code fail them):
//
//	gap        attempt i+1 starts no earlier than RetryInterval (minus 1 ms of clock slack) after attempt i returned — a timer never
//	           fires early, so this holds however late anything is;
//	after-end  "re-attempted until the scheduler's context ends": an attempt i >= 2 that is entered with a context that has ALREADY
//	           ended. One such attempt can be the documented race (the context ends between the loop's last look at it and the first
//	           statement of Execute, a few instructions) and is let through unless it also starts more than 100 ms after the context
//	           was seen to end; two of them cannot: after the first one the loop's wait finds the context ended;
//	in-attempt the context ended (and the job has seen it end) while attempt k was running: no attempt k+1 may start, whatever the
//	           RetryInterval (the existing judgment of retryCancelInAttempt, for the third way a context can end).

import (
	"context"
	"flag"
	"fmt"
	"sort"
	"sync"
	"time"

	"github.com/reugn/go-quartz/quartz"
)

func init() { commands["retry5"] = retry5Run }

type r5Case struct {
	Mode     int
	CtxKind  string // direct | ancestor
	Phase    string // wait | attempt
	K        int
	Interval time.Duration
	Deadline time.Duration
	MaxRetry int
}

func (c r5Case) String() string {
	where := fmt.Sprintf("in the middle of retry wait %d", c.K)
	if c.Phase == "attempt" {
		where = fmt.Sprintf("while attempt %d is running (the attempt returns its error 2 ms after it has seen the context end)", c.K)
	}
	on := "the context given to Start is context.WithTimeout(Background, " + c.Deadline.String() + ")"
	if c.CtxKind == "ancestor" {
		on = "the context given to Start is a WithCancel child of a WithValue child of context.WithDeadline(Background, now+" + c.Deadline.String() + ")"
	}
	return fmt.Sprintf("mode=%s MaxRetries=%d RetryInterval=%v every attempt fails; %s, its deadline expires %s; no cancel(), no Stop()",
		retryModes[c.Mode], c.MaxRetry, c.Interval, on, where)
}

type r5Attempt struct {
	start, end time.Time
	deadCtx    bool
}

type r5Job struct {
	mu       sync.Mutex
	att      []r5Attempt
	blockAt  int
	runCtx   context.Context // the context given to Start (the job's own argument may be derived from it)
	sawEnd   chan struct{}
	blockMax time.Duration
}

type r5Key struct{}

func (j *r5Job) Execute(ctx context.Context) error {
	now := time.Now()
	j.mu.Lock()
	j.att = append(j.att, r5Attempt{start: now, deadCtx: j.runCtx.Err() != nil})
	k := len(j.att)
	j.mu.Unlock()
	if k == j.blockAt {
		t := time.NewTimer(j.blockMax)
		select {
		case <-ctx.Done():
			select {
			case <-j.runCtx.Done(): // the scheduler's own context, not only the one handed to the job
				close(j.sawEnd)
			default:
			}
			time.Sleep(2 * time.Millisecond)
		case <-t.C:
		}
		t.Stop()
	}
	j.mu.Lock()
	j.att[k-1].end = time.Now()
	j.mu.Unlock()
	return fmt.Errorf("attempt %d fails", k)
}
func (j *r5Job) Description() string { return "r5-failer" }

type r5Result struct {
	Case     string  `json:"case"`
	Reached  bool    `json:"reached"` // the deadline really fell where the scenario wants it
	Attempts int     `json:"attempts"`
	GapsMs   []int64 `json:"gaps_ms"`
	viol     []string
}

func r5Run(c r5Case) (res r5Result) {
	res.Case = c.String()
	opts := []quartz.SchedulerOpt{quartz.WithOutdatedThreshold(time.Minute)}
	switch c.Mode {
	case 0:
		opts = append(opts, quartz.WithBlockingExecution())
	case 1:
		opts = append(opts, quartz.WithWorkerLimit(2))
	}
	s, err := quartz.NewStdScheduler(opts...)
	must(err)
	var runCtx context.Context
	var cancels []context.CancelFunc
	if c.CtxKind == "direct" {
		cx, cf := context.WithTimeout(context.Background(), c.Deadline)
		runCtx, cancels = cx, append(cancels, cf)
	} else {
		gp, cf1 := context.WithDeadline(context.Background(), time.Now().Add(c.Deadline))
		cx, cf2 := context.WithCancel(context.WithValue(gp, r5Key{}, "x"))
		runCtx, cancels = cx, append(cancels, cf2, cf1)
	}
	var ended time.Time // when the harness saw the run context end (never earlier than it did)
	endSeen := make(chan struct{})
	go func() {
		<-runCtx.Done()
		ended = time.Now()
		close(endSeen)
	}()
	j := &r5Job{runCtx: runCtx, sawEnd: make(chan struct{}), blockMax: 10 * time.Second}
	if c.Phase == "attempt" {
		j.blockAt = c.K
	}
	jo := quartz.NewDefaultJobDetailOptions()
	jo.MaxRetries, jo.RetryInterval = c.MaxRetry, c.Interval
	s.Start(runCtx)
	must(s.ScheduleJob(quartz.NewJobDetailWithOptions(j, quartz.NewJobKey("r5"), jo), quartz.NewRunOnceTrigger(time.Millisecond)))

	// let the deadline pass by itself, then leave the retry sequence the time it would need to go on if it (wrongly) did
	select {
	case <-endSeen:
	case <-time.After(c.Deadline + 10*time.Second):
		for _, cf := range cancels {
			cf()
		}
		s.Stop()
		res.viol = append(res.viol, fmt.Sprintf("C13 harness: the run context did not end within 10 s of its deadline [%s]", res.Case))
		return res
	}
	deadlineErr := runCtx.Err()
	if c.Phase == "attempt" {
		select {
		case <-j.sawEnd:
		case <-time.After(300 * time.Millisecond):
		}
		time.Sleep(60 * time.Millisecond) // 2 ms inside the attempt + RetryInterval 20 ms: a further attempt would have started
	} else {
		time.Sleep(c.Interval + 100*time.Millisecond) // the interrupted wait would have ended by now
	}
	wctx, wc := context.WithTimeout(context.Background(), 5*time.Second)
	s.Wait(wctx)
	waited := wctx.Err() == nil
	wc()
	for _, cf := range cancels {
		cf()
	}
	s.Stop()
	time.Sleep(5 * time.Millisecond)

	j.mu.Lock()
	att := append([]r5Attempt(nil), j.att...)
	j.mu.Unlock()
	res.Attempts = len(att)
	desc := res.Case
	if deadlineErr != context.DeadlineExceeded {
		res.viol = append(res.viol, fmt.Sprintf("C13 harness: the run context did not end by its deadline within 10 s (Err=%v) [%s]", deadlineErr, desc))
		return res
	}
	if !waited {
		res.viol = append(res.viol, fmt.Sprintf("C13 Wait did not return within 5 s after the scheduler's context had ended by its deadline [%s]", desc))
	}
	// gap: timing-independent
	short := ""
	for i := 1; i < len(att); i++ {
		if att[i-1].end.IsZero() {
			continue
		}
		gap := att[i].start.Sub(att[i-1].end)
		res.GapsMs = append(res.GapsMs, gap.Milliseconds())
		if c.Interval > 0 && gap < c.Interval-time.Millisecond && short == "" {
			short = fmt.Sprintf("attempt %d started %v after attempt %d had returned its error, RetryInterval is %v", i+1, gap.Round(time.Microsecond), i, c.Interval)
		}
	}
	// after-end
	dead, lateDead := 0, 0
	for i := 1; i < len(att); i++ {
		if att[i].deadCtx {
			dead++
			if att[i].start.Sub(ended) > 100*time.Millisecond {
				lateDead++
			}
		}
	}
	endAt := func() string {
		if len(att) == 0 {
			return "before the first attempt"
		}
		return fmt.Sprintf("%v after the first attempt started", ended.Sub(att[0].start).Round(time.Millisecond))
	}
	switch c.Phase {
	case "wait":
		// reached: attempt K had returned before the context ended and attempt K+1 (if any) did not start before it
		res.Reached = len(att) >= c.K && !att[c.K-1].end.IsZero() && att[c.K-1].end.Before(ended) && (len(att) == c.K || !att[c.K].start.Before(ended))
		if short != "" {
			res.viol = append(res.viol, fmt.Sprintf("C13 less than RetryInterval between attempts when the scheduler's context ends by an expired deadline: %s (%d attempts in all, gaps %v ms; the context ended %s) [%s]",
				short, len(att), res.GapsMs, endAt(), desc))
		}
		if dead >= 2 || lateDead >= 1 {
			res.viol = append(res.viol, fmt.Sprintf("C13 the job was re-attempted after the scheduler's context had ended (deadline expired): %d of its %d attempts were entered with a context that had already ended, the property allows none (the context ended %s) [%s]",
				dead, len(att), endAt(), desc))
		}
	case "attempt":
		select {
		case <-j.sawEnd:
			res.Reached = true
		default:
		}
		if res.Reached && len(att) > c.K {
			res.viol = append(res.viol, fmt.Sprintf("C13 the scheduler's context ended (deadline expired) while attempt %d was running and the attempt saw it end before it failed, yet %d attempt(s) were made in all (%d of them entered with a context that had already ended; gaps %v ms) [%s]",
				c.K, len(att), dead, res.GapsMs, desc))
		}
	}
	return res
}

func retry5Run(args []string) int {
	fs := flag.NewFlagSet("retry5", flag.ExitOnError)
	seed := fs.Int64("seed", 1, "")
	n := fs.Int("n", 1, "rounds of the scenario set")
	out := fs.String("out", "", "")
	fs.Parse(args)
	t0 := time.Now()
	var cases []r5Case
	for round := 0; round < *n; round++ {
		for mode := range retryModes {
			for _, kind := range []string{"direct", "ancestor"} {
				for k := 1; k <= 2; k++ {
					// attempt k returns at about (k-1)*300 ms; the deadline is 150 ms later, 150 ms before the wait would end
					cases = append(cases, r5Case{Mode: mode, CtxKind: kind, Phase: "wait", K: k, Interval: 300 * time.Millisecond,
						Deadline: time.Duration(k-1)*300*time.Millisecond + 150*time.Millisecond, MaxRetry: 3})
					for _, iv := range []time.Duration{20 * time.Millisecond, 0, -time.Millisecond} {
						cases = append(cases, r5Case{Mode: mode, CtxKind: kind, Phase: "attempt", K: k, Interval: iv, Deadline: 150 * time.Millisecond, MaxRetry: 4})
					}
				}
			}
		}
	}
	results := make([]r5Result, len(cases))
	var wg sync.WaitGroup
	for i := range cases {
		wg.Add(1)
		go func(i int) {
			defer wg.Done()
			results[i] = r5Run(cases[i])
		}(i)
	}
	wg.Wait()
	viol := []string{}
	dist := map[string]map[string]int{"mode": {}, "context": {}, "deadline expires": {}, "reached": {}, "attempts": {}}
	distinct := map[string]bool{}
	evals := 0
	samples := []any{}
	for i, res := range results {
		c := cases[i]
		evals += res.Attempts
		dist["mode"][retryModes[c.Mode]]++
		dist["context"][c.CtxKind]++
		ph := fmt.Sprintf("%s %d", c.Phase, c.K)
		dist["deadline expires"][ph]++
		dist["attempts"][fmt.Sprint(res.Attempts)]++
		if res.Reached {
			dist["reached"]["yes"]++
			distinct[fmt.Sprintf("%d/%s/%s/%v", c.Mode, c.CtxKind, ph, c.Interval)] = true
		} else {
			dist["reached"]["no (the deadline fell elsewhere: machine load)"]++
		}
		viol = append(viol, res.viol...)
		if i%11 == 0 && len(samples) < 6 {
			samples = append(samples, res)
		}
	}
	sort.Strings(viol)
	if len(viol) > 20 {
		viol = viol[:20]
	}
	writeJSON(*out+"/stats.json", map[string]any{"seed": *seed, "evaluations": evals, "scenarios": len(cases), "distinct_nontrivial": len(distinct),
		"distribution": dist, "violations": viol, "samples": samples, "wall_s": time.Since(t0).Seconds()})
	fmt.Printf("retry5: %d deadline scenarios (%d reached) in %.1fs, %d attempts observed, %d property violations\n",
		len(cases), dist["reached"]["yes"], time.Since(t0).Seconds(), evals, len(viol))
	return 0
}
