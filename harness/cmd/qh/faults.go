package main

import (
	"bufio"
	"context"
	"encoding/json"
	"errors"
	"flag"
	"fmt"
	"math/rand"
	"os"
	"runtime"
	"sort"
	"strings"
	"sync"
	"sync/atomic"
	"time"

	"verif/harness/internal/sup"

	"github.com/reugn/go-quartz/quartz"
)

// qh faults — C15: the real scheduler over a failing / slow custom JobQueue (public API only).
//
// fqQueue wraps the default queue; a plan decides for every call (by global call index, operation, caller side
// and time) whether it fails with errInjected (without touching the stored entries) or is delayed by 50 ms.
// Workload: 3 jobs with recording interval triggers (20/30/40 ms), RetryInterval 50 ms, a fixed script of API calls.
//
//	single  the k-th queue call (k = 0..119, loop-side and API calls counted together) fails / is delayed
//	burst   all calls of a set of operations fail / are slow for 400 ms (or 60 ms, so that the back-off is still running
//	        when the faults stop) while jobs are due; the loop-side calls inside the window are counted (the code
//	        before the repair made ~150 000 calls in 500 ms)
//	spurious-empty  for 400 ms (30/60/90 ms) Size() reports 1 (or 3) while Head() and Pop() return an error that wraps
//	        quartz.ErrQueueEmpty: no call "fails" in the loop's eyes, so its back-off state does not apply; the loop-side
//	        calls in the window are counted against the same limit (the code before the repair made ~145 000 Head calls
//	        in 500 ms)
//	empty-pop  for 400 ms (30/60/90 ms) Size() and Head() answer truthfully (three stored jobs, the head due) while Pop()
//	        returns an error that wraps quartz.ErrQueueEmpty, as when another node of a clustered queue claims the head
//	        (the code before the repair made ~140 000 Pop calls in 500 ms); same limit, recovery afterwards
//	random  seeded mix: every call fails / is slow with some probability, random API calls in between
//
// Judged per plan: no panic and no hang (each plan runs in a supervised child process), every API call returns within
// 2 s, an API call returns an error that errors.Is the injected one exactly when one of its own queue calls was made
// to fail, no fire time handed out by a trigger is consumed twice and no job runs more often than fire times were
// consumed, at most fqBurstLimit loop-side calls per burst window, and once the faults stop every job that is still
// stored in the (inner) queue and not paused runs again within 1 s — although the harness keeps scheduling unrelated
// far-future jobs every 15 ms during that time (API traffic, i.e. interrupt tokens, must not postpone the recovery).

func init() { commands["faults"] = faultsRun }

var errInjected = errors.New("injected queue fault")

const (
	fqRetry      = 50 * time.Millisecond
	fqDelay      = 50 * time.Millisecond
	fqBurstWin   = 400 * time.Millisecond
	fqBurstLimit = 200 // expected ~2 calls per RetryInterval = ~16; a spinning loop makes > 10^5
	fqRecover    = time.Second
	fqWatch      = 2 * time.Second
	fqAPILimit   = 2 * time.Second
)

type fqPlan struct {
	ID     int      `json:"id"`
	Kind   string   `json:"kind"` // single | burst | random
	Mode   string   `json:"mode"` // fail | delay | mixed
	Index  int      `json:"index,omitempty"`
	Ops    []string `json:"ops,omitempty"`
	Side   string   `json:"side,omitempty"` // loop | api | both
	Seed   int64    `json:"seed,omitempty"`
	PFail  float64  `json:"pfail,omitempty"`
	PDelay float64  `json:"pdelay,omitempty"`
	WinMs  int      `json:"win_ms,omitempty"` // burst window, default fqBurstWin
	// Traffic: successful queue-modifying API calls (ScheduleJob of unrelated far-future jobs, one every 10 ms) arrive DURING the
	// burst; each is an interrupt. The failing loop-side call must still be retried no faster than once per RetryInterval.
	Traffic bool `json:"traffic,omitempty"`
	// Size2Fails (kind empty-pop): the Size() call the scheduler makes right after an empty Pop, inside fetchAndReschedule, fails
	// (two faults at one point); the Size() at the top of the loop answers truthfully.
	Size2Fails bool `json:"size2_fails,omitempty"`
}

// windowed: the faults of this plan are active during one time window that starts once the jobs are running
func (p fqPlan) windowed() bool {
	return p.Kind == "burst" || p.Kind == "spurious-empty" || p.Kind == "empty-pop"
}

func (p fqPlan) sizeReported() int {
	if p.Index > 0 {
		return p.Index
	}
	return 1
}

func (p fqPlan) win() time.Duration {
	if p.WinMs > 0 {
		return time.Duration(p.WinMs) * time.Millisecond
	}
	return fqBurstWin
}

func (p fqPlan) String() string {
	switch p.Kind {
	case "single":
		return fmt.Sprintf("plan %d: queue call number %d %ss", p.ID, p.Index, p.Mode)
	case "burst":
		if p.Traffic {
			return fmt.Sprintf("plan %d: every %s-side %s call %ss for %v while an unrelated job is scheduled every 10 ms", p.ID, p.Side, strings.Join(p.Ops, "/"), p.Mode, p.win())
		}
		return fmt.Sprintf("plan %d: every %s-side %s call %ss for %v", p.ID, p.Side, strings.Join(p.Ops, "/"), p.Mode, p.win())
	case "spurious-empty":
		return fmt.Sprintf("plan %d: for %v Size() reports %d while Head() and Pop() return an error wrapping ErrQueueEmpty", p.ID, p.win(), p.sizeReported())
	case "empty-pop":
		if p.Size2Fails {
			return fmt.Sprintf("plan %d: for %v Size() at the top of the loop and Head() answer truthfully (jobs are stored and due), Pop() returns an error wrapping ErrQueueEmpty and the Size() asked right after it fails", p.ID, p.win())
		}
		return fmt.Sprintf("plan %d: for %v Size() and Head() answer truthfully (jobs are stored and due) while Pop() returns an error wrapping ErrQueueEmpty", p.ID, p.win())
	}
	return fmt.Sprintf("plan %d: random faults seed %d (fail %.2f, delay %.2f, ops %s, side %s)", p.ID, p.Seed, p.PFail, p.PDelay, strings.Join(p.Ops, "/"), p.Side)
}

type fqCall struct {
	op    string
	loop  bool
	at    time.Time
	fault string // "", fail, delay
}

type fqQueue struct {
	inner quartz.JobQueue
	plan  fqPlan
	rnd   *rand.Rand
	mu    sync.Mutex
	idx   int
	calls []fqCall
	on    atomic.Bool // faults enabled
	t0    time.Time   // start of the burst window
	// API-side bookkeeping (API calls are issued by one driver goroutine, one at a time)
	apiActive   atomic.Bool
	apiInjected atomic.Int32
	loopEmpty   atomic.Bool // the loop-side call in progress answers "size but no head"
}

// fqInFetch: the queue call in progress is made by fetchAndReschedule (the Size() that follows an empty Pop)
func fqInFetch() bool {
	pcs := make([]uintptr, 24)
	n := runtime.Callers(3, pcs)
	frames := runtime.CallersFrames(pcs[:n])
	for {
		f, more := frames.Next()
		if strings.Contains(f.Function, "fetchAndReschedule") {
			return true
		}
		if !more {
			return false
		}
	}
}

func fqLoopSide() (loop, known bool) {
	pcs := make([]uintptr, 24)
	n := runtime.Callers(3, pcs)
	frames := runtime.CallersFrames(pcs[:n])
	for {
		f, more := frames.Next()
		if strings.Contains(f.Function, "startExecutionLoop") || strings.Contains(f.Function, "fetchAndReschedule") {
			return true, true
		}
		if strings.Contains(f.Function, "fqDriver") {
			return false, true
		}
		if !more {
			break
		}
	}
	return false, false
}

// before decides the fate of one call: returns true if it must fail.
func (q *fqQueue) before(op string) bool {
	loop := op == "size" || op == "head" || op == "pop"
	if op == "push" {
		l, known := fqLoopSide()
		loop = l
		if !known {
			loop = !q.apiActive.Load()
		}
	}
	q.mu.Lock()
	i := q.idx
	q.idx++
	fault := ""
	if q.on.Load() {
		inOps := len(q.plan.Ops) == 0
		for _, o := range q.plan.Ops {
			if o == op {
				inOps = true
			}
		}
		sideOK := q.plan.Side == "" || q.plan.Side == "both" || (q.plan.Side == "loop") == loop
		switch q.plan.Kind {
		case "single":
			if i == q.plan.Index {
				fault = q.plan.Mode
			}
		case "burst":
			if inOps && sideOK && !q.t0.IsZero() && time.Since(q.t0) < q.plan.win() {
				fault = q.plan.Mode
			}
		case "spurious-empty":
			if loop && (op == "size" || op == "head" || op == "pop") && !q.t0.IsZero() && time.Since(q.t0) < q.plan.win() {
				fault = "empty"
			}
		case "empty-pop":
			if op == "pop" && !q.t0.IsZero() && time.Since(q.t0) < q.plan.win() {
				fault = "empty"
			}
			if q.plan.Size2Fails && op == "size" && !q.t0.IsZero() && time.Since(q.t0) < q.plan.win() && fqInFetch() {
				fault = "fail"
			}
		case "random":
			if inOps && sideOK {
				x := q.rnd.Float64()
				switch {
				case x < q.plan.PFail:
					fault = "fail"
				case x < q.plan.PFail+q.plan.PDelay:
					fault = "delay"
				}
			}
		}
	}
	q.calls = append(q.calls, fqCall{op, loop, time.Now(), fault})
	q.mu.Unlock()
	if op == "size" || op == "head" || op == "pop" {
		q.loopEmpty.Store(fault == "empty")
	}
	switch fault {
	case "delay":
		time.Sleep(fqDelay)
	case "fail":
		if !loop {
			q.apiInjected.Add(1)
		}
		return true
	}
	return false
}

// spurious reports whether the loop-side Size/Head/Pop call that was just admitted by before() must pretend that
// the queue has a size but no head. (These three are made by the loop goroutine only, one after the other.)
func (q *fqQueue) spurious() bool {
	return (q.plan.Kind == "spurious-empty" || q.plan.Kind == "empty-pop") && q.loopEmpty.Load()
}

func (q *fqQueue) Push(j quartz.ScheduledJob) error {
	if q.before("push") {
		return fmt.Errorf("push: %w", errInjected)
	}
	return q.inner.Push(j)
}
func (q *fqQueue) Pop() (quartz.ScheduledJob, error) {
	if q.before("pop") {
		return nil, fmt.Errorf("pop: %w", errInjected)
	}
	if q.spurious() {
		return nil, fmt.Errorf("pop: nothing visible yet: %w", quartz.ErrQueueEmpty)
	}
	return q.inner.Pop()
}
func (q *fqQueue) Head() (quartz.ScheduledJob, error) {
	if q.before("head") {
		return nil, fmt.Errorf("head: %w", errInjected)
	}
	if q.spurious() {
		return nil, fmt.Errorf("head: nothing visible yet: %w", quartz.ErrQueueEmpty)
	}
	return q.inner.Head()
}
func (q *fqQueue) Size() (int, error) {
	if q.before("size") {
		return 0, fmt.Errorf("size: %w", errInjected)
	}
	if q.spurious() {
		return q.plan.sizeReported(), nil
	}
	return q.inner.Size()
}
func (q *fqQueue) Get(k *quartz.JobKey) (quartz.ScheduledJob, error) {
	if q.before("get") {
		return nil, fmt.Errorf("get: %w", errInjected)
	}
	return q.inner.Get(k)
}
func (q *fqQueue) Remove(k *quartz.JobKey) (quartz.ScheduledJob, error) {
	if q.before("remove") {
		return nil, fmt.Errorf("remove: %w", errInjected)
	}
	return q.inner.Remove(k)
}
func (q *fqQueue) ScheduledJobs(m []quartz.Matcher[quartz.ScheduledJob]) ([]quartz.ScheduledJob, error) {
	if q.before("list") {
		return nil, fmt.Errorf("list: %w", errInjected)
	}
	return q.inner.ScheduledJobs(m)
}
func (q *fqQueue) Clear() error {
	if q.before("clear") {
		return fmt.Errorf("clear: %w", errInjected)
	}
	return q.inner.Clear()
}

// fqTrig hands out prev+interval and records what it handed out and which of those came back as prev.
type fqTrig struct {
	interval time.Duration
	mu       sync.Mutex
	handed   map[int64]bool
	consumed map[int64]int
}

func (t *fqTrig) NextFireTime(prev int64) (int64, error) {
	t.mu.Lock()
	defer t.mu.Unlock()
	if t.handed[prev] {
		t.consumed[prev]++
	}
	v := prev + int64(t.interval)
	t.handed[v] = true
	return v, nil
}
func (t *fqTrig) Description() string { return "fq" }

type fqJob struct {
	name string
	mu   sync.Mutex
	runs []time.Time
}

func (j *fqJob) Execute(context.Context) error {
	j.mu.Lock()
	j.runs = append(j.runs, time.Now())
	j.mu.Unlock()
	return nil
}
func (j *fqJob) Description() string { return j.name }
func (j *fqJob) runsAfter(t time.Time) int {
	j.mu.Lock()
	defer j.mu.Unlock()
	n := 0
	for _, r := range j.runs {
		if r.After(t) {
			n++
		}
	}
	return n
}

type fqReport struct {
	Plan        string         `json:"plan"`
	Violations  []string       `json:"violations"`
	Soft        []string       `json:"soft,omitempty"` // time-based findings that get a second opinion
	Hit         map[string]int `json:"hit"`            // faults actually injected: side/op/mode
	Calls       int            `json:"calls"`
	BurstCalls  int            `json:"burst_calls"`
	APICalls    int            `json:"api_calls"`
	APIFaulted  int            `json:"api_faulted"`
	Executions  int            `json:"executions"`
	Consumed    int            `json:"consumed"`
	Stored      int            `json:"stored_after_faults"`
	RecoveredMs float64        `json:"recovered_ms"`
	Traffic     int            `json:"traffic_calls_during_recovery"`
}

type fqNop struct{}

func (fqNop) Execute(context.Context) error { return nil }
func (fqNop) Description() string           { return "traffic" }

type fqHarness struct {
	q    *fqQueue
	s    quartz.Scheduler
	jobs map[string]*fqJob
	trs  map[string]*fqTrig
	rep  *fqReport
	plan fqPlan
}

func (h *fqHarness) newJob(name string, interval time.Duration) (*quartz.JobDetail, quartz.Trigger) {
	j, ok := h.jobs[name]
	if !ok {
		j = &fqJob{name: name}
		h.jobs[name] = j
	}
	t := &fqTrig{interval: interval, handed: map[int64]bool{}, consumed: map[int64]int{}}
	h.trs[fmt.Sprintf("%s#%d", name, len(h.trs))] = t
	return quartz.NewJobDetail(j, quartz.NewJobKey(name)), t
}

// fqDriver issues one API call with a deadline and judges the error it returns. (Its name is looked for on the stack.)
// fqFlags: the paused flag of every stored job, by key
func (h *fqHarness) fqFlags() map[string]bool {
	m := map[string]bool{}
	stored, _ := h.q.inner.ScheduledJobs(nil)
	for _, sj := range stored {
		m[sj.JobDetail().JobKey().String()] = sj.JobDetail().Options().Suspended
	}
	return m
}

func (h *fqHarness) fqDriver(what string, f func() error) (err error, hung bool) {
	before := h.fqFlags()
	defer func() {
		// an API call that returned the queue's error must not leave a job stored with a changed paused flag (it would silently stop
		// firing, or fire although listed as paused); that the job may be gone after a failed re-push is the non-transactional queue interface
		if err != nil && errors.Is(err, errInjected) {
			for k, a := range h.fqFlags() {
				if b, ok := before[k]; ok && a != b {
					h.rep.Violations = append(h.rep.Violations, fmt.Sprintf("C15 %s returned the queue's error but job %s is still stored with its paused flag changed from %v to %v (%s)", what, k, b, a, h.plan))
				}
			}
		}
	}()
	h.q.apiInjected.Store(0)
	h.q.apiActive.Store(true)
	done := make(chan error, 1)
	go func() {
		defer func() {
			if r := recover(); r != nil {
				done <- fmt.Errorf("panic: %v", r)
			}
		}()
		done <- fqDriverCall(f)
	}()
	select {
	case err = <-done:
	case <-time.After(fqAPILimit):
		h.rep.Violations = append(h.rep.Violations, fmt.Sprintf("C15 deadlock: %s did not return within %v (%s)", what, fqAPILimit, h.plan))
		return nil, true
	}
	h.q.apiActive.Store(false)
	h.rep.APICalls++
	inj := h.q.apiInjected.Load()
	if inj > 0 {
		h.rep.APIFaulted++
	}
	switch {
	case err != nil && strings.HasPrefix(err.Error(), "panic: "):
		h.rep.Violations = append(h.rep.Violations, fmt.Sprintf("C15 %s panicked: %v (%s)", what, err, h.plan))
	case inj > 0 && !errors.Is(err, errInjected):
		h.rep.Violations = append(h.rep.Violations, fmt.Sprintf("C15 %s: a queue call it made failed with the injected error but it returned %v (%s)", what, err, h.plan))
	case inj == 0 && errors.Is(err, errInjected):
		h.rep.Violations = append(h.rep.Violations, fmt.Sprintf("C15 %s returned the injected queue error although none of its own queue calls failed (%s)", what, h.plan))
	}
	return err, false
}

func fqDriverCall(f func() error) error { return f() }

func fqRunPlan(plan fqPlan) (rep fqReport) {
	rep = fqReport{Plan: plan.String(), Violations: []string{}, Hit: map[string]int{}, RecoveredMs: -1}
	defer func() {
		if r := recover(); r != nil {
			rep.Violations = append(rep.Violations, fmt.Sprintf("C15 panic on the harness goroutine: %v (%s)", r, plan))
		}
	}()
	q := &fqQueue{inner: quartz.NewJobQueue(), plan: plan, rnd: rand.New(rand.NewSource(plan.Seed + 1))}
	s, err := quartz.NewStdScheduler(quartz.WithQueue(q, &sync.Mutex{}), quartz.WithRetryInterval(fqRetry))
	if err != nil {
		rep.Violations = append(rep.Violations, "C15 harness: "+err.Error())
		return rep
	}
	h := &fqHarness{q: q, s: s, jobs: map[string]*fqJob{}, trs: map[string]*fqTrig{}, rep: &rep, plan: plan}
	r := rand.New(rand.NewSource(plan.Seed))
	ctx, cancel := context.WithCancel(context.Background())
	defer cancel()
	q.on.Store(!plan.windowed()) // a burst starts once the jobs are running
	s.Start(ctx)
	intervals := map[string]time.Duration{"j1": 20 * time.Millisecond, "j2": 30 * time.Millisecond, "j3": 40 * time.Millisecond, "j4": 25 * time.Millisecond}
	sched := func(name string) func() error {
		return func() error { jd, t := h.newJob(name, intervals[name]); return s.ScheduleJob(jd, t) }
	}
	key := quartz.NewJobKey
	type step struct {
		at   time.Duration
		what string
		f    func() error
	}
	script := []step{
		{0, "ScheduleJob(j1)", sched("j1")}, {0, "ScheduleJob(j2)", sched("j2")}, {0, "ScheduleJob(j3)", sched("j3")},
	}
	menu := []step{
		{0, "GetJobKeys", func() error { _, e := s.GetJobKeys(); return e }},
		{0, "GetScheduledJob(j1)", func() error { _, e := s.GetScheduledJob(key("j1")); return e }},
		{0, "PauseJob(j2)", func() error { return s.PauseJob(key("j2")) }},
		{0, "ResumeJob(j2)", func() error { return s.ResumeJob(key("j2")) }},
		{0, "DeleteJob(j3)", func() error { return s.DeleteJob(key("j3")) }},
		{0, "ScheduleJob(j3)", sched("j3")},
		{0, "ScheduleJob(j4)", sched("j4")},
		{0, "Clear", func() error { return s.Clear() }},
		{0, "ScheduleJob(j1)", sched("j1")},
		{0, "ScheduleJob(j2)", sched("j2")},
	}
	phase := 260 * time.Millisecond
	switch plan.Kind {
	case "single":
		for i, m := range menu {
			m.at = time.Duration(35+22*i) * time.Millisecond
			script = append(script, m)
		}
	case "burst", "spurious-empty", "empty-pop":
		phase = 60*time.Millisecond + plan.win() // no API calls during the burst: every one of them is an interrupt
	case "random":
		for i := 0; i < 6+r.Intn(6); i++ {
			m := menu[r.Intn(len(menu))]
			m.at = time.Duration(10+r.Intn(240)) * time.Millisecond
			script = append(script, m)
		}
		sort.SliceStable(script, func(a, b int) bool { return script[a].at < script[b].at })
	}
	start := time.Now()
	burstStarted := false
	for _, st := range script {
		if d := st.at - time.Since(start); d > 0 {
			time.Sleep(d)
		}
		if _, hung := h.fqDriver(st.what, st.f); hung {
			return rep // the scheduler is stuck; leave it behind
		}
		if plan.windowed() && !burstStarted && st.what == "ScheduleJob(j3)" {
			time.Sleep(50 * time.Millisecond) // let every job fire at least once
			q.mu.Lock()
			q.t0 = time.Now()
			q.mu.Unlock()
			q.on.Store(true)
			burstStarted = true
			start = time.Now().Add(-60 * time.Millisecond)
		}
	}
	if plan.Traffic {
		for k := 0; time.Since(start) < phase; k++ {
			name := fmt.Sprintf("burst-traffic%d", k)
			if _, hung := h.fqDriver("ScheduleJob("+name+")", func() error {
				return s.ScheduleJob(quartz.NewJobDetail(&fqNop{}, quartz.NewJobKey(name)), quartz.NewSimpleTrigger(time.Hour))
			}); hung {
				return rep
			}
			time.Sleep(10 * time.Millisecond)
		}
	}
	if d := phase - time.Since(start); d > 0 {
		time.Sleep(d)
	}
	// faults stop
	q.on.Store(false)
	tStop := time.Now()
	time.Sleep(5 * time.Millisecond)
	stored, _ := q.inner.ScheduledJobs(nil)
	var expect []*fqJob
	for _, sj := range stored {
		if sj.JobDetail().Options().Suspended {
			continue
		}
		if j, ok := sj.JobDetail().Job().(*fqJob); ok {
			expect = append(expect, j)
		}
	}
	rep.Stored = len(expect)
	mark := time.Now()
	pending := func() []string {
		var p []string
		for _, j := range expect {
			if j.runsAfter(mark) == 0 {
				p = append(p, j.name)
			}
		}
		return p
	}
	// API traffic while the loop recovers: every successful ScheduleJob sends an interrupt token
	traffic, nextTraffic := 0, time.Now()
	for len(pending()) > 0 && time.Since(mark) < fqRecover+fqWatch {
		if !time.Now().Before(nextTraffic) {
			traffic++
			name := fmt.Sprintf("traffic%d", traffic)
			if _, hung := h.fqDriver("ScheduleJob("+name+")", func() error {
				return s.ScheduleJob(quartz.NewJobDetail(&fqNop{}, quartz.NewJobKey(name)), quartz.NewSimpleTrigger(time.Hour))
			}); hung {
				return rep
			}
			nextTraffic = time.Now().Add(15 * time.Millisecond)
		}
		time.Sleep(time.Millisecond)
	}
	rep.Traffic = traffic
	rec := time.Since(mark)
	rep.RecoveredMs = float64(rec.Microseconds()) / 1000
	if p := pending(); len(p) > 0 {
		rep.Violations = append(rep.Violations, fmt.Sprintf("C15 no recovery: job(s) %v were stored in the queue when the faults stopped and did not run within %v, during which %d unrelated jobs were scheduled (one every 15 ms) (%s)", p, fqRecover+fqWatch, traffic, plan))
	} else if rec > fqRecover {
		rep.Soft = append(rep.Soft, fmt.Sprintf("C15 slow recovery: the stored jobs needed %v to run again after the faults stopped, limit %v (%s)", rec, fqRecover, plan))
	}
	_ = tStop
	// shut down
	s.Stop()
	wctx, wc := context.WithTimeout(context.Background(), 5*time.Second)
	s.Wait(wctx)
	if wctx.Err() != nil {
		rep.Violations = append(rep.Violations, fmt.Sprintf("C15 deadlock: Wait did not return within 5 s after Stop (%s)", plan))
	}
	wc()
	// the call log
	failedInBurst := 0
	q.mu.Lock()
	rep.Calls = len(q.calls)
	for _, c := range q.calls {
		if c.fault != "" {
			side := "api"
			if c.loop {
				side = "loop"
			}
			rep.Hit[side+"/"+c.op+"/"+c.fault]++
		}
		if plan.windowed() && c.loop && !q.t0.IsZero() && c.at.After(q.t0) && c.at.Before(q.t0.Add(plan.win())) {
			rep.BurstCalls++
			if c.fault == "fail" {
				failedInBurst++
			}
		}
	}
	// call by call: after a failed loop-side call no loop-side call at all within RetryInterval (faults5.go)
	gapViol, _, early := fqBackoffGaps(q.calls, fqRetry, plan)
	if early <= 2 {
		rep.Soft = append(rep.Soft, gapViol...) // second opinion: the plan again, alone (see fqBackoffGaps)
	} else {
		rep.Violations = append(rep.Violations, gapViol...)
	}
	q.mu.Unlock()
	// the same judgment for every loop-side operation: since the repair of finding F4 (known_findings.txt, "size-head-retried-per-interrupt")
	// a failing Size() / Head() sets the back-off deadline like a failing Pop() / Push(), and the deadline is tested before Size() is asked
	if allowed := int(plan.win()/fqRetry) + 3; plan.Traffic && failedInBurst > allowed {
		rep.Violations = append(rep.Violations, fmt.Sprintf("C15 back-off not kept under API traffic: the failing loop-side call was made %d times within %v (RetryInterval %v allows %d): every interrupt retried the failing queue (%s)",
			failedInBurst, plan.win(), fqRetry, allowed, plan))
	}
	if plan.windowed() && rep.BurstCalls > fqBurstLimit {
		what := "while the queue was failing"
		switch plan.Kind {
		case "spurious-empty":
			what = "while the queue reported a size but had no head"
		case "empty-pop":
			what = "while the queue had a due head but nothing to pop"
		}
		rep.Violations = append(rep.Violations, fmt.Sprintf("C15 busy loop: %d loop-side queue calls within %v %s (RetryInterval %v allows about %d; limit %d) (%s)",
			rep.BurstCalls, plan.win(), what, fqRetry, 3*int(plan.win()/fqRetry)+3, fqBurstLimit, plan))
	}
	// fire times
	for name, t := range h.trs {
		t.mu.Lock()
		for ft, n := range t.consumed {
			rep.Consumed += n
			if n > 1 {
				rep.Violations = append(rep.Violations, fmt.Sprintf("C15 fire time %d of job %s was taken for execution %d times (%s)", ft, name, n, plan))
			}
		}
		t.mu.Unlock()
	}
	for name, j := range h.jobs {
		j.mu.Lock()
		runs := len(j.runs)
		j.mu.Unlock()
		rep.Executions += runs
		consumed := 0
		for tn, t := range h.trs {
			if strings.HasPrefix(tn, name+"#") {
				t.mu.Lock()
				for _, n := range t.consumed {
					consumed += n
				}
				t.mu.Unlock()
			}
		}
		if runs > consumed {
			rep.Violations = append(rep.Violations, fmt.Sprintf("C15 job %s ran %d times but only %d of its fire times were taken from the queue (%s)", name, runs, consumed, plan))
		}
	}
	return rep
}

func fqWorker() int {
	in := bufio.NewScanner(os.Stdin)
	in.Buffer(make([]byte, 1<<20), 1<<20)
	w := bufio.NewWriter(os.Stdout)
	for in.Scan() {
		var p fqPlan
		if err := json.Unmarshal(in.Bytes(), &p); err != nil {
			fmt.Fprintln(w, `{"violations":["C15 harness: bad plan"]}`)
			w.Flush()
			continue
		}
		rep := fqRunPlan(p)
		b, _ := json.Marshal(rep)
		w.Write(b)
		w.WriteByte('\n')
		w.Flush()
	}
	return 0
}

func faultsRun(args []string) int {
	fs := flag.NewFlagSet("faults", flag.ExitOnError)
	seed := fs.Int64("seed", 1, "")
	n := fs.Int("n", 120, "single faults cover the first n queue calls (x fail/delay); n/2 random mixes")
	par := fs.Int("par", 12, "worker processes")
	out := fs.String("out", "", "")
	worker := fs.Bool("worker", false, "internal: run plans from stdin")
	one := fs.String("plan", "", "run this one plan (JSON) in-process and print its report")
	fs.Parse(args)
	if *worker {
		return fqWorker()
	}
	if *one != "" {
		var p fqPlan
		must(json.Unmarshal([]byte(*one), &p))
		rep := fqRunPlan(p)
		b, _ := json.MarshalIndent(rep, "", " ")
		fmt.Println(string(b))
		return 0
	}
	r := rand.New(rand.NewSource(*seed))
	var plans []fqPlan
	add := func(p fqPlan) { p.ID = len(plans); plans = append(plans, p) }
	for k := 0; k < *n; k++ {
		add(fqPlan{Kind: "single", Mode: "fail", Index: k})
		add(fqPlan{Kind: "single", Mode: "delay", Index: k})
	}
	for _, ops := range [][]string{{"pop"}, {"push"}, {"size"}, {"head"}, {"pop", "head"}, {"size", "head", "pop", "push"}} {
		for _, mode := range []string{"fail", "delay"} {
			add(fqPlan{Kind: "burst", Mode: mode, Ops: ops, Side: "loop"})
		}
	}
	// short bursts: the faults stop while the back-off is running; recovery must not wait for the API traffic to end
	for _, ops := range [][]string{{"pop"}, {"push"}, {"pop", "push"}, {"size", "head", "pop", "push"}} {
		for _, w := range []int{30, 60, 90} {
			add(fqPlan{Kind: "burst", Mode: "fail", Ops: ops, Side: "loop", WinMs: w})
		}
	}
	for _, w := range []int{0, 30, 60, 90} {
		add(fqPlan{Kind: "spurious-empty", Mode: "empty", WinMs: w})
	}
	add(fqPlan{Kind: "spurious-empty", Mode: "empty", Index: 3})
	for _, ops := range [][]string{{"pop"}, {"push"}, {"pop", "push"}, {"size"}, {"head"}} {
		add(fqPlan{Kind: "burst", Mode: "fail", Ops: ops, Side: "loop", Traffic: true})
	}
	for _, w := range []int{0, 30, 60, 90} {
		add(fqPlan{Kind: "empty-pop", Mode: "empty", WinMs: w})
	}
	add(fqPlan{Kind: "empty-pop", Mode: "empty", Size2Fails: true})
	add(fqPlan{Kind: "empty-pop", Mode: "empty", Size2Fails: true, WinMs: 60})
	opsets := [][]string{nil, {"pop", "push"}, {"size", "head"}, {"push", "remove", "get"}, {"pop"}, {"push"}, {"get", "remove", "clear", "list"}}
	for k := 0; k < *n/2; k++ {
		add(fqPlan{Kind: "random", Mode: "mixed", Seed: r.Int63n(1 << 40), PFail: []float64{0.05, 0.2, 0.5, 0.9}[r.Intn(4)], PDelay: []float64{0, 0.05, 0.2}[r.Intn(3)],
			Ops: opsets[r.Intn(len(opsets))], Side: []string{"both", "both", "loop", "api"}[r.Intn(4)]})
	}
	t0 := time.Now()
	reqs := make([]string, len(plans))
	for i, p := range plans {
		reqs[i] = mustJSON(p)
	}
	answers := sup.Map(*par, 20*time.Second, []string{selfExe(), "faults", "--worker"}, reqs)

	viol := []string{}
	dist := map[string]map[string]int{"plan": {}, "fault_hit": {}, "outcome": {}, "burst_calls": {}, "recovery": {}}
	samples := []any{}
	evals, apiCalls, apiFaulted, execs := 0, 0, 0, 0
	distinct := map[string]bool{}
	maxBurst, maxRec := 0, 0.0
	judge := func(i int, ans string, second bool) (soft []string) {
		p := plans[i]
		switch {
		case ans == "hang":
			viol = append(viol, fmt.Sprintf("C15 deadlock or hang: the scheduler process did not finish the plan within 20 s (%s)", p))
			dist["outcome"]["hang"]++
			return nil
		case strings.HasPrefix(ans, "crash"):
			viol = append(viol, fmt.Sprintf("C15 panic / fatal error in the scheduler process: %s (%s)", ans, p))
			dist["outcome"]["crash"]++
			return nil
		}
		var rep fqReport
		if err := json.Unmarshal([]byte(ans), &rep); err != nil {
			viol = append(viol, fmt.Sprintf("C15 harness: unreadable worker answer %q (%s)", ans, p))
			return nil
		}
		viol = append(viol, rep.Violations...)
		if second {
			return rep.Soft
		}
		dist["plan"][p.Kind+"/"+p.Mode]++
		for k, v := range rep.Hit {
			dist["fault_hit"][k] += v
			distinct[p.Kind+":"+k] = true
		}
		if len(rep.Hit) == 0 {
			dist["plan"][p.Kind+"/"+p.Mode+" (no call was hit)"]++
		}
		evals += rep.Calls
		apiCalls += rep.APICalls
		apiFaulted += rep.APIFaulted
		execs += rep.Executions
		if len(rep.Violations) > 0 {
			dist["outcome"]["violation"]++
		} else {
			dist["outcome"]["ok"]++
		}
		if p.windowed() {
			switch {
			case rep.BurstCalls <= 30:
				dist["burst_calls"]["<=30"]++
			case rep.BurstCalls <= fqBurstLimit:
				dist["burst_calls"]["<=limit"]++
			default:
				dist["burst_calls"][">limit"]++
			}
			if rep.BurstCalls > maxBurst {
				maxBurst = rep.BurstCalls
			}
		}
		switch {
		case rep.Stored == 0:
			dist["recovery"]["nothing stored"]++
		case rep.RecoveredMs <= 100:
			dist["recovery"]["<=100ms"]++
		case rep.RecoveredMs <= 1000:
			dist["recovery"]["<=1s"]++
		default:
			dist["recovery"][">1s"]++
		}
		if rep.Stored > 0 && rep.RecoveredMs > maxRec {
			maxRec = rep.RecoveredMs
		}
		if i%(len(plans)/8+1) == 0 {
			samples = append(samples, rep)
		}
		return rep.Soft
	}
	type softCase struct {
		i    int
		soft []string
	}
	var softs []softCase
	for i, ans := range answers {
		if s := judge(i, ans, false); len(s) > 0 {
			softs = append(softs, softCase{i, s})
		}
	}
	// second opinion for time-based findings: the same plan again, alone
	for _, sc := range softs {
		w := sup.NewWorker(20*time.Second, selfExe(), "faults", "--worker")
		ans := w.Call(reqs[sc.i])
		w.Close()
		if s := judge(sc.i, ans, true); len(s) > 0 {
			viol = append(viol, sc.soft...)
		} else {
			dist["outcome"]["slow-under-load"]++
		}
	}
	stViol, stRuns := fqStaleTick(8)
	viol = append(append([]string{}, stViol...), viol...)
	evals += stRuns
	dist["plan"]["stale-timer-tick"] = stRuns
	// quiet recovery (faults3.go): Head() answers "empty" / fails a few times, then the queue recovers on its own and NO API call follows
	qrViol, qrRuns, qrReached := fqQuietRecovery()
	viol = append(append([]string{}, qrViol...), viol...)
	evals += qrRuns
	dist["plan"]["quiet-recovery"] = qrRuns
	dist["plan"]["quiet-recovery (fault reached)"] = qrReached
	if qrReached > 0 {
		distinct["quiet-recovery:loop/head/empty"] = true
	}
	if len(viol) > 40 {
		viol = viol[:40]
	}
	writeJSON(*out+"/stats.json", map[string]any{"seed": *seed, "evaluations": evals, "plans": len(plans), "distinct_nontrivial": len(distinct),
		"distribution": dist, "violations": viol, "samples": samples, "api_calls": apiCalls, "api_calls_with_injected_fault": apiFaulted,
		"executions": execs, "max_burst_calls": maxBurst, "burst_limit": fqBurstLimit, "max_recovery_ms": maxRec, "wall_s": time.Since(t0).Seconds()})
	fmt.Printf("faults: %d plans, %d queue calls, %d API calls (%d with an injected fault), %d executions, max %d loop-side calls per %v burst, slowest recovery %.0f ms, %.1fs, %d violations\n",
		len(plans), evals, apiCalls, apiFaulted, execs, maxBurst, fqBurstWin, maxRec, time.Since(t0).Seconds(), len(viol))
	return 0
}
