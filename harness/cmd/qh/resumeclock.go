package main

import (
	"context"
	"fmt"
	"sync"
	"sync/atomic"
	"time"

	"github.com/reugn/go-quartz/quartz"
)

// ---- ResumeJob while the queue lock is contended (C08) ---------------------------------------------------------------------
// "ResumeJob re-activates it with a fire time computed from the moment of resumption … against a concurrently running scheduler".
// The scheduler gets a sync.Locker with latency (WithQueue; think of a distributed lock): the Lock() call of ResumeJob(J) takes
// 150 ms to be granted. ResumeJob(J) is called (goroutine A) while J is still ACTIVE; while it waits for the lock, the main
// goroutine waits 20 ms and then calls PauseJob(J), which gets the lock at once, pauses J and returns. Then ResumeJob gets the
// lock, finds J paused and succeeds. Verdict, from the property text only and one-sided: the resumption cannot have happened
// before the job was paused, so the time the trigger is asked to compute the fire time from (the `prev` argument the recording
// trigger sees) must not lie before the moment PauseJob was CALLED (10 ms slack for the wall clock). If ResumeJob did not find the
// job paused (it got the lock first: ErrJobIsActive) the scenario is not reached and nothing is judged.

// latLocker is a mutex whose next Lock() call can be made slow: the caller waits `stall` before it even contends.
type latLocker struct {
	mu    sync.Mutex
	stall atomic.Int64  // ns the next Lock() call takes longer
	in    chan struct{} // signalled when a Lock() call has taken the stall
}

func (l *latLocker) Lock() {
	if d := l.stall.Swap(0); d > 0 {
		select {
		case l.in <- struct{}{}:
		default:
		}
		time.Sleep(time.Duration(d))
	}
	l.mu.Lock()
}
func (l *latLocker) Unlock() { l.mu.Unlock() }

// stressResumeContention: mode -1 = scheduler never started, 0 blocking, 1 worker pool, 2 unbounded.
func stressResumeContention(mode int) (viol []string, reached bool) {
	lk := &latLocker{in: make(chan struct{}, 1)}
	opts := []quartz.SchedulerOpt{quartz.WithQueue(quartz.NewJobQueue(), lk), quartz.WithOutdatedThreshold(time.Minute)}
	switch mode {
	case 0:
		opts = append(opts, quartz.WithBlockingExecution())
	case 1:
		opts = append(opts, quartz.WithWorkerLimit(2))
	}
	s, err := quartz.NewStdScheduler(opts...)
	must(err)
	ctx, cancel := context.WithCancel(context.Background())
	defer cancel()
	if mode >= 0 {
		s.Start(ctx)
		defer func() {
			s.Stop()
			wctx, wc := context.WithTimeout(context.Background(), 3*time.Second)
			s.Wait(wctx)
			wc()
		}()
	}
	key := quartz.NewJobKey("contended")
	trig := &stTrigger{interval: int64(time.Hour)} // nothing fires: the loop never takes the lock
	if err := s.ScheduleJob(quartz.NewJobDetail(&fnJob{f: func() {}}, key), trig); err != nil {
		return nil, false
	}
	const lockLatency, pauseAfter, slack = 150 * time.Millisecond, 20 * time.Millisecond, 10 * time.Millisecond
	lk.stall.Store(int64(lockLatency))
	type rres struct {
		err        error
		enter, ret int64
	}
	done := make(chan rres, 1)
	go func() {
		enter := quartz.NowNano()
		err := s.ResumeJob(key)
		done <- rres{err, enter, quartz.NowNano()}
	}()
	select {
	case <-lk.in:
	case <-time.After(2 * time.Second):
		lk.stall.Store(0)
		select {
		case <-done:
		case <-time.After(3 * time.Second):
		}
		return nil, false
	}
	time.Sleep(pauseAfter)
	pauseCalled := quartz.NowNano()
	perr := s.PauseJob(key)
	var rr rres
	select {
	case rr = <-done:
	case <-time.After(5 * time.Second):
		return nil, false
	}
	if perr != nil || rr.err != nil {
		return nil, false // ResumeJob got the lock before PauseJob (machine under load): it rightly refused an active job
	}
	trig.mu.Lock()
	calls := append([]stCall{}, trig.calls...)
	trig.mu.Unlock()
	if len(calls) < 2 {
		return []string{fmt.Sprintf("C08 ResumeJob of a paused job succeeded without asking the job's trigger for a fire time (mode %d, locker with latency)", mode)}, true
	}
	prev := calls[len(calls)-1].prev
	if prev < pauseCalled-int64(slack) {
		viol = append(viol, fmt.Sprintf("C08 ResumeJob computed the fire time from a moment BEFORE the job was paused: ResumeJob(J) was called while J was active and waited %v for the queue lock "+
			"(sync.Locker with latency, WithQueue); PauseJob(J), called %v later from another goroutine, paused J and returned; ResumeJob then found J paused and succeeded, "+
			"asking the trigger NextFireTime(prev) with prev = %v before PauseJob was even called (%v after ResumeJob was entered, %v before it returned): "+
			"not the moment of resumption [mode %d: -1 never started, 0 blocking, 1 worker pool, 2 unbounded]",
			lockLatency, pauseAfter, time.Duration(pauseCalled-prev), time.Duration(prev-rr.enter), time.Duration(rr.ret-prev), mode))
	}
	return viol, true
}
