package main

// qh sched2 — two scenario families on the real scheduler (public API), judged by the property text alone.
//
// C08 "ResumeJob re-activates it with a fire time computed from the moment of resumption":
//	ScheduleJob(K, recording interval trigger I) ; a ms later PauseJob(K) ; b ms later ResumeJob(K) ; GetScheduledJob(K).
//	The pause is SHORT (a + b far below I: the fire time that was pending at the pause is still ahead at the resumption) or long (I = 5 ms,
//	b = 12 ms: it has passed). Started / not started scheduler, default / copying queue, job re-paused and resumed a second time.
//	Verdict (exact, no tolerance): during ResumeJob the trigger must have been asked with a prev inside [invocation, return] of that
//	call (the clock the scheduler reads), answering R, and the fire time stored afterwards must be R, or R + k*I if the job has fired
//	k times since (started scheduler, I >= 1 s: k = 0 unless the machine stalls for seconds). A stored fire time that is the answer
//	to a question asked BEFORE the resumption (ScheduleJob's, or the one of the last firing) is the violation.
//
// C04 "each fire time the scheduler dequeues is either executed ... or skipped, offered to MisfiredChan and re-based; no fire time is
// silently dropped or invented", over a queue whose Push fails for a moment:
//	one 30 ms job with a recording trigger; the Push by which the execution loop stores the job's NEXT fire time fails (the 1st / 2nd /
//	3rd such Push; 1 or 2 consecutive Push calls fail), everything else is delegated to the default queue. RetryInterval 20 ms with
//	OutdatedThreshold 150 ms (a retried fire time is still on time), or RetryInterval 60 ms with OutdatedThreshold 20 ms (it is late).
//	Blocking execution: Pop, Execute and the misfire offer happen one after the other on the loop's goroutine, so every Execute is
//	attributed to the fire time of the entry popped last, every misfire to the fire time it carries. Verdict: no dequeued fire time is
//	accounted for (executed + offered as misfired) more than once, and every dequeued fire time that was due, except the last one
//	before Stop, at least once. Default / worker-pool execution: executions + misfires <= distinct fire times dequeued (after Wait).
//	What happens to the job after the failed Push (the unchanged code loses it) is not judged here.

import (
	"context"
	"errors"
	"flag"
	"fmt"
	"math/rand"
	"sync"
	"time"

	"github.com/reugn/go-quartz/quartz"
)

func init() { commands["sched2"] = sched2Run }

// ---------------------------------------------------------------------------------------------------------------- C08

type s2Ask struct{ prev, ans, at int64 }

type s2Trig struct {
	interval time.Duration
	mu       sync.Mutex
	asks     []s2Ask
}

func (t *s2Trig) NextFireTime(prev int64) (int64, error) {
	t.mu.Lock()
	defer t.mu.Unlock()
	v := prev + int64(t.interval)
	t.asks = append(t.asks, s2Ask{prev, v, time.Now().UnixNano()})
	return v, nil
}
func (t *s2Trig) Description() string { return "s2" }

type s2ResumeCase struct {
	ID       int
	Interval time.Duration
	A, B     time.Duration // ScheduleJob .. PauseJob .. ResumeJob
	Started  bool
	Queue    string
	Twice    bool // pause and resume a second time (the second resumption is the one judged)
}

func (c s2ResumeCase) String() string {
	return fmt.Sprintf("#%d interval %v, ScheduleJob; %v later PauseJob; %v later ResumeJob%s; %s queue, scheduler %s", c.ID, c.Interval, c.A, c.B,
		map[bool]string{true: " (second pause/resume of the job)", false: ""}[c.Twice], c.Queue, map[bool]string{true: "started", false: "not started"}[c.Started])
}

func s2Resume(c s2ResumeCase) (viol string, ok bool) {
	var q quartz.JobQueue = quartz.NewJobQueue()
	if c.Queue == "copying" {
		q = &copyQ{}
	}
	s, err := quartz.NewStdScheduler(quartz.WithQueue(q, &sync.Mutex{}), quartz.WithOutdatedThreshold(time.Hour))
	if err != nil {
		return "", false
	}
	ctx, cancel := context.WithCancel(context.Background())
	defer func() {
		cancel()
		s.Stop()
		wctx, wc := context.WithTimeout(context.Background(), 3*time.Second)
		s.Wait(wctx)
		wc()
	}()
	if c.Started {
		s.Start(ctx)
	}
	key := quartz.NewJobKey("resumed")
	tr := &s2Trig{interval: c.Interval}
	if s.ScheduleJob(quartz.NewJobDetail(&fqNop{}, key), tr) != nil {
		return "", false
	}
	rounds := 1
	if c.Twice {
		rounds = 2
	}
	var inv, ret int64
	for i := 0; i < rounds; i++ {
		time.Sleep(c.A)
		if s.PauseJob(key) != nil {
			return "", false
		}
		time.Sleep(c.B)
		inv = time.Now().UnixNano()
		err = s.ResumeJob(key)
		ret = time.Now().UnixNano()
		if err != nil {
			return "", false
		}
	}
	sj, err := s.GetScheduledJob(key)
	if err != nil {
		return "", false
	}
	got := sj.NextRunTime()
	tr.mu.Lock()
	asks := append([]s2Ask{}, tr.asks...)
	tr.mu.Unlock()
	var during *s2Ask
	for i := range asks {
		if asks[i].prev >= inv && asks[i].prev <= ret {
			during = &asks[i]
		}
	}
	if during == nil {
		return fmt.Sprintf("C08 ResumeJob did not ask the trigger for a fire time from the moment of resumption: no NextFireTime(prev) with prev inside the call [%d, %d]; stored fire time %d (%s)", inv, ret, got, c), true
	}
	if d := got - during.ans; d >= 0 && d%int64(c.Interval) == 0 {
		return "", true // R, or R + k*I after k firings
	}
	origin := "not an answer of the trigger at all"
	for _, a := range asks {
		if a.ans == got {
			origin = fmt.Sprintf("the answer to NextFireTime(%d), asked %v BEFORE the resumption", a.prev, time.Duration(inv-a.prev).Round(time.Microsecond))
		}
	}
	return fmt.Sprintf("C08 ResumeJob did not re-activate the job with a fire time computed from the moment of resumption: the trigger (every %v) was asked NextFireTime(%d) inside the call and answered %d, but the entry's fire time after ResumeJob returned is %d (%v earlier) = %s (%s)",
		c.Interval, during.prev, during.ans, got, time.Duration(during.ans-got).Round(time.Microsecond), origin, c), true
}

// ---------------------------------------------------------------------------------------------------------------- C04

var errS2Push = errors.New("injected: storage is unavailable for a moment")

type s2Event struct {
	kind string // pop | exec
	ft   int64
}

type s2Log struct {
	mu sync.Mutex
	ev []s2Event
}

func (l *s2Log) add(kind string, ft int64) {
	l.mu.Lock()
	l.ev = append(l.ev, s2Event{kind, ft})
	l.mu.Unlock()
}

// s2PushQ: the default queue; once armed (after ScheduleJob has returned: every later Push is the loop's), the failAt-th Push and the
// nfail-1 following ones fail without touching the stored entries. Pop reports the fire time of the entry it hands out.
type s2PushQ struct {
	quartz.JobQueue
	log    *s2Log
	mu     sync.Mutex
	armed  bool
	pushes int
	failAt int
	nfail  int
	failed int
}

func (q *s2PushQ) Push(j quartz.ScheduledJob) error {
	q.mu.Lock()
	fail := false
	if q.armed {
		q.pushes++
		fail = q.pushes >= q.failAt && q.pushes < q.failAt+q.nfail
		if fail {
			q.failed++
		}
	}
	q.mu.Unlock()
	if fail {
		return fmt.Errorf("push: %w", errS2Push)
	}
	return q.JobQueue.Push(j)
}

func (q *s2PushQ) Pop() (quartz.ScheduledJob, error) {
	j, err := q.JobQueue.Pop()
	if err == nil {
		q.log.add("pop", j.NextRunTime())
	}
	return j, err
}

type s2Job struct{ log *s2Log }

func (j *s2Job) Execute(context.Context) error { j.log.add("exec", 0); return nil }
func (j *s2Job) Description() string           { return "s2" }

type s2PushCase struct {
	ID        int
	Mode      string // blocking | async | workers
	FailAt    int
	NFail     int
	Retry     time.Duration
	Threshold time.Duration
}

func (c s2PushCase) String() string {
	return fmt.Sprintf("#%d %s execution, one 30 ms job, the loop's Push number %d fails (%d consecutive Push call(s) fail, everything else works), RetryInterval %v, OutdatedThreshold %v",
		c.ID, c.Mode, c.FailAt, c.NFail, c.Retry, c.Threshold)
}

func s2Push(c s2PushCase) (viol []string, ok bool) {
	lg := &s2Log{}
	q := &s2PushQ{JobQueue: quartz.NewJobQueue(), log: lg, failAt: c.FailAt, nfail: c.NFail}
	misfired := make(chan quartz.ScheduledJob, 256)
	opts := []quartz.SchedulerOpt{quartz.WithQueue(q, &sync.Mutex{}), quartz.WithRetryInterval(c.Retry), quartz.WithOutdatedThreshold(c.Threshold), quartz.WithMisfiredChan(misfired)}
	switch c.Mode {
	case "blocking":
		opts = append(opts, quartz.WithBlockingExecution())
	case "workers":
		opts = append(opts, quartz.WithWorkerLimit(2))
	}
	s, err := quartz.NewStdScheduler(opts...)
	if err != nil {
		return nil, false
	}
	ctx, cancel := context.WithCancel(context.Background())
	s.Start(ctx)
	stopped := false
	stop := func() bool {
		if stopped {
			return true
		}
		stopped = true
		s.Stop()
		cancel()
		wctx, wc := context.WithTimeout(context.Background(), 3*time.Second)
		defer wc()
		s.Wait(wctx)
		return wctx.Err() == nil
	}
	defer stop()
	tr := &s2Trig{interval: 30 * time.Millisecond}
	if s.ScheduleJob(quartz.NewJobDetail(&s2Job{log: lg}, quartz.NewJobKey("acct")), tr) != nil {
		return nil, false
	}
	q.mu.Lock()
	q.armed = true
	q.mu.Unlock()
	// long enough for the faulty Push, the retry and two more fire times
	time.Sleep(time.Duration(c.FailAt)*30*time.Millisecond + c.Retry + 100*time.Millisecond)
	if !stop() {
		return nil, false
	}
	stopAt := time.Now().UnixNano()
	q.mu.Lock()
	failed := q.failed
	q.mu.Unlock()
	if failed == 0 {
		return nil, false // the fault was not reached
	}
	mis := map[int64]int{}
	nmis := 0
	for len(misfired) > 0 {
		mis[(<-misfired).NextRunTime()]++
		nmis++
	}
	lg.mu.Lock()
	ev := append([]s2Event{}, lg.ev...)
	lg.mu.Unlock()
	pops := map[int64]int{}
	var order []int64
	execs := map[int64]int{}
	nexec := 0
	var cur int64 = -1
	for _, e := range ev {
		switch e.kind {
		case "pop":
			if pops[e.ft] == 0 {
				order = append(order, e.ft)
			}
			pops[e.ft]++
			cur = e.ft
		case "exec":
			nexec++
			execs[cur]++
		}
	}
	if c.Mode != "blocking" {
		if nexec+nmis > len(order) {
			viol = append(viol, fmt.Sprintf("C04 fire times invented: %d executions + %d misfire offers = %d, but only %d distinct fire times were dequeued (%v, each dequeued %v times) (%s)",
				nexec, nmis, nexec+nmis, len(order), order, pops, c))
		}
		return viol, true
	}
	for i, ft := range order {
		n := execs[ft] + mis[ft]
		switch {
		case n > 1:
			viol = append(viol, fmt.Sprintf("C04 one fire time accounted for %d times: fire time %d was dequeued %d times, executed %d times and offered to MisfiredChan %d times (each dequeued fire time is EITHER executed OR misfired, once) (%s)",
				n, ft, pops[ft], execs[ft], mis[ft], c))
		case n == 0 && i < len(order)-1 && ft <= stopAt-int64(time.Second):
			// (never the case within this run's few hundred ms: kept one-sided, a fire time must be a second old to count as dropped)
			viol = append(viol, fmt.Sprintf("C04 fire time dropped: fire time %d was dequeued %d times and neither executed nor offered to MisfiredChan (%s)", ft, pops[ft], c))
		}
	}
	if len(viol) > 2 {
		viol = viol[:2]
	}
	return viol, true
}

// ----------------------------------------------------------------------------------------------------------------

func sched2Run(args []string) int {
	fs := flag.NewFlagSet("sched2", flag.ExitOnError)
	seed := fs.Int64("seed", 1, "")
	n := fs.Int("n", 1, "rounds")
	out := fs.String("out", "", "")
	fs.Parse(args)
	r := rand.New(rand.NewSource(*seed))
	t0 := time.Now()
	var rcs []s2ResumeCase
	var pcs []s2PushCase
	ms := func(lo, hi int) time.Duration { return time.Duration(lo+r.Intn(hi-lo+1)) * time.Millisecond }
	for round := 0; round < *n; round++ {
		for _, started := range []bool{false, true} {
			for _, qk := range []string{"default", "copying"} {
				for _, twice := range []bool{false, true} {
					// short pause: the fire time pending at the pause is still ahead at the resumption
					rcs = append(rcs, s2ResumeCase{Interval: time.Hour, A: ms(1, 5), B: ms(1, 5), Started: started, Queue: qk, Twice: twice})
					rcs = append(rcs, s2ResumeCase{Interval: time.Duration(1+r.Intn(3)) * time.Second, A: ms(1, 20), B: ms(2, 30), Started: started, Queue: qk, Twice: twice})
				}
				if !started { // long pause: the pending fire time has passed (a started scheduler would fire a 5 ms job meanwhile: chain of answers, also accepted)
					rcs = append(rcs, s2ResumeCase{Interval: 5 * time.Millisecond, A: ms(1, 3), B: ms(10, 14), Started: false, Queue: qk})
				}
			}
		}
		for _, mode := range []string{"blocking", "async", "workers"} {
			for _, failAt := range []int{1, 2, 3} {
				pcs = append(pcs, s2PushCase{Mode: mode, FailAt: failAt, NFail: 1, Retry: 20 * time.Millisecond, Threshold: 150 * time.Millisecond})
			}
			pcs = append(pcs, s2PushCase{Mode: mode, FailAt: 1 + r.Intn(2), NFail: 1, Retry: 60 * time.Millisecond, Threshold: 20 * time.Millisecond})
			pcs = append(pcs, s2PushCase{Mode: mode, FailAt: 1 + r.Intn(2), NFail: 2, Retry: 20 * time.Millisecond, Threshold: 150 * time.Millisecond})
		}
	}
	viol := []string{}
	dist := map[string]map[string]int{"resume": {}, "failed_push": {}, "outcome": {}}
	distinct := map[string]bool{}
	var mu sync.Mutex
	var wg sync.WaitGroup
	sem := make(chan struct{}, 8)
	evals, setup := 0, 0
	for i := range rcs {
		rcs[i].ID = i
		wg.Add(1)
		sem <- struct{}{}
		go func(c s2ResumeCase) {
			defer wg.Done()
			defer func() { <-sem }()
			v, ok := s2Resume(c)
			mu.Lock()
			defer mu.Unlock()
			if !ok {
				setup++
				dist["outcome"]["resume: setup failed"]++
				return
			}
			evals++
			kind := "short pause (pending fire time still ahead)"
			if c.Interval < 100*time.Millisecond {
				kind = "long pause (pending fire time passed)"
			}
			dist["resume"][kind]++
			distinct[fmt.Sprintf("resume/%s/%v/%s/%v", kind, c.Started, c.Queue, c.Twice)] = true
			if v != "" {
				viol = append(viol, v)
			}
		}(rcs[i])
	}
	for i := range pcs {
		pcs[i].ID = i
		wg.Add(1)
		sem <- struct{}{}
		go func(c s2PushCase) {
			defer wg.Done()
			defer func() { <-sem }()
			v, ok := s2Push(c)
			mu.Lock()
			defer mu.Unlock()
			if !ok {
				setup++
				dist["outcome"]["failed push: fault not reached / setup failed"]++
				return
			}
			evals++
			dist["failed_push"][c.Mode]++
			distinct[fmt.Sprintf("push/%s/%d/%d/%v", c.Mode, c.FailAt, c.NFail, c.Retry)] = true
			viol = append(viol, v...)
		}(pcs[i])
	}
	wg.Wait()
	if setup > (len(rcs)+len(pcs))/4 {
		viol = append(viol, fmt.Sprintf("C04 harness could not set up %d of %d sched2 scenarios", setup, len(rcs)+len(pcs)),
			fmt.Sprintf("C08 harness could not set up %d of %d sched2 scenarios", setup, len(rcs)+len(pcs)))
	}
	if len(viol) > 12 {
		viol = viol[:12]
	}
	dist["outcome"]["judged"] = evals
	// BlockingExecution together with WorkerLimit (round 5): every dequeued valid fire time still reaches an executor
	bo := bothOptions("C04")
	viol = append(viol, bo...)
	evals += 8
	dist["outcome"]["both-options scenarios"] = 4
	distinct["both-options"] = true
	writeJSON(*out+"/stats.json", map[string]any{"seed": *seed, "evaluations": evals, "distinct_nontrivial": len(distinct), "distribution": dist,
		"violations": viol, "samples": []any{rcs[0].String(), pcs[0].String()}, "setup_failures": setup, "wall_s": time.Since(t0).Seconds()})
	fmt.Printf("sched2: %d resume scenarios, %d failed-push scenarios (%d judged, %d set-up failures) in %.1fs, %d violations\n", len(rcs), len(pcs), evals, setup, time.Since(t0).Seconds(), len(viol))
	return 0
}
