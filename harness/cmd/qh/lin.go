package main

import (
	"context"
	"flag"
	"fmt"
	"math"
	"math/rand"
	"sort"
	"strings"
	"sync"
	"time"

	"github.com/reugn/go-quartz/quartz"
)

func init() { commands["lin"] = linRun }

type linOp struct {
	client     int
	kind       string // schedule delete pause resume get
	key        int
	susp, repl bool
	inv, ret   int64
	res        string
}

// regState: the registry (exists, susp per key) plus, for the JobDetail object that "reschedule" reuses for each key, whether it is
// the one held by the registry entry (held) and the value of its Suspended flag (sflag), which Pause/Resume change in place.
type regState struct{ exists, susp, held, sflag [2]bool }

// specApply is the sequential specification of the registry (a map key -> paused?).
// copying: the queue stores copies, so Pause/Resume never change the caller's JobDetail object
var specCopying bool

func specApply(s regState, o *linOp) (regState, string) {
	k := o.key
	switch o.kind {
	case "schedule":
		if s.exists[k] && !o.repl {
			return s, "err exists"
		}
		s.exists[k], s.susp[k], s.held[k] = true, o.susp, false
		return s, "ok"
	case "reschedule": // the same *JobDetail again, Replace set, options untouched by the caller
		s.exists[k], s.susp[k], s.held[k] = true, s.sflag[k], true
		return s, "ok"
	case "delete":
		if !s.exists[k] {
			return s, "err notfound"
		}
		s.exists[k], s.susp[k], s.held[k] = false, false, false
		return s, "ok"
	case "pause":
		switch {
		case !s.exists[k]:
			return s, "err notfound"
		case s.susp[k]:
			return s, "err suspended"
		}
		s.susp[k] = true
		if s.held[k] && !specCopying {
			s.sflag[k] = true
		}
		return s, "ok"
	case "resume":
		switch {
		case !s.exists[k]:
			return s, "err notfound"
		case !s.susp[k]:
			return s, "err active"
		}
		s.susp[k] = false
		if s.held[k] && !specCopying {
			s.sflag[k] = false
		}
		return s, "ok"
	case "get":
		if !s.exists[k] {
			return s, "err notfound"
		}
		return s, "ok " + b01(s.susp[k]) + " " + b01(s.susp[k]) // paused <=> parked at the far-future priority
	}
	return s, "?"
}

// linearizable searches for a sequential order of the calls that respects real time (a call that
// returned before another was invoked comes first) and in which every call returns what it returned.
func linearizable(ops []*linOp) bool {
	n := len(ops)
	type key struct {
		mask uint32
		st   regState
	}
	dead := map[key]bool{}
	var rec func(mask uint32, st regState) bool
	rec = func(mask uint32, st regState) bool {
		if mask == uint32(1)<<n-1 {
			return true
		}
		if dead[key{mask, st}] {
			return false
		}
		// minimal return time among the remaining ops: an op may go next only if it was invoked before that
		var minRet int64 = 1 << 62
		for i, o := range ops {
			if mask&(1<<i) == 0 && o.ret < minRet {
				minRet = o.ret
			}
		}
		for i, o := range ops {
			if mask&(1<<i) != 0 || o.inv > minRet {
				continue
			}
			ns, want := specApply(st, o)
			if want == o.res && rec(mask|1<<i, ns) {
				return true
			}
		}
		dead[key{mask, st}] = true
		return false
	}
	return rec(0, regState{})
}

// slowLocker widens the critical sections a little so that calls of different clients overlap.
type slowLocker struct{ mu sync.Mutex }

func (l *slowLocker) Lock() {
	l.mu.Lock()
	for t := time.Now(); time.Since(t) < 30*time.Microsecond; {
	}
}
func (l *slowLocker) Unlock() { l.mu.Unlock() }

// slowQ delays the mutating queue calls a little (contract-abiding: only slower).
type slowQ struct{ quartz.JobQueue }

func spin(d time.Duration) {
	for t := time.Now(); time.Since(t) < d; {
	}
}
func (q *slowQ) Push(j quartz.ScheduledJob) error {
	spin(40 * time.Microsecond)
	return q.JobQueue.Push(j)
}
func (q *slowQ) Remove(k *quartz.JobKey) (quartz.ScheduledJob, error) {
	j, err := q.JobQueue.Remove(k)
	spin(40 * time.Microsecond)
	return j, err
}
func (q *slowQ) Pop() (quartz.ScheduledJob, error) {
	j, err := q.JobQueue.Pop()
	spin(20 * time.Microsecond)
	return j, err
}

// firingTrigger: a short interval and a NextFireTime that takes a little while: the jobs the clients operate on are themselves being
// fired ("with the scheduler firing jobs at the same time"), so the loop's pop / ask-the-trigger / push step overlaps the calls.
type firingTrigger struct{}

func (firingTrigger) NextFireTime(prev int64) (int64, error) {
	spin(30 * time.Microsecond)
	return prev + int64(40*time.Microsecond), nil
}
func (firingTrigger) Description() string { return "firing" }

func linRun(args []string) int {
	fs := flag.NewFlagSet("lin", flag.ExitOnError)
	seed := fs.Int64("seed", 1, "")
	n := fs.Int("n", 300, "concurrent histories")
	out := fs.String("out", "", "")
	fs.Parse(args)
	r := rand.New(rand.NewSource(*seed))
	viol := []string{}
	dist := map[string]map[string]int{"queue": {}, "result": {}, "overlap": {}}
	evals, nontrivial := 0, 0
	var samples []any
	for h := 0; h < *n; h++ {
		var q quartz.JobQueue
		qkind := "default"
		if h%3 == 1 {
			q, qkind = &copyQ{}, "copying"
		} else {
			q = quartz.NewJobQueue()
		}
		mode := h % 3
		if h%4 == 3 { // a slow queue widens the windows between the queue calls of one API method
			q = &slowQ{JobQueue: q}
			qkind += "+slow"
		}
		var locker sync.Locker = &sync.Mutex{}
		if h%2 == 0 {
			locker = &slowLocker{}
		}
		opts := []quartz.SchedulerOpt{quartz.WithQueue(q, locker)}
		if mode == 1 {
			opts = append(opts, quartz.WithWorkerLimit(2))
		}
		s, err := quartz.NewStdScheduler(opts...)
		must(err)
		ctx, cancel := context.WithCancel(context.Background())
		s.Start(ctx)
		// a job that keeps the execution loop busy taking the queue lock
		must(s.ScheduleJob(quartz.NewJobDetail(&tagJob{tag: 0}, quartz.NewJobKeyWithGroup("bg", "bg")), quartz.NewSimpleTrigger(2*time.Millisecond)))
		keys := []*quartz.JobKey{quartz.NewJobKeyWithGroup("a", "lin"), quartz.NewJobKeyWithGroup("b", "lin")}
		nclients := 3
		per := 3 + r.Intn(2)
		plan := make([][]*linOp, nclients)
		for c := range plan {
			for i := 0; i < per; i++ {
				kind := []string{"schedule", "schedule", "delete", "pause", "pause", "resume", "resume", "get", "reschedule"}[r.Intn(9)]
				plan[c] = append(plan[c], &linOp{client: c, kind: kind, key: r.Intn(2), susp: r.Intn(4) == 0, repl: r.Intn(3) == 0})
			}
		}
		var trig quartz.Trigger = quartz.NewSimpleTrigger(time.Hour)
		if h%2 == 1 || h%8 == 0 {
			trig = firingTrigger{}
			qkind += "+firing"
		}
		shared := make([]*quartz.JobDetail, len(keys))
		for i, k := range keys {
			so := quartz.NewDefaultJobDetailOptions()
			so.Replace = true
			shared[i] = quartz.NewJobDetailWithOptions(&tagJob{tag: 2}, k, so)
		}
		base := time.Now()
		var wg sync.WaitGroup
		startGate := make(chan struct{})
		for c := range plan {
			wg.Add(1)
			go func(c int) {
				defer wg.Done()
				<-startGate
				for _, o := range plan[c] {
					k := keys[o.key]
					o.inv = int64(time.Since(base))
					var err error
					switch o.kind {
					case "schedule":
						jo := quartz.NewDefaultJobDetailOptions()
						jo.Suspended, jo.Replace = o.susp, o.repl
						err = s.ScheduleJob(quartz.NewJobDetailWithOptions(&tagJob{tag: 1}, k, jo), trig)
					case "reschedule":
						err = s.ScheduleJob(shared[o.key], trig)
					case "delete":
						err = s.DeleteJob(k)
					case "pause":
						err = s.PauseJob(k)
					case "resume":
						err = s.ResumeJob(k)
					case "get":
						// the entry's priority is a snapshot, but (default queue) its job detail is the live object: a flag read after
						// the call returned may belong to a later pause/resume. Such a torn reading is the harness's, not an answer of
						// the call: ask again (still inside this operation's interval); a persistent disagreement is reported as is.
						for try := 0; try < 6; try++ {
							var sj quartz.ScheduledJob
							sj, err = s.GetScheduledJob(k)
							o.res = ""
							if err != nil {
								break
							}
							parked := sj.NextRunTime() == math.MaxInt64
							susp := sj.JobDetail().Options().Suspended
							o.res = "ok " + b01(susp) + " " + b01(parked)
							if susp == parked {
								break
							}
							time.Sleep(200 * time.Microsecond)
						}
					}
					o.ret = int64(time.Since(base))
					if o.res == "" {
						o.res = serr(err)
					}
				}
			}(c)
		}
		close(startGate)
		wg.Wait()
		cancel()
		s.Stop()
		wctx, wc := context.WithTimeout(context.Background(), 3*time.Second)
		s.Wait(wctx)
		wc()
		var all []*linOp
		for _, p := range plan {
			all = append(all, p...)
		}
		sort.Slice(all, func(i, j int) bool { return all[i].inv < all[j].inv })
		overlaps := 0
		for i := range all {
			for j := i + 1; j < len(all); j++ {
				if all[j].inv < all[i].ret && all[i].client != all[j].client {
					overlaps++
				}
			}
		}
		evals += len(all)
		dist["queue"][qkind]++
		dist["overlap"][fmt.Sprint(min(overlaps, 5))]++
		if overlaps > 0 {
			nontrivial++
		}
		for _, o := range all {
			dist["result"][o.kind+":"+strings.Join(strings.Fields(o.res)[:min(2, len(strings.Fields(o.res)))], " ")]++
		}
		specCopying = strings.HasPrefix(qkind, "copying")
		if !linearizable(all) {
			var desc []string
			for _, o := range all {
				desc = append(desc, fmt.Sprintf("c%d %s key%d susp=%v repl=%v [%d,%d] -> %s", o.client, o.kind, o.key, o.susp, o.repl, o.inv, o.ret, o.res))
			}
			if len(viol) < 10 {
				viol = append(viol, fmt.Sprintf("C09 concurrent history (%s queue) is not equivalent to any sequential order of its calls: %s", qkind, strings.Join(desc, "; ")))
			}
		}
		if len(samples) < 3 {
			var desc []string
			for _, o := range all {
				desc = append(desc, fmt.Sprintf("c%d %s key%d -> %s", o.client, o.kind, o.key, o.res))
			}
			samples = append(samples, desc)
		}
	}
	// lin2.go: histories whose calls arrive while the loop is in the middle of firing the only job (popped, trigger held, not pushed back)
	l2viol, l2evals, l2reached, l2dist, l2samples := lin2Histories(*seed, max(24, *n/4))
	viol = append(append([]string{}, l2viol...), viol...)
	evals += l2evals
	nontrivial += l2reached
	dist["in_flight_window"] = l2dist
	samples = append(samples, l2samples...)
	writeJSON(*out+"/stats.json", map[string]any{"seed": *seed, "evaluations": evals, "distinct_nontrivial": nontrivial, "histories": *n,
		"distribution": dist, "violations": viol, "samples": samples})
	fmt.Printf("lin: %d concurrent histories (%d with overlapping calls), %d calls, %d not linearizable\n", *n, nontrivial, evals, len(viol))
	return 0
}
