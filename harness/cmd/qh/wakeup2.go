package main

// C05, the call overlaps Start: "no matter what the scheduler was waiting for when the job was scheduled ... or resumed" includes
// the moment at which the scheduler is being started (first start or restart). The API call is held at the queue lock (a
// contract-abiding Locker that is merely slow once) while Start runs and the new loop parks on the empty queue / the paused
// head; when the call goes on, it pushes into a RUNNING scheduler and must wake the loop.

import (
	"context"
	"fmt"
	"sync"
	"sync/atomic"
	"time"

	"github.com/reugn/go-quartz/quartz"
)

type wuGateLocker struct {
	mu      sync.Mutex
	hold    atomic.Bool
	waiting chan struct{}
	open    chan struct{}
}

func (l *wuGateLocker) Lock() {
	if l.hold.CompareAndSwap(true, false) {
		l.waiting <- struct{}{}
		select {
		case <-l.open:
		case <-time.After(3 * time.Second):
		}
	}
	l.mu.Lock()
}
func (l *wuGateLocker) Unlock() { l.mu.Unlock() }

func wuDuringStart(call string, restart bool, delay time.Duration) (violation string, ok bool) {
	desc := fmt.Sprintf("call=%s overlapping %s, due-in=%v", call, map[bool]string{false: "the first Start", true: "Stop; Start"}[restart], delay)
	lk := &wuGateLocker{waiting: make(chan struct{}, 1), open: make(chan struct{})}
	s, err := quartz.NewStdScheduler(quartz.WithQueue(quartz.NewJobQueue(), lk), quartz.WithOutdatedThreshold(10*time.Second))
	if err != nil {
		return "", false
	}
	ctx, cancel := context.WithCancel(context.Background())
	defer func() {
		s.Stop()
		cancel()
		wctx, wc := context.WithTimeout(context.Background(), 3*time.Second)
		s.Wait(wctx)
		wc()
	}()
	if restart {
		s.Start(ctx)
		time.Sleep(2 * time.Millisecond)
		s.Stop()
		wctx, wc := context.WithTimeout(context.Background(), 3*time.Second)
		s.Wait(wctx)
		wc()
	}
	target := &wuJob{}
	key := quartz.NewJobKey("target")
	trig := &wuOnce{delay: delay}
	if call == "resume" {
		o := quartz.NewDefaultJobDetailOptions()
		o.Suspended = true
		if err := s.ScheduleJob(quartz.NewJobDetailWithOptions(target, key, o), trig); err != nil {
			return "", false
		}
	}
	lk.hold.Store(true)
	done := make(chan error, 1)
	go func() {
		if call == "resume" {
			done <- s.ResumeJob(key)
		} else {
			done <- s.ScheduleJob(quartz.NewJobDetail(target, key), trig)
		}
	}()
	select {
	case <-lk.waiting:
	case <-time.After(2 * time.Second):
		return "", false
	}
	s.Start(ctx)                      // the call is at the queue lock; the scheduler starts
	time.Sleep(10 * time.Millisecond) // the new loop parks (empty queue / paused head)
	close(lk.open)
	select {
	case err := <-done:
		if err != nil {
			return "", false
		}
	case <-time.After(3 * time.Second):
		return fmt.Sprintf("C05 the API call did not return within 3 s (%s)", desc), true
	}
	ret := time.Now().UnixNano()
	ref := trig.fire.Load()
	if ret > ref {
		ref = ret
	}
	for target.started.Load() == 0 && time.Now().UnixNano() < ref+int64(wuLimit+wuWatch) {
		time.Sleep(250 * time.Microsecond)
	}
	st := target.started.Load()
	if st == 0 {
		return fmt.Sprintf("C05 lost wake-up: Execute had not started %v after max(API return, fire time): the call pushed into a scheduler that had been started meanwhile and did not wake its loop (%s)", wuLimit+wuWatch, desc), true
	}
	if lat := time.Duration(st - ref); lat > wuLimit {
		return fmt.Sprintf("C05 late wake-up: Execute started %v after max(API return, fire time) (%s)", lat, desc), true
	}
	return "", true
}
