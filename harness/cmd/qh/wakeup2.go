package main

// C05, the call overlaps Start: "no matter what the scheduler was waiting for when the job was scheduled ... or resumed" includes
// the moment at which the scheduler is being started (first start or restart). The API call is held at the queue lock (a
// contract-abiding Locker that is merely slow once) while Start runs and the new loop parks on the empty queue / the paused
// head; when the call goes on, it pushes into a RUNNING scheduler and must wake the loop.

import (
	"context"
	"fmt"
	"math"
	"sync"
	"sync/atomic"
	"time"

	"github.com/reugn/go-quartz/quartz"
)

type wuGateLocker struct {
	mu      sync.Mutex
	hold    atomic.Bool
	waiting chan struct{}
	open    chan struct{}
}

func (l *wuGateLocker) Lock() {
	if l.hold.CompareAndSwap(true, false) {
		l.waiting <- struct{}{}
		select {
		case <-l.open:
		case <-time.After(3 * time.Second):
		}
	}
	l.mu.Lock()
}
func (l *wuGateLocker) Unlock() { l.mu.Unlock() }

func wuDuringStart(call string, restart bool, delay time.Duration) (violation string, ok bool) {
	desc := fmt.Sprintf("call=%s overlapping %s, due-in=%v", call, map[bool]string{false: "the first Start", true: "Stop; Start"}[restart], delay)
	lk := &wuGateLocker{waiting: make(chan struct{}, 1), open: make(chan struct{})}
	s, err := quartz.NewStdScheduler(quartz.WithQueue(quartz.NewJobQueue(), lk), quartz.WithOutdatedThreshold(10*time.Second))
	if err != nil {
		return "", false
	}
	ctx, cancel := context.WithCancel(context.Background())
	defer func() {
		s.Stop()
		cancel()
		wctx, wc := context.WithTimeout(context.Background(), 3*time.Second)
		s.Wait(wctx)
		wc()
	}()
	if restart {
		s.Start(ctx)
		time.Sleep(2 * time.Millisecond)
		s.Stop()
		wctx, wc := context.WithTimeout(context.Background(), 3*time.Second)
		s.Wait(wctx)
		wc()
	}
	target := &wuJob{}
	key := quartz.NewJobKey("target")
	trig := &wuOnce{delay: delay}
	if call == "resume" {
		o := quartz.NewDefaultJobDetailOptions()
		o.Suspended = true
		if err := s.ScheduleJob(quartz.NewJobDetailWithOptions(target, key, o), trig); err != nil {
			return "", false
		}
	}
	lk.hold.Store(true)
	done := make(chan error, 1)
	go func() {
		if call == "resume" {
			done <- s.ResumeJob(key)
		} else {
			done <- s.ScheduleJob(quartz.NewJobDetail(target, key), trig)
		}
	}()
	select {
	case <-lk.waiting:
	case <-time.After(2 * time.Second):
		return "", false
	}
	s.Start(ctx)                      // the call is at the queue lock; the scheduler starts
	time.Sleep(10 * time.Millisecond) // the new loop parks (empty queue / paused head)
	close(lk.open)
	select {
	case err := <-done:
		if err != nil {
			return "", false
		}
	case <-time.After(3 * time.Second):
		return fmt.Sprintf("C05 the API call did not return within 3 s (%s)", desc), true
	}
	ret := time.Now().UnixNano()
	ref := trig.fire.Load()
	if ret > ref {
		ref = ret
	}
	for target.started.Load() == 0 && time.Now().UnixNano() < ref+int64(wuLimit+wuWatch) {
		time.Sleep(250 * time.Microsecond)
	}
	st := target.started.Load()
	if st == 0 {
		return fmt.Sprintf("C05 lost wake-up: Execute had not started %v after max(API return, fire time): the call pushed into a scheduler that had been started meanwhile and did not wake its loop (%s)", wuLimit+wuWatch, desc), true
	}
	if lat := time.Duration(st - ref); lat > wuLimit {
		return fmt.Sprintf("C05 late wake-up: Execute started %v after max(API return, fire time) (%s)", lat, desc), true
	}
	return "", true
}

// C05, "never" beside a short interval: a job whose SimpleTrigger interval is time.Duration(math.MaxInt64) (an interval
// used as "never") is scheduled beside a job with a 5 ms interval. The fire time of the first one is beyond the largest
// representable time; it must not end up AHEAD of the 5 ms job (a wrapped, negative fire time stays at the head of the
// queue for ever: every tick finds it outdated and re-bases it to another negative time, the loop spins and nothing else
// is ever dispatched). Verdict, one-sided: the 5 ms job starts at all (within 300 ms + 2 s of its first fire time), the
// "never" job is not executed, and the loop does not spin (a 5 ms job makes the loop pop about 60 times in 300 ms; a spinning loop pops tens of thousands
// of times).
type wuCountJob struct{ n atomic.Int64 }

func (j *wuCountJob) Execute(context.Context) error { j.n.Add(1); return nil }
func (j *wuCountJob) Description() string           { return "count" }

const wuSpinPops = 5000 // Pop calls in 300 ms that only a spinning loop can make

func wuNeverBeside(neverFirst bool) (violation string, ok bool) {
	desc := fmt.Sprintf("SimpleTrigger(math.MaxInt64) scheduled %s a SimpleTrigger(5ms) job", map[bool]string{true: "before", false: "after"}[neverFirst])
	q := &wuStallQ{JobQueue: quartz.NewJobQueue(), inSize: make(chan struct{}, 1), inHead: make(chan struct{}, 1)}
	s, err := quartz.NewStdScheduler(quartz.WithQueue(q, &sync.Mutex{}), quartz.WithOutdatedThreshold(10*time.Second))
	if err != nil {
		return "", false
	}
	ctx, cancel := context.WithCancel(context.Background())
	defer func() {
		s.Stop()
		cancel()
		wctx, wc := context.WithTimeout(context.Background(), 3*time.Second)
		s.Wait(wctx)
		wc()
	}()
	s.Start(ctx)
	never, tick := &wuCountJob{}, &wuJob{}
	schedNever := func() error {
		return s.ScheduleJob(quartz.NewJobDetail(never, quartz.NewJobKey("never")), quartz.NewSimpleTrigger(time.Duration(math.MaxInt64)))
	}
	if neverFirst {
		if schedNever() != nil {
			return "", false
		}
	}
	if err := s.ScheduleJob(quartz.NewJobDetail(tick, quartz.NewJobKey("tick")), quartz.NewSimpleTrigger(5*time.Millisecond)); err != nil {
		return "", false
	}
	if !neverFirst {
		if schedNever() != nil {
			return "", false
		}
	}
	ref := time.Now().UnixNano() + int64(5*time.Millisecond) // not before the first fire time of the 5 ms job
	pops0 := q.pops.Load()
	time.Sleep(wuLimit)
	pops := q.pops.Load() - pops0
	if pops > wuSpinPops {
		starved := map[bool]string{true: "the 5 ms job was not executed at all meanwhile (starved)", false: "the 5 ms job was executed meanwhile"}[tick.started.Load() == 0]
		return fmt.Sprintf("C05 the loop spins: %d Pop calls in %v with one 5 ms job and one job that is never due; %s (%s)", pops, wuLimit, starved, desc), true
	}
	for tick.started.Load() == 0 && time.Now().UnixNano() < ref+int64(wuLimit+wuWatch) {
		time.Sleep(250 * time.Microsecond)
	}
	if n := never.n.Load(); n > 0 {
		return fmt.Sprintf("C05 a job whose interval is beyond the largest representable time was executed %d time(s) within %v (%s)", n, wuLimit, desc), true
	}
	st := tick.started.Load()
	if st == 0 {
		return fmt.Sprintf("C05 starvation: the 5 ms job had not started %v after its first fire time; the loop made %d Pop calls meanwhile (%s)", wuLimit+wuWatch, pops, desc), true
	}
	return "", true
}
