package main

// qh retry — C13: failed jobs are retried exactly as configured; panics are contained.
//
// Every case runs a scripted job once on its own real scheduler (one of the three execution modes) and
// observes the calls of Execute (monotonic time stamps), the scheduler's own log lines for the job
// ("Job retry" = a completed retry wait, "Job terminated", "Job panicked"), a sibling job, and Wait.
// The harness judges against the closed form 1 + min(max(0,MaxRetries), failures before the first
// non-failure) on its own; ops.txt/impl.txt carry the same runs for the Lean model (`retry run …`).

import (
	"context"
	"errors"
	"flag"
	"fmt"
	"math/rand"
	"os/exec"
	"sort"
	"strings"
	"sync"
	"sync/atomic"
	"time"

	"github.com/reugn/go-quartz/quartz"
)

func init() { commands["retry"] = retryRun }

var errRetryScript = errors.New("scripted job failure")

var retryModes = []string{"blocking", "workers2", "unbounded"}

// rjob plays a script: call number k of Execute does script[k] (o = return nil, e = return an error,
// p = panic); calls beyond the script succeed.
type rjob struct {
	script string
	opts   *quartz.JobDetailOptions
	longAt int // 1-based call after which the retry interval becomes `long` (0 = never)
	long   time.Duration

	mu     sync.Mutex
	starts []time.Time
	ends   []time.Time
	outs   []byte
	sig    chan struct{}
}

func (j *rjob) Execute(context.Context) error {
	j.mu.Lock()
	k := len(j.starts)
	j.starts = append(j.starts, time.Now())
	o := byte('o')
	if k < len(j.script) {
		o = j.script[k]
	}
	if o == 'c' { // an error that wraps a context error although the scheduler's context is alive: an error like any other
		j.outs = append(j.outs, 'e')
	} else {
		j.outs = append(j.outs, o)
	}
	j.mu.Unlock()
	if j.longAt == k+1 {
		// read by the same goroutine when it builds the next retry timer
		j.opts.RetryInterval = j.long
	}
	defer func() {
		j.mu.Lock()
		j.ends = append(j.ends, time.Now())
		j.mu.Unlock()
		select {
		case j.sig <- struct{}{}:
		default:
		}
	}()
	switch o {
	case 'e':
		return errRetryScript
	case 'c':
		return fmt.Errorf("the attempt's own deadline: %w", context.DeadlineExceeded)
	case 'p':
		panic("scripted job panic")
	}
	return nil
}
func (j *rjob) Description() string { return "retry-script:" + j.script }

func (j *rjob) finished() int {
	j.mu.Lock()
	defer j.mu.Unlock()
	return len(j.ends)
}

// waitFinished waits until at least n calls of Execute have finished.
func (j *rjob) waitFinished(n int, d time.Duration) bool {
	deadline := time.NewTimer(d)
	defer deadline.Stop()
	for j.finished() < n {
		select {
		case <-j.sig:
		case <-time.After(2 * time.Millisecond):
		case <-deadline.C:
			return j.finished() >= n
		}
	}
	return true
}

// retryOnceJob signals its (first) execution.
type retryOnceJob struct {
	n    atomic.Int32
	done chan struct{}
}

func (j *retryOnceJob) Execute(context.Context) error {
	if j.n.Add(1) == 1 {
		close(j.done)
	}
	return nil
}
func (j *retryOnceJob) Description() string { return "sibling" }

// retryListTrig answers with the given fire times in turn, then fails (the job leaves the queue). When gate
// is set the failing call first waits for the gate: the execution loop is held exactly where it is about
// to dispatch the last scheduled execution.
type retryListTrig struct {
	mu    sync.Mutex
	times []int64
	n     int
	gate  chan struct{}
}

func (t *retryListTrig) NextFireTime(int64) (int64, error) {
	t.mu.Lock()
	i := t.n
	t.n++
	t.mu.Unlock()
	if i < len(t.times) {
		return t.times[i], nil
	}
	if t.gate != nil && i == len(t.times) {
		select {
		case <-t.gate:
		case <-time.After(30 * time.Second):
		}
	}
	return 0, errRetryScript
}
func (t *retryListTrig) Description() string { return "list" }

// retryLog keeps the scheduler's log lines about job executions.
type retryLog struct {
	mu sync.Mutex
	ev []retryLogEv
	ch chan struct{}
}
type retryLogEv struct{ msg, key string }

func (l *retryLog) rec(msg string, args []any) {
	if msg == "Job retry" || msg == "Job terminated" || msg == "Job panicked" {
		retryLogsSeen.Store(true)
	}
	if msg != "Job retry" && msg != "Job terminated" && msg != "Job panicked" {
		return
	}
	key := ""
	for i := 0; i+1 < len(args); i += 2 {
		if k, ok := args[i].(string); ok && k == "key" {
			key, _ = args[i+1].(string)
		}
	}
	l.mu.Lock()
	l.ev = append(l.ev, retryLogEv{msg, key})
	l.mu.Unlock()
	select {
	case l.ch <- struct{}{}:
	default:
	}
}
func (l *retryLog) Trace(msg string, args ...any) { l.rec(msg, args) }
func (l *retryLog) Debug(string, ...any)          {}
func (l *retryLog) Info(string, ...any)           {}
func (l *retryLog) Warn(msg string, args ...any)  { l.rec(msg, args) }
func (l *retryLog) Error(msg string, args ...any) { l.rec(msg, args) }

// counts of (retry, terminated, panicked) lines for key from index `from`; also the current length
func (l *retryLog) counts(key string, from int) (int, int, int, int) {
	l.mu.Lock()
	defer l.mu.Unlock()
	var r, t, p int
	for _, e := range l.ev[from:] {
		if e.key != key {
			continue
		}
		switch e.msg {
		case "Job retry":
			r++
		case "Job terminated":
			t++
		case "Job panicked":
			p++
		}
	}
	return r, t, p, len(l.ev)
}

// waitFor waits until the lines for key logged from index `from` on satisfy want; it gives up when d has
// passed or when abort reports that waiting is pointless.
func (l *retryLog) waitFor(key string, from int, want func(r, t, p int) bool, d time.Duration, abort func() bool) bool {
	if !retryLogsSeen.Load() && d > 30*time.Millisecond {
		d = 30 * time.Millisecond
	}
	deadline := time.NewTimer(d)
	defer deadline.Stop()
	for {
		r, t, p, _ := l.counts(key, from)
		if want(r, t, p) {
			return true
		}
		if abort != nil && abort() {
			return false
		}
		select {
		case <-l.ch:
		case <-time.After(2 * time.Millisecond):
		case <-deadline.C:
			return false
		}
	}
}

type retryCase struct {
	mode       int
	maxRetries int
	script     string
	cancelAt   int    // 0 = no cancellation, else the context ends during the cancelAt-th retry wait
	via        string // "stop" | "ctx" (how the context is ended)
	interval   time.Duration
}

type retryRound struct {
	script          string // the script as seen by this execution (suffix of the case's script)
	cancelAt        int
	attempts, waits int
	end             string
}

type retryResult struct {
	rounds []retryRound
	viol   []string
	sample map[string]any
	minGap time.Duration
}

// closed form, written from the property statement (not from the model)
func retryExpect(maxRetries int, script string, cancelAt int) (attempts int, end string) {
	m := maxRetries
	if m < 0 {
		m = 0
	}
	f := 0
	for f < len(script) && script[f] == 'e' {
		f++
	}
	if cancelAt > 0 && cancelAt <= m && cancelAt <= f {
		return cancelAt, "cancelled"
	}
	if f <= m {
		if f < len(script) && script[f] == 'p' {
			return f + 1, "recovered"
		}
		return f + 1, "succeeded"
	}
	return m + 1, "gaveup"
}

func scriptArg(s string) string {
	if s == "" {
		return "-"
	}
	return s
}

const retryPatience = 15 * time.Second

// once many cases have failed the rest is skipped: a broken retry loop must not cost a patience per case
var retryGiveUp atomic.Int32

func runRetryCase(c retryCase, long time.Duration) retryResult {
	res := retryResult{minGap: -1}
	if retryGiveUp.Load() >= 10 {
		return res
	}
	timedOut := false
	patience := func() time.Duration {
		if timedOut {
			return 500 * time.Millisecond
		}
		return retryPatience
	}
	defer func() {
		if len(res.viol) > 0 {
			retryGiveUp.Add(1)
		}
	}()
	desc := fmt.Sprintf("mode=%s MaxRetries=%d script=%q RetryInterval=%v cancelAt=%d", retryModes[c.mode], c.maxRetries, c.script, c.interval, c.cancelAt)
	flagV := func(format string, a ...any) {
		res.viol = append(res.viol, "C13 "+fmt.Sprintf(format, a...)+" ["+desc+"]")
	}
	lg := &retryLog{ch: make(chan struct{}, 1)}
	opts := []quartz.SchedulerOpt{quartz.WithLogger(lg), quartz.WithOutdatedThreshold(time.Minute)}
	opts = append(opts, mfRetryOpts()...) // QH_MISFIRED_CHAN: the same scenarios with a MisfiredChan that nobody reads (misfire.go)
	switch c.mode {
	case 0:
		opts = append(opts, quartz.WithBlockingExecution())
	case 1:
		opts = append(opts, quartz.WithWorkerLimit(2))
	}
	s, err := quartz.NewStdScheduler(opts...)
	must(err)
	ctx, cancel := context.WithCancel(context.Background())
	defer cancel()
	s.Start(ctx)

	jopts := quartz.NewDefaultJobDetailOptions()
	jopts.MaxRetries = c.maxRetries
	jopts.RetryInterval = c.interval
	job := &rjob{script: c.script, opts: jopts, sig: make(chan struct{}, 1), long: long}
	c.script = strings.ReplaceAll(c.script, "c", "e") // for the expectations and the model 'c' is a failure like 'e'
	desc = strings.Replace(desc, "script=", "(c = an error wrapping context.DeadlineExceeded) script=", 1)
	key := quartz.NewJobKey("main")
	jd := quartz.NewJobDetailWithOptions(job, key, jopts)
	job.opts = jd.Options() // the job detail keeps its own copy of the options
	exp1, end1 := retryExpect(c.maxRetries, c.script, c.cancelAt)
	if end1 == "cancelled" {
		job.longAt = c.cancelAt
	}
	twoRounds := end1 == "recovered"
	now := quartz.NowNano()
	trig := &retryListTrig{times: []int64{now}}
	if twoRounds {
		// a second fire time right after the first; its dispatch is held until the first execution is over
		trig = &retryListTrig{times: []int64{now, now + 1}, gate: make(chan struct{})}
	}
	if err := s.ScheduleJob(jd, trig); err != nil {
		flagV("ScheduleJob failed: %v", err)
		s.Stop()
		return res
	}

	mainKey := key.String()
	// waitSeq waits for n finished attempts, or for the scheduler's closing line of the sequence
	// (logged from index `from` on) when that comes first
	waitSeq := func(n, from int) bool {
		deadline := time.Now().Add(patience())
		for job.finished() < n {
			if _, t, p, _ := lg.counts(mainKey, from); t+p > 0 {
				time.Sleep(time.Millisecond)
				break
			}
			if time.Now().After(deadline) {
				break
			}
			job.waitFinished(n, 2*time.Millisecond)
		}
		return job.finished() >= n
	}

	// ---- first execution
	if !waitSeq(exp1, 0) {
		flagV("only %d attempt(s) were made (the scheduler closed the sequence, or %v passed); the configuration requires %d", job.finished(), patience(), exp1)
		timedOut = true
	}
	cancelled := false
	if c.cancelAt > 0 && end1 == "cancelled" {
		// the job has just failed for the cancelAt-th time and the next retry timer is `long`
		if c.via == "ctx" {
			cancel()
		} else {
			s.Stop()
		}
		cancelled = true
	}
	// the line that closes the sequence, when there is one
	switch end1 {
	case "recovered":
		if !lg.waitFor(mainKey, 0, func(_, _, p int) bool { return p >= 1 }, patience(), func() bool { return job.finished() > exp1 }) {
			// (the closing log line did not come: not a violation by itself; a panic that is not recovered kills the process, which the
			// child-process canary reports)
			timedOut = retryLogsSeen.Load()
		}
	case "gaveup", "cancelled":
		if !lg.waitFor(mainKey, 0, func(_, t, _ int) bool { return t >= 1 }, patience(), func() bool { return job.finished() > exp1 }) {
			timedOut = retryLogsSeen.Load()
		}
	}
	if !cancelled {
		// any attempt beyond the configured number would come one RetryInterval later
		time.Sleep(3*c.interval + time.Millisecond)
	}
	n1 := job.finished()
	r1, t1, p1, logAt := lg.counts(mainKey, 0)
	_, _ = t1, p1
	job.mu.Lock()
	outs1 := string(job.outs)
	job.mu.Unlock()
	if len(outs1) > n1 {
		outs1 = outs1[:n1]
	}
	if !retryLogsSeen.Load() && n1 > 0 {
		r1 = n1 - 1 // completed waits cannot be observed without the trace line; the gaps between attempts are checked below
	}
	round1 := retryRound{script: c.script, cancelAt: c.cancelAt, attempts: n1, waits: r1, end: retryDerivedEnd(outs1, cancelled)}

	// ---- after a panic: the next fire time is still scheduled and runs, a sibling runs
	var round2 *retryRound
	if twoRounds {
		close(trig.gate)
		rest := ""
		if n1 < len(c.script) {
			rest = c.script[n1:]
		}
		exp2, end2 := retryExpect(c.maxRetries, rest, 0)
		if !waitSeq(n1+exp2, logAt) {
			flagV("after the panic the job's next fire time was not executed as configured: %d attempt(s) within %v, expected %d (script left %q)",
				job.finished()-n1, patience(), exp2, rest)
			timedOut = true
		}
		switch end2 {
		case "recovered":
			timedOut = !lg.waitFor(mainKey, logAt, func(_, _, p int) bool { return p >= 1 }, patience(), func() bool { return job.finished() > n1+exp2 }) || timedOut
		case "gaveup":
			timedOut = !lg.waitFor(mainKey, logAt, func(_, t, _ int) bool { return t >= 1 }, patience(), func() bool { return job.finished() > n1+exp2 }) || timedOut
		}
		time.Sleep(3*c.interval + time.Millisecond)
		n2 := job.finished() - n1
		r2, t2, p2, _ := lg.counts(mainKey, logAt)
		_, _ = t2, p2
		job.mu.Lock()
		outs2 := string(job.outs)
		job.mu.Unlock()
		if len(outs2) >= n1 {
			outs2 = outs2[n1:]
		}
		if len(outs2) > n2 {
			outs2 = outs2[:n2]
		}
		if !retryLogsSeen.Load() && n2 > 0 {
			r2 = n2 - 1
		}
		round2 = &retryRound{script: rest, attempts: n2, waits: r2, end: retryDerivedEnd(outs2, false)}
		if n2 != exp2 || round2.end != end2 {
			flagV("second execution after a recovered panic made %d attempt(s) and ended %s, the configuration requires %d and %s (script left %q)", n2, round2.end, exp2, end2, rest)
		}
	}
	if !cancelled {
		sib := &retryOnceJob{done: make(chan struct{})}
		if err := s.ScheduleJob(quartz.NewJobDetail(sib, quartz.NewJobKey("sibling")), &retryListTrig{times: []int64{quartz.NowNano()}}); err != nil {
			flagV("scheduling a sibling job afterwards failed: %v", err)
		} else {
			select {
			case <-sib.done:
			case <-time.After(patience()):
				flagV("a sibling job scheduled after the sequence (ended %s) did not run within %v: the scheduler or its workers stopped working", round1.end, patience())
				timedOut = true
			}
		}
	}

	// ---- shutdown: Wait returns
	if !cancelled {
		s.Stop()
	}
	wpat := patience()
	wctx, wcancel := context.WithTimeout(context.Background(), wpat)
	s.Wait(wctx)
	if wctx.Err() != nil {
		flagV("Wait did not return within %v after the scheduler was stopped (first execution ended %s)", wpat, round1.end)
	}
	wcancel()

	// ---- judge the first execution against the closed form; nothing may have run since
	total := job.finished()
	want := exp1
	if round2 != nil {
		want += round2.attempts
	}
	if n1 != exp1 || round1.end != end1 {
		flagV("%d attempt(s), ended %s; exactly %d attempt(s) ending %s are configured (1 + min(max(0,MaxRetries), failures before the first success))", n1, round1.end, exp1, end1)
	} else if total != want {
		flagV("%d further attempt(s) after the sequence had ended (%s)", total-want, round1.end)
	}
	if r1 != n1-1 && n1 == exp1 {
		flagV("%d attempts but %d completed retry waits were logged: every attempt after the first must follow exactly one wait", n1, r1)
	}
	job.mu.Lock()
	outs := string(job.outs)
	for i := 1; i < len(job.starts) && i <= len(job.ends); i++ {
		if i == n1 {
			continue // first attempt of the second execution: not a retry
		}
		gap := job.starts[i].Sub(job.ends[i-1])
		if res.minGap < 0 || gap < res.minGap {
			res.minGap = gap
		}
		if gap < c.interval {
			flagV("attempt %d started %v after attempt %d returned, less than RetryInterval", i+1, gap, i)
		}
	}
	job.mu.Unlock()
	if cancelled && total != c.cancelAt {
		flagV("the context ended during retry wait %d but %d attempt(s) were made in total", c.cancelAt, total)
	}
	res.rounds = append(res.rounds, round1)
	if round2 != nil {
		res.rounds = append(res.rounds, *round2)
	}
	res.sample = map[string]any{"case": desc, "outcomes_played": outs, "attempts": n1, "waits_logged": r1, "end": round1.end,
		"min_gap_ns": res.minGap.Nanoseconds()}
	if round2 != nil {
		res.sample["second_execution_after_panic"] = map[string]any{"script_left": round2.script, "attempts": round2.attempts, "waits_logged": round2.waits, "end": round2.end}
	}
	return res
}

// retryLogsSeen: whether any of the three log lines this harness uses as synchronisation hints has ever been seen. The harness
// must not depend on log wording: when the messages are not recognised (a reworded or silenced log) it falls back to waiting
// by time, and the outcome of a sequence is always derived from what the job itself recorded.
var retryLogsSeen atomic.Bool

// retryDerivedEnd: how a sequence ended, from the outcomes the job executed
func retryDerivedEnd(outs string, cancelled bool) string {
	switch {
	case outs == "":
		return "none"
	case outs[len(outs)-1] == 'p':
		return "recovered"
	case outs[len(outs)-1] == 'o':
		return "succeeded"
	case cancelled:
		return "cancelled"
	}
	return "gaveup"
}

func retryEnd(terminated, panicked int, cancelled bool) string {
	switch {
	case panicked > 0:
		return "recovered"
	case terminated > 0 && cancelled:
		return "cancelled"
	case terminated > 0:
		return "gaveup"
	}
	return "succeeded"
}

func retryScripts(maxLen int) []string {
	out := []string{""}
	prev := []string{""}
	for l := 1; l <= maxLen; l++ {
		var next []string
		for _, p := range prev {
			for _, ch := range "oep" {
				next = append(next, p+string(ch))
			}
		}
		out = append(out, next...)
		prev = next
	}
	return out
}

// retryCancelInAttempt: the scheduler's context ends WHILE an attempt is running (not during a retry wait), with retries left,
// for RetryInterval > 0, = 0 ("retry at once") and < 0. The attempt in progress fails; no further attempt may start: the
// sequence is over when the context ends, however short the wait is. Returns violations.
type blockingFailer struct {
	mu       sync.Mutex
	attempts int
	blockAt  int
	entered  chan struct{}
	release  chan struct{}
	deadCtx  int
}

func (j *blockingFailer) Execute(ctx context.Context) error {
	j.mu.Lock()
	j.attempts++
	k := j.attempts
	if ctx.Err() != nil {
		j.deadCtx++
	}
	j.mu.Unlock()
	if k == j.blockAt {
		j.entered <- struct{}{}
		<-j.release
	}
	return fmt.Errorf("attempt %d fails", k)
}
func (j *blockingFailer) Description() string { return "blocking-failer" }

func retryCancelInAttempt(mode int, interval time.Duration, blockAt int, via string) []string {
	desc := fmt.Sprintf("mode=%s MaxRetries=6 RetryInterval=%v every attempt fails; %s while attempt %d is running", retryModes[mode], interval, via, blockAt)
	opts := []quartz.SchedulerOpt{quartz.WithOutdatedThreshold(time.Minute)}
	opts = append(opts, mfRetryOpts()...) // QH_MISFIRED_CHAN: the same scenarios with a MisfiredChan that nobody reads (misfire.go)
	switch mode {
	case 0:
		opts = append(opts, quartz.WithBlockingExecution())
	case 1:
		opts = append(opts, quartz.WithWorkerLimit(2))
	}
	s, err := quartz.NewStdScheduler(opts...)
	must(err)
	ctx, cancel := context.WithCancel(context.Background())
	defer cancel()
	s.Start(ctx)
	j := &blockingFailer{blockAt: blockAt, entered: make(chan struct{}, 1), release: make(chan struct{})}
	jo := quartz.NewDefaultJobDetailOptions()
	jo.MaxRetries, jo.RetryInterval = 6, interval
	must(s.ScheduleJob(quartz.NewJobDetailWithOptions(j, quartz.NewJobKey("bf"), jo), quartz.NewRunOnceTrigger(time.Millisecond)))
	select {
	case <-j.entered:
	case <-time.After(10 * time.Second):
		s.Stop()
		return []string{"C13 attempt " + fmt.Sprint(blockAt) + " was not reached within 10 s [" + desc + "]"}
	}
	if via == "ctx" {
		cancel()
	} else {
		s.Stop()
	}
	time.Sleep(2 * time.Millisecond)
	close(j.release)
	wctx, wc := context.WithTimeout(context.Background(), 5*time.Second)
	s.Wait(wctx)
	waited := wctx.Err() == nil
	wc()
	time.Sleep(20 * time.Millisecond)
	j.mu.Lock()
	n, dead := j.attempts, j.deadCtx
	j.mu.Unlock()
	var v []string
	if n != blockAt {
		v = append(v, fmt.Sprintf("C13 the context ended while attempt %d was running, yet %d attempt(s) were made in total (%d of them started with a context that had already ended) [%s]", blockAt, n, dead, desc))
	}
	if !waited {
		v = append(v, fmt.Sprintf("C13 Wait did not return within 5 s after the context ended during attempt %d [%s]", blockAt, desc))
	}
	return v
}

func retryRun(args []string) int {
	fs := flag.NewFlagSet("retry", flag.ExitOnError)
	seed := fs.Int64("seed", 1, "")
	nrand := fs.Int("n", 0, "additional random cases (longer scripts, larger MaxRetries, random intervals)")
	out := fs.String("out", "", "")
	maxLen := fs.Int("maxlen", 5, "exhaustive part: all scripts over {o,e,p} up to this length (0 = skip the exhaustive part)")
	interval := fs.Duration("interval", 2*time.Millisecond, "RetryInterval of the exhaustive part")
	long := fs.Duration("long", 60*time.Second, "RetryInterval of the wait during which the context is ended")
	par := fs.Int("par", 16, "schedulers running concurrently")
	canary := fs.Int("canary", -1, "internal: run the single case script \"ep\" in the given mode and exit")
	canary2 := fs.String("canary2", "", "internal: <mode>:<stop|ctx> — the context ends during an attempt that then panics")
	canary3 := fs.Int("canary3", -1, "internal: a job whose Execute AND Description panic, in the given mode")
	fs.Parse(args)
	if *canary3 >= 0 {
		retryCanaryDescriptionPanics(*canary3)
		return 0
	}
	if *canary2 != "" {
		var m int
		var via string
		fmt.Sscanf(strings.Replace(*canary2, ":", " ", 1), "%d %s", &m, &via)
		retryCanaryPanicAfterCancel(m, via)
		return 0
	}
	r := rand.New(rand.NewSource(*seed))

	if *canary >= 0 {
		res := runRetryCase(retryCase{mode: *canary % 3, maxRetries: 2, script: "ep", interval: *interval}, *long)
		for _, v := range res.viol {
			fmt.Println(v)
		}
		return 0
	}
	// A panic that is not contained kills the process. Find that out in a child process first, so that
	// it is reported as what it is, with its input.
	crashed := []string{}
	for mode := range retryModes {
		cmd := exec.Command(selfExe(), "retry", "--canary", fmt.Sprint(mode), "--out", *out)
		done := make(chan struct{})
		var outp []byte
		var cerr error
		go func() { outp, cerr = cmd.CombinedOutput(); close(done) }()
		select {
		case <-done:
		case <-time.After(90 * time.Second):
			_ = cmd.Process.Kill()
			<-done
		}
		if cerr != nil {
			first := ""
			for _, l := range strings.Split(string(outp), "\n") {
				if strings.HasPrefix(l, "panic:") || strings.HasPrefix(l, "fatal error:") {
					first = l
					break
				}
			}
			crashed = append(crashed, fmt.Sprintf("C13 a panicking job was not contained: the process running the scheduler died (%v; %s) [mode=%s MaxRetries=2 script=\"ep\": second attempt panics]", cerr, first, retryModes[mode]))
		}
	}
	for mode := range retryModes {
		for _, via := range []string{"stop", "ctx"} {
			cmd := exec.Command(selfExe(), "retry", "--canary2", fmt.Sprintf("%d:%s", mode, via), "--out", *out)
			done := make(chan struct{})
			var outp []byte
			var cerr error
			go func() { outp, cerr = cmd.CombinedOutput(); close(done) }()
			select {
			case <-done:
			case <-time.After(60 * time.Second):
				_ = cmd.Process.Kill()
				<-done
			}
			what := fmt.Sprintf("[mode=%s MaxRetries=2: the scheduler's context ends (%s) while an attempt is running, the attempt then panics]", retryModes[mode], via)
			switch {
			case cerr != nil:
				first := ""
				for _, l := range strings.Split(string(outp), "\n") {
					if strings.HasPrefix(l, "panic:") || strings.HasPrefix(l, "fatal error:") {
						first = l
						break
					}
				}
				crashed = append(crashed, fmt.Sprintf("C13 a panicking job was not contained: the process running the scheduler died (%v; %s) %s", cerr, first, what))
			case strings.Contains(string(outp), "WAIT-HUNG"):
				crashed = append(crashed, "C13 Wait did not return within 5 s after the context ended during an attempt that then panicked "+what)
			}
		}
	}
	// a job that panics in Execute and whose Description() panics as well (a typed-nil job, a job with an unset dependency used by both
	// methods): containment must not depend on calling back into the job after the recover (round 5)
	for mode := range retryModes {
		cmd := exec.Command(selfExe(), "retry", "--canary3", fmt.Sprint(mode), "--out", *out)
		done := make(chan struct{})
		var outp []byte
		var cerr error
		go func() { outp, cerr = cmd.CombinedOutput(); close(done) }()
		select {
		case <-done:
		case <-time.After(60 * time.Second):
			_ = cmd.Process.Kill()
			<-done
		}
		what := fmt.Sprintf("[mode=%s: a job whose Execute panics and whose Description() panics too, MaxRetries=1; a sibling job scheduled afterwards]", retryModes[mode])
		switch {
		case cerr != nil:
			first := ""
			for _, l := range strings.Split(string(outp), "\n") {
				if strings.HasPrefix(l, "panic:") || strings.HasPrefix(l, "fatal error:") {
					first = l
					break
				}
			}
			crashed = append(crashed, fmt.Sprintf("C13 a panicking job was not contained: the process running the scheduler died (%v; %s) %s", cerr, first, what))
		case strings.Contains(string(outp), "SIBLING-DID-NOT-RUN"):
			crashed = append(crashed, "C13 after a job panicked a sibling job scheduled afterwards did not run within 5 s "+what)
		case strings.Contains(string(outp), "WAIT-HUNG"):
			crashed = append(crashed, "C13 Wait did not return within 5 s after Stop "+what)
		}
	}
	if len(crashed) > 0 {
		writeLines(*out+"/ops.txt", nil)
		writeLines(*out+"/impl.txt", nil)
		writeJSON(*out+"/stats.json", map[string]any{"seed": *seed, "evaluations": len(crashed), "distinct_nontrivial": len(crashed),
			"distribution": map[string]map[string]int{"canary": {"process died": len(crashed)}}, "violations": crashed, "samples": []any{}})
		fmt.Printf("retry: the scheduler process dies when a job panics (%d of %d modes), %d property violations\n", len(crashed), len(retryModes), len(crashed))
		return 0
	}

	var cases []retryCase
	if *maxLen > 0 {
		for _, m := range []int{-1, 0, 1, 2, 3, 4} {
			for _, sc := range retryScripts(*maxLen) {
				for mode := range retryModes {
					cases = append(cases, retryCase{mode: mode, maxRetries: m, script: sc, interval: *interval})
				}
			}
		}
	}
	// cancellation during the k-th retry wait
	for mode := range retryModes {
		for k := 1; k <= 3; k++ {
			for _, m := range []int{k, 4} {
				for _, sc := range []string{"eeeee", "eeeo", "eeep"} {
					for _, via := range []string{"stop", "ctx"} {
						cases = append(cases, retryCase{mode: mode, maxRetries: m, script: sc, cancelAt: k, via: via, interval: *interval})
					}
				}
			}
		}
	}
	// failures whose error wraps a context error while the scheduler's context is alive (a job with a deadline of its own)
	for mode := range retryModes {
		for _, sc := range []string{"cco", "cec", "ccc", "eco", "cp"} {
			for _, m := range []int{2, 3} {
				cases = append(cases, retryCase{mode: mode, maxRetries: m, script: sc, interval: *interval})
			}
		}
	}
	for i := 0; i < *nrand; i++ {
		l := r.Intn(9)
		b := make([]byte, l)
		for j := range b {
			b[j] = "eeeeop"[r.Intn(6)]
		}
		c := retryCase{mode: r.Intn(3), maxRetries: r.Intn(10) - 2, script: string(b), interval: time.Duration(1+r.Intn(3)) * time.Millisecond}
		if r.Intn(5) == 0 {
			c.cancelAt = 1 + r.Intn(4)
			c.via = []string{"stop", "ctx"}[r.Intn(2)]
		}
		cases = append(cases, c)
	}

	results := make([]retryResult, len(cases))
	var wg sync.WaitGroup
	next := atomic.Int64{}
	for w := 0; w < *par; w++ {
		wg.Add(1)
		go func() {
			defer wg.Done()
			for {
				i := int(next.Add(1)) - 1
				if i >= len(cases) {
					return
				}
				results[i] = runRetryCase(cases[i], *long)
			}
		}()
	}
	wg.Wait()

	var ops, impl []string
	viol := []string{}
	dist := map[string]map[string]int{"mode": {}, "end": {}, "attempts": {}, "maxRetries": {}, "cancelled_in_wait": {}, "after_panic": {}}
	samples := []any{}
	seen := map[string]bool{}
	nontrivial := 0
	minGap := time.Duration(-1)
	for i, c := range cases {
		res := results[i]
		for ri, rd := range res.rounds {
			ca := "-"
			if rd.cancelAt > 0 {
				ca = fmt.Sprint(rd.cancelAt)
			}
			ops = append(ops, fmt.Sprintf("retry run %d %s %s", c.maxRetries, scriptArg(rd.script), ca))
			impl = append(impl, fmt.Sprintf("attempts=%d waits=%d end=%s", rd.attempts, rd.waits, rd.end))
			dist["end"][rd.end]++
			dist["attempts"][fmt.Sprint(rd.attempts)]++
			if ri == 1 {
				dist["after_panic"]["second execution ran, ended "+rd.end]++
			}
			if rd.end == "cancelled" {
				dist["cancelled_in_wait"][fmt.Sprintf("%d via %s", rd.cancelAt, c.via)]++
			}
		}
		dist["mode"][retryModes[c.mode]]++
		dist["maxRetries"][fmt.Sprint(c.maxRetries)]++
		id := fmt.Sprintf("%d|%d|%s|%d|%s", c.mode, c.maxRetries, c.script, c.cancelAt, c.via)
		if !seen[id] {
			seen[id] = true
			if len(res.rounds) > 0 && (res.rounds[0].attempts >= 2 || res.rounds[0].end == "recovered") {
				nontrivial++
			}
		}
		if res.minGap >= 0 && (minGap < 0 || res.minGap < minGap) {
			minGap = res.minGap
		}
		for _, v := range res.viol {
			if len(viol) < 60 {
				viol = append(viol, v)
			}
		}
		if res.sample != nil && (i%997 == 0 || (c.cancelAt > 0 && len(samples) < 8 && i%7 == 0)) && len(samples) < 12 {
			samples = append(samples, res.sample)
		}
	}
	// pause / resume histories before the failing execution
	for mode := range retryModes {
		for _, hist := range []string{"none", "pause-resume-before-start", "pause-start-resume", "running-pause-resume"} {
			for _, x := range retryAfterPauseResume(mode, hist) {
				if len(viol) < 60 {
					viol = append(viol, x)
				}
			}
			dist["end"]["after history "+hist]++
		}
	}
	// the context ends during an attempt
	inAttempt := 0
	for mode := range retryModes {
		for _, iv := range []time.Duration{2 * time.Millisecond, 0, -time.Millisecond} {
			for _, k := range []int{1, 2, 4} {
				for _, via := range []string{"stop", "ctx"} {
					for rep := 0; rep < 3; rep++ { // (two ready select cases are chosen at random: repeat)
						vs := retryCancelInAttempt(mode, iv, k, via)
						inAttempt++
						dist["end"]["cancelled during an attempt"]++
						for _, x := range vs {
							if len(viol) < 60 {
								viol = append(viol, x)
							}
						}
					}
				}
			}
		}
	}
	sort.Strings(viol)
	writeLines(*out+"/ops.txt", ops)
	writeLines(*out+"/impl.txt", impl)
	writeJSON(*out+"/stats.json", map[string]any{"seed": *seed, "evaluations": len(ops), "cases": len(cases), "distinct_nontrivial": nontrivial,
		"distribution": dist, "violations": viol, "samples": samples, "exhaustive": *maxLen > 0, "cancelled_during_attempt_scenarios": inAttempt,
		"min_gap_between_attempts_ns": minGap.Nanoseconds(), "retry_interval_ns": interval.Nanoseconds(),
		"space": fmt.Sprintf("MaxRetries in {-1..4} x all scripts over {o,e,p} of length <= %d x %s", *maxLen, strings.Join(retryModes, ","))})
	fmt.Printf("retry: %d cases, %d executions observed, smallest gap between attempts %v (RetryInterval %v), %d property violations\n",
		len(cases), len(ops), minGap, *interval, len(viol))
	return 0
}

// retryAfterPauseResume: the retry configuration of a job survives every history of pause / resume before the failing
// execution (the scheduler re-queues the job on both calls): still 1 + MaxRetries attempts, still RetryInterval apart.
func retryAfterPauseResume(mode int, history string) []string {
	const interval = 25 * time.Millisecond
	desc := fmt.Sprintf("mode=%s MaxRetries=2 RetryInterval=%v every attempt fails; history before the execution: %s", retryModes[mode], interval, history)
	opts := []quartz.SchedulerOpt{quartz.WithOutdatedThreshold(time.Minute)}
	opts = append(opts, mfRetryOpts()...) // QH_MISFIRED_CHAN: the same scenarios with a MisfiredChan that nobody reads (misfire.go)
	switch mode {
	case 0:
		opts = append(opts, quartz.WithBlockingExecution())
	case 1:
		opts = append(opts, quartz.WithWorkerLimit(2))
	}
	s, err := quartz.NewStdScheduler(opts...)
	must(err)
	ctx, cancel := context.WithCancel(context.Background())
	defer cancel()
	var mu sync.Mutex
	var starts, ends []time.Time
	job := &fnErrJob{f: func() error {
		mu.Lock()
		starts = append(starts, time.Now())
		mu.Unlock()
		time.Sleep(time.Millisecond)
		mu.Lock()
		ends = append(ends, time.Now())
		mu.Unlock()
		return errRetryScript
	}}
	jo := quartz.NewDefaultJobDetailOptions()
	jo.MaxRetries, jo.RetryInterval = 2, interval
	key := quartz.NewJobKey("pr")
	sched := func() {
		must(s.ScheduleJob(quartz.NewJobDetailWithOptions(job, key, jo), quartz.NewSimpleTrigger(time.Hour)))
	}
	// the trigger's first fire time is an hour away; the job is made due by a final Replace with a short run-once trigger
	switch history {
	case "none":
	case "pause-resume-before-start":
		sched()
		must(s.PauseJob(key))
		must(s.ResumeJob(key))
	case "pause-start-resume":
		sched()
		must(s.PauseJob(key))
	case "running-pause-resume":
		s.Start(ctx)
		sched()
		must(s.PauseJob(key))
		must(s.ResumeJob(key))
	}
	s.Start(ctx)
	if history == "pause-start-resume" {
		must(s.ResumeJob(key))
	}
	if history == "none" {
		sched()
	}
	// make it due now WITHOUT building a new job detail: pause + resume with a trigger... the entry keeps its trigger, so instead
	// the SAME job detail object is re-scheduled with Replace and a short run-once trigger (ScheduleJob keeps the given detail)
	sj, gerr := s.GetScheduledJob(key)
	if gerr != nil {
		s.Stop()
		return []string{"C13 the job is not in the registry after the history [" + desc + "]"}
	}
	jd := sj.JobDetail()
	jd.Options().Replace = true
	must(s.ScheduleJob(jd, quartz.NewRunOnceTrigger(5*time.Millisecond)))
	deadline := time.Now().Add(5 * time.Second)
	for time.Now().Before(deadline) {
		mu.Lock()
		n := len(ends)
		mu.Unlock()
		if n >= 3 {
			break
		}
		time.Sleep(time.Millisecond)
	}
	time.Sleep(3 * interval)
	s.Stop()
	wctx, wc := context.WithTimeout(context.Background(), 3*time.Second)
	s.Wait(wctx)
	wc()
	mu.Lock()
	defer mu.Unlock()
	var v []string
	if len(starts) != 3 {
		v = append(v, fmt.Sprintf("C13 %d attempt(s) were made, the configuration requires 3 [%s]", len(starts), desc))
	}
	for i := 1; i < len(starts) && i < len(ends)+1; i++ {
		if gap := starts[i].Sub(ends[i-1]); gap < interval-time.Millisecond {
			v = append(v, fmt.Sprintf("C13 attempt %d started %v after attempt %d ended, RetryInterval is %v: the job's retry configuration did not survive the history [%s]", i+1, gap.Round(time.Microsecond), i, interval, desc))
			break
		}
	}
	return v
}

type fnErrJob struct{ f func() error }

func (j *fnErrJob) Execute(context.Context) error { return j.f() }
func (j *fnErrJob) Description() string           { return "fnerr" }

// retryCanaryPanicAfterCancel (child process): the scheduler's context ends while an attempt is running, and that attempt then
// panics (clean-up code that fails once the context is gone). The panic must be contained like any other.
func retryCanaryPanicAfterCancel(mode int, via string) {
	opts := []quartz.SchedulerOpt{quartz.WithOutdatedThreshold(time.Minute)}
	opts = append(opts, mfRetryOpts()...) // QH_MISFIRED_CHAN: the same scenarios with a MisfiredChan that nobody reads (misfire.go)
	switch mode {
	case 0:
		opts = append(opts, quartz.WithBlockingExecution())
	case 1:
		opts = append(opts, quartz.WithWorkerLimit(2))
	}
	s, err := quartz.NewStdScheduler(opts...)
	must(err)
	ctx, cancel := context.WithCancel(context.Background())
	defer cancel()
	s.Start(ctx)
	entered := make(chan struct{}, 1)
	job := &ctxPanicJob{entered: entered}
	jo := quartz.NewDefaultJobDetailOptions()
	jo.MaxRetries, jo.RetryInterval = 2, time.Millisecond
	must(s.ScheduleJob(quartz.NewJobDetailWithOptions(job, quartz.NewJobKey("cp"), jo), quartz.NewRunOnceTrigger(time.Millisecond)))
	select {
	case <-entered:
	case <-time.After(10 * time.Second):
		fmt.Println("NOT-REACHED")
		return
	}
	if via == "ctx" {
		cancel()
	} else {
		s.Stop()
	}
	wctx, wc := context.WithTimeout(context.Background(), 5*time.Second)
	s.Wait(wctx)
	ok := wctx.Err() == nil
	wc()
	if ok {
		fmt.Println("CONTAINED")
	} else {
		fmt.Println("WAIT-HUNG")
	}
}

type ctxPanicJob struct{ entered chan struct{} }

func (j *ctxPanicJob) Execute(ctx context.Context) error {
	select {
	case j.entered <- struct{}{}:
	default:
	}
	<-ctx.Done()
	panic("clean-up after cancellation failed")
}
func (j *ctxPanicJob) Description() string { return "ctx-panic" }


// retryCanaryDescriptionPanics (child process): a job whose Execute panics and whose Description panics as well.
func retryCanaryDescriptionPanics(mode int) {
	opts := []quartz.SchedulerOpt{quartz.WithOutdatedThreshold(time.Minute)}
	switch mode % 3 {
	case 0:
		opts = append(opts, quartz.WithBlockingExecution())
	case 1:
		opts = append(opts, quartz.WithWorkerLimit(2))
	}
	s, err := quartz.NewStdScheduler(opts...)
	must(err)
	s.Start(context.Background())
	jo := quartz.NewDefaultJobDetailOptions()
	jo.MaxRetries, jo.RetryInterval = 1, time.Millisecond
	must(s.ScheduleJob(quartz.NewJobDetailWithOptions(&descPanicJob{}, quartz.NewJobKey("dp"), jo), quartz.NewRunOnceTrigger(time.Millisecond)))
	time.Sleep(100 * time.Millisecond)
	ran := make(chan struct{}, 1)
	sib := &retryOnceJobFn{fn: func() {
		select {
		case ran <- struct{}{}:
		default:
		}
	}}
	must(s.ScheduleJob(quartz.NewJobDetail(sib, quartz.NewJobKey("dp-sibling")), quartz.NewRunOnceTrigger(5*time.Millisecond)))
	select {
	case <-ran:
	case <-time.After(5 * time.Second):
		fmt.Println("SIBLING-DID-NOT-RUN")
	}
	s.Stop()
	wctx, wc := context.WithTimeout(context.Background(), 5*time.Second)
	s.Wait(wctx)
	if wctx.Err() != nil {
		fmt.Println("WAIT-HUNG")
	} else {
		fmt.Println("CONTAINED")
	}
	wc()
}

type descPanicJob struct{ dep *struct{ name string } }

func (j *descPanicJob) Execute(context.Context) error { panic("descPanicJob: Execute uses an unset dependency: " + j.dep.name) }
func (j *descPanicJob) Description() string           { return "job of " + j.dep.name }

type retryOnceJobFn struct{ fn func() }

func (j *retryOnceJobFn) Execute(context.Context) error { j.fn(); return nil }
func (j *retryOnceJobFn) Description() string           { return "sibling-fn" }
