package main

import (
	"sync"
	"sync/atomic"

	"github.com/reugn/go-quartz/quartz"
)

// gateQ wraps a JobQueue. Calls made while apiMode is set (the harness thread is inside a scheduler
// API method) pass straight through. Every other call comes from the scheduler's execution loop: it
// is announced on calls and blocks until the harness releases it, optionally with an overriding
// answer. This parks the real loop at known points using the public API only.
type gateQ struct {
	inner   quartz.JobQueue
	apiMode atomic.Bool
	calls   chan *gcall
	mu      sync.Mutex
	closed  bool
}

type gcall struct {
	op      string
	arg     quartz.ScheduledJob
	release chan grel
	// filled in after the call ran
	resJob quartz.ScheduledJob
	resN   int
	resErr error
	done   chan struct{}
}

type grel struct {
	override bool
	job      quartz.ScheduledJob
	n        int
	err      error
}

func newGateQ(inner quartz.JobQueue) *gateQ {
	return &gateQ{inner: inner, calls: make(chan *gcall)}
}

// gate returns nil when the call should pass through.
func (g *gateQ) gate(op string, arg quartz.ScheduledJob) (*gcall, grel) {
	if g.apiMode.Load() {
		return nil, grel{}
	}
	g.mu.Lock()
	closed := g.closed
	g.mu.Unlock()
	if closed {
		return nil, grel{}
	}
	c := &gcall{op: op, arg: arg, release: make(chan grel), done: make(chan struct{})}
	g.calls <- c
	r := <-c.release
	return c, r
}

func (g *gateQ) open() { // let everything through from now on (shutdown)
	g.mu.Lock()
	g.closed = true
	g.mu.Unlock()
}

func (g *gateQ) Push(j quartz.ScheduledJob) error {
	c, r := g.gate("push", j)
	var err error
	if r.override {
		err = r.err
	} else {
		err = g.inner.Push(j)
	}
	if c != nil {
		c.resErr = err
		close(c.done)
	}
	return err
}

func (g *gateQ) Pop() (quartz.ScheduledJob, error) {
	c, r := g.gate("pop", nil)
	var j quartz.ScheduledJob
	var err error
	if r.override {
		j, err = r.job, r.err
	} else {
		j, err = g.inner.Pop()
	}
	if c != nil {
		c.resJob, c.resErr = j, err
		close(c.done)
	}
	return j, err
}

func (g *gateQ) Head() (quartz.ScheduledJob, error) {
	c, r := g.gate("head", nil)
	var j quartz.ScheduledJob
	var err error
	if r.override {
		j, err = r.job, r.err
	} else {
		j, err = g.inner.Head()
	}
	if c != nil {
		c.resJob, c.resErr = j, err
		close(c.done)
	}
	return j, err
}

func (g *gateQ) Size() (int, error) {
	c, r := g.gate("size", nil)
	var n int
	var err error
	if r.override {
		n, err = r.n, r.err
	} else {
		n, err = g.inner.Size()
	}
	if c != nil {
		c.resN, c.resErr = n, err
		close(c.done)
	}
	return n, err
}

func (g *gateQ) Get(k *quartz.JobKey) (quartz.ScheduledJob, error)    { return g.inner.Get(k) }
func (g *gateQ) Remove(k *quartz.JobKey) (quartz.ScheduledJob, error) { return g.inner.Remove(k) }
func (g *gateQ) ScheduledJobs(m []quartz.Matcher[quartz.ScheduledJob]) ([]quartz.ScheduledJob, error) {
	return g.inner.ScheduledJobs(m)
}
func (g *gateQ) Clear() error { return g.inner.Clear() }

// fakeDue is a foreign ScheduledJob used only as a lying answer to Head, to force a tick.
type fakeDue struct {
	jd *quartz.JobDetail
	at int64
}

func (f *fakeDue) JobDetail() *quartz.JobDetail { return f.jd }
func (f *fakeDue) Trigger() quartz.Trigger      { return nil }
func (f *fakeDue) NextRunTime() int64           { return f.at }
