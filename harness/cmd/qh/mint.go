package main

import (
	"context"
	"fmt"
	"sync"

	"github.com/reugn/go-quartz/quartz"
)

// tagJob is a job whose identity is observable through the public API.
type tagJob struct {
	tag int
	run func(ctx context.Context, tag int) error
}

func (j *tagJob) Execute(ctx context.Context) error {
	if j.run != nil {
		return j.run(ctx, j.tag)
	}
	return nil
}
func (j *tagJob) Description() string { return fmt.Sprintf("tag:%d", j.tag) }

// fixedTrigger always answers with the same fire time.
type fixedTrigger struct{ v int64 }

func (t *fixedTrigger) NextFireTime(int64) (int64, error) { return t.v, nil }
func (t *fixedTrigger) Description() string               { return "fixed" }

// minter produces scheduler-minted queue entries (the default queue only accepts its own
// entry type) with chosen key, priority and options, through the public API only.
type minter struct {
	q quartz.JobQueue
	s quartz.Scheduler
}

func newMinter() *minter {
	q := quartz.NewJobQueue()
	s, err := quartz.NewStdScheduler(quartz.WithQueue(q, &sync.Mutex{}))
	must(err)
	return &minter{q, s}
}

func (m *minter) mint(group, name string, prio int64, suspended, replace bool, tag int) quartz.ScheduledJob {
	opts := quartz.NewDefaultJobDetailOptions()
	opts.Replace = replace
	key := quartz.NewJobKeyWithGroup(name, group)
	if name == "" {
		// the scheduler refuses empty names; the queue does not: mint with a placeholder key is
		// impossible (keys are immutable), so empty names are not generated
		panic("mint: empty name")
	}
	jd := quartz.NewJobDetailWithOptions(&tagJob{tag: tag}, key, opts)
	must(m.s.ScheduleJob(jd, &fixedTrigger{prio}))
	sj, err := m.q.Pop()
	must(err)
	jd.Options().Suspended = suspended // visible through JobDetail().Options()
	return sj
}

func entryString(sj quartz.ScheduledJob) string {
	k := sj.JobDetail().JobKey()
	s := 0
	if sj.JobDetail().Options().Suspended {
		s = 1
	}
	tag := -1
	if tj, ok := sj.JobDetail().Job().(*tagJob); ok {
		tag = tj.tag
	}
	return fmt.Sprintf("%s/%s/%d/%d/%d", hexArg(k.Group()), hexArg(k.Name()), sj.NextRunTime(), s, tag)
}
