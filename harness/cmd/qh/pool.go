package main

// qh pool — C12 "execution modes bound concurrency as configured and keep jobs independent".
//
// Real StdSchedulers (public API only) run instrumented jobs that maintain an atomic in-flight counter
// and its maximum. Hard judgments: the maximum never exceeds the configured bound (1 in blocking mode,
// n with WorkerLimit n). Soft judgments use deadlines with generous slack only: a barrier of size n is
// passed within 5 s (n executions genuinely in parallel), in unbounded mode other due jobs and the
// blocked job's own next fire times start within 2 s while one execution never returns.
// No ops.txt: there is no step-by-step driver engine for this property, only stats.json.

import (
	"context"
	"flag"
	"fmt"
	"math/rand"
	"runtime"
	"strings"
	"sync"
	"sync/atomic"
	"time"

	"github.com/reugn/go-quartz/quartz"
)

func init() { commands["pool"] = poolRun }

type poolCounter struct {
	cur, max, started atomic.Int64
}

func (c *poolCounter) enter() {
	v := c.cur.Add(1)
	for {
		m := c.max.Load()
		if v <= m || c.max.CompareAndSwap(m, v) {
			break
		}
	}
	c.started.Add(1)
}

func (c *poolCounter) leave() { c.cur.Add(-1) }

type poolJob struct {
	name string
	run  func(ctx context.Context) error
}

func (j *poolJob) Execute(ctx context.Context) error { return j.run(ctx) }
func (j *poolJob) Description() string               { return j.name }

type poolStats struct {
	mu       sync.Mutex
	viol     []string
	evals    int
	shapes   map[string]bool
	dist     map[string]map[string]int
	samples  []map[string]any
	failures []string // harness-level problems (not property violations)
}

func (st *poolStats) violation(format string, a ...any) {
	st.mu.Lock()
	defer st.mu.Unlock()
	if len(st.viol) < 40 {
		st.viol = append(st.viol, "C12 "+fmt.Sprintf(format, a...))
	}
}

// givenUp: once several scenarios have failed (a pool that has lost its workers fails every one of them after its full
// patience) the remaining ones are skipped: the verdict is settled and need not cost half an hour.
func (st *poolStats) givenUp() bool {
	st.mu.Lock()
	defer st.mu.Unlock()
	n := len(st.failures)
	for _, v := range st.viol {
		if !strings.Contains(v, "KNOWN[") {
			n++
		}
	}
	return n >= 3
}

func (st *poolStats) count(table, bucket string) {
	st.mu.Lock()
	defer st.mu.Unlock()
	if st.dist[table] == nil {
		st.dist[table] = map[string]int{}
	}
	st.dist[table][bucket]++
}

func poolShutdown(s quartz.Scheduler, cancel context.CancelFunc) bool {
	s.Stop()
	cancel()
	ctx, c := context.WithTimeout(context.Background(), 10*time.Second)
	defer c()
	s.Wait(ctx)
	return ctx.Err() == nil
}

// poolFrames counts goroutines whose stack contains the given function-name fragment.
func poolFrames(fragment string) int {
	buf := make([]byte, 1<<20)
	for {
		n := runtime.Stack(buf, true)
		if n < len(buf) {
			buf = buf[:n]
			break
		}
		buf = make([]byte, 2*len(buf))
	}
	k := 0
	for _, g := range strings.Split(string(buf), "\n\n") {
		if strings.Contains(g, fragment) {
			k++
		}
	}
	return k
}

// ---- scenario A: blocking mode (optionally with a WorkerLimit that must be ignored)
func poolBlocking(r *rand.Rand, limit int, st *poolStats) {
	if st.givenUp() {
		return
	}
	name := "blocking"
	opts := []quartz.SchedulerOpt{quartz.WithBlockingExecution(), quartz.WithOutdatedThreshold(time.Hour)}
	if limit > 0 {
		name = fmt.Sprintf("blocking+limit%d", limit)
		opts = append(opts, quartz.WithWorkerLimit(limit))
	}
	s, err := quartz.NewStdScheduler(opts...)
	must(err)
	const jobs = 20
	var c poolCounter
	done := make(chan struct{}, jobs)
	for i := 0; i < jobs; i++ {
		d := time.Duration(25+r.Intn(11)) * time.Millisecond
		j := &poolJob{name: fmt.Sprintf("b%d", i), run: func(ctx context.Context) error {
			c.enter()
			time.Sleep(d)
			c.leave()
			done <- struct{}{}
			return nil
		}}
		must(s.ScheduleJob(quartz.NewJobDetail(j, quartz.NewJobKey(j.name)), quartz.NewRunOnceTrigger(10*time.Millisecond)))
	}
	ctx, cancel := context.WithCancel(context.Background())
	s.Start(ctx)
	workers := -1
	if limit > 0 {
		workers = poolFrames("quartz.(*StdScheduler).startWorkers")
	}
	// In pool mode the loop of the first run may hold one fetched job in its hand-off select when Stop arrives; that job
	// is dropped (the `case <-ctx.Done()` of the select), so one execution may be missing: wait for jobs-1 and for idleness.
	got := 0
	deadline := time.After(20 * time.Second)
	tick := time.NewTicker(5 * time.Millisecond)
	defer tick.Stop()
	var idleSince time.Time
wait:
	for got < jobs {
		select {
		case <-done:
			got++
			idleSince = time.Time{}
		case <-tick.C:
			if got >= jobs-1 && c.cur.Load() == 0 {
				if idleSince.IsZero() {
					idleSince = time.Now()
				} else if time.Since(idleSince) > 300*time.Millisecond {
					break wait
				}
			}
		case <-deadline:
			break wait
		}
	}
	max := c.max.Load()
	if max > 1 {
		st.violation("max in-flight exceeded bound: %s, %d executions in progress at once (bound 1), %d jobs due at once", name, max, jobs)
	}
	if workers > 0 {
		st.violation("BlockingExecution with WorkerLimit %d started %d worker goroutines (the limit must be ignored)", limit, workers)
	}
	if got < jobs {
		st.failures = append(st.failures, fmt.Sprintf("%s: only %d of %d jobs ran within 20 s", name, got, jobs))
	}
	if !poolShutdown(s, cancel) {
		st.failures = append(st.failures, name+": Wait did not return within 10 s after Stop")
	}
	st.mu.Lock()
	st.evals += got
	st.shapes[name] = true
	st.samples = append(st.samples, map[string]any{"scenario": name, "jobs_due_at_once": jobs, "executed": got, "max_in_flight": max, "bound": 1, "worker_goroutines": workers})
	st.mu.Unlock()
	st.count("scenario", name)
	st.count("max_in_flight", fmt.Sprintf("%s:%d", name, max))
}

// ---- scenario B: WorkerLimit n, 3n jobs due at once, every execution waits at a barrier of size n
func poolLimited(r *rand.Rand, n int, st *poolStats) { poolLimitedOpt(r, n, false, st) }

// poolPanicFirst is set for the runs in which n panicking jobs are due shortly before the waves: "keep jobs independent" — a
// panic must cost the pool nothing, all n workers are still there for the barrier.
var poolPanicFirst bool

// restartFirst: the scheduler is started, stopped and waited for (drained) before the run that is measured, on the same live
// parent context: the pool of a stopped run must be gone, so the bound n holds for the scheduler object as well.
func poolLimitedOpt(r *rand.Rand, n int, restartFirst bool, st *poolStats) {
	if st.givenUp() {
		return
	}
	name := fmt.Sprintf("pool-%d", n)
	if restartFirst {
		name = fmt.Sprintf("pool-%d-after-restart", n)
	}
	s, err := quartz.NewStdScheduler(quartz.WithWorkerLimit(n), quartz.WithOutdatedThreshold(time.Hour))
	must(err)
	const waves = 3
	jobs := waves * n
	var c poolCounter
	var arrivals, passed, stuck atomic.Int64
	waveCh := make([]chan struct{}, waves)
	for i := range waveCh {
		waveCh[i] = make(chan struct{})
	}
	done := make(chan struct{}, jobs)
	for i := 0; i < jobs; i++ {
		j := &poolJob{name: fmt.Sprintf("p%d", i), run: func(ctx context.Context) error {
			c.enter()
			idx := int(arrivals.Add(1) - 1)
			w := idx / n
			if idx%n == n-1 { // the n-th execution of this wave is inside Execute: n run in parallel right now
				close(waveCh[w])
			}
			t := time.NewTimer(5 * time.Second)
			select {
			case <-waveCh[w]:
				passed.Add(1)
			case <-t.C:
				stuck.Add(1)
			}
			t.Stop()
			c.leave()
			done <- struct{}{}
			return nil
		}}
		delay := time.Duration(10+r.Intn(3)) * time.Millisecond
		must(s.ScheduleJob(quartz.NewJobDetail(j, quartz.NewJobKey(j.name)), quartz.NewRunOnceTrigger(delay)))
	}
	if poolPanicFirst {
		name += "-after-panics"
		for i := 0; i < n; i++ {
			j := &poolJob{name: fmt.Sprintf("boom%d", i), run: func(ctx context.Context) error { panic("job panics") }}
			must(s.ScheduleJob(quartz.NewJobDetail(j, quartz.NewJobKey(j.name)), quartz.NewRunOnceTrigger(2*time.Millisecond)))
		}
	}
	ctx, cancel := context.WithCancel(context.Background())
	s.Start(ctx)
	if restartFirst {
		s.Stop()
		wctx, wc := context.WithTimeout(context.Background(), 3*time.Second)
		s.Wait(wctx)
		if wctx.Err() != nil {
			st.violation("restart: Wait did not return within 3 s after Stop of an idle WorkerLimit %d scheduler (goroutines of the stopped run are still alive)", n)
		}
		wc()
		s.Start(ctx)
	}
	got := 0
	deadline := time.After(30 * time.Second)
wait:
	for got < jobs {
		select {
		case <-done:
			got++
		case <-deadline:
			break wait
		}
	}
	max := c.max.Load()
	if max > int64(n) {
		st.violation("max in-flight exceeded bound: WorkerLimit %d, %d executions in progress at once, %d jobs due at once", n, max, jobs)
	}
	if stuck.Load() > 0 || (got == jobs && passed.Load() != int64(jobs)) {
		st.violation("barrier not passed within 5 s (%s): WorkerLimit %d, %d of %d executions never saw %d executions running in parallel (max in flight %d)", name,
			n, stuck.Load(), jobs, n, max)
	}
	if got < jobs && poolPanicFirst {
		st.violation("%s: after %d jobs that panicked, only %d of %d jobs ran within 30 s with WorkerLimit %d: a panicking job cost the pool its workers (jobs are not independent)", name, n, got, jobs, n)
	} else if got < jobs && restartFirst {
		st.violation("%s: after Start; Stop; Wait (the first run has drained); Start only %d of %d jobs ran within 30 s with WorkerLimit %d (max in flight %d): the restarted scheduler does not have its %d workers", name, got, jobs, n, max, n)
	} else if got < jobs {
		st.failures = append(st.failures, fmt.Sprintf("%s: only %d of %d jobs ran within 30 s", name, got, jobs))
	}
	if !poolShutdown(s, cancel) {
		st.failures = append(st.failures, name+": Wait did not return within 10 s after Stop")
	}
	st.mu.Lock()
	st.evals += got
	st.shapes[name] = true
	st.samples = append(st.samples, map[string]any{"scenario": name, "jobs_due_at_once": jobs, "executed": got, "max_in_flight": max, "bound": n,
		"barrier_passed": passed.Load(), "barrier_stuck": stuck.Load()})
	st.mu.Unlock()
	st.count("scenario", name)
	st.count("max_in_flight", fmt.Sprintf("%s:%d", name, max))
}

// ---- scenario C: unbounded mode, one execution never returns; the others and its own next fire times go on
func poolUnbounded(r *rand.Rand, st *poolStats) {
	if st.givenUp() {
		return
	}
	name := "unbounded"
	s, err := quartz.NewStdScheduler(quartz.WithOutdatedThreshold(time.Hour))
	must(err)
	const others = 20
	var c poolCounter
	var blockerStarts atomic.Int64
	release := make(chan struct{})
	firstBlocked := make(chan struct{})
	var once sync.Once
	blocker := &poolJob{name: "blocker", run: func(ctx context.Context) error {
		blockerStarts.Add(1)
		c.enter()
		once.Do(func() { close(firstBlocked) })
		<-release // ignores ctx on purpose: a long-running job
		c.leave()
		return nil
	}}
	must(s.ScheduleJob(quartz.NewJobDetail(blocker, quartz.NewJobKey("blocker")), quartz.NewSimpleTrigger(50*time.Millisecond)))
	type rec struct {
		due   time.Time
		start atomic.Int64 // unix nano, 0 = not started
	}
	recs := make([]*rec, others)
	done := make(chan struct{}, others)
	for i := 0; i < others; i++ {
		rc := &rec{}
		recs[i] = rc
		work := time.Duration(1+r.Intn(2)) * time.Millisecond
		j := &poolJob{name: fmt.Sprintf("o%d", i), run: func(ctx context.Context) error {
			rc.start.Store(time.Now().UnixNano())
			c.enter()
			time.Sleep(work)
			c.leave()
			done <- struct{}{}
			return nil
		}}
		delay := 150 * time.Millisecond
		rc.due = time.Now().Add(delay)
		must(s.ScheduleJob(quartz.NewJobDetail(j, quartz.NewJobKey(j.name)), quartz.NewRunOnceTrigger(delay)))
	}
	ctx, cancel := context.WithCancel(context.Background())
	s.Start(ctx)
	blocked := false
	select {
	case <-firstBlocked:
		blocked = true
	case <-time.After(10 * time.Second):
	}
	tBlocked := time.Now()
	got := 0
	deadline := time.After(time.Until(recs[others-1].due) + 4*time.Second)
wait:
	for got < others {
		select {
		case <-done:
			got++
		case <-deadline:
			break wait
		}
	}
	// the blocked job's own later fire times (every 50 ms): wait for 3 starts, at most 2 s after the first one
	for blockerStarts.Load() < 3 && time.Since(tBlocked) < 2*time.Second {
		time.Sleep(2 * time.Millisecond)
	}
	bs := blockerStarts.Load()
	var worst time.Duration
	late := 0
	for i, rc := range recs {
		stt := rc.start.Load()
		if stt == 0 {
			late++
			if blocked {
				st.violation("dispatch delayed > 2 s: unbounded mode, job o%d had not started %.1f s after its fire time while one execution of another job was still running",
					i, time.Since(rc.due).Seconds())
			}
			continue
		}
		d := time.Unix(0, stt).Sub(rc.due)
		if d > worst {
			worst = d
		}
		if d > 2*time.Second && blocked {
			late++
			st.violation("dispatch delayed > 2 s: unbounded mode, job o%d started %.2f s after its fire time while one execution of another job was still running", i, d.Seconds())
		}
	}
	if blocked && bs < 3 {
		st.violation("dispatch delayed > 2 s: unbounded mode, the running job's own next fire times (every 50 ms) started only %d execution(s) within 2 s", bs)
	}
	if !blocked {
		st.failures = append(st.failures, "unbounded: the blocker never started within 10 s")
	}
	close(release)
	if !poolShutdown(s, cancel) {
		st.failures = append(st.failures, name+": Wait did not return within 10 s after Stop")
	}
	st.mu.Lock()
	st.evals += got + int(bs)
	st.shapes[name] = true
	st.samples = append(st.samples, map[string]any{"scenario": name, "others": others, "others_started": got, "worst_start_delay_ms": worst.Milliseconds(),
		"blocker_executions_started_while_first_still_running": bs, "max_in_flight": c.max.Load()})
	st.mu.Unlock()
	st.count("scenario", name)
	st.count("unbounded_blocker_starts", fmt.Sprintf(">=3:%v", bs >= 3))
	st.count("unbounded_worst_delay", fmt.Sprintf("<=%dms", (worst.Milliseconds()/100+1)*100))
}

// ---- scenario D: restart-overlap (KNOWN FINDING, recorded not repaired): the bound holds per run of the scheduler,
// not per scheduler object. A job that ignores cancellation is still running when Stop(); Start() creates a fresh
// loop (and pool) that dispatches the other due jobs beside it.
func poolRestartOverlap(r *rand.Rand, limit int, st *poolStats) {
	if st.givenUp() {
		return
	}
	name, bound := "restart-overlap:blocking", 1
	opts := []quartz.SchedulerOpt{quartz.WithOutdatedThreshold(time.Hour)}
	if limit > 0 {
		name, bound = fmt.Sprintf("restart-overlap:pool-%d", limit), limit
		opts = append(opts, quartz.WithWorkerLimit(limit))
	} else {
		opts = append(opts, quartz.WithBlockingExecution())
	}
	s, err := quartz.NewStdScheduler(opts...)
	must(err)
	jobs := 2*bound + 2
	var c poolCounter
	done := make(chan struct{}, jobs)
	for i := 0; i < jobs; i++ {
		j := &poolJob{name: fmt.Sprintf("s%d", i), run: func(ctx context.Context) error {
			c.enter()
			time.Sleep(400 * time.Millisecond) // ignores ctx on purpose
			c.leave()
			done <- struct{}{}
			return nil
		}}
		must(s.ScheduleJob(quartz.NewJobDetail(j, quartz.NewJobKey(j.name)), quartz.NewRunOnceTrigger(time.Duration(5+r.Intn(5))*time.Millisecond)))
	}
	ctx1, cancel1 := context.WithCancel(context.Background())
	s.Start(ctx1)
	// wait until the first run is saturated
	full := false
	for t := time.Now(); time.Since(t) < 5*time.Second; time.Sleep(time.Millisecond) {
		if c.cur.Load() >= int64(bound) {
			full = true
			break
		}
	}
	maxBefore := c.max.Load()
	s.Stop()
	ctx2, cancel2 := context.WithCancel(context.Background())
	s.Start(ctx2) // while the executions of the first run are still in progress
	// In pool mode the loop of the first run may hold one fetched job in its hand-off select when Stop arrives; that job
	// is dropped (the `case <-ctx.Done()` of the select), so one execution may be missing: wait for jobs-1 and for idleness.
	got := 0
	deadline := time.After(20 * time.Second)
	tick := time.NewTicker(5 * time.Millisecond)
	defer tick.Stop()
	var idleSince time.Time
wait:
	for got < jobs {
		select {
		case <-done:
			got++
			idleSince = time.Time{}
		case <-tick.C:
			if got >= jobs-1 && c.cur.Load() == 0 {
				if idleSince.IsZero() {
					idleSince = time.Now()
				} else if time.Since(idleSince) > 300*time.Millisecond {
					break wait
				}
			}
		case <-deadline:
			break wait
		}
	}
	max := c.max.Load()
	if maxBefore > int64(bound) {
		st.violation("max in-flight exceeded bound: %s, %d executions in progress at once within ONE run (bound %d)", name, maxBefore, bound)
	} else if max > int64(bound) {
		st.violation("KNOWN[restart-overlap] %s: %d executions in progress at once (bound %d) after Stop(); Start() while %d execution(s) of a job that ignores cancellation were still running: "+
			"the bound holds per run of the scheduler, not per scheduler object", name, max, bound, bound)
	}
	if !full {
		st.failures = append(st.failures, name+": the first run never reached its bound within 5 s")
	}
	if got < jobs-1 {
		st.failures = append(st.failures, fmt.Sprintf("%s: only %d of %d jobs ran within 20 s", name, got, jobs))
	}
	cancel1()
	if !poolShutdown(s, cancel2) {
		st.failures = append(st.failures, name+": Wait did not return within 10 s after Stop")
	}
	st.mu.Lock()
	st.evals += got
	st.shapes[name] = true
	st.samples = append(st.samples, map[string]any{"scenario": name, "jobs": jobs, "executed": got, "bound_per_run": bound, "max_in_flight_first_run": maxBefore,
		"max_in_flight_across_restart": max, "dropped_in_handoff_at_stop": jobs - got})
	st.mu.Unlock()
	st.count("scenario", name)
	st.count("restart_overlap", fmt.Sprintf("%s:overlap-observed=%v", name, max > int64(bound)))
}

// ---- scenario E: stale worker. WorkerLimit 1; a gate job keeps the worker of run 1 busy across Stop(); Start(); the worker of
// run 2 is kept busy by a second gate, so that the loop of run 2 sits in its hand-off with a due job when the stale worker
// of run 1 comes back. Every job dispatched by run 2 must see a LIVE context at the start of Execute and get its retries
// (MaxRetries 3 on an always-failing job = 4 attempts). With a hand-off channel shared by all runs the stale worker took
// the job about every second time and ran it with the cancelled context of run 1 (one attempt, no retry).
func poolStaleWorker(trials int, st *poolStats) {
	name := "stale-worker"
	staleCtx, fewAttempts, ok := 0, 0, 0
	for t := 0; t < trials; t++ {
		if st.givenUp() {
			break
		}
		s, err := quartz.NewStdScheduler(quartz.WithWorkerLimit(1), quartz.WithOutdatedThreshold(time.Hour))
		must(err)
		mkGate := func(nm string) (*poolJob, chan struct{}, chan struct{}) {
			entered, release := make(chan struct{}), make(chan struct{})
			var once sync.Once
			return &poolJob{name: nm, run: func(ctx context.Context) error {
				once.Do(func() { close(entered) })
				<-release // ignores ctx on purpose
				return nil
			}}, entered, release
		}
		waitFor := func(ch chan struct{}, what string) bool {
			select {
			case <-ch:
				return true
			case <-time.After(10 * time.Second):
				if what == "gate of the second run" {
					// the worker of the first run is still busy (its job ignores cancellation); the run started by Stop; Start has
					// WorkerLimit 1 of its own and a job that has been due for 10 s
					st.violation("stale worker: after Stop; Start with the worker of the previous run still busy, a due job of the new run did not start within 10 s: the new run has no worker of its own (WorkerLimit 1, trial %d)", t)
				} else {
					st.failures = append(st.failures, fmt.Sprintf("%s: %s not reached within 10 s (trial %d)", name, what, t))
				}
				return false
			}
		}
		g1, in1, rel1 := mkGate("gate1")
		must(s.ScheduleJob(quartz.NewJobDetail(g1, quartz.NewJobKey("gate1")), quartz.NewRunOnceTrigger(time.Millisecond)))
		ctx1, cancel1 := context.WithCancel(context.Background())
		s.Start(ctx1)
		good := waitFor(in1, "gate of the first run")
		s.Stop()
		ctx2, cancel2 := context.WithCancel(context.Background())
		s.Start(ctx2)
		g2, in2, rel2 := mkGate("gate2")
		must(s.ScheduleJob(quartz.NewJobDetail(g2, quartz.NewJobKey("gate2")), quartz.NewRunOnceTrigger(time.Millisecond)))
		good = good && waitFor(in2, "gate of the second run")
		// the always-failing job of the second run
		var attempts atomic.Int64
		var firstErr atomic.Value
		fail := &poolJob{name: "failing", run: func(ctx context.Context) error {
			if attempts.Add(1) == 1 {
				if e := ctx.Err(); e != nil {
					firstErr.Store(e.Error())
				} else {
					firstErr.Store("")
				}
			}
			return fmt.Errorf("always fails")
		}}
		opts := quartz.NewDefaultJobDetailOptions()
		opts.MaxRetries, opts.RetryInterval = 3, time.Millisecond
		must(s.ScheduleJob(quartz.NewJobDetailWithOptions(fail, quartz.NewJobKey("failing"), opts), quartz.NewRunOnceTrigger(time.Millisecond)))
		time.Sleep(25 * time.Millisecond) // the loop of the second run fetches it and waits in its hand-off (its worker is in gate2)
		close(rel1)                       // the stale worker of the first run comes back: its ctx is done AND (shared channel) a job is offered
		time.Sleep(15 * time.Millisecond)
		close(rel2) // the worker of the second run becomes free
		deadline := time.Now().Add(5 * time.Second)
		for attempts.Load() < 4 && time.Now().Before(deadline) {
			if attempts.Load() >= 1 {
				if fe, _ := firstErr.Load().(string); fe != "" {
					break // executed with a dead context: there will be no retries, do not wait 5 s
				}
			}
			time.Sleep(time.Millisecond)
		}
		if attempts.Load() >= 1 && attempts.Load() < 4 {
			if fe, _ := firstErr.Load().(string); fe != "" {
				time.Sleep(20 * time.Millisecond)
			}
		}
		n := attempts.Load()
		fe, _ := firstErr.Load().(string)
		switch {
		case !good:
		case n >= 1 && fe != "":
			staleCtx++
			if staleCtx <= 3 {
				st.violation("stale worker: WorkerLimit 1, Stop(); Start() while the worker of the first run was busy: a job dispatched by the NEW run started Execute with a dead context (%s) "+
					"and got %d of 4 attempts (MaxRetries 3) — it was taken by the worker of the stopped run (trial %d)", fe, n, t)
			}
		case n < 4:
			fewAttempts++
			if fewAttempts <= 3 {
				st.violation("stale worker: WorkerLimit 1, Stop(); Start() while the worker of the first run was busy: an always-failing job of the NEW run with MaxRetries 3 got %d of 4 attempts within 5 s (trial %d)", n, t)
			}
		default:
			ok++
		}
		cancel1()
		if !poolShutdown(s, cancel2) {
			st.failures = append(st.failures, name+": Wait did not return within 10 s after Stop")
		}
		st.mu.Lock()
		st.evals += int(n) + 2
		st.mu.Unlock()
	}
	st.mu.Lock()
	st.shapes[name] = true
	st.samples = append(st.samples, map[string]any{"scenario": name, "trials": trials, "live_context_and_4_attempts": ok, "executed_with_dead_context": staleCtx, "fewer_than_4_attempts": fewAttempts})
	st.mu.Unlock()
	st.count("scenario", name)
	st.count("stale_worker", fmt.Sprintf("ok=%d/%d", ok, trials))
}

// ---- scenario F: retry attempts are job executions too. Blocking mode (bound 1) or WorkerLimit n (bound n); a third of the jobs
// fail their first attempt at once and do their work in the retry (MaxRetries 1, RetryInterval 5 ms); all are due together, so the
// retry attempts overlap the other jobs. The maximum number of Execute bodies in progress must stay within the bound, and every
// job finishes (failers after 2 attempts).
func poolRetriesCounted(r *rand.Rand, n int, st *poolStats) {
	if st.givenUp() {
		return
	}
	name, bound := "blocking-with-retries", 1
	opts := []quartz.SchedulerOpt{quartz.WithOutdatedThreshold(time.Hour)}
	if n == 0 {
		opts = append(opts, quartz.WithBlockingExecution())
	} else {
		name, bound = fmt.Sprintf("pool-%d-with-retries", n), n
		opts = append(opts, quartz.WithWorkerLimit(n))
	}
	s, err := quartz.NewStdScheduler(opts...)
	must(err)
	jobs := 9 * bound
	if jobs > 36 {
		jobs = 36
	}
	var c poolCounter
	done := make(chan struct{}, jobs)
	for i := 0; i < jobs; i++ {
		d := time.Duration(20+r.Intn(11)) * time.Millisecond
		failFirst := i%3 == 0
		var attempts atomic.Int64
		j := &poolJob{name: fmt.Sprintf("r%d", i), run: func(ctx context.Context) error {
			c.enter()
			defer c.leave()
			if failFirst && attempts.Add(1) == 1 {
				return fmt.Errorf("first attempt fails")
			}
			time.Sleep(d)
			done <- struct{}{}
			return nil
		}}
		jo := quartz.NewDefaultJobDetailOptions()
		jo.MaxRetries, jo.RetryInterval = 1, 5*time.Millisecond
		must(s.ScheduleJob(quartz.NewJobDetailWithOptions(j, quartz.NewJobKey(j.name), jo), quartz.NewRunOnceTrigger(10*time.Millisecond)))
	}
	ctx, cancel := context.WithCancel(context.Background())
	s.Start(ctx)
	got := 0
	deadline := time.After(30 * time.Second)
wait:
	for got < jobs {
		select {
		case <-done:
			got++
		case <-deadline:
			break wait
		}
	}
	max := c.max.Load()
	if max > int64(bound) {
		st.violation("max in-flight exceeded bound: %s, %d executions (first attempts and retries) in progress at once (bound %d), %d jobs due at once, a third of them failing their first attempt",
			name, max, bound, jobs)
	}
	if got < jobs {
		st.violation("%s: only %d of %d jobs completed within 30 s (a failed first attempt with MaxRetries 1 must be retried once)", name, got, jobs)
	}
	if !poolShutdown(s, cancel) {
		st.failures = append(st.failures, name+": Wait did not return within 10 s after Stop")
	}
	st.mu.Lock()
	st.evals += got
	st.shapes[name] = true
	st.samples = append(st.samples, map[string]any{"scenario": name, "jobs_due_at_once": jobs, "completed": got, "max_in_flight": max, "bound": bound})
	st.mu.Unlock()
	st.count("scenario", name)
	st.count("max_in_flight", fmt.Sprintf("%s:%d", name, max))
}

func poolRun(args []string) int {
	fs := flag.NewFlagSet("pool", flag.ExitOnError)
	seed := fs.Int64("seed", 1, "")
	rounds := fs.Int("n", 2, "rounds of the scenario set")
	out := fs.String("out", "", "")
	stale := fs.Int("stale", 30, "trials of the stale-worker scenario")
	fs.Parse(args)
	r := rand.New(rand.NewSource(*seed))
	st := &poolStats{shapes: map[string]bool{}, dist: map[string]map[string]int{}}
	r2 := rand.New(rand.NewSource(*seed ^ 0x5eed12)) // second scenario set (pool2.go): its own generator
	t0 := time.Now()
	for k := 0; k < *rounds; k++ {
		poolBlocking(r, 0, st)
		poolBlocking(r, []int{2, 4, 8}[r.Intn(3)], st)
		ns := []int{1, 2, 4, 16}
		r.Shuffle(len(ns), func(i, j int) { ns[i], ns[j] = ns[j], ns[i] })
		for _, n := range ns {
			poolLimited(r, n, st)
		}
		poolUnbounded(r, st)
		poolPanicFirst = true
		poolLimited(r, []int{1, 2, 4}[r.Intn(3)], st)
		poolPanicFirst = false
		poolRetriesCounted(r, 0, st)
		poolRetriesCounted(r, []int{1, 2, 4}[r.Intn(3)], st)
		poolLimitedOpt(r, []int{2, 4}[r.Intn(2)], true, st)
		if k == 0 { // fewer processors than workers: executions that wait (not compute) must still reach n in progress
			oldProcs := runtime.GOMAXPROCS(2)
			poolLimited(r, 4, st)
			runtime.GOMAXPROCS(oldProcs)
		}
		if k == 0 {
			poolRestartOverlap(r, 0, st)
			poolRestartOverlap(r, 2, st)
			poolStaleWorker(*stale, st)
		}
		poolSecondSet(r2, k, st)
	}
	leftover := 0
	for i := 0; i < 300; i++ { // every scheduler was stopped and waited for: nothing of package quartz may be left
		if leftover = poolFrames("github.com/reugn/go-quartz/quartz."); leftover == 0 {
			break
		}
		time.Sleep(10 * time.Millisecond)
	}
	viol := st.viol
	if viol == nil {
		viol = []string{}
	}
	writeJSON(*out+"/stats.json", map[string]any{"seed": *seed, "evaluations": st.evals, "distinct_nontrivial": len(st.shapes),
		"distribution": st.dist, "violations": viol, "samples": st.samples, "harness_failures": st.failures,
		"leftover_quartz_goroutines": leftover, "wall_ms": time.Since(t0).Milliseconds()})
	fmt.Printf("pool: %d executions observed in %d scenario runs (%d distinct), %d property violations, %d harness failures, %d ms\n",
		st.evals, *rounds*16+4, len(st.shapes), len(viol), len(st.failures), time.Since(t0).Milliseconds())
	if len(st.failures) > 0 {
		fmt.Println("pool: harness failures:", st.failures)
		real := 0
		for _, v := range viol {
			if !strings.Contains(v, "KNOWN[") {
				real++
			}
		}
		if real == 0 { // (with a judged violation at hand that one is reported; the ambiguous failures are in stats.json)
			return 4
		}
	}
	return 0
}
