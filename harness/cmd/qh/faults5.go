package main

// C15, "the execution loop retries a failing queue no faster than once per RetryInterval" — judged call by call.
//
// The plans of faults.go count the loop-side calls of a whole burst window against a limit (a spinning loop makes > 10^5). A loop
// that loses its back-off after ONE kind of failure does not spin: with three jobs it makes three Pop/Push rounds back to back and
// is done. What the clause says about it is a statement on two consecutive calls:
//
//	after a loop-side Pop() or Push() has FAILED (injected error), the loop does not come back to the queue for a job — Pop(),
//	Push() or the Head() that arms the next tick — before RetryInterval has passed.
//
// (The Size() at the top of the loop is read on every iteration, also while the loop is backing off, and is not a retry of what
// failed; a failing Size()/Head() is retried on every interrupt token, see the observations of checks/c15.py: neither is judged
// here.) The unchanged loop sets retryAt = now + RetryInterval AFTER the failed call has returned and arms its timer with it, and a
// timer never fires early: the rule is one-sided, no machine load can break it.
//
//  1. fqBackoffGaps — the rule applied to the call log of EVERY plan of faults.go (single faults, bursts, random mixes). In
//     particular a single fault that hits the push-back of a VALID (due) job while the other two jobs are due within the RetryInterval
//     (always the case: intervals 20/30/40 ms, RetryInterval 50 ms).
//  2. qh faults5 — stand-alone: 3 / 4 jobs due at the same moment (150 ms after they were scheduled), the write side of the queue
//     down (every Push fails, Pop/Size/Head answer truthfully) from before they are due, RetryInterval 400 ms, all three dispatch
//     modes, no API call in between. Every failed Push must be followed by >= 400 ms (minus 1 ms) without Pop/Push/Head.

import (
	"context"
	"flag"
	"fmt"
	"sort"
	"sync"
	"sync/atomic"
	"time"

	"github.com/reugn/go-quartz/quartz"
)

func init() { commands["faults5"] = faults5Run }

// fqBackoffGaps judges the call log of one plan of faults.go (calls carry the time of ENTRY; a failed call returns at once).
// early = how many early retries were seen. One or two in a whole plan can be the trace of a stale timer tick rather than of a missing
// back-off: with go.mod's `go 1.21` timer channels are asynchronous, and when the loop is interrupted at the very moment its timer
// expires, `timer.Stop()` already answers false while the runtime has not yet put the tick into the channel; the non-blocking drain
// then finds nothing, the tick arrives afterwards and ends the NEXT wait at once (seen once in about 60 loaded runs: a failing Size()
// followed 5 µs later by a Pop()). The caller therefore gives up to two early retries a second opinion (the plan again, alone: a
// missing back-off reproduces, a runtime race does not) and reports three or more at once.
func fqBackoffGaps(calls []fqCall, retry time.Duration, plan fqPlan) (viol []string, failures int, early int) {
	// After a loop-side call has failed with the injected error — Pop() / Push(), and since the repair of finding F4 also Size() / Head() —
	// the loop's next queue call of ANY kind (the Size() at the top of an iteration included: the back-off deadline is tested before it
	// is asked) comes no sooner than RetryInterval - 1 ms, whatever interrupts arrive in between.
	first, n := "", 0
	for i, c := range calls {
		if !(c.loop && c.fault == "fail" && (c.op == "pop" || c.op == "push" || c.op == "size" || c.op == "head")) {
			continue
		}
		if c.op == "pop" || c.op == "push" {
			failures++
		}
		for j := i + 1; j < len(calls); j++ {
			d := calls[j]
			if !d.loop || !(d.op == "pop" || d.op == "push" || d.op == "head" || d.op == "size") {
				continue
			}
			if gap := d.at.Sub(c.at); gap < retry-time.Millisecond {
				n++
				if first == "" {
					first = fmt.Sprintf("the loop's %s() (queue call number %d) failed with the injected error and its next %s() came %v later", c.op, i, d.op, gap.Round(time.Microsecond))
				}
			}
			break
		}
	}
	if n > 0 {
		viol = append(viol, fmt.Sprintf("C15 a failing queue is retried faster than once per RetryInterval: %s, RetryInterval is %v (%d such retries in this plan; no back-off after the failure) (%s)", first, retry, n, plan))
	}
	return viol, failures, n
}

// ---- stand-alone: write side down, several jobs due at once ----

type f5Call struct {
	op       string
	at, done time.Time
	failed   bool
}

type f5Queue struct {
	quartz.JobQueue
	down  atomic.Bool
	mu    sync.Mutex
	calls []f5Call
}

var errF5 = fmt.Errorf("faults5: write side of the queue is down: %w", errInjected)

func (q *f5Queue) rec(op string, at time.Time, failed bool) {
	q.mu.Lock()
	q.calls = append(q.calls, f5Call{op, at, time.Now(), failed})
	q.mu.Unlock()
}

func (q *f5Queue) Push(j quartz.ScheduledJob) error {
	at := time.Now()
	if q.down.Load() {
		q.rec("push", at, true)
		return errF5
	}
	err := q.JobQueue.Push(j)
	q.rec("push", at, err != nil)
	return err
}

func (q *f5Queue) Pop() (quartz.ScheduledJob, error) {
	at := time.Now()
	j, err := q.JobQueue.Pop()
	q.rec("pop", at, false)
	return j, err
}

func (q *f5Queue) Head() (quartz.ScheduledJob, error) {
	at := time.Now()
	j, err := q.JobQueue.Head()
	q.rec("head", at, false)
	return j, err
}

type f5Job struct{ runs atomic.Int32 }

func (j *f5Job) Execute(context.Context) error { j.runs.Add(1); return nil }
func (j *f5Job) Description() string           { return "faults5" }

type f5Case struct {
	Mode int
	Jobs int
}

const f5Retry = 400 * time.Millisecond

func (c f5Case) String() string {
	return fmt.Sprintf("mode=%s, %d jobs due at the same moment (SimpleTrigger 150 ms), RetryInterval %v; from before they are due every Push() of the custom queue fails while Pop()/Size()/Head() answer truthfully; no API call after the jobs were scheduled",
		retryModes[c.Mode], c.Jobs, f5Retry)
}

type f5Result struct {
	Case       string  `json:"case"`
	FailedPush int     `json:"failed_pushes"`
	Pops       int     `json:"pops"`
	Runs       int     `json:"executions"`
	MinGapMs   float64 `json:"min_gap_ms_failed_push_to_next_pop_push_head"`
	QueueCalls int     `json:"queue_calls"`
	viol       []string
}

func f5Run(c f5Case) (res f5Result) {
	res.Case, res.MinGapMs = c.String(), -1
	q := &f5Queue{JobQueue: quartz.NewJobQueue()}
	opts := []quartz.SchedulerOpt{quartz.WithQueue(q, &sync.Mutex{}), quartz.WithRetryInterval(f5Retry), quartz.WithOutdatedThreshold(time.Minute)}
	switch c.Mode {
	case 0:
		opts = append(opts, quartz.WithBlockingExecution())
	case 1:
		opts = append(opts, quartz.WithWorkerLimit(2))
	}
	s, err := quartz.NewStdScheduler(opts...)
	must(err)
	ctx, cancel := context.WithCancel(context.Background())
	defer func() {
		s.Stop()
		cancel()
		wctx, wc := context.WithTimeout(context.Background(), 3*time.Second)
		s.Wait(wctx)
		wc()
	}()
	s.Start(ctx)
	jobs := make([]*f5Job, c.Jobs)
	for i := range jobs {
		jobs[i] = &f5Job{}
		must(s.ScheduleJob(quartz.NewJobDetail(jobs[i], quartz.NewJobKey(fmt.Sprintf("f5-%d", i))), quartz.NewSimpleTrigger(150*time.Millisecond)))
	}
	q.down.Store(true)
	// an unchanged loop needs 150 ms + one RetryInterval per job; watch until every job has left the queue (deadline) and a little longer
	dl := time.Now().Add(150*time.Millisecond + time.Duration(c.Jobs)*f5Retry + 3*time.Second)
	for time.Now().Before(dl) {
		if n, _ := q.JobQueue.Size(); n == 0 {
			break
		}
		time.Sleep(5 * time.Millisecond)
	}
	time.Sleep(30 * time.Millisecond)
	q.mu.Lock()
	calls := append([]f5Call(nil), q.calls...)
	q.mu.Unlock()
	res.QueueCalls = len(calls)
	for _, j := range jobs {
		res.Runs += int(j.runs.Load())
	}
	first, n := "", 0
	for i, cl := range calls {
		if cl.op == "pop" {
			res.Pops++
		}
		if !(cl.op == "push" && cl.failed) {
			continue
		}
		res.FailedPush++
		if i+1 < len(calls) {
			d := calls[i+1]
			gap := d.at.Sub(cl.done)
			if ms := float64(gap.Microseconds()) / 1000; res.MinGapMs < 0 || ms < res.MinGapMs {
				res.MinGapMs = ms
			}
			if gap < f5Retry-time.Millisecond {
				n++
				if first == "" {
					first = fmt.Sprintf("failed Push number %d (the push-back of a job that was due and was handed to execution) was followed by %s() %v after it had returned", res.FailedPush, d.op, gap.Round(time.Microsecond))
				}
			}
		}
	}
	if n > 0 {
		res.viol = append(res.viol, fmt.Sprintf("C15 a failing queue is retried faster than once per RetryInterval: %s, RetryInterval is %v (%d of %d failed Push calls were followed that fast; %d Pop calls, %d executions) [%s]",
			first, f5Retry, n, res.FailedPush, res.Pops, res.Runs, res.Case))
	}
	return res
}

func faults5Run(args []string) int {
	fs := flag.NewFlagSet("faults5", flag.ExitOnError)
	seed := fs.Int64("seed", 1, "")
	n := fs.Int("n", 1, "rounds")
	out := fs.String("out", "", "")
	fs.Parse(args)
	t0 := time.Now()
	var cases []f5Case
	for round := 0; round < *n; round++ {
		for mode := range retryModes {
			cases = append(cases, f5Case{Mode: mode, Jobs: 3}, f5Case{Mode: mode, Jobs: 4})
		}
	}
	results := make([]f5Result, len(cases))
	var wg sync.WaitGroup
	for i := range cases {
		wg.Add(1)
		go func(i int) {
			defer wg.Done()
			results[i] = f5Run(cases[i])
		}(i)
	}
	wg.Wait()
	viol := []string{}
	dist := map[string]map[string]int{"mode": {}, "jobs": {}, "failed pushes followed by a further queue call": {}}
	distinct := map[string]bool{}
	evals := 0
	samples := []any{}
	minGap := -1.0
	for i, res := range results {
		c := cases[i]
		evals += res.QueueCalls
		dist["mode"][retryModes[c.Mode]]++
		dist["jobs"][fmt.Sprint(c.Jobs)]++
		if res.FailedPush >= 2 {
			dist["failed pushes followed by a further queue call"][">=1"]++
			distinct[fmt.Sprintf("%d/%d", c.Mode, c.Jobs)] = true
		} else {
			dist["failed pushes followed by a further queue call"]["0 (scenario not reached)"]++
		}
		if res.MinGapMs >= 0 && (minGap < 0 || res.MinGapMs < minGap) {
			minGap = res.MinGapMs
		}
		viol = append(viol, res.viol...)
		if len(samples) < 3 {
			samples = append(samples, res)
		}
	}
	sort.Strings(viol)
	writeJSON(*out+"/stats.json", map[string]any{"seed": *seed, "evaluations": evals, "scenarios": len(cases), "distinct_nontrivial": len(distinct),
		"distribution": dist, "violations": viol, "samples": samples, "min_gap_ms": minGap, "retry_interval_ms": f5Retry.Milliseconds(), "wall_s": time.Since(t0).Seconds()})
	fmt.Printf("faults5: %d write-side-down scenarios in %.1fs, %d queue calls, smallest gap after a failed Push %.1f ms (RetryInterval %v), %d property violations\n",
		len(cases), time.Since(t0).Seconds(), evals, minGap, f5Retry, len(viol))
	return 0
}
