package main

// More C10 scenarios (second mutation round): lifecycle calls racing with API traffic, shutdown in the middle of a queue
// outage, and the contexts seen by a built-in job across a restart.

import (
	"context"
	"errors"
	"fmt"
	"io"
	"math/rand"
	"net/http"
	"strings"
	"sync"
	"sync/atomic"
	"time"

	"github.com/reugn/go-quartz/job"
	"github.com/reugn/go-quartz/quartz"
)

// lcTimed runs f and reports whether it returned within d (a call that never returns stays behind in its goroutine).
func lcTimed(d time.Duration, f func()) bool {
	done := make(chan struct{})
	go func() { f(); close(done) }()
	select {
	case <-done:
		return true
	case <-time.After(d):
		return false
	}
}

// slowTrigger: computing a fire time takes a moment, so that API calls are in progress when lifecycle calls arrive.
type lcSlowTrigger struct{ every time.Duration }

func (t lcSlowTrigger) NextFireTime(prev int64) (int64, error) {
	time.Sleep(50 * time.Microsecond)
	return prev + int64(t.every), nil
}
func (t lcSlowTrigger) Description() string { return "slow" }

// traffic: "all sequences of Start/Stop/cancel/Wait/ScheduleJob with arbitrary spacing" — here the spacing is zero: two
// clients keep calling ScheduleJob / DeleteJob / PauseJob / ResumeJob / GetJobKeys while a third goroutine starts, stops,
// cancels and restarts the scheduler. Every call must return; IsStarted must follow the script; at the end the scheduler
// fires again and shuts down cleanly.
func (e *lcEnv) traffic(r *rand.Rand, mode string, steps int) {
	s := lcNew(mode)
	tick := &lcJob{name: "tick", release: make(chan struct{})}
	lcSchedule(s, tick, 5*time.Millisecond)
	var stop atomic.Bool
	var current [2]atomic.Value
	var calls atomic.Int64
	var wg sync.WaitGroup
	for c := 0; c < 2; c++ {
		wg.Add(1)
		go func(c int) {
			defer wg.Done()
			rr := rand.New(rand.NewSource(int64(c) + 1))
			for i := 0; !stop.Load(); i++ {
				k := quartz.NewJobKey(fmt.Sprintf("t%d", rr.Intn(4)))
				op := []string{"ScheduleJob", "ScheduleJob", "DeleteJob", "PauseJob", "ResumeJob", "GetJobKeys", "GetScheduledJob"}[rr.Intn(7)]
				current[c].Store(op)
				switch op {
				case "ScheduleJob":
					o := quartz.NewDefaultJobDetailOptions()
					o.Replace = true
					_ = s.ScheduleJob(quartz.NewJobDetailWithOptions(&lcJob{name: "t"}, k, o), lcSlowTrigger{time.Hour})
				case "DeleteJob":
					_ = s.DeleteJob(k)
				case "PauseJob":
					_ = s.PauseJob(k)
				case "ResumeJob":
					_ = s.ResumeJob(k)
				case "GetJobKeys":
					_, _ = s.GetJobKeys()
				case "GetScheduledJob":
					_, _ = s.GetScheduledJob(k)
				}
				current[c].Store("")
				calls.Add(1)
			}
		}(c)
	}
	var cancels []context.CancelFunc
	want := false
	var hist []string
	ok := true
	for i := 0; i < steps && ok; i++ {
		op := []string{"start", "start", "stop", "cancel-cur", "stop-start", "yield"}[r.Intn(6)]
		hist = append(hist, op)
		if len(hist) > 12 {
			hist = hist[1:]
		}
		returned := lcTimed(5*time.Second, func() {
			switch op {
			case "start":
				ctx, c := context.WithCancel(context.Background())
				s.Start(ctx)
				if !want {
					cancels = append(cancels, c)
				} else {
					c()
				}
				want = true
			case "stop":
				s.Stop()
				want = false
			case "stop-start":
				s.Stop()
				ctx, c := context.WithCancel(context.Background())
				s.Start(ctx)
				cancels = append(cancels, c)
				want = true
			case "cancel-cur":
				if len(cancels) > 0 {
					cancels[len(cancels)-1]()
					want = false
				}
			case "yield":
				time.Sleep(time.Duration(r.Intn(300)) * time.Microsecond)
			}
		})
		if !e.check(returned, "%s, under API traffic: %s did not return within 5 s (last calls %v; clients inside %v / %v): deadlock between a lifecycle call and an API call",
			mode, op, hist, current[0].Load(), current[1].Load()) {
			ok = false
			break
		}
		var got bool
		if !e.check(lcTimed(5*time.Second, func() { got = s.IsStarted() }), "%s, under API traffic: IsStarted did not return within 5 s after %v", mode, hist) {
			ok = false
			break
		}
		if !e.check(got == want, "%s, under API traffic: IsStarted = %v after …%v, the most recent Start/Stop/cancellation requires %v", mode, got, hist, want) {
			break
		}
	}
	stop.Store(true)
	if !e.check(lcTimed(5*time.Second, wg.Wait), "%s, under API traffic: an API call never returned (clients inside %v / %v) after …%v", mode, current[0].Load(), current[1].Load(), hist) {
		ok = false
	}
	if ok {
		s.Start(context.Background())
		e.check(lcFires(tick), "%s: after %d lifecycle calls under API traffic the started scheduler does not fire a 5 ms job within 2 s", mode, steps)
		s.Stop()
		ret, took := lcWait(s, 5*time.Second)
		e.check(ret, "%s: Wait did not return within 5 s after lifecycle calls under API traffic (took %v)", mode, took)
	}
	for _, c := range cancels {
		c()
	}
	e.shapes["traffic:"+mode] = true
	e.count("scenario", "traffic")
	e.count("traffic_api_calls", fmt.Sprintf("%s:>=%d", mode, calls.Load()/100*100))
}

// outQ: a contract-abiding queue with an outage switch per operation.
type lcOutQ struct {
	quartz.JobQueue
	failing atomic.Value // string: name of the failing operation, "" = healthy
	calls   atomic.Int64
}

var errOutage = errors.New("queue outage")

func (q *lcOutQ) down(op string) bool {
	q.calls.Add(1)
	f, _ := q.failing.Load().(string)
	return f == op || f == "all"
}
func (q *lcOutQ) Size() (int, error) {
	if q.down("size") {
		return 0, errOutage
	}
	return q.JobQueue.Size()
}
func (q *lcOutQ) Head() (quartz.ScheduledJob, error) {
	if q.down("head") {
		return nil, errOutage
	}
	return q.JobQueue.Head()
}
func (q *lcOutQ) Pop() (quartz.ScheduledJob, error) {
	if q.down("pop") {
		return nil, errOutage
	}
	return q.JobQueue.Pop()
}
func (q *lcOutQ) Push(j quartz.ScheduledJob) error {
	if q.down("push") {
		return errOutage
	}
	return q.JobQueue.Push(j)
}

// outageShutdown: the scheduler is stopped (Stop or cancellation) in the middle of an outage of one queue operation that
// lasts beyond the shutdown. Wait must return, nothing of the scheduler may stay alive, and the queue is left alone.
func (e *lcEnv) outageShutdown(mode, op, how string) {
	q := &lcOutQ{JobQueue: quartz.NewJobQueue()}
	q.failing.Store("")
	opts := []quartz.SchedulerOpt{quartz.WithQueue(q, &sync.Mutex{}), quartz.WithRetryInterval(5 * time.Millisecond), quartz.WithOutdatedThreshold(time.Hour)}
	switch mode {
	case "blocking":
		opts = append(opts, quartz.WithBlockingExecution())
	case "workers3":
		opts = append(opts, quartz.WithWorkerLimit(3))
	case "blocking+workers3":
		opts = append(opts, quartz.WithBlockingExecution(), quartz.WithWorkerLimit(3))
	}
	s, err := quartz.NewStdScheduler(opts...)
	must(err)
	tick := &lcJob{name: "tick", release: make(chan struct{})}
	lcSchedule(s, tick, 2*time.Millisecond)
	ctx, cancel := context.WithCancel(context.Background())
	defer cancel()
	s.Start(ctx)
	if !lcFires(tick) {
		e.failures = append(e.failures, "outage-shutdown: the job did not fire before the outage")
		return
	}
	q.failing.Store(op)
	time.Sleep(25 * time.Millisecond) // several retry intervals into the outage
	if how == "stop" {
		s.Stop()
	} else {
		cancel()
	}
	ret, took := lcWait(s, 3*time.Second)
	e.check(ret, "%s: Wait did not return within 3 s after %s during an outage of the queue's %s (took %v): the execution loop does not notice the shutdown while the queue fails", mode, how, op, took)
	c0 := q.calls.Load()
	time.Sleep(40 * time.Millisecond)
	e.check(q.calls.Load() == c0, "%s: %d queue calls in 40 ms after %s + Wait during an outage of %s: something of the stopped scheduler is still polling the queue", mode, q.calls.Load()-c0, how, op)
	q.failing.Store("")
	if !ret { // let the stuck loop go so that the leak check of the next scenario is not polluted
		time.Sleep(50 * time.Millisecond)
	}
	e.shapes["outage-shutdown:"+op+":"+how] = true
	e.count("scenario", "outage-shutdown")
	e.count("outage_shutdown", op+":"+how)
}

// lcCtxRecorder: an HTTPHandler that records whether the request it is given carries a live context.
type lcCtxRecorder struct {
	live, dead atomic.Int64
}

func (h *lcCtxRecorder) Do(req *http.Request) (*http.Response, error) {
	if err := req.Context().Err(); err != nil {
		h.dead.Add(1)
		return nil, err // like http.Client: a request whose context has ended is refused
	}
	h.live.Add(1)
	return &http.Response{StatusCode: 200, Body: io.NopCloser(strings.NewReader("ok")), Request: req}, nil
}

// restartBuiltin: "a stopped scheduler can be started again ... and then fires its jobs again" for the built-in jobs that
// take the execution context along (CurlJob's request, ShellJob's command): after Stop/cancel + Start every execution must
// work with the context of the NEW run.
func (e *lcEnv) restartBuiltin(mode, how string) {
	s := lcNew(mode)
	rec := &lcCtxRecorder{}
	req, err := http.NewRequest(http.MethodGet, "http://127.0.0.1:1/", nil)
	must(err)
	curl := job.NewCurlJobWithOptions(req, job.CurlJobOptions{HTTPClient: rec})
	must(s.ScheduleJob(quartz.NewJobDetail(curl, quartz.NewJobKey("curl")), quartz.NewSimpleTrigger(3*time.Millisecond)))
	var fnLive, fnDead atomic.Int64
	fn := job.NewFunctionJob(func(ctx context.Context) (int, error) {
		if ctx.Err() != nil {
			fnDead.Add(1)
		} else {
			fnLive.Add(1)
		}
		return 0, nil
	})
	must(s.ScheduleJob(quartz.NewJobDetail(fn, quartz.NewJobKey("fn")), quartz.NewSimpleTrigger(3*time.Millisecond)))
	ctx1, c1 := context.WithCancel(context.Background())
	defer c1()
	s.Start(ctx1)
	if !lcPoll(2*time.Second, func() bool { return rec.live.Load() >= 2 && fnLive.Load() >= 2 }) {
		e.failures = append(e.failures, "restart-builtin: the jobs did not run in the first run")
		s.Stop()
		return
	}
	if how == "stop" {
		s.Stop()
	} else {
		c1()
	}
	if ret, _ := lcWait(s, 5*time.Second); !ret {
		e.violation("%s: Wait did not return within 5 s after %s (restart-builtin)", mode, how)
		return
	}
	rec.live.Store(0)
	rec.dead.Store(0)
	fnLive.Store(0)
	fnDead.Store(0)
	s.Start(context.Background())
	ran := lcPoll(2*time.Second, func() bool { return rec.live.Load()+rec.dead.Load() >= 3 && fnLive.Load()+fnDead.Load() >= 3 })
	e.check(ran, "%s: after %s; Wait; Start the CurlJob/FunctionJob with 3 ms triggers did not run 3 times within 2 s", mode, how)
	e.check(rec.dead.Load() == 0 && fnDead.Load() == 0,
		"%s: after %s; Wait; Start, %d of %d CurlJob requests and %d of %d FunctionJob calls carried a context that had already ended (the context of the previous run)",
		mode, how, rec.dead.Load(), rec.dead.Load()+rec.live.Load(), fnDead.Load(), fnDead.Load()+fnLive.Load())
	s.Stop()
	lcWait(s, 5*time.Second)
	e.shapes["restart-builtin:"+how] = true
	e.count("scenario", "restart-builtin")
}
