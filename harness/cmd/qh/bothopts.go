package main

import (
	"context"
	"fmt"
	"sync/atomic"
	"time"

	"github.com/reugn/go-quartz/quartz"
)

// bothOptions: WithBlockingExecution() together with WithWorkerLimit(n) — a documented combination ("WorkerLimit is ignored"), in
// either order. No pool exists in that configuration, so whichever way the dispatch switch and startWorkers are written they must
// agree on it: a run-once job due in 20 ms on a started, idle scheduler is executed, exactly once, and then leaves the registry;
// a second job scheduled afterwards is executed too (the loop is still alive). Returns violation strings for the given property id
// (C04: every dequeued valid fire time is executed; C05: dispatched promptly, nothing is executing and no pool is full).
func bothOptions(pid string) []string {
	var out []string
	for _, order := range []string{"blocking,limit", "limit,blocking"} {
		for _, n := range []int{1, 3} {
			opts := []quartz.SchedulerOpt{quartz.WithOutdatedThreshold(time.Hour)}
			if order == "blocking,limit" {
				opts = append(opts, quartz.WithBlockingExecution(), quartz.WithWorkerLimit(n))
			} else {
				opts = append(opts, quartz.WithWorkerLimit(n), quartz.WithBlockingExecution())
			}
			s, err := quartz.NewStdScheduler(opts...)
			if err != nil {
				out = append(out, fmt.Sprintf("%s harness: NewStdScheduler(%s %d): %v", pid, order, n, err))
				continue
			}
			ctx, cancel := context.WithCancel(context.Background())
			s.Start(ctx)
			var runs [2]atomic.Int32
			started := [2]chan struct{}{make(chan struct{}, 4), make(chan struct{}, 4)}
			mk := func(i int) *quartz.JobDetail {
				j := &poolJob{name: fmt.Sprintf("both%d", i), run: func(context.Context) error {
					runs[i].Add(1)
					started[i] <- struct{}{}
					return nil
				}}
				return quartz.NewJobDetail(j, quartz.NewJobKey(j.name))
			}
			desc := fmt.Sprintf("BlockingExecution and WorkerLimit %d both set (options given as %s), started idle scheduler", n, order)
			for i := 0; i < 2; i++ {
				if err := s.ScheduleJob(mk(i), quartz.NewRunOnceTrigger(20*time.Millisecond)); err != nil {
					out = append(out, fmt.Sprintf("%s harness: ScheduleJob: %v (%s)", pid, err, desc))
					break
				}
				select {
				case <-started[i]:
				case <-time.After(3 * time.Second):
					switch pid {
					case "C05":
						out = append(out, fmt.Sprintf("C05 lost dispatch: a run-once job due in 20 ms had not started 3 s after ScheduleJob returned although nothing is executing and no pool exists (%s; job %d of 2)", desc, i+1))
					default:
						out = append(out, fmt.Sprintf("%s a fire time was dequeued (or never looked at) and not executed: a run-once job due in 20 ms had not run 3 s after ScheduleJob returned (%s; job %d of 2)", pid, desc, i+1))
					}
				}
			}
			time.Sleep(30 * time.Millisecond)
			if pid == "C04" {
				for i := 0; i < 2; i++ {
					if r := runs[i].Load(); r > 1 {
						out = append(out, fmt.Sprintf("C04 a run-once job ran %d times (%s)", r, desc))
					}
				}
				if keys, err := s.GetJobKeys(); err == nil && len(keys) != 0 && runs[0].Load() > 0 && runs[1].Load() > 0 {
					out = append(out, fmt.Sprintf("C04 run-once jobs that have run are still in the registry: %v (%s)", keys, desc))
				}
			}
			cancel()
			s.Stop()
			wctx, wc := context.WithTimeout(context.Background(), 5*time.Second)
			s.Wait(wctx)
			wc()
		}
	}
	return out
}
