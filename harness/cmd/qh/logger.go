package main

// qh logger — property C18: SimpleLogger and SlogLogger emit a record iff its level is at or above the threshold
// (LevelOff silences everything); each emitted record carries the message, all key/value arguments in order and the
// label of the level it was logged at, also when many goroutines log concurrently; NoOpLogger emits nothing.
//
// Public API of package logger only. Every single-record case is also a protocol line for the Lean model
// (`logger simple|slog|noop …`, exact comparison of the written bytes / of the captured record); the verdicts in
// stats.json ("violations") are judged here against the property itself with an independent expectation.

import (
	"bytes"
	"context"
	"errors"
	"flag"
	"fmt"
	"log"
	"log/slog"
	"math/rand"
	"os"
	"runtime"
	"strconv"
	"strings"
	"sync"

	qlog "github.com/reugn/go-quartz/logger"
)

func init() { commands["logger"] = loggerRun }

type lgLevel struct {
	name  string // protocol name
	label string // SimpleLogger prefix, as documented
	value int    // numeric level
	call  func(l qlog.Logger, msg string, args ...any)
}

var lgLevels = []lgLevel{
	{"trace", "TRACE ", -8, func(l qlog.Logger, m string, a ...any) { l.Trace(m, a...) }},
	{"debug", "DEBUG ", -4, func(l qlog.Logger, m string, a ...any) { l.Debug(m, a...) }},
	{"info", "INFO ", 0, func(l qlog.Logger, m string, a ...any) { l.Info(m, a...) }},
	{"warn", "WARN ", 4, func(l qlog.Logger, m string, a ...any) { l.Warn(m, a...) }},
	{"error", "ERROR ", 8, func(l qlog.Logger, m string, a ...any) { l.Error(m, a...) }},
}

type lgRun struct {
	ops, impl []string
	viol      []string
	notes     []string
	samples   []any
	dist      map[string]map[string]int
	seen      map[string]bool
	judged    int
}

func (r *lgRun) flag(format string, a ...any) {
	if len(r.viol) < 40 {
		r.viol = append(r.viol, "C18 "+fmt.Sprintf(format, a...))
	}
}

func (r *lgRun) rec(op, ans string) {
	r.ops = append(r.ops, op)
	r.impl = append(r.impl, ans)
	r.seen[op] = true
}

func (r *lgRun) count(table, bucket string) {
	if r.dist[table] == nil {
		r.dist[table] = map[string]int{}
	}
	r.dist[table][bucket]++
}

// lgExpected is the documented line body, written without fmt's verbs: "msg=<msg>" then ", k=v" per pair, ", a" for an odd tail.
func lgExpected(msg string, rendered []string) string {
	s := "msg=" + msg
	for i := 0; i < len(rendered); i++ {
		if i%2 == 0 {
			s += ", " + rendered[i]
		} else {
			s += "=" + rendered[i]
		}
	}
	return s
}

type lgStringer struct{ s string }

func (x lgStringer) String() string { return x.s }

// lgRender is what a reader expects to see for an argument: the text of strings, errors and Stringers, decimal
// digits of integers, "<nil>" for nil, true/false. A non-string in KEY position is shown by fmt as %!s(type=value).
func lgRender(a any, keyPos bool) string {
	switch v := a.(type) {
	case string:
		return v
	case error:
		return v.Error()
	case fmt.Stringer:
		return v.String()
	case int:
		if keyPos {
			return "%!s(int=" + strconv.Itoa(v) + ")"
		}
		return strconv.Itoa(v)
	case bool:
		if keyPos {
			return "%!s(bool=" + strconv.FormatBool(v) + ")"
		}
		return strconv.FormatBool(v)
	case nil:
		if keyPos {
			return "%!s(<nil>)"
		}
		return "<nil>"
	}
	return fmt.Sprint(a)
}

// ---------------------------------------------------------------------------------------------- capturing slog handler

type lgRecord struct {
	level slog.Level
	msg   string
	attrs []slog.Attr
}

type lgHandler struct {
	mu        sync.Mutex
	threshold slog.Level
	recs      []lgRecord
	asked     []slog.Level
}

func (h *lgHandler) Enabled(_ context.Context, l slog.Level) bool {
	h.mu.Lock()
	h.asked = append(h.asked, l)
	h.mu.Unlock()
	return l >= h.threshold
}

func (h *lgHandler) Handle(_ context.Context, rec slog.Record) error {
	lr := lgRecord{level: rec.Level, msg: rec.Message}
	rec.Attrs(func(a slog.Attr) bool { lr.attrs = append(lr.attrs, a); return true })
	h.mu.Lock()
	h.recs = append(h.recs, lr)
	h.mu.Unlock()
	return nil
}
func (h *lgHandler) WithAttrs([]slog.Attr) slog.Handler { return h }
func (h *lgHandler) WithGroup(string) slog.Handler      { return h }

// ---------------------------------------------------------------------------------------------- the run

var lgMsgs = []string{"job done", "", "x", "msg=inner", "trailing newline\n", "a, b=c", "é ü", "%s %d %v", "two\nlines"}
var lgArgs = []string{"key", "value", "", " ", "=", ", ", "a=b", "é", "%d", "k2", "42", "x\n", "!BADKEY", "long value with spaces"}

func loggerRun(args []string) int {
	fs := flag.NewFlagSet("logger", flag.ExitOnError)
	seed := fs.Int64("seed", 1, "")
	n := fs.Int("n", 3, "random argument tuples per argument count")
	out := fs.String("out", "", "")
	goroutines := fs.Int("goroutines", 16, "")
	lines := fs.Int("lines", 5000, "lines per goroutine in the concurrency runs")
	fs.Parse(args)
	rng := rand.New(rand.NewSource(*seed))
	r := &lgRun{dist: map[string]map[string]int{}, seen: map[string]bool{}, notes: []string{}, samples: []any{}}

	thresholds := []int{}
	for t := -9; t <= 13; t++ {
		thresholds = append(thresholds, t)
	}
	thresholds = append(thresholds, int(qlog.LevelTrace), int(qlog.LevelDebug), int(qlog.LevelInfo), int(qlog.LevelWarn), int(qlog.LevelError), int(qlog.LevelOff),
		-1000000, 1000000)

	lgConstants(r)
	// argument tuples: every count 0..5, n random tuples each (count 0 once per message)
	type shape struct {
		msg  string
		args []string
	}
	var shapes []shape
	for c := 0; c <= 5; c++ {
		for k := 0; k < *n; k++ {
			a := make([]string, c)
			for i := range a {
				a[i] = lgArgs[rng.Intn(len(lgArgs))]
			}
			shapes = append(shapes, shape{lgMsgs[rng.Intn(len(lgMsgs))], a})
		}
	}
	for _, m := range lgMsgs { // every message once without arguments (line-end handling)
		shapes = append(shapes, shape{m, nil})
	}
	for _, thr := range thresholds {
		for _, lv := range lgLevels {
			for _, sh := range shapes {
				anyArgs := make([]any, len(sh.args))
				for i, a := range sh.args {
					anyArgs[i] = a
				}
				lgSimpleCase(r, thr, lv, sh.msg, anyArgs)
				lgSlogCase(r, thr, lv, sh.msg, sh.args)
			}
		}
	}
	// non-string arguments (judged by lgRender; handed to the model in rendered form)
	e1 := errors.New("boom: x=1")
	mixed := [][]any{{"count", 5}, {"err", e1}, {"nil", nil}, {5, "five"}, {nil, nil}, {e1}, {7}, {"ok", true, "n", -3, lgStringer{"tail"}},
		{lgStringer{"skey"}, lgStringer{"sval"}}, {"a", 1, "b", 2, "c"}, {true, false, nil}}
	for _, thr := range []int{-8, 0, 8, 12} {
		for _, lv := range lgLevels {
			for _, a := range mixed {
				lgSimpleCase(r, thr, lv, "mixed", a)
			}
		}
	}
	lgSlogText(r)
	lgNoOp(r)
	lgSharedStd(r, rng)
	lgConcurrentSimple(r, *goroutines, *lines, int(qlog.LevelTrace))
	lgConcurrentSimple(r, *goroutines, *lines, int(qlog.LevelInfo))
	lgConcurrentSlog(r, *goroutines, *lines, int(qlog.LevelDebug))

	writeLines(*out+"/ops.txt", r.ops)
	writeLines(*out+"/impl.txt", r.impl)
	writeJSON(*out+"/stats.json", map[string]any{"seed": *seed, "evaluations": len(r.ops), "distinct_nontrivial": len(r.seen),
		"concurrent_lines_judged": r.judged, "distribution": r.dist, "violations": append([]string{}, r.viol...), "samples": r.samples, "notes": r.notes})
	fmt.Printf("logger: %d evaluations (%d distinct), %d concurrent lines judged, %d property violations\n", len(r.ops), len(r.seen), r.judged, len(r.viol))
	return 0
}

func lgConstants(r *lgRun) {
	got := []int{int(qlog.LevelTrace), int(qlog.LevelDebug), int(qlog.LevelInfo), int(qlog.LevelWarn), int(qlog.LevelError), int(qlog.LevelOff)}
	for i := 1; i < len(got); i++ {
		if got[i-1] >= got[i] {
			r.flag("the level constants are not strictly increasing Trace<Debug<Info<Warn<Error<Off: %v", got)
			return
		}
	}
	for i, lv := range lgLevels {
		if got[i] != lv.value {
			r.notes = append(r.notes, fmt.Sprintf("level constant %s = %d (the model uses %d)", lv.name, got[i], lv.value))
		}
	}
}

func lgSimpleCase(r *lgRun, thr int, lv lgLevel, msg string, args []any) {
	var buf bytes.Buffer
	l := qlog.NewSimpleLogger(log.New(&buf, "", 0), qlog.Level(thr))
	lv.call(l, msg, args...)
	got := buf.String()
	rendered := make([]string, len(args))
	parts := []string{}
	allStrings := true
	for i, a := range args {
		rendered[i] = lgRender(a, i%2 == 0 && i+1 < len(args))
		parts = append(parts, hexArg(rendered[i]))
		if _, ok := a.(string); !ok {
			allStrings = false
		}
	}
	op := strings.TrimSpace(fmt.Sprintf("logger simple %d %s %s %s", thr, lv.name, hexArg(msg), strings.Join(parts, " ")))
	ans := "-"
	if got != "" {
		ans = hexOf(got)
	}
	r.rec(op, ans)
	r.count("simple", fmt.Sprintf("%s:%s:args%d", lv.name, map[bool]string{true: "emitted", false: "silent"}[got != ""], len(args)))
	if !allStrings {
		r.count("simple_nonstring", lv.name)
	}
	// the property, judged independently
	var levelConst qlog.Level
	switch lv.name {
	case "trace":
		levelConst = qlog.LevelTrace
	case "debug":
		levelConst = qlog.LevelDebug
	case "info":
		levelConst = qlog.LevelInfo
	case "warn":
		levelConst = qlog.LevelWarn
	case "error":
		levelConst = qlog.LevelError
	}
	wantEmit := int(levelConst) >= thr
	what := fmt.Sprintf("SimpleLogger(threshold %d).%s(%q, %v):", thr, strings.ToUpper(lv.name[:1])+lv.name[1:], msg, args)
	if thr >= int(qlog.LevelOff) && got != "" {
		r.flag("%s wrote %q although the threshold is LevelOff or above", what, got)
		return
	}
	if (got != "") != wantEmit {
		r.flag("%s wrote %q; a record must be written iff its level (%d) is at or above the threshold", what, got, int(levelConst))
		return
	}
	if !wantEmit {
		return
	}
	want := lv.label + lgExpected(msg, rendered)
	if !strings.HasSuffix(want, "\n") {
		want += "\n"
	}
	if got != want {
		r.flag("%s wrote %q, want %q", what, got, want)
	}
}

func lgSlogCase(r *lgRun, thr int, lv lgLevel, msg string, args []string) {
	h := &lgHandler{threshold: slog.Level(thr)}
	l := qlog.NewSlogLogger(context.Background(), slog.New(h))
	anyArgs := make([]any, len(args))
	parts := []string{}
	for i, a := range args {
		anyArgs[i] = a
		parts = append(parts, hexArg(a))
	}
	lv.call(l, msg, anyArgs...)
	op := strings.TrimSpace(fmt.Sprintf("logger slog %d %s %s %s", thr, lv.name, hexArg(msg), strings.Join(parts, " ")))
	ans := "-"
	if len(h.recs) > 0 {
		rec := h.recs[0]
		var as []string
		for _, a := range rec.attrs {
			as = append(as, hexArg(a.Key)+"="+hexArg(a.Value.String()))
		}
		attrs := "-"
		if len(as) > 0 {
			attrs = strings.Join(as, ",")
		}
		ans = fmt.Sprintf("%d %s %s", int(rec.level), hexArg(rec.msg), attrs)
	}
	r.rec(op, ans)
	r.count("slog", fmt.Sprintf("%s:%s:args%d", lv.name, map[bool]string{true: "emitted", false: "silent"}[len(h.recs) > 0], len(args)))
	what := fmt.Sprintf("SlogLogger(handler threshold %d).%s(%q, %q):", thr, strings.ToUpper(lv.name[:1])+lv.name[1:], msg, args)
	wantEmit := lv.value >= thr
	if len(h.recs) > 1 {
		r.flag("%s handed %d records to the handler", what, len(h.recs))
		return
	}
	if (len(h.recs) == 1) != wantEmit {
		r.flag("%s %d record(s) reached the handler; exactly the levels the handler is enabled for must (level %d)", what, len(h.recs), lv.value)
		return
	}
	for _, a := range h.asked {
		if int(a) != lv.value {
			r.flag("%s asked the handler about level %d, want %d", what, int(a), lv.value)
		}
	}
	if !wantEmit {
		return
	}
	rec := h.recs[0]
	if int(rec.level) != lv.value || rec.msg != msg {
		r.flag("%s the record has level %d message %q", what, int(rec.level), rec.msg)
	}
	// all arguments, in order: pairs become attributes, an odd last argument is kept under slog's !BADKEY
	var flat []string
	for _, a := range rec.attrs {
		if a.Key == "!BADKEY" && len(flat) == len(args)-1 {
			flat = append(flat, a.Value.String())
		} else {
			flat = append(flat, a.Key, a.Value.String())
		}
	}
	if strings.Join(flat, "\x00") != strings.Join(args, "\x00") {
		r.flag("%s the record's attributes %q are not the arguments in order", what, flat)
	}
}

// lgSlogText: SlogLogger over the standard text handler, thresholds through HandlerOptions.Level.
func lgSlogText(r *lgRun) {
	names := map[string]string{"trace": "DEBUG-4", "debug": "DEBUG", "info": "INFO", "warn": "WARN", "error": "ERROR"}
	for _, thr := range []int{-8, -4, 0, 4, 8, 12} {
		for _, lv := range lgLevels {
			var buf bytes.Buffer
			l := qlog.NewSlogLogger(nil, slog.New(slog.NewTextHandler(&buf, &slog.HandlerOptions{Level: slog.Level(thr)})))
			lv.call(l, "text handler", "k", "v", "n", 3)
			got := buf.String()
			r.judged++
			r.count("slog_text", lv.name)
			what := fmt.Sprintf("SlogLogger(TextHandler level %d).%s:", thr, lv.name)
			if (got != "") != (lv.value >= thr) {
				r.flag("%s wrote %q", what, got)
				continue
			}
			if got != "" && (!strings.Contains(got, "level="+names[lv.name]+" ") || !strings.Contains(got, `msg="text handler" k=v n=3`) || strings.Count(got, "\n") != 1) {
				r.flag("%s wrote %q, want level=%s, the message and k=v n=3 on one line", what, got, names[lv.name])
			}
		}
	}
}

func lgNoOp(r *lgRun) {
	// NoOpLogger has no sink of its own: watch the process-wide ones
	var buf bytes.Buffer
	oldOut, oldFlags := log.Writer(), log.Flags()
	log.SetOutput(&buf)
	oldDef := slog.Default()
	h := &lgHandler{threshold: slog.Level(-1000)}
	slog.SetDefault(slog.New(h))
	tmpOut, err1 := os.CreateTemp("", "qh-noop-out")
	tmpErr, err2 := os.CreateTemp("", "qh-noop-err")
	oldStdout, oldStderr := os.Stdout, os.Stderr
	if err1 == nil && err2 == nil {
		os.Stdout, os.Stderr = tmpOut, tmpErr
	}
	var l qlog.Logger = qlog.NoOpLogger{}
	for _, lv := range lgLevels {
		for _, a := range [][]any{nil, {"k", "v"}, {"odd"}, {"k", 1, "e", errors.New("x")}} {
			lv.call(l, "noop "+lv.name, a...)
			parts := []string{}
			for i, x := range a {
				parts = append(parts, hexArg(lgRender(x, i%2 == 0 && i+1 < len(a))))
			}
			r.rec(strings.TrimSpace(fmt.Sprintf("logger noop %s %s %s", lv.name, hexArg("noop "+lv.name), strings.Join(parts, " "))), "-")
			r.count("noop", lv.name)
		}
	}
	os.Stdout, os.Stderr = oldStdout, oldStderr
	slog.SetDefault(oldDef) // also restores the default log output bridge
	log.SetOutput(oldOut)
	log.SetFlags(oldFlags)
	size := int64(0)
	for _, f := range []*os.File{tmpOut, tmpErr} {
		if f != nil {
			if st, err := f.Stat(); err == nil {
				size += st.Size()
			}
			f.Close()
			os.Remove(f.Name())
		}
	}
	if buf.Len() > 0 || len(h.recs) > 0 || size > 0 {
		r.flag("NoOpLogger emitted something: %d bytes on the default log output, %d slog records, %d bytes on stdout/stderr", buf.Len(), len(h.recs), size)
	}
}

// ---------------------------------------------------------------------------------------------- one log.Logger, several users (sequential)

// lgSharedStd: the label of a line lives in the *log.Logger the SimpleLogger was given, and that log.Logger is the caller's: it may
// be handed to a second SimpleLogger (per-component thresholds over log.Default()) and its owner may use it directly (SetPrefix,
// Print). Strictly sequential, one goroutine: after EVERY call made through a SimpleLogger the bytes that call appended must be
// exactly the record of that call under the label of ITS level (or nothing, below that logger's threshold), whatever was written
// through the same log.Logger before. Lines the owner writes directly are not judged.
func lgSharedStd(r *lgRun, rng *rand.Rand) {
	type step struct {
		who   int // 0,1,2 = SimpleLogger a, b, c; 3 = owner SetPrefix; 4 = owner SetPrefix + Print
		level int
		text  string
	}
	levelConst := []qlog.Level{qlog.LevelTrace, qlog.LevelDebug, qlog.LevelInfo, qlog.LevelWarn, qlog.LevelError}
	ownerPrefixes := []string{"", "OWNER ", "ERROR ", "INFO ", "[app] "}
	runSeq := func(name string, thr [3]int, steps []step) {
		var buf bytes.Buffer
		std := log.New(&buf, "", 0)
		ls := [3]qlog.Logger{}
		for i := range ls {
			ls[i] = qlog.NewSimpleLogger(std, qlog.Level(thr[i]))
		}
		var hist []string
		for k, st := range steps {
			before := buf.Len()
			switch st.who {
			case 3:
				std.SetPrefix(st.text)
				hist = append(hist, fmt.Sprintf("owner.SetPrefix(%q)", st.text))
				continue
			case 4:
				std.SetPrefix(st.text)
				std.Print("written by the owner")
				hist = append(hist, fmt.Sprintf("owner.SetPrefix(%q); owner.Print(…)", st.text))
				continue
			}
			lv := lgLevels[st.level]
			msg := fmt.Sprintf("step %d logged at %s", k+1, lv.name)
			lv.call(ls[st.who], msg, "by", string(rune('a'+st.who)))
			got := buf.String()[before:]
			hist = append(hist, fmt.Sprintf("%c.%s", 'a'+st.who, strings.ToUpper(lv.name[:1])+lv.name[1:]))
			r.judged++
			wantEmit := int(levelConst[st.level]) >= thr[st.who]
			want := ""
			if wantEmit {
				want = lv.label + "msg=" + msg + ", by=" + string(rune('a'+st.who)) + "\n"
			}
			r.count("shared_log_logger", map[bool]string{true: "emitted", false: "silent"}[wantEmit]+" after "+map[bool]string{true: "a record of the same SimpleLogger", false: "another user of the log.Logger"}[k > 0 && steps[k-1].who == st.who])
			if got != want {
				r.flag("SimpleLoggers a, b, c (thresholds %d, %d, %d) over ONE *log.Logger, used sequentially from one goroutine (%s): after %s the call %s wrote %q, want %q "+
					"(every record written through a SimpleLogger carries the label of the level it was logged at)", thr[0], thr[1], thr[2], name, strings.Join(hist[:len(hist)-1], "; "), hist[len(hist)-1], got, want)
				return
			}
		}
	}
	all := [3]int{int(qlog.LevelTrace), int(qlog.LevelTrace), int(qlog.LevelTrace)}
	// the plain cases
	runSeq("two loggers", all, []step{{who: 0, level: 2}, {who: 2, level: 4}, {who: 0, level: 2}})
	runSeq("two loggers", all, []step{{who: 0, level: 4}, {who: 2, level: 2}, {who: 0, level: 4}, {who: 2, level: 2}})
	runSeq("owner sets a prefix", all, []step{{who: 0, level: 2}, {who: 3, text: "OWNER "}, {who: 0, level: 2}})
	runSeq("owner prints", all, []step{{who: 0, level: 3}, {who: 4, text: "[app] "}, {who: 0, level: 3}, {who: 4, text: ""}, {who: 0, level: 3}})
	runSeq("owner installs another level's label", all, []step{{who: 0, level: 2}, {who: 3, text: "ERROR "}, {who: 0, level: 2}})
	for a := 0; a < 5; a++ { // a.X; c.Y; a.X for every pair of levels
		for c := 0; c < 5; c++ {
			runSeq("two loggers, every pair of levels", all, []step{{who: 0, level: a}, {who: 2, level: c}, {who: 0, level: a}})
		}
	}
	// seeded random histories with different thresholds (a silent record of another logger must not disturb anything either)
	for s := 0; s < 150; s++ {
		thr := [3]int{[]int{-8, -4, 0}[rng.Intn(3)], []int{-8, 0, 4, 12}[rng.Intn(4)], []int{-8, 4, 8}[rng.Intn(3)]}
		var steps []step
		for k, n := 0, 4+rng.Intn(20); k < n; k++ {
			switch x := rng.Intn(10); {
			case x < 4:
				steps = append(steps, step{who: 0, level: rng.Intn(5)})
			case x < 6:
				steps = append(steps, step{who: 1, level: rng.Intn(5)})
			case x < 8:
				steps = append(steps, step{who: 2, level: rng.Intn(5)})
			case x < 9:
				steps = append(steps, step{who: 3, text: ownerPrefixes[rng.Intn(len(ownerPrefixes))]})
			default:
				steps = append(steps, step{who: 4, text: ownerPrefixes[rng.Intn(len(ownerPrefixes))]})
			}
		}
		runSeq(fmt.Sprintf("random history %d", s+1), thr, steps)
	}
}

// ---------------------------------------------------------------------------------------------- concurrency

// lgChunkWriter is safe for concurrent use but NOT atomic per Write (like a buffered, chunking or rotating sink): it stores a
// record in two locked steps. Records stay intact only if the logger serialises its Write calls, whatever their level.
type lgChunkWriter struct {
	mu  sync.Mutex
	buf bytes.Buffer
}

func (w *lgChunkWriter) Write(p []byte) (int, error) {
	h := len(p) / 2
	w.mu.Lock()
	w.buf.Write(p[:h])
	w.mu.Unlock()
	runtime.Gosched()
	w.mu.Lock()
	w.buf.Write(p[h:])
	w.mu.Unlock()
	return len(p), nil
}

func lgConcurrentSimple(r *lgRun, G, N, thr int) {
	var cw lgChunkWriter
	buf := &cw.buf // read after all goroutines have finished
	l := qlog.NewSimpleLogger(log.New(&cw, "", 0), qlog.Level(thr))
	var wg sync.WaitGroup
	for g := 0; g < G; g++ {
		wg.Add(1)
		go func(g int) {
			defer wg.Done()
			for i := 0; i < N; i++ {
				lv := lgLevels[(g+i)%len(lgLevels)]
				lv.call(l, "I am "+lv.label+"#"+strconv.Itoa(g)+"-"+strconv.Itoa(i), "g", strconv.Itoa(g))
			}
		}(g)
	}
	wg.Wait()
	lines := strings.Split(strings.TrimSuffix(buf.String(), "\n"), "\n")
	if buf.Len() == 0 {
		lines = nil
	}
	want := 0
	for g := 0; g < G; g++ {
		for i := 0; i < N; i++ {
			if lgLevels[(g+i)%len(lgLevels)].value >= thr {
				want++
			}
		}
	}
	seen := map[string]bool{}
	lastOf := make([]int, G)
	for i := range lastOf {
		lastOf[i] = -1
	}
	mislabelled, malformed, dup, disorder := 0, 0, 0, 0
	first := ""
	for _, ln := range lines {
		r.judged++
		// "<LABEL> msg=I am <LABEL> #g-i, g=<g>"
		sp := strings.Index(ln, " msg=I am ")
		if sp < 0 {
			malformed++
			if first == "" {
				first = ln
			}
			continue
		}
		label := ln[:sp+1]
		rest := ln[sp+len(" msg=I am "):]
		hash := strings.Index(rest, "#")
		comma := strings.Index(rest, ", g=")
		if hash < 0 || comma < hash {
			malformed++
			if first == "" {
				first = ln
			}
			continue
		}
		own := rest[:hash]
		id := rest[hash+1 : comma]
		var g, i int
		if _, err := fmt.Sscanf(id, "%d-%d", &g, &i); err != nil || g < 0 || g >= G || rest[comma+4:] != strconv.Itoa(g) {
			malformed++
			if first == "" {
				first = ln
			}
			continue
		}
		r.count("concurrent_simple", strings.TrimSpace(own))
		if label != own {
			mislabelled++
			if first == "" {
				first = ln
			}
		}
		if seen[id] {
			dup++
		}
		seen[id] = true
		if i <= lastOf[g] {
			disorder++
		}
		lastOf[g] = i
		if lv := lgLevels[(g+i)%len(lgLevels)]; lv.value < thr {
			r.flag("concurrent SimpleLogger (threshold %d): the line %q is below the threshold", thr, ln)
		}
	}
	what := fmt.Sprintf("SimpleLogger (threshold %d) shared by %d goroutines logging %d lines each:", thr, G, N)
	if mislabelled > 0 {
		r.flag("%s %d of %d lines carry the label of ANOTHER level, e.g. %q", what, mislabelled, len(lines), first)
	}
	if malformed > 0 {
		r.flag("%s %d of %d lines are torn or malformed, e.g. %q", what, malformed, len(lines), first)
	}
	if len(lines) != want || len(seen) != want || dup > 0 {
		r.flag("%s %d lines written (%d distinct, %d duplicates), exactly the %d records at or above the threshold must be", what, len(lines), len(seen), dup, want)
	}
	if disorder > 0 {
		r.flag("%s %d lines of one goroutine are out of order", what, disorder)
	}
	r.samples = append(r.samples, map[string]any{"concurrent_simple_threshold": thr, "lines": len(lines), "expected": want, "mislabelled": mislabelled})
}

func lgConcurrentSlog(r *lgRun, G, N, thr int) {
	h := &lgHandler{threshold: slog.Level(thr)}
	l := qlog.NewSlogLogger(context.Background(), slog.New(h))
	var wg sync.WaitGroup
	for g := 0; g < G; g++ {
		wg.Add(1)
		go func(g int) {
			defer wg.Done()
			for i := 0; i < N; i++ {
				lv := lgLevels[(g+i)%len(lgLevels)]
				lv.call(l, "I am "+lv.name, "id", strconv.Itoa(g)+"-"+strconv.Itoa(i))
			}
		}(g)
	}
	wg.Wait()
	h.asked = nil
	want := 0
	for g := 0; g < G; g++ {
		for i := 0; i < N; i++ {
			if lgLevels[(g+i)%len(lgLevels)].value >= thr {
				want++
			}
		}
	}
	byName := map[string]int{}
	for _, lv := range lgLevels {
		byName[lv.name] = lv.value
	}
	wrong := 0
	first := ""
	seen := map[string]bool{}
	for _, rec := range h.recs {
		r.judged++
		name := strings.TrimPrefix(rec.msg, "I am ")
		v, ok := byName[name]
		if !ok || int(rec.level) != v || v < thr || len(rec.attrs) != 1 || rec.attrs[0].Key != "id" {
			wrong++
			if first == "" {
				first = fmt.Sprintf("level=%d msg=%q attrs=%v", int(rec.level), rec.msg, rec.attrs)
			}
			continue
		}
		seen[rec.attrs[0].Value.String()] = true
		r.count("concurrent_slog", name)
	}
	what := fmt.Sprintf("SlogLogger (handler threshold %d) shared by %d goroutines logging %d records each:", thr, G, N)
	if wrong > 0 {
		r.flag("%s %d of %d records carry a level other than the one they were logged at (or lost their arguments), e.g. %s", what, wrong, len(h.recs), first)
	}
	if len(h.recs) != want || len(seen) != want {
		r.flag("%s %d records reached the handler (%d distinct), exactly the %d at or above the threshold must", what, len(h.recs), len(seen), want)
	}
	r.samples = append(r.samples, map[string]any{"concurrent_slog_threshold": thr, "records": len(h.recs), "expected": want, "wrong": wrong})
}
