package main

// qh logger — property C18: SimpleLogger and SlogLogger emit a record iff its level is at or above the threshold
// (LevelOff silences everything); each emitted record carries the message, all key/value arguments in order and the
// label of the level it was logged at, also when many goroutines log concurrently; NoOpLogger emits nothing.
//
// Public API of package logger only. Every single-record case is also a protocol line for the Lean model
// (`logger simple|slog|noop …`, exact comparison of the written bytes / of the captured record); the verdicts in
// stats.json ("violations") are judged here against the property itself with an independent expectation.

import (
	"bytes"
	"context"
	"errors"
	"flag"
	"fmt"
	"log"
	"log/slog"
	"math/rand"
	"os"
	"runtime"
	"strconv"
	"strings"
	"sync"
	"time"

	qlog "github.com/reugn/go-quartz/logger"
)

func init() { commands["logger"] = loggerRun }

type lgLevel struct {
	name  string // protocol name
	label string // SimpleLogger prefix, as documented
	value int    // numeric level
	call  func(l qlog.Logger, msg string, args ...any)
}

var lgLevels = []lgLevel{
	{"trace", "TRACE ", -8, func(l qlog.Logger, m string, a ...any) { l.Trace(m, a...) }},
	{"debug", "DEBUG ", -4, func(l qlog.Logger, m string, a ...any) { l.Debug(m, a...) }},
	{"info", "INFO ", 0, func(l qlog.Logger, m string, a ...any) { l.Info(m, a...) }},
	{"warn", "WARN ", 4, func(l qlog.Logger, m string, a ...any) { l.Warn(m, a...) }},
	{"error", "ERROR ", 8, func(l qlog.Logger, m string, a ...any) { l.Error(m, a...) }},
}

type lgRun struct {
	ops, impl []string
	viol      []string
	notes     []string
	samples   []any
	dist      map[string]map[string]int
	seen      map[string]bool
	judged    int
}

func (r *lgRun) flag(format string, a ...any) {
	if len(r.viol) < 40 {
		r.viol = append(r.viol, "C18 "+fmt.Sprintf(format, a...))
	}
}

func (r *lgRun) rec(op, ans string) {
	r.ops = append(r.ops, op)
	r.impl = append(r.impl, ans)
	r.seen[op] = true
}

func (r *lgRun) count(table, bucket string) {
	if r.dist[table] == nil {
		r.dist[table] = map[string]int{}
	}
	r.dist[table][bucket]++
}

// lgExpected is the documented line body, written without fmt's verbs: "msg=<msg>" then ", k=v" per pair, ", a" for an odd tail.
func lgExpected(msg string, rendered []string) string {
	s := "msg=" + msg
	for i := 0; i < len(rendered); i++ {
		if i%2 == 0 {
			s += ", " + rendered[i]
		} else {
			s += "=" + rendered[i]
		}
	}
	return s
}

type lgStringer struct{ s string }

func (x lgStringer) String() string { return x.s }

// lgRender is what a reader expects to see for an argument: the text of strings, errors and Stringers, decimal
// digits of integers, "<nil>" for nil, true/false. A non-string in KEY position is shown by fmt as %!s(type=value).
func lgRender(a any, keyPos bool) string {
	switch v := a.(type) {
	case string:
		return v
	case error:
		return v.Error()
	case fmt.Stringer:
		return v.String()
	case int:
		if keyPos {
			return "%!s(int=" + strconv.Itoa(v) + ")"
		}
		return strconv.Itoa(v)
	case bool:
		if keyPos {
			return "%!s(bool=" + strconv.FormatBool(v) + ")"
		}
		return strconv.FormatBool(v)
	case nil:
		if keyPos {
			return "%!s(<nil>)"
		}
		return "<nil>"
	}
	return fmt.Sprint(a)
}

// ---------------------------------------------------------------------------------------------- capturing slog handler

type lgRecord struct {
	level slog.Level
	msg   string
	attrs []slog.Attr
}

type lgHandler struct {
	mu        sync.Mutex
	threshold slog.Level
	recs      []lgRecord
	asked     []slog.Level
}

func (h *lgHandler) Enabled(_ context.Context, l slog.Level) bool {
	h.mu.Lock()
	h.asked = append(h.asked, l)
	h.mu.Unlock()
	return l >= h.threshold
}

func (h *lgHandler) Handle(_ context.Context, rec slog.Record) error {
	lr := lgRecord{level: rec.Level, msg: rec.Message}
	rec.Attrs(func(a slog.Attr) bool { lr.attrs = append(lr.attrs, a); return true })
	h.mu.Lock()
	h.recs = append(h.recs, lr)
	h.mu.Unlock()
	return nil
}
func (h *lgHandler) WithAttrs([]slog.Attr) slog.Handler { return h }
func (h *lgHandler) WithGroup(string) slog.Handler      { return h }

// ---------------------------------------------------------------------------------------------- the run

var lgMsgs = []string{"job done", "", "x", "msg=inner", "trailing newline\n", "a, b=c", "é ü", "%s %d %v", "two\nlines"}
var lgArgs = []string{"key", "value", "", " ", "=", ", ", "a=b", "é", "%d", "k2", "42", "x\n", "!BADKEY", "long value with spaces"}

func loggerRun(args []string) int {
	fs := flag.NewFlagSet("logger", flag.ExitOnError)
	seed := fs.Int64("seed", 1, "")
	n := fs.Int("n", 3, "random argument tuples per argument count")
	out := fs.String("out", "", "")
	goroutines := fs.Int("goroutines", 16, "")
	lines := fs.Int("lines", 5000, "lines per goroutine in the concurrency runs")
	fs.Parse(args)
	rng := rand.New(rand.NewSource(*seed))
	r := &lgRun{dist: map[string]map[string]int{}, seen: map[string]bool{}, notes: []string{}, samples: []any{}}

	thresholds := []int{}
	for t := -9; t <= 13; t++ {
		thresholds = append(thresholds, t)
	}
	thresholds = append(thresholds, int(qlog.LevelTrace), int(qlog.LevelDebug), int(qlog.LevelInfo), int(qlog.LevelWarn), int(qlog.LevelError), int(qlog.LevelOff),
		-1000000, 1000000)

	lgConstants(r)
	// argument tuples: every count 0..5, n random tuples each (count 0 once per message)
	type shape struct {
		msg  string
		args []string
	}
	var shapes []shape
	for c := 0; c <= 5; c++ {
		for k := 0; k < *n; k++ {
			a := make([]string, c)
			for i := range a {
				a[i] = lgArgs[rng.Intn(len(lgArgs))]
			}
			shapes = append(shapes, shape{lgMsgs[rng.Intn(len(lgMsgs))], a})
		}
	}
	for _, m := range lgMsgs { // every message once without arguments (line-end handling)
		shapes = append(shapes, shape{m, nil})
	}
	for _, thr := range thresholds {
		for _, lv := range lgLevels {
			for _, sh := range shapes {
				anyArgs := make([]any, len(sh.args))
				for i, a := range sh.args {
					anyArgs[i] = a
				}
				lgSimpleCase(r, thr, lv, sh.msg, anyArgs)
				lgSlogCase(r, thr, lv, sh.msg, sh.args)
			}
		}
	}
	// non-string arguments (judged by lgRender; handed to the model in rendered form)
	e1 := errors.New("boom: x=1")
	mixed := [][]any{{"count", 5}, {"err", e1}, {"nil", nil}, {5, "five"}, {nil, nil}, {e1}, {7}, {"ok", true, "n", -3, lgStringer{"tail"}},
		{lgStringer{"skey"}, lgStringer{"sval"}}, {"a", 1, "b", 2, "c"}, {true, false, nil}}
	for _, thr := range []int{-8, 0, 8, 12} {
		for _, lv := range lgLevels {
			for _, a := range mixed {
				lgSimpleCase(r, thr, lv, "mixed", a)
			}
		}
	}
	lgSlogText(r)
	lgNoOp(r)
	lgSharedStd(r, rng)
	lgSlogEndedContext(r, thresholds)
	lgSimpleWriteErrors(r, rng)
	lgConcurrentSimple(r, *goroutines, *lines, int(qlog.LevelTrace))
	lgConcurrentSimple(r, *goroutines, *lines, int(qlog.LevelInfo))
	lgConcurrentSlog(r, *goroutines, *lines, int(qlog.LevelDebug))

	writeLines(*out+"/ops.txt", r.ops)
	writeLines(*out+"/impl.txt", r.impl)
	writeJSON(*out+"/stats.json", map[string]any{"seed": *seed, "evaluations": len(r.ops), "distinct_nontrivial": len(r.seen),
		"concurrent_lines_judged": r.judged, "distribution": r.dist, "violations": append([]string{}, r.viol...), "samples": r.samples, "notes": r.notes})
	fmt.Printf("logger: %d evaluations (%d distinct), %d concurrent lines judged, %d property violations\n", len(r.ops), len(r.seen), r.judged, len(r.viol))
	return 0
}

func lgConstants(r *lgRun) {
	got := []int{int(qlog.LevelTrace), int(qlog.LevelDebug), int(qlog.LevelInfo), int(qlog.LevelWarn), int(qlog.LevelError), int(qlog.LevelOff)}
	for i := 1; i < len(got); i++ {
		if got[i-1] >= got[i] {
			r.flag("the level constants are not strictly increasing Trace<Debug<Info<Warn<Error<Off: %v", got)
			return
		}
	}
	for i, lv := range lgLevels {
		if got[i] != lv.value {
			r.notes = append(r.notes, fmt.Sprintf("level constant %s = %d (the model uses %d)", lv.name, got[i], lv.value))
		}
	}
}

func lgSimpleCase(r *lgRun, thr int, lv lgLevel, msg string, args []any) {
	var buf bytes.Buffer
	l := qlog.NewSimpleLogger(log.New(&buf, "", 0), qlog.Level(thr))
	lv.call(l, msg, args...)
	got := buf.String()
	rendered := make([]string, len(args))
	parts := []string{}
	allStrings := true
	for i, a := range args {
		rendered[i] = lgRender(a, i%2 == 0 && i+1 < len(args))
		parts = append(parts, hexArg(rendered[i]))
		if _, ok := a.(string); !ok {
			allStrings = false
		}
	}
	op := strings.TrimSpace(fmt.Sprintf("logger simple %d %s %s %s", thr, lv.name, hexArg(msg), strings.Join(parts, " ")))
	ans := "-"
	if got != "" {
		ans = hexOf(got)
	}
	r.rec(op, ans)
	r.count("simple", fmt.Sprintf("%s:%s:args%d", lv.name, map[bool]string{true: "emitted", false: "silent"}[got != ""], len(args)))
	if !allStrings {
		r.count("simple_nonstring", lv.name)
	}
	// the property, judged independently
	var levelConst qlog.Level
	switch lv.name {
	case "trace":
		levelConst = qlog.LevelTrace
	case "debug":
		levelConst = qlog.LevelDebug
	case "info":
		levelConst = qlog.LevelInfo
	case "warn":
		levelConst = qlog.LevelWarn
	case "error":
		levelConst = qlog.LevelError
	}
	wantEmit := int(levelConst) >= thr
	what := fmt.Sprintf("SimpleLogger(threshold %d).%s(%q, %v):", thr, strings.ToUpper(lv.name[:1])+lv.name[1:], msg, args)
	if thr >= int(qlog.LevelOff) && got != "" {
		r.flag("%s wrote %q although the threshold is LevelOff or above", what, got)
		return
	}
	if (got != "") != wantEmit {
		r.flag("%s wrote %q; a record must be written iff its level (%d) is at or above the threshold", what, got, int(levelConst))
		return
	}
	if !wantEmit {
		return
	}
	want := lv.label + lgExpected(msg, rendered)
	if !strings.HasSuffix(want, "\n") {
		want += "\n"
	}
	if got != want {
		r.flag("%s wrote %q, want %q", what, got, want)
	}
}

func lgSlogCase(r *lgRun, thr int, lv lgLevel, msg string, args []string) {
	h := &lgHandler{threshold: slog.Level(thr)}
	l := qlog.NewSlogLogger(context.Background(), slog.New(h))
	anyArgs := make([]any, len(args))
	parts := []string{}
	for i, a := range args {
		anyArgs[i] = a
		parts = append(parts, hexArg(a))
	}
	lv.call(l, msg, anyArgs...)
	op := strings.TrimSpace(fmt.Sprintf("logger slog %d %s %s %s", thr, lv.name, hexArg(msg), strings.Join(parts, " ")))
	ans := "-"
	if len(h.recs) > 0 {
		rec := h.recs[0]
		var as []string
		for _, a := range rec.attrs {
			as = append(as, hexArg(a.Key)+"="+hexArg(a.Value.String()))
		}
		attrs := "-"
		if len(as) > 0 {
			attrs = strings.Join(as, ",")
		}
		ans = fmt.Sprintf("%d %s %s", int(rec.level), hexArg(rec.msg), attrs)
	}
	r.rec(op, ans)
	r.count("slog", fmt.Sprintf("%s:%s:args%d", lv.name, map[bool]string{true: "emitted", false: "silent"}[len(h.recs) > 0], len(args)))
	what := fmt.Sprintf("SlogLogger(handler threshold %d).%s(%q, %q):", thr, strings.ToUpper(lv.name[:1])+lv.name[1:], msg, args)
	wantEmit := lv.value >= thr
	if len(h.recs) > 1 {
		r.flag("%s handed %d records to the handler", what, len(h.recs))
		return
	}
	if (len(h.recs) == 1) != wantEmit {
		r.flag("%s %d record(s) reached the handler; exactly the levels the handler is enabled for must (level %d)", what, len(h.recs), lv.value)
		return
	}
	for _, a := range h.asked {
		if int(a) != lv.value {
			r.flag("%s asked the handler about level %d, want %d", what, int(a), lv.value)
		}
	}
	if !wantEmit {
		return
	}
	rec := h.recs[0]
	if int(rec.level) != lv.value || rec.msg != msg {
		r.flag("%s the record has level %d message %q", what, int(rec.level), rec.msg)
	}
	// all arguments, in order: pairs become attributes, an odd last argument is kept under slog's !BADKEY
	var flat []string
	for _, a := range rec.attrs {
		if a.Key == "!BADKEY" && len(flat) == len(args)-1 {
			flat = append(flat, a.Value.String())
		} else {
			flat = append(flat, a.Key, a.Value.String())
		}
	}
	if strings.Join(flat, "\x00") != strings.Join(args, "\x00") {
		r.flag("%s the record's attributes %q are not the arguments in order", what, flat)
	}
}

// lgSlogText: SlogLogger over the standard text handler, thresholds through HandlerOptions.Level.
func lgSlogText(r *lgRun) {
	names := map[string]string{"trace": "DEBUG-4", "debug": "DEBUG", "info": "INFO", "warn": "WARN", "error": "ERROR"}
	for _, thr := range []int{-8, -4, 0, 4, 8, 12} {
		for _, lv := range lgLevels {
			var buf bytes.Buffer
			l := qlog.NewSlogLogger(nil, slog.New(slog.NewTextHandler(&buf, &slog.HandlerOptions{Level: slog.Level(thr)})))
			lv.call(l, "text handler", "k", "v", "n", 3)
			got := buf.String()
			r.judged++
			r.count("slog_text", lv.name)
			what := fmt.Sprintf("SlogLogger(TextHandler level %d).%s:", thr, lv.name)
			if (got != "") != (lv.value >= thr) {
				r.flag("%s wrote %q", what, got)
				continue
			}
			if got != "" && (!strings.Contains(got, "level="+names[lv.name]+" ") || !strings.Contains(got, `msg="text handler" k=v n=3`) || strings.Count(got, "\n") != 1) {
				r.flag("%s wrote %q, want level=%s, the message and k=v n=3 on one line", what, got, names[lv.name])
			}
		}
	}
}

func lgNoOp(r *lgRun) {
	// NoOpLogger has no sink of its own: watch the process-wide ones
	var buf bytes.Buffer
	oldOut, oldFlags := log.Writer(), log.Flags()
	log.SetOutput(&buf)
	oldDef := slog.Default()
	h := &lgHandler{threshold: slog.Level(-1000)}
	slog.SetDefault(slog.New(h))
	tmpOut, err1 := os.CreateTemp("", "qh-noop-out")
	tmpErr, err2 := os.CreateTemp("", "qh-noop-err")
	oldStdout, oldStderr := os.Stdout, os.Stderr
	if err1 == nil && err2 == nil {
		os.Stdout, os.Stderr = tmpOut, tmpErr
	}
	var l qlog.Logger = qlog.NoOpLogger{}
	for _, lv := range lgLevels {
		for _, a := range [][]any{nil, {"k", "v"}, {"odd"}, {"k", 1, "e", errors.New("x")}} {
			lv.call(l, "noop "+lv.name, a...)
			parts := []string{}
			for i, x := range a {
				parts = append(parts, hexArg(lgRender(x, i%2 == 0 && i+1 < len(a))))
			}
			r.rec(strings.TrimSpace(fmt.Sprintf("logger noop %s %s %s", lv.name, hexArg("noop "+lv.name), strings.Join(parts, " "))), "-")
			r.count("noop", lv.name)
		}
	}
	os.Stdout, os.Stderr = oldStdout, oldStderr
	slog.SetDefault(oldDef) // also restores the default log output bridge
	log.SetOutput(oldOut)
	log.SetFlags(oldFlags)
	size := int64(0)
	for _, f := range []*os.File{tmpOut, tmpErr} {
		if f != nil {
			if st, err := f.Stat(); err == nil {
				size += st.Size()
			}
			f.Close()
			os.Remove(f.Name())
		}
	}
	if buf.Len() > 0 || len(h.recs) > 0 || size > 0 {
		r.flag("NoOpLogger emitted something: %d bytes on the default log output, %d slog records, %d bytes on stdout/stderr", buf.Len(), len(h.recs), size)
	}
}

// ---------------------------------------------------------------------------------------------- one log.Logger, several users (sequential)

// lgSharedStd: the label of a line lives in the *log.Logger the SimpleLogger was given, and that log.Logger is the caller's: it may
// be handed to a second SimpleLogger (per-component thresholds over log.Default()) and its owner may use it directly (SetPrefix,
// Print). Strictly sequential, one goroutine: after EVERY call made through a SimpleLogger the bytes that call appended must be
// exactly the record of that call under the label of ITS level (or nothing, below that logger's threshold), whatever was written
// through the same log.Logger before. Lines the owner writes directly are not judged.
func lgSharedStd(r *lgRun, rng *rand.Rand) {
	type step struct {
		who   int // 0,1,2 = SimpleLogger a, b, c; 3 = owner SetPrefix; 4 = owner SetPrefix + Print
		level int
		text  string
	}
	levelConst := []qlog.Level{qlog.LevelTrace, qlog.LevelDebug, qlog.LevelInfo, qlog.LevelWarn, qlog.LevelError}
	ownerPrefixes := []string{"", "OWNER ", "ERROR ", "INFO ", "[app] "}
	runSeq := func(name string, thr [3]int, steps []step) {
		var buf bytes.Buffer
		std := log.New(&buf, "", 0)
		ls := [3]qlog.Logger{}
		for i := range ls {
			ls[i] = qlog.NewSimpleLogger(std, qlog.Level(thr[i]))
		}
		var hist []string
		for k, st := range steps {
			before := buf.Len()
			switch st.who {
			case 3:
				std.SetPrefix(st.text)
				hist = append(hist, fmt.Sprintf("owner.SetPrefix(%q)", st.text))
				continue
			case 4:
				std.SetPrefix(st.text)
				std.Print("written by the owner")
				hist = append(hist, fmt.Sprintf("owner.SetPrefix(%q); owner.Print(…)", st.text))
				continue
			}
			lv := lgLevels[st.level]
			msg := fmt.Sprintf("step %d logged at %s", k+1, lv.name)
			lv.call(ls[st.who], msg, "by", string(rune('a'+st.who)))
			got := buf.String()[before:]
			hist = append(hist, fmt.Sprintf("%c.%s", 'a'+st.who, strings.ToUpper(lv.name[:1])+lv.name[1:]))
			r.judged++
			wantEmit := int(levelConst[st.level]) >= thr[st.who]
			want := ""
			if wantEmit {
				want = lv.label + "msg=" + msg + ", by=" + string(rune('a'+st.who)) + "\n"
			}
			r.count("shared_log_logger", map[bool]string{true: "emitted", false: "silent"}[wantEmit]+" after "+map[bool]string{true: "a record of the same SimpleLogger", false: "another user of the log.Logger"}[k > 0 && steps[k-1].who == st.who])
			if got != want {
				r.flag("SimpleLoggers a, b, c (thresholds %d, %d, %d) over ONE *log.Logger, used sequentially from one goroutine (%s): after %s the call %s wrote %q, want %q "+
					"(every record written through a SimpleLogger carries the label of the level it was logged at)", thr[0], thr[1], thr[2], name, strings.Join(hist[:len(hist)-1], "; "), hist[len(hist)-1], got, want)
				return
			}
		}
	}
	all := [3]int{int(qlog.LevelTrace), int(qlog.LevelTrace), int(qlog.LevelTrace)}
	// the plain cases
	runSeq("two loggers", all, []step{{who: 0, level: 2}, {who: 2, level: 4}, {who: 0, level: 2}})
	runSeq("two loggers", all, []step{{who: 0, level: 4}, {who: 2, level: 2}, {who: 0, level: 4}, {who: 2, level: 2}})
	runSeq("owner sets a prefix", all, []step{{who: 0, level: 2}, {who: 3, text: "OWNER "}, {who: 0, level: 2}})
	runSeq("owner prints", all, []step{{who: 0, level: 3}, {who: 4, text: "[app] "}, {who: 0, level: 3}, {who: 4, text: ""}, {who: 0, level: 3}})
	runSeq("owner installs another level's label", all, []step{{who: 0, level: 2}, {who: 3, text: "ERROR "}, {who: 0, level: 2}})
	for a := 0; a < 5; a++ { // a.X; c.Y; a.X for every pair of levels
		for c := 0; c < 5; c++ {
			runSeq("two loggers, every pair of levels", all, []step{{who: 0, level: a}, {who: 2, level: c}, {who: 0, level: a}})
		}
	}
	// seeded random histories with different thresholds (a silent record of another logger must not disturb anything either)
	for s := 0; s < 150; s++ {
		thr := [3]int{[]int{-8, -4, 0}[rng.Intn(3)], []int{-8, 0, 4, 12}[rng.Intn(4)], []int{-8, 4, 8}[rng.Intn(3)]}
		var steps []step
		for k, n := 0, 4+rng.Intn(20); k < n; k++ {
			switch x := rng.Intn(10); {
			case x < 4:
				steps = append(steps, step{who: 0, level: rng.Intn(5)})
			case x < 6:
				steps = append(steps, step{who: 1, level: rng.Intn(5)})
			case x < 8:
				steps = append(steps, step{who: 2, level: rng.Intn(5)})
			case x < 9:
				steps = append(steps, step{who: 3, text: ownerPrefixes[rng.Intn(len(ownerPrefixes))]})
			default:
				steps = append(steps, step{who: 4, text: ownerPrefixes[rng.Intn(len(ownerPrefixes))]})
			}
		}
		runSeq(fmt.Sprintf("random history %d", s+1), thr, steps)
	}
}

// ---------------------------------------------------------------------------------------------- SlogLogger whose context has ended

// lgSlogEndedContext: NewSlogLogger takes a context (the examples hand it the context that is also given to Scheduler.Start), and
// the scheduler logs through that logger while and after that context is cancelled ("Exit the execution loop", "Closing the
// scheduler", errors while draining). The property makes emission a function of level and threshold ONLY: "emit a record if and only
// if its level is at or above the configured threshold". For every handler threshold and every way the context can be over
// (cancelled / deadline reached, after or before the logger was built) one record of every level is logged while the context is live
// (where it is) and again after it has ended; each must reach the handler iff level >= threshold, with its level, message and
// arguments. The capturing handler decides by level alone.
func lgSlogEndedContext(r *lgRun, thresholds []int) {
	type mode struct {
		name string
		mk   func() (ctx context.Context, end func(), cancel context.CancelFunc)
	}
	modes := []mode{
		{"was cancelled after the logger was built", func() (context.Context, func(), context.CancelFunc) {
			c, k := context.WithCancel(context.Background())
			return c, k, k
		}},
		{"reached its deadline after the logger was built", func() (context.Context, func(), context.CancelFunc) {
			c, k := context.WithTimeout(context.Background(), 2*time.Millisecond)
			return c, func() {
				select {
				case <-c.Done():
				case <-time.After(10 * time.Second):
					k()
				}
			}, k
		}},
		{"had been cancelled before the logger was built", func() (context.Context, func(), context.CancelFunc) {
			c, k := context.WithCancel(context.Background())
			k()
			return c, nil, k
		}},
		{"was past its deadline before the logger was built", func() (context.Context, func(), context.CancelFunc) {
			c, k := context.WithDeadline(context.Background(), time.Now().Add(-time.Hour))
			return c, nil, k
		}},
		{"is the child of a context cancelled with a cause after the logger was built", func() (context.Context, func(), context.CancelFunc) {
			p, pk := context.WithCancelCause(context.Background())
			c, k := context.WithCancel(p)
			return c, func() { pk(errors.New("scheduler stopped")) }, func() { k(); pk(nil) }
		}},
	}
	one := func(h *lgHandler, l qlog.Logger, thr int, lv lgLevel, when, modeName string, ctx context.Context) {
		h.mu.Lock()
		before := len(h.recs)
		h.asked = nil
		h.mu.Unlock()
		msg := "record logged " + when
		args := []string{"level", lv.name, "odd"}
		lv.call(l, msg, args[0], args[1], args[2])
		h.mu.Lock()
		recs := append([]lgRecord(nil), h.recs[before:]...)
		h.mu.Unlock()
		op := fmt.Sprintf("logger slog %d %s %s %s %s %s", thr, lv.name, hexArg(msg), hexArg(args[0]), hexArg(args[1]), hexArg(args[2]))
		ans := "-"
		if len(recs) > 0 {
			var as []string
			for _, a := range recs[0].attrs {
				as = append(as, hexArg(a.Key)+"="+hexArg(a.Value.String()))
			}
			attrs := "-"
			if len(as) > 0 {
				attrs = strings.Join(as, ",")
			}
			ans = fmt.Sprintf("%d %s %s", int(recs[0].level), hexArg(recs[0].msg), attrs)
		}
		r.rec(op, ans)
		wantEmit := lv.value >= thr
		r.count("slog_context", when+":"+map[bool]string{true: "emitted", false: "silent"}[wantEmit])
		what := fmt.Sprintf("SlogLogger built with a context that %s, handler threshold %d: %s(%q, %q) called %s (ctx.Err() = %v):",
			modeName, thr, strings.ToUpper(lv.name[:1])+lv.name[1:], msg, args, when, ctx.Err())
		if (len(recs) == 1) != wantEmit || len(recs) > 1 {
			r.flag("%s %d record(s) reached the handler; a record is emitted iff its level (%d) is at or above the threshold — whether the logger's context is live or over", what, len(recs), lv.value)
			return
		}
		if !wantEmit {
			return
		}
		rec := recs[0]
		var flat []string
		for _, a := range rec.attrs {
			if a.Key == "!BADKEY" && len(flat) == len(args)-1 {
				flat = append(flat, a.Value.String())
			} else {
				flat = append(flat, a.Key, a.Value.String())
			}
		}
		if int(rec.level) != lv.value || rec.msg != msg || strings.Join(flat, "\x00") != strings.Join(args, "\x00") {
			r.flag("%s the record has level %d message %q attributes %q", what, int(rec.level), rec.msg, flat)
		}
	}
	for _, thr := range thresholds {
		for _, m := range modes {
			ctx, end, cancel := m.mk()
			h := &lgHandler{threshold: slog.Level(thr)}
			l := qlog.NewSlogLogger(ctx, slog.New(h))
			if end != nil {
				if ctx.Err() == nil { // (a 2 ms deadline may already have passed on a loaded machine: then there is no "before")
					for _, lv := range lgLevels {
						if ctx.Err() == nil {
							one(h, l, thr, lv, "while the context was live", m.name, context.Background())
						}
					}
				}
				end()
			}
			if ctx.Err() == nil {
				r.notes = append(r.notes, "slog context phase: the context did not end ("+m.name+")")
				cancel()
				continue
			}
			for _, lv := range lgLevels {
				one(h, l, thr, lv, "after the context had ended", m.name, ctx)
			}
			cancel()
		}
	}
	// the same through the standard text handler (which does not look at the context either): the shutdown records of the examples
	for _, thr := range []int{-8, -4, 0, 4, 8, 12} {
		var buf bytes.Buffer
		ctx, cancel := context.WithCancel(context.Background())
		l := qlog.NewSlogLogger(ctx, slog.New(slog.NewTextHandler(&buf, &slog.HandlerOptions{Level: slog.Level(thr)})))
		for pass, when := range []string{"while the context was live", "after the context had been cancelled"} {
			if pass == 1 {
				cancel()
			}
			for _, lv := range lgLevels {
				buf.Reset()
				lv.call(l, "Exit the execution loop", "k", "v")
				got := buf.String()
				r.judged++
				r.count("slog_context_text", when)
				if (got != "") != (lv.value >= thr) || (got != "" && (!strings.Contains(got, `msg="Exit the execution loop" k=v`) || strings.Count(got, "\n") != 1)) {
					r.flag("SlogLogger(TextHandler level %d) built with a cancellable context, %s(\"Exit the execution loop\", k, v) %s: wrote %q; a record is written iff its level (%d) is at or above the threshold",
						thr, lv.name, when, got, lv.value)
				}
			}
		}
		cancel()
	}
}

// ---------------------------------------------------------------------------------------------- SimpleLogger whose writer fails now and then

// lgFlakyWriter: an io.Writer (a pipe with back-pressure, a full disk that gets space again, a file being rotated) whose Write fails
// for the calls whose index (0-based) is in fail and works otherwise. It remembers every call.
type lgFlakyWriter struct {
	fail   map[int]bool
	short  bool // a failing call reports that half of the bytes were taken (and stores nothing)
	calls  []string
	failed []bool
	buf    bytes.Buffer
}

func (w *lgFlakyWriter) Write(p []byte) (int, error) {
	i := len(w.calls)
	w.calls = append(w.calls, string(p))
	if w.fail[i] {
		w.failed = append(w.failed, true)
		if w.short {
			return len(p) / 2, errors.New("short write: no space left on device")
		}
		return 0, errors.New("write: resource temporarily unavailable")
	}
	w.failed = append(w.failed, false)
	return w.buf.Write(p)
}

// lgSimpleWriteErrors: the threshold test of the property has no memory: "emit a record if and only if its level is at or above the
// configured threshold … the label of the level it was logged at" holds for every record, also for those logged AFTER the sink returned
// an error for an earlier one. One SimpleLogger over a log.Logger whose writer fails for some Write calls: every call at or above the
// threshold must hand the writer exactly its own line (own label, message, arguments) in one Write — it cannot know beforehand whether
// the writer will take it —, every call below must not touch the writer, and whatever the writer accepted is in its buffer.
func lgSimpleWriteErrors(r *lgRun, rng *rand.Rand) {
	levelConst := []qlog.Level{qlog.LevelTrace, qlog.LevelDebug, qlog.LevelInfo, qlog.LevelWarn, qlog.LevelError}
	runHist := func(name string, thr int, fail map[int]bool, short bool, levels []int, swapAt int) {
		w := &lgFlakyWriter{fail: fail, short: short}
		std := log.New(w, "", 0)
		l := qlog.NewSimpleLogger(std, qlog.Level(thr))
		var hist []string
		wantBuf := ""
		var w2 *bytes.Buffer
		for k, li := range levels {
			if k == swapAt { // the owner of the log.Logger installs a new destination (log rotation)
				w2 = &bytes.Buffer{}
				std.SetOutput(w2)
				hist = append(hist, "owner.SetOutput(new buffer)")
			}
			lv := lgLevels[li]
			msg := fmt.Sprintf("record %d logged at %s", k+1, lv.name)
			nCalls, n2 := len(w.calls), 0
			if w2 != nil {
				n2 = w2.Len()
			}
			lv.call(l, msg, "k", k+1)
			wantEmit := int(levelConst[li]) >= thr
			want := lv.label + "msg=" + msg + ", k=" + strconv.Itoa(k+1) + "\n"
			call := strings.ToUpper(lv.name[:1]) + lv.name[1:]
			var attempts []string
			outcome := "written"
			if w2 != nil {
				if s := w2.String()[n2:]; s != "" {
					attempts = []string{s}
				}
			} else {
				attempts = w.calls[nCalls:]
				if len(attempts) > 0 && w.failed[nCalls] {
					outcome = "refused by the writer"
				}
			}
			if len(attempts) == 0 {
				outcome = "nothing handed to the writer"
			}
			if !wantEmit {
				outcome = "below the threshold"
			}
			hist = append(hist, fmt.Sprintf("%s [%s]", call, outcome))
			r.judged++
			r.count("simple_write_errors", map[bool]string{true: "at or above the threshold", false: "below the threshold"}[wantEmit]+", "+
				map[bool]string{true: "after an earlier write error", false: "no write error so far"}[func() bool {
					for _, f := range w.failed[:nCalls] {
						if f {
							return true
						}
					}
					return false
				}()])
			bad := ""
			switch {
			case !wantEmit && len(attempts) > 0:
				bad = fmt.Sprintf("handed %q to the writer although level %d is below the threshold", attempts, int(levelConst[li]))
			case wantEmit && len(attempts) == 0:
				bad = fmt.Sprintf("handed NOTHING to the writer, want %q: the record's level (%d) is at or above the threshold", want, int(levelConst[li]))
			case wantEmit && (len(attempts) != 1 || attempts[0] != want):
				bad = fmt.Sprintf("handed %q to the writer, want exactly %q", attempts, want)
			}
			if bad != "" {
				r.flag("SimpleLogger(threshold %d) over a log.Logger whose writer fails for some calls (%s; Write calls that fail: %v%s), calls so far: %s — the last call %s (%q, k, %d) %s "+
					"(a record is emitted iff its level is at or above the threshold, also after an earlier record could not be written)",
					thr, name, lgSortedKeys(fail), map[bool]string{true: ", reporting a short write", false: ""}[short], strings.Join(hist, "; "), call, msg, k+1, bad)
				return
			}
			if wantEmit && outcome == "written" && w2 == nil {
				wantBuf += want
			}
			if wantEmit && outcome == "written" { // a plain single-record case for the model too
				r.rec(fmt.Sprintf("logger simple %d %s %s %s %s", thr, lv.name, hexArg(msg), hexArg("k"), hexArg(strconv.Itoa(k+1))), hexOf(want))
			} else if !wantEmit {
				r.rec(fmt.Sprintf("logger simple %d %s %s %s %s", thr, lv.name, hexArg(msg), hexArg("k"), hexArg(strconv.Itoa(k+1))), "-")
			}
		}
		if got := w.buf.String(); got != wantBuf {
			r.flag("SimpleLogger(threshold %d), writer failing for the calls %v (%s): the writer accepted %q, want %q", thr, lgSortedKeys(fail), name, got, wantBuf)
		}
	}
	never := -1
	// one failure, then the writer works again: the very next records, of every level
	for _, thr := range []int{-8, -4, 0, 4, 8, 12} {
		for first := 0; first < 5; first++ {
			if lgLevels[first].value < thr {
				continue
			}
			for _, short := range []bool{false, true} {
				runHist("the first record is refused, the writer works afterwards", thr, map[int]bool{0: true}, short, []int{first, 0, 1, 2, 3, 4, first}, never)
			}
		}
	}
	// k failures in a row
	for _, k := range []int{1, 2, 3, 5, 8} {
		fail := map[int]bool{}
		for i := 0; i < k; i++ {
			fail[i+1] = true
		}
		levels := []int{4}
		for i := 0; i < k+6; i++ {
			levels = append(levels, []int{2, 4, 3, 1, 0}[i%5])
		}
		runHist(fmt.Sprintf("the first Write succeeds, the next %d fail, then the writer works again", k), -8, fail, false, levels, never)
		runHist(fmt.Sprintf("the first Write succeeds, the next %d fail, then the writer works again", k), 0, fail, k%2 == 0, levels, never)
	}
	// every third write fails, for ever
	every3 := map[int]bool{}
	for i := 2; i < 40; i += 3 {
		every3[i] = true
	}
	runHist("every third Write fails", -4, every3, false, []int{2, 3, 4, 1, 0, 2, 2, 4, 4, 3, 1, 2, 3, 4, 0, 1, 2, 3, 4}, never)
	// a write fails, then the owner installs a new destination (rotation): the logger writes to it
	runHist("a Write fails, then the owner of the log.Logger installs a new destination", 0, map[int]bool{1: true}, false, []int{2, 4, 2, 3, 4, 1, 2}, 3)
	runHist("the only destination fails for ever until it is replaced", -8, map[int]bool{0: true, 1: true, 2: true}, false, []int{0, 1, 2, 3, 4, 0, 2}, 3)
	// seeded random histories
	for s := 0; s < 60; s++ {
		thr := []int{-8, -4, 0, 4, 8, 12, -9, 5}[rng.Intn(8)]
		n := 4 + rng.Intn(24)
		fail := map[int]bool{}
		for i, k := 0, 1+rng.Intn(4); i < k; i++ {
			fail[rng.Intn(n)] = true
		}
		levels := make([]int, n)
		for i := range levels {
			levels[i] = rng.Intn(5)
		}
		swap := never
		if rng.Intn(5) == 0 {
			swap = 1 + rng.Intn(n-1)
		}
		runHist(fmt.Sprintf("random history %d", s+1), thr, fail, rng.Intn(3) == 0, levels, swap)
	}
}

func lgSortedKeys(m map[int]bool) []int {
	var ks []int
	for k := range m {
		ks = append(ks, k+1)
	}
	for i := 1; i < len(ks); i++ {
		for j := i; j > 0 && ks[j-1] > ks[j]; j-- {
			ks[j-1], ks[j] = ks[j], ks[j-1]
		}
	}
	return ks
}

// ---------------------------------------------------------------------------------------------- concurrency

// lgChunkWriter is safe for concurrent use but NOT atomic per Write (like a buffered, chunking or rotating sink): it stores a
// record in two locked steps. Records stay intact only if the logger serialises its Write calls, whatever their level.
type lgChunkWriter struct {
	mu  sync.Mutex
	buf bytes.Buffer
}

func (w *lgChunkWriter) Write(p []byte) (int, error) {
	h := len(p) / 2
	w.mu.Lock()
	w.buf.Write(p[:h])
	w.mu.Unlock()
	runtime.Gosched()
	w.mu.Lock()
	w.buf.Write(p[h:])
	w.mu.Unlock()
	return len(p), nil
}

func lgConcurrentSimple(r *lgRun, G, N, thr int) {
	var cw lgChunkWriter
	buf := &cw.buf // read after all goroutines have finished
	l := qlog.NewSimpleLogger(log.New(&cw, "", 0), qlog.Level(thr))
	var wg sync.WaitGroup
	for g := 0; g < G; g++ {
		wg.Add(1)
		go func(g int) {
			defer wg.Done()
			for i := 0; i < N; i++ {
				lv := lgLevels[(g+i)%len(lgLevels)]
				lv.call(l, "I am "+lv.label+"#"+strconv.Itoa(g)+"-"+strconv.Itoa(i), "g", strconv.Itoa(g))
			}
		}(g)
	}
	wg.Wait()
	lines := strings.Split(strings.TrimSuffix(buf.String(), "\n"), "\n")
	if buf.Len() == 0 {
		lines = nil
	}
	want := 0
	for g := 0; g < G; g++ {
		for i := 0; i < N; i++ {
			if lgLevels[(g+i)%len(lgLevels)].value >= thr {
				want++
			}
		}
	}
	seen := map[string]bool{}
	lastOf := make([]int, G)
	for i := range lastOf {
		lastOf[i] = -1
	}
	mislabelled, malformed, dup, disorder := 0, 0, 0, 0
	first := ""
	for _, ln := range lines {
		r.judged++
		// "<LABEL> msg=I am <LABEL> #g-i, g=<g>"
		sp := strings.Index(ln, " msg=I am ")
		if sp < 0 {
			malformed++
			if first == "" {
				first = ln
			}
			continue
		}
		label := ln[:sp+1]
		rest := ln[sp+len(" msg=I am "):]
		hash := strings.Index(rest, "#")
		comma := strings.Index(rest, ", g=")
		if hash < 0 || comma < hash {
			malformed++
			if first == "" {
				first = ln
			}
			continue
		}
		own := rest[:hash]
		id := rest[hash+1 : comma]
		var g, i int
		if _, err := fmt.Sscanf(id, "%d-%d", &g, &i); err != nil || g < 0 || g >= G || rest[comma+4:] != strconv.Itoa(g) {
			malformed++
			if first == "" {
				first = ln
			}
			continue
		}
		r.count("concurrent_simple", strings.TrimSpace(own))
		if label != own {
			mislabelled++
			if first == "" {
				first = ln
			}
		}
		if seen[id] {
			dup++
		}
		seen[id] = true
		if i <= lastOf[g] {
			disorder++
		}
		lastOf[g] = i
		if lv := lgLevels[(g+i)%len(lgLevels)]; lv.value < thr {
			r.flag("concurrent SimpleLogger (threshold %d): the line %q is below the threshold", thr, ln)
		}
	}
	what := fmt.Sprintf("SimpleLogger (threshold %d) shared by %d goroutines logging %d lines each:", thr, G, N)
	if mislabelled > 0 {
		r.flag("%s %d of %d lines carry the label of ANOTHER level, e.g. %q", what, mislabelled, len(lines), first)
	}
	if malformed > 0 {
		r.flag("%s %d of %d lines are torn or malformed, e.g. %q", what, malformed, len(lines), first)
	}
	if len(lines) != want || len(seen) != want || dup > 0 {
		r.flag("%s %d lines written (%d distinct, %d duplicates), exactly the %d records at or above the threshold must be", what, len(lines), len(seen), dup, want)
	}
	if disorder > 0 {
		r.flag("%s %d lines of one goroutine are out of order", what, disorder)
	}
	r.samples = append(r.samples, map[string]any{"concurrent_simple_threshold": thr, "lines": len(lines), "expected": want, "mislabelled": mislabelled})
}

func lgConcurrentSlog(r *lgRun, G, N, thr int) {
	h := &lgHandler{threshold: slog.Level(thr)}
	l := qlog.NewSlogLogger(context.Background(), slog.New(h))
	var wg sync.WaitGroup
	for g := 0; g < G; g++ {
		wg.Add(1)
		go func(g int) {
			defer wg.Done()
			for i := 0; i < N; i++ {
				lv := lgLevels[(g+i)%len(lgLevels)]
				lv.call(l, "I am "+lv.name, "id", strconv.Itoa(g)+"-"+strconv.Itoa(i))
			}
		}(g)
	}
	wg.Wait()
	h.asked = nil
	want := 0
	for g := 0; g < G; g++ {
		for i := 0; i < N; i++ {
			if lgLevels[(g+i)%len(lgLevels)].value >= thr {
				want++
			}
		}
	}
	byName := map[string]int{}
	for _, lv := range lgLevels {
		byName[lv.name] = lv.value
	}
	wrong := 0
	first := ""
	seen := map[string]bool{}
	for _, rec := range h.recs {
		r.judged++
		name := strings.TrimPrefix(rec.msg, "I am ")
		v, ok := byName[name]
		if !ok || int(rec.level) != v || v < thr || len(rec.attrs) != 1 || rec.attrs[0].Key != "id" {
			wrong++
			if first == "" {
				first = fmt.Sprintf("level=%d msg=%q attrs=%v", int(rec.level), rec.msg, rec.attrs)
			}
			continue
		}
		seen[rec.attrs[0].Value.String()] = true
		r.count("concurrent_slog", name)
	}
	what := fmt.Sprintf("SlogLogger (handler threshold %d) shared by %d goroutines logging %d records each:", thr, G, N)
	if wrong > 0 {
		r.flag("%s %d of %d records carry a level other than the one they were logged at (or lost their arguments), e.g. %s", what, wrong, len(h.recs), first)
	}
	if len(h.recs) != want || len(seen) != want {
		r.flag("%s %d records reached the handler (%d distinct), exactly the %d at or above the threshold must", what, len(h.recs), len(seen), want)
	}
	r.samples = append(r.samples, map[string]any{"concurrent_slog_threshold": thr, "records": len(h.recs), "expected": want, "wrong": wrong})
}
