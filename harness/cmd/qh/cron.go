package main

import (
	"bufio"
	"errors"
	"flag"
	"fmt"
	"hash/fnv"
	"math"
	"math/rand"
	"os"
	"runtime"
	"strconv"
	"strings"
	"time"
	_ "time/tzdata"

	"github.com/reugn/go-quartz/quartz"

	"verif/harness/internal/crongen"
	"verif/harness/internal/oracle"
	"verif/harness/internal/sup"
)

func init() {
	commands["cron-worker"] = cronWorker
	commands["cron"] = cronRun
}

// ---------------------------------------------------------------------------
// worker: the only place where the cron code under test runs

func locOf(spec string) (*time.Location, error) {
	if off, err := strconv.Atoi(spec); err == nil {
		if off == 0 {
			return time.UTC, nil
		}
		return time.FixedZone("fix", off), nil
	}
	return time.LoadLocation(spec)
}

func classify(err error) string {
	switch {
	case errors.Is(err, quartz.ErrCronParse):
		return "parse-error"
	case errors.Is(err, quartz.ErrTriggerExpired):
		return "expired"
	}
	return "error-other " + strings.ReplaceAll(err.Error(), "\n", " ")
}

// request: N <hexexpr> <loc> <prev>   |  P <hexexpr>
func cronAnswer(line string) (ans string) {
	defer func() {
		if e := recover(); e != nil {
			ans = fmt.Sprintf("panic %v", e)
		}
	}()
	f := strings.Fields(line)
	switch {
	case len(f) == 2 && f[0] == "P":
		expr := unhex(f[1])
		verr := quartz.ValidateCronExpression(expr)
		_, nerr := quartz.NewCronTrigger(expr)
		if (verr == nil) != (nerr == nil) {
			return "inconsistent-validate"
		}
		if nerr != nil {
			if c := classify(nerr); c != classify(verr) {
				return "inconsistent-validate"
			} else {
				return c
			}
		}
		return "ok"
	case len(f) == 4 && f[0] == "N":
		expr := unhex(f[1])
		loc, err := locOf(f[2])
		if err != nil {
			return "bad-request " + err.Error()
		}
		prev, err := strconv.ParseInt(f[3], 10, 64)
		if err != nil {
			return "bad-request " + err.Error()
		}
		// The answer depends on the trigger's location, never on the PROCESS's time zone: for a named zone every other request is
		// answered with time.Local set to that zone (the ordinary deployment TZ=<zone>), the rest with time.Local = UTC.
		time.Local = time.UTC
		if _, numeric := strconv.Atoi(f[2]); numeric != nil && (prev/1e9)%2 == 0 {
			time.Local = loc
		}
		defer func() { time.Local = time.UTC }()
		tr, err := quartz.NewCronTriggerWithLoc(expr, loc)
		if err != nil {
			return classify(err)
		}
		d0 := tr.Description()
		if (len(expr)+int(prev%7)+7)%2 == 0 {
			// the answer is a function of (expression, location, prev) alone: a question asked earlier on the same trigger object — here
			// one from beyond the last fire time, which is answered "expired" — must not change it (deterministic choice, half of the cases)
			_, _ = tr.NextFireTime(math.MaxInt64)
			_, _ = tr.NextFireTime(unixOf(2262, 4, 1, 0, 0, 0) * 1e9)
		}
		r1, e1 := tr.NextFireTime(prev)
		r2, e2 := tr.NextFireTime(prev)
		if r1 != r2 || (e1 == nil) != (e2 == nil) || tr.Description() != d0 {
			return "impure"
		}
		if e1 != nil {
			return classify(e1)
		}
		return "ok " + strconv.FormatInt(r1, 10)
	}
	return "bad-request"
}

func cronWorker(args []string) int {
	in := bufio.NewReaderSize(os.Stdin, 1<<16)
	out := bufio.NewWriter(os.Stdout)
	for {
		line, err := in.ReadString('\n')
		if line != "" {
			out.WriteString(cronAnswer(strings.TrimRight(line, "\n")))
			out.WriteByte('\n')
			out.Flush()
		}
		if err != nil {
			return 0
		}
	}
}

// ---------------------------------------------------------------------------
// generator + judge

type cronCase struct {
	Expr    string `json:"expr"`
	Loc     string `json:"loc"`
	Prev    int64  `json:"prev"`
	Feature string `json:"feature"`
	Stream  string `json:"stream"`
	Place   string `json:"place"`
	Expect  string `json:"expect,omitempty"` // what the oracle requires: "ok <ns>" | "expired" | "parse-error" | "" (unknown)
	Class   string `json:"class,omitempty"`
	Impl    string `json:"impl"`
	Verdict string `json:"verdict,omitempty"` // "" = fine, else "<property> <what>"
	spec    *oracle.Spec
}

var offsets = []int{0, 0, 0, 3600, -3600, 19800, 20700, -34200, 50400, -43200, 1, -1, 12345, -7 * 3600}

const maxPrev = math.MaxInt64

func unixOf(y, m, d, h, mi, s int) int64 {
	return int64(oracle.DaysFromCivil(y, m, d))*86400 + int64(h*3600+mi*60+s)
}

// placePrev chooses a local wall-clock second for prev, biased to the places where
// carry and bound errors show (last valid value of each field, month/year ends, leap
// days, the end of the representable range, just before / on a matching instant).
func placePrev(r *rand.Rand, sp *oracle.Spec) (int64, string) {
	lo := unixOf(1970, 1, 1, 0, 0, 0)
	hi := unixOf(2262, 4, 11, 0, 0, 0)
	uniform := func() int64 { return lo + r.Int63n(hi-lo) }
	recent := func() int64 {
		return unixOf(1990, 1, 1, 0, 0, 0) + r.Int63n(unixOf(2080, 1, 1, 0, 0, 0)-unixOf(1990, 1, 1, 0, 0, 0))
	}
	switch r.Intn(15) {
	case 14: // the last year boundary: within 14 h of local 2262-01-01 00:00 (east of Greenwich the UTC year is still 2261, west of it
		// the UTC year is already 2262 while the wall clock shows 2261): bounds checked in one clock and used in the other show here
		return unixOf(2262, 1, 1, 0, 0, 0) + r.Int63n(28*3600) - 14*3600, "year-2262-boundary"
	case 0:
		return uniform(), "uniform"
	case 1:
		return recent(), "recent"
	case 2, 3:
		if sp != nil {
			if w, ok := sp.Next(recent()); ok {
				if r.Intn(2) == 0 {
					return w - 1, "just-before-match"
				}
				return w, "on-match"
			}
		}
		return recent(), "recent"
	case 4: // last valid value of the time-of-day fields
		t := recent()
		t -= ((t % 86400) + 86400) % 86400
		switch r.Intn(3) {
		case 0:
			return t + 86399, "23:59:59"
		case 1:
			return t + 23*3600 + int64(r.Intn(3600)), "hour-23"
		}
		return t + int64(r.Intn(24))*3600 + 59*60 + 59, "xx:59:59"
	case 5: // last day of a month
		y, m := 1990+r.Intn(90), 1+r.Intn(12)
		return unixOf(y, m, oracle.Dim(y, m), 23, 59, 59-r.Intn(2)), "month-end"
	case 6: // year end
		y := 1990 + r.Intn(90)
		return unixOf(y, 12, 31, 23, 59, 59-r.Intn(2)), "year-end"
	case 7: // leap day area (every other time: the century years that are NOT leap years)
		if r.Intn(2) == 0 {
			y := []int{2100, 2200}[r.Intn(2)]
			return unixOf(y, 2, 24+r.Intn(5), r.Intn(24), r.Intn(60), r.Intn(60)), "century-feb"
		}
		y := 1972 + 4*r.Intn(70)
		return unixOf(y, 2, 27+r.Intn(3), r.Intn(24), r.Intn(60), r.Intn(60)), "leap-feb"
	case 8: // end of the representable range
		return unixOf(2261, 1, 1, 0, 0, 0) + r.Int63n(hi-unixOf(2261, 1, 1, 0, 0, 0)), "range-end"
	case 9: // the very beginning; west of Greenwich the wall clock still shows 1969 there (the caller clamps prev at 0)
		if r.Intn(2) == 0 {
			return lo - r.Int63n(14*3600), "epoch-local-1969"
		}
		return lo + r.Int63n(3*86400), "epoch"
	case 12, 13: // a matching instant with ONE field moved off its value (more significant fields still match, less significant ones
		// arbitrary): the state in which a wrong validity test of that field is not masked by a carry from above
		if sp != nil {
			if w, ok := sp.Next(recent()); ok {
				days := int(floorDiv64(w, 86400))
				sod := int(w - int64(days)*86400)
				y, m, d := oracle.CivilFromDays(days)
				h, mi, sc := sod/3600, sod/60%60, sod%60
				delta := []int{-2, -1, 1, 2}[r.Intn(4)]
				switch r.Intn(5) {
				case 0:
					mi, sc = mi+delta, r.Intn(60)
				case 1:
					h, mi, sc = h+delta, r.Intn(60), r.Intn(60)
				case 2:
					d, h, mi, sc = d+delta, r.Intn(24), r.Intn(60), r.Intn(60)
				case 3:
					m, d, h, mi, sc = m+delta, 1+r.Intn(28), r.Intn(24), r.Intn(60), r.Intn(60)
				default:
					y, m, d, h, mi, sc = y+delta, 1+r.Intn(12), 1+r.Intn(28), r.Intn(24), r.Intn(60), r.Intn(60)
				}
				if mi >= 0 && mi < 60 && h >= 0 && h < 24 && m >= 1 && m <= 12 && y >= 1970 && y <= 2261 && d >= 1 && d <= oracle.Dim(y, m) {
					return unixOf(y, m, d, h, mi, sc), "one-field-off-a-match"
				}
			}
		}
		return recent(), "recent"
	case 10: // day 28..31 of a month, any time
		y, m := 1990+r.Intn(90), 1+r.Intn(12)
		d := 28 + r.Intn(oracle.Dim(y, m)-27)
		return unixOf(y, m, d, r.Intn(24), r.Intn(60), r.Intn(60)), "day-28+"
	}
	if sp != nil && len(sp.Year) > 0 { // last listed year
		y := sp.Year[len(sp.Year)-1]
		if y <= 2261 {
			return unixOf(y, 1+r.Intn(12), 1+r.Intn(28), r.Intn(24), r.Intn(60), r.Intn(60)), "last-listed-year"
		}
	}
	return uniform(), "uniform"
}

func cronRun(args []string) int {
	fs := flag.NewFlagSet("cron", flag.ExitOnError)
	seed := fs.Int64("seed", 1, "PRNG seed")
	n := fs.Int("n", 4000, "number of generated expressions")
	chain := fs.Int("chain", 4, "chain length per valid expression")
	out := fs.String("out", "", "output directory")
	workers := fs.Int("workers", runtime.NumCPU(), "supervised worker processes")
	deadline := fs.Duration("deadline", 3*time.Second, "per-call deadline")
	corpus := fs.String("corpus", "", "corpus file (expr-hex loc prev per line) evaluated first")
	fs.Parse(args)
	r := rand.New(rand.NewSource(*seed))

	var cases []*cronCase
	if *corpus != "" {
		if b, err := os.ReadFile(*corpus); err == nil {
			for _, l := range strings.Split(string(b), "\n") {
				f := strings.Fields(l)
				if len(f) >= 3 && !strings.HasPrefix(l, "#") {
					p, _ := strconv.ParseInt(f[2], 10, 64)
					cases = append(cases, &cronCase{Expr: unhex(f[0]), Loc: f[1], Prev: p, Feature: "corpus", Stream: "corpus", Place: "corpus"})
				}
			}
		}
	}
	for i := 0; i < *n; i++ {
		var c crongen.Case
		stream := ""
		switch k := r.Intn(20); {
		case k < 13:
			c, stream = crongen.Valid(r), "valid"
		case k < 16:
			c, stream = crongen.Invalid(r), "invalid"
		case k < 19:
			c, stream = crongen.Mutant(r), "mutant"
		default:
			c, stream = crongen.Raw(r), "raw"
		}
		off := offsets[r.Intn(len(offsets))]
		mk := func(w int64, place string) *cronCase {
			sec := w - int64(off)
			if sec < -2200000000 { // prev may lie before 1970 (down to 1900); NextFireTime rounds it down to its whole second
				sec = -2200000000
			}
			var ns int64
			if sec >= maxPrev/1000000000 {
				ns = maxPrev - int64(r.Intn(1000))
			} else {
				ns = sec * 1e9
				switch r.Intn(4) {
				case 0:
					ns += r.Int63n(1e9)
				case 1:
					ns += 999999999
				}
			}
			return &cronCase{Expr: c.Expr, Loc: strconv.Itoa(off), Prev: ns, Feature: c.Feature, Stream: stream, Place: place, Class: c.Class, spec: c.Spec}
		}
		switch c.Expect {
		case crongen.MustReject:
			cc := mk(unixOf(2024, 1, 1, 0, 0, 0), "fixed")
			cc.Expect = "parse-error"
			cases = append(cases, cc)
		case crongen.MustAccept:
			w, place := placePrev(r, c.Spec)
			for j := 0; j < *chain; j++ {
				cc := mk(w, place)
				cases = append(cases, cc)
				nw, ok := c.Spec.Next(floorDiv64(cc.Prev, 1e9) + int64(off))
				if !ok {
					break
				}
				w, place = nw, "chain"
			}
		default:
			w, place := placePrev(r, nil)
			cases = append(cases, mk(w, place))
		}
		if c.Expect == crongen.MustAccept && r.Intn(12) == 0 {
			// a prev before 1970 (negative, mostly with a sub-second part): the whole second it lies in is the one BEFORE the truncated one
			w := -1 - r.Int63n(2100000000)
			if r.Intn(3) == 0 {
				w = -1 - r.Int63n(3)
			}
			cc := mk(w+int64(off), "before-1970")
			cases = append(cases, cc)
		}
	}

	// what the independent oracle requires
	for _, c := range cases {
		if c.spec == nil {
			continue
		}
		off, _ := strconv.Atoi(c.Loc)
		want, ok := c.spec.Next(floorDiv64(c.Prev, 1e9) + int64(off))
		if ok {
			c.Expect = "ok " + strconv.FormatInt((want-int64(off))*1e9, 10)
		} else {
			c.Expect = "expired"
		}
	}

	reqs := make([]string, len(cases))
	for i, c := range cases {
		reqs[i] = fmt.Sprintf("N %s %s %d", hexArg(c.Expr), c.Loc, c.Prev)
	}
	t0 := time.Now()
	ans := sup.Map(*workers, *deadline, []string{selfExe(), "cron-worker"}, reqs)
	implTime := time.Since(t0)

	ops := make([]string, len(cases))
	impl := make([]string, len(cases))
	dist := map[string]map[string]int{"stream": {}, "feature": {}, "place": {}, "outcome": {}, "loc": {}, "rejectClass": {}}
	seen := map[uint64]bool{}
	nontrivial := 0
	viol := map[string]int{}
	var jsonl []string
	firstNever := map[string]bool{}
	for i, c := range cases {
		c.Impl = ans[i]
		ops[i] = fmt.Sprintf("cron next %s %s %d", encRunes(c.Expr), c.Loc, c.Prev)
		impl[i] = c.Impl
		dist["stream"][c.Stream]++
		dist["feature"][c.Feature]++
		dist["place"][c.Place]++
		dist["loc"][c.Loc]++
		dist["outcome"][strings.Fields(c.Impl + " ?")[0]]++
		if c.Class != "" {
			dist["rejectClass"][c.Class]++
		}
		h := fnv.New64a()
		fmt.Fprintf(h, "%s|%s|%d", c.Expr, c.Loc, c.Prev)
		if !seen[h.Sum64()] {
			seen[h.Sum64()] = true
			if c.Stream != "valid" || c.Feature != "any" || c.spec != nil && (len(c.spec.Sec)+len(c.spec.Min)+len(c.spec.Hour)+len(c.spec.Month)+len(c.spec.Year) > 0) {
				nontrivial++
			}
		}
		c.Verdict = judge(c, firstNever)
		if c.Verdict != "" {
			viol[strings.Fields(c.Verdict)[0]]++
		}
		jsonl = append(jsonl, mustJSON(c))
	}
	writeLines(*out+"/ops.txt", ops)
	writeLines(*out+"/impl.txt", impl)
	writeLines(*out+"/cases.jsonl", jsonl)
	writeJSON(*out+"/stats.json", map[string]any{
		"seed": *seed, "evaluations": len(cases), "distinct_nontrivial": nontrivial, "distribution": dist,
		"violations": viol, "impl_seconds": implTime.Seconds(),
	})
	fmt.Printf("cron: %d cases, %d distinct non-trivial, impl %.1fs, oracle violations %v\n", len(cases), nontrivial, implTime.Seconds(), viol)
	return 0
}

// judge compares the implementation's answer with what the independent oracle and
// the documented format require, and names the property a deviation breaks.
func judge(c *cronCase, _ map[string]bool) string {
	f := strings.Fields(c.Impl + " ")
	kind := ""
	if len(f) > 0 {
		kind = f[0]
	}
	switch kind {
	case "panic", "hang", "crash", "impure":
		if c.Expect == "parse-error" || c.spec == nil && kind == "panic" && !parsesOK(c.Expr) {
			return "C07 parser " + kind
		}
		return "C06 " + c.Impl
	case "error-other", "inconsistent-validate", "bad-request":
		return "C07 unexpected answer: " + c.Impl
	}
	if c.Expect == "" {
		// no oracle; structural sanity only
		if kind == "ok" {
			got, _ := strconv.ParseInt(f[1], 10, 64)
			if got <= c.Prev || got%1e9 != 0 {
				return "C06 result not a whole second after prev"
			}
		}
		return ""
	}
	if c.Expect == "parse-error" {
		if kind != "parse-error" {
			return "C07 accepted a string that breaks the documented format (" + c.Class + ")"
		}
		return ""
	}
	// a valid expression
	if kind == "parse-error" {
		if c.spec != nil {
			if _, ok := c.spec.Next(0); ok {
				return "C07 rejected a documented expression that can fire"
			}
		}
		return ""
	}
	off, _ := strconv.Atoi(c.Loc)
	if kind == "ok" {
		got, _ := strconv.ParseInt(f[1], 10, 64)
		if got%1e9 != 0 || got <= c.Prev {
			return "C01 result is not a whole second strictly after prev"
		}
		if c.Expect == "expired" {
			return "C02 no matching instant exists before 2262 but a value was returned"
		}
		if !c.spec.Matches(got/1e9 + int64(off)) {
			return "C01 fired at an instant that does not satisfy the expression"
		}
		if c.Impl != c.Expect {
			return "C02 skipped a matching instant"
		}
		return ""
	}
	if kind == "expired" && c.Expect != "expired" {
		return "C02 reported expiry although a matching instant exists"
	}
	return ""
}

func parsesOK(expr string) (ok bool) {
	defer func() { recover() }()
	return quartz.ValidateCronExpression(expr) == nil
}

func floorDiv64(a, b int64) int64 {
	q := a / b
	if a%b != 0 && (a < 0) != (b < 0) {
		q--
	}
	return q
}
