package main

import (
	"fmt"
	"go/ast"
	"go/token"
	"go/types"
	"path/filepath"
	"strings"
)

// Facts of the wake-up protocol (C05, lean/QuartzModel/Sched/Wakeup.lean):
//   - capacity of the interrupt channel: `interrupt: make(chan struct{}, N)` in NewStdScheduler;
//   - Reset() is `select { case sched.interrupt <- struct{}{}: default: }`;
//   - for ScheduleJob, DeleteJob, PauseJob, ResumeJob, Clear and fetchAndReschedule: a Reset() call exists, it is
//     reached only through the success branch of the method's last queue mutation (which precedes it in the
//     source), and the whole thing happens between queueLocker.Lock() and a deferred Unlock();
//   - the loop body is Size (since the repair of F4: the back-off test, then Size unless backing off) -> switch{… timer.Reset(…); default: timer.Reset(calculateNextTick())} -> select, the
//     interrupt branch falls through to the next iteration, and calculateNextTick reads queue.Head().

func init() { register(extractWakeup, renderWakeup) }

type wkMutator struct {
	Method    string `json:"method"`
	Mutation  string `json:"mutation"` // the queue call whose success the Reset() depends on
	Resets    bool   `json:"resets"`
	After     bool   `json:"resetAfterMutation"`
	UnderLock bool   `json:"underLock"`
	Where     string `json:"where"`
}

type wkFacts struct {
	InterruptCap     int64       `json:"interruptCap"`
	ResetNonBlocking bool        `json:"resetNonBlocking"`
	Mutators         []wkMutator `json:"mutators"`
	LoopOrder        []string    `json:"loopOrder"`
	LoopRereads      bool        `json:"loopRereads"`
}

// wkSel reports whether e is the selector chain path[0].path[1]…
func wkSel(e ast.Expr, path ...string) bool {
	for i := len(path) - 1; i >= 1; i-- {
		s, ok := e.(*ast.SelectorExpr)
		if !ok || s.Sel.Name != path[i] {
			return false
		}
		e = s.X
	}
	id, ok := e.(*ast.Ident)
	return ok && id.Name == path[0]
}

// wkCall reports whether n is a call of the selector chain.
func wkCall(n ast.Node, path ...string) (*ast.CallExpr, bool) {
	c, ok := n.(*ast.CallExpr)
	if !ok {
		if es, ok2 := n.(*ast.ExprStmt); ok2 {
			c, ok = es.X.(*ast.CallExpr)
		}
	}
	if !ok || c == nil {
		return nil, false
	}
	return c, wkSel(c.Fun, path...)
}

func wkExpr(e ast.Expr) string {
	if e == nil {
		return ""
	}
	return types.ExprString(e)
}

// wkPath returns the chain of nodes from root down to target (inclusive), or nil.
func wkPath(root, target ast.Node) []ast.Node {
	var stack, found []ast.Node
	ast.Inspect(root, func(n ast.Node) bool {
		if found != nil {
			return false
		}
		if n == nil {
			stack = stack[:len(stack)-1]
			return true
		}
		stack = append(stack, n)
		if n == target {
			found = append([]ast.Node{}, stack...)
			return false
		}
		return true
	})
	return found
}

func wkCalls(root ast.Node, path ...string) []*ast.CallExpr {
	var out []*ast.CallExpr
	ast.Inspect(root, func(n ast.Node) bool {
		if c, ok := n.(*ast.CallExpr); ok && wkSel(c.Fun, path...) {
			out = append(out, c)
		}
		return true
	})
	return out
}

// wkErrCond classifies `err == nil` (+1) / `err != nil` (-1) / anything else (0).
func wkErrCond(e ast.Expr) int {
	b, ok := e.(*ast.BinaryExpr)
	if !ok {
		return 0
	}
	x, okx := b.X.(*ast.Ident)
	y, oky := b.Y.(*ast.Ident)
	if !okx || !oky || x.Name != "err" || y.Name != "nil" {
		return 0
	}
	switch b.Op {
	case token.EQL:
		return 1
	case token.NEQ:
		return -1
	}
	return 0
}

// wkAssignsErrFrom reports whether st assigns the (last) result of call to the variable err.
func wkAssignsErrFrom(st ast.Stmt, call *ast.CallExpr) bool {
	as, ok := st.(*ast.AssignStmt)
	if !ok || len(as.Rhs) != 1 || as.Rhs[0] != ast.Expr(call) || len(as.Lhs) == 0 {
		return false
	}
	id, ok := as.Lhs[len(as.Lhs)-1].(*ast.Ident)
	return ok && id.Name == "err"
}

// wkPrevStmt returns the statement preceding st in the block that directly contains it.
func wkPrevStmt(path []ast.Node, st ast.Stmt) ast.Stmt {
	for i := len(path) - 1; i >= 0; i-- {
		if path[i] != ast.Node(st) || i == 0 {
			continue
		}
		if blk, ok := path[i-1].(*ast.BlockStmt); ok {
			for k, s := range blk.List {
				if s == st && k > 0 {
					return blk.List[k-1]
				}
			}
		}
	}
	return nil
}

// wkMutatorFacts analyses one method: mutOps are the queue operations that count as mutations.
func wkMutatorFacts(p *pkgInfo, method string, mutOps ...string) wkMutator {
	m := wkMutator{Method: method}
	fd := p.method("StdScheduler", method)
	if fd == nil || fd.Body == nil {
		return m
	}
	m.Where = p.pos(fd)
	// the last queue mutation in source order
	var lastMut *ast.CallExpr
	var firstQueue token.Pos = token.NoPos
	for _, op := range append([]string{"Get", "Pop", "Head", "Size", "ScheduledJobs"}, mutOps...) {
		for _, c := range wkCalls(fd.Body, "sched", "queue", op) {
			if firstQueue == token.NoPos || c.Pos() < firstQueue {
				firstQueue = c.Pos()
			}
		}
	}
	for _, op := range mutOps {
		for _, c := range wkCalls(fd.Body, "sched", "queue", op) {
			if lastMut == nil || c.Pos() > lastMut.Pos() {
				lastMut = c
				m.Mutation = op
			}
		}
	}
	resets := wkCalls(fd.Body, "sched", "Reset")
	m.Resets = len(resets) > 0 && lastMut != nil
	// lock: top-level `sched.queueLocker.Lock()` directly followed by `defer sched.queueLocker.Unlock()`,
	// before the first queue access, and no other Unlock in the body
	lockOK := false
	for k, st := range fd.Body.List {
		if _, ok := wkCall(st, "sched", "queueLocker", "Lock"); ok && k+1 < len(fd.Body.List) {
			if d, ok := fd.Body.List[k+1].(*ast.DeferStmt); ok && wkSel(d.Call.Fun, "sched", "queueLocker", "Unlock") {
				lockOK = firstQueue != token.NoPos && st.Pos() < firstQueue
			}
		}
	}
	if len(wkCalls(fd.Body, "sched", "queueLocker", "Unlock")) != 1 || len(wkCalls(fd.Body, "sched", "queueLocker", "Lock")) != 1 {
		lockOK = false
	}
	m.UnderLock = lockOK
	if !m.Resets {
		return m
	}
	// some Reset() (further ones are harmless): enclosed only by success branches of `err` tests and
	// `if sched.IsStarted()`, the innermost success test being the one of the last mutation, which precedes it
	after := false
	for _, r := range resets {
		path := wkPath(fd.Body, r)
		okHere := r.Pos() > lastMut.End()
		var innermost *ast.IfStmt
		innermostElse := false
		for i := 0; i < len(path)-1; i++ {
			switch n := path[i].(type) {
			case *ast.BlockStmt, *ast.ExprStmt:
			case *ast.IfStmt:
				inBody := path[i+1] == ast.Node(n.Body)
				inElse := n.Else != nil && path[i+1] == ast.Node(n.Else)
				switch {
				case inBody && wkErrCond(n.Cond) == 1:
					innermost, innermostElse = n, false
				case inElse && wkErrCond(n.Cond) == -1:
					innermost, innermostElse = n, true
				case inBody && n.Init == nil && wkIsStartedCond(n.Cond):
				default:
					okHere = false
				}
			default:
				okHere = false // loops, switches, closures, go/defer statements …
			}
		}
		if innermost == nil {
			okHere = false
		} else {
			_ = innermostElse
			fromInit := innermost.Init != nil && wkAssignsErrFrom(innermost.Init, lastMut)
			prev := wkPrevStmt(wkPath(fd.Body, innermost), innermost)
			fromPrev := innermost.Init == nil && prev != nil && wkAssignsErrFrom(prev, lastMut)
			if !fromInit && !fromPrev {
				okHere = false
			}
		}
		after = after || okHere
	}
	m.After = after
	return m
}

func wkIsStartedCond(e ast.Expr) bool {
	c, ok := e.(*ast.CallExpr)
	return ok && wkSel(c.Fun, "sched", "IsStarted") && len(c.Args) == 0
}

func extractWakeup(repo string, fx *Facts) {
	p := load(filepath.Join(repo, "quartz"), "github.com/reugn/go-quartz/quartz")
	wf := &wkFacts{InterruptCap: -1}
	fx.Extra["wakeup"] = wf

	// 1. channel capacity
	if fd := p.funcDecl("NewStdScheduler"); fd != nil {
		ast.Inspect(fd.Body, func(n ast.Node) bool {
			kv, ok := n.(*ast.KeyValueExpr)
			if !ok {
				return true
			}
			if id, ok := kv.Key.(*ast.Ident); !ok || id.Name != "interrupt" {
				return true
			}
			if c, ok := kv.Value.(*ast.CallExpr); ok {
				if f, ok := c.Fun.(*ast.Ident); ok && f.Name == "make" && len(c.Args) >= 1 {
					if _, isChan := c.Args[0].(*ast.ChanType); isChan {
						switch len(c.Args) {
						case 1:
							wf.InterruptCap = 0
						case 2:
							if v, ok := p.intOf(c.Args[1]); ok && v >= 0 {
								wf.InterruptCap = v
							}
						}
						fx.Where["wakeup.interruptCap"] = p.pos(c)
					}
				}
			}
			return true
		})
	}
	if wf.InterruptCap < 0 {
		fx.miss("wakeup.interruptCap")
		wf.InterruptCap = 0
	}
	// the channel must not be replaced anywhere else
	for _, f := range p.files {
		ast.Inspect(f, func(n ast.Node) bool {
			if as, ok := n.(*ast.AssignStmt); ok {
				for _, l := range as.Lhs {
					if s, ok := l.(*ast.SelectorExpr); ok && s.Sel.Name == "interrupt" {
						fx.miss("wakeup.interruptReassigned@" + p.pos(as))
					}
				}
			}
			return true
		})
	}

	// 2. Reset()
	resetShape := false
	if fd := p.method("StdScheduler", "Reset"); fd != nil && fd.Body != nil && len(fd.Body.List) == 1 {
		switch st := fd.Body.List[0].(type) {
		case *ast.SelectStmt:
			sends, defaults, others := 0, 0, 0
			for _, c := range st.Body.List {
				cc := c.(*ast.CommClause)
				switch comm := cc.Comm.(type) {
				case nil:
					defaults++
				case *ast.SendStmt:
					if wkSel(comm.Chan, "sched", "interrupt") {
						sends++
					} else {
						others++
					}
				default:
					others++
				}
				if len(cc.Body) != 0 {
					others++
				}
			}
			if sends == 1 && others == 0 && defaults <= 1 {
				resetShape = true
				wf.ResetNonBlocking = defaults == 1
			}
		case *ast.SendStmt:
			if wkSel(st.Chan, "sched", "interrupt") {
				resetShape = true
				wf.ResetNonBlocking = false
			}
		}
		fx.Where["wakeup.reset"] = p.pos(fd)
	}
	if !resetShape {
		fx.miss("wakeup.resetShape")
	}

	// 3. the mutators
	wf.Mutators = []wkMutator{
		wkMutatorFacts(p, "ScheduleJob", "Push"),
		wkMutatorFacts(p, "DeleteJob", "Remove"),
		wkMutatorFacts(p, "PauseJob", "Remove", "Push"),
		wkMutatorFacts(p, "ResumeJob", "Remove", "Push"),
		wkMutatorFacts(p, "Clear", "Clear"),
		wkMutatorFacts(p, "fetchAndReschedule", "Push"),
	}
	for _, m := range wf.Mutators {
		if m.Where == "" || m.Mutation == "" {
			fx.miss("wakeup.mutator." + m.Method)
		}
	}

	// 4. loop order
	wf.LoopOrder, wf.LoopRereads = wkLoopOrder(p)
	if len(wf.LoopOrder) == 0 {
		fx.miss("wakeup.loop")
	}
}

// wkLoopOrder describes the body of the `for` in startExecutionLoop.
// wkInterruptDrains: the interrupt branch of the loop's select contains `if !timer.Stop() { select { case <-timer.C: default: } }`
// (an expired timer's tick is taken out of the channel: with the timer-channel semantics selected by go.mod's `go 1.21` neither Stop nor
// Reset does that, and a stale tick would end the next wait — also a back-off — at once). Set by wkLoopOrder.
var wkInterruptDrains bool

// wkIsTimerDrain: `select { case <-timer.C: default: }`, both bodies empty.
func wkIsTimerDrain(s *ast.SelectStmt) bool {
	if s.Body == nil || len(s.Body.List) != 2 {
		return false
	}
	recv, def := false, false
	for _, c := range s.Body.List {
		cc, ok := c.(*ast.CommClause)
		if !ok || len(cc.Body) != 0 {
			return false
		}
		if cc.Comm == nil {
			def = true
			continue
		}
		es, ok := cc.Comm.(*ast.ExprStmt)
		if !ok {
			return false
		}
		u, ok := es.X.(*ast.UnaryExpr)
		if !ok || u.Op != token.ARROW || !wkSel(u.X, "timer", "C") {
			return false
		}
		recv = true
	}
	return recv && def
}

func wkLoopOrder(p *pkgInfo) ([]string, bool) {
	fd := p.method("StdScheduler", "startExecutionLoop")
	if fd == nil || fd.Body == nil {
		return nil, false
	}
	var loop *ast.ForStmt
	for _, st := range fd.Body.List {
		if f, ok := st.(*ast.ForStmt); ok && f.Cond == nil && f.Init == nil && f.Post == nil {
			loop = f
		}
	}
	if loop == nil {
		return nil, false
	}
	headRead := false
	if cn := p.method("StdScheduler", "calculateNextTick"); cn != nil && cn.Body != nil {
		headRead = len(wkCalls(cn.Body, "sched", "queue", "Head")) == 1
	}
	var order []string
	rereads := true
	for k, st := range loop.Body.List {
		switch s := st.(type) {
		case *ast.AssignStmt:
			if len(s.Rhs) == 1 {
				if _, ok := wkCall(s.Rhs[0], "sched", "queue", "Size"); ok {
					order = append(order, "Size")
					continue
				}
			}
			// the back-off test that guards the Size() call: `backingOff := time.Now().Before(retryAt)`
			if s.Tok == token.DEFINE && len(s.Lhs) == 1 && len(s.Rhs) == 1 {
				if id, ok := s.Lhs[0].(*ast.Ident); ok && id.Name == "backingOff" && strings.ReplaceAll(wkExpr(s.Rhs[0]), " ", "") == "time.Now().Before(retryAt)" {
					order = append(order, "backingOff")
					continue
				}
			}
			order = append(order, "?assign")
		case *ast.DeclStmt:
			// `var queueSize int` / `var err error`: zero-initialised locals of the iteration, no effect
			if gd, ok := s.Decl.(*ast.GenDecl); ok && gd.Tok == token.VAR {
				plain := true
				for _, sp := range gd.Specs {
					if vs, ok := sp.(*ast.ValueSpec); !ok || len(vs.Values) != 0 {
						plain = false
					}
				}
				if plain {
					continue
				}
			}
			order = append(order, "?decl")
		case *ast.IfStmt:
			// `if !backingOff { queueSize, err = sched.queue.Size() }`: the queue is asked unless the loop is backing off (C15)
			if not, ok := s.Cond.(*ast.UnaryExpr); ok && not.Op == token.NOT && s.Init == nil && s.Else == nil && len(s.Body.List) == 1 {
				if id, ok := not.X.(*ast.Ident); ok && id.Name == "backingOff" {
					if as, ok := s.Body.List[0].(*ast.AssignStmt); ok && len(as.Rhs) == 1 {
						if _, ok := wkCall(as.Rhs[0], "sched", "queue", "Size"); ok {
							order = append(order, "Size unless backingOff")
							continue
						}
					}
				}
			}
			order = append(order, "?if")
		case *ast.SwitchStmt:
			allReset, defaultTick := s.Tag == nil, false
			for _, c := range s.Body.List {
				cc := c.(*ast.CaseClause)
				rs := 0
				tickVar := "" // `nextTick, headErr := sched.calculateNextTick()` as a statement of the default case
				for _, b := range cc.Body {
					if as, ok := b.(*ast.AssignStmt); ok && cc.List == nil && as.Tok == token.DEFINE && len(as.Lhs) == 2 && len(as.Rhs) == 1 {
						if _, ok := wkCall(as.Rhs[0], "sched", "calculateNextTick"); ok {
							if id, ok := as.Lhs[0].(*ast.Ident); ok {
								tickVar = id.Name
							}
						}
					}
					if call, ok := wkCall(b, "timer", "Reset"); ok && len(call.Args) == 1 {
						rs++
						if cc.List == nil {
							if _, ok := wkCall(call.Args[0], "sched", "calculateNextTick"); ok {
								defaultTick = true
							}
							if id, ok := call.Args[0].(*ast.Ident); ok && tickVar != "" && id.Name == tickVar {
								defaultTick = true
							}
						}
					}
				}
				if rs != 1 {
					allReset = false
				}
			}
			if defaultTick && headRead {
				order = append(order, "calculateNextTick")
			}
			if allReset {
				order = append(order, "timer.Reset")
			} else {
				order = append(order, "?switch")
			}
		case *ast.SelectStmt:
			order = append(order, "select")
			if k != len(loop.Body.List)-1 {
				rereads = false
			}
			seenTimer, seenInterrupt := false, false
			for _, c := range s.Body.List {
				cc := c.(*ast.CommClause)
				es, ok := cc.Comm.(*ast.ExprStmt)
				if !ok {
					rereads = false
					continue
				}
				u, ok := es.X.(*ast.UnaryExpr)
				if !ok || u.Op != token.ARROW {
					rereads = false
					continue
				}
				switch {
				case wkSel(u.X, "timer", "C"):
					seenTimer = true
				case wkSel(u.X, "sched", "interrupt"):
					seenInterrupt = true
					for _, b := range cc.Body {
						ifs, ok := b.(*ast.IfStmt)
						if !ok || ifs.Init != nil || ifs.Else != nil || len(ifs.Body.List) != 1 {
							continue
						}
						not, ok := ifs.Cond.(*ast.UnaryExpr)
						if !ok || not.Op != token.NOT {
							continue
						}
						if _, ok := wkCall(not.X, "timer", "Stop"); !ok {
							continue
						}
						if sel, ok := ifs.Body.List[0].(*ast.SelectStmt); ok && wkIsTimerDrain(sel) {
							wkInterruptDrains = true
						}
					}
					// the branch must fall out of the select into the next iteration
					for _, b := range cc.Body {
						ast.Inspect(b, func(n ast.Node) bool {
							switch x := n.(type) {
							case *ast.SelectStmt:
								// the one select allowed here: the non-blocking drain of the expired timer's channel,
								// `select { case <-timer.C: default: }` with empty bodies (it receives from nothing else and cannot block)
								if wkIsTimerDrain(x) {
									return false
								}
								rereads = false
							case *ast.BranchStmt, *ast.ReturnStmt, *ast.ForStmt, *ast.GoStmt:
								rereads = false
							}
							return true
						})
					}
				}
			}
			if !seenTimer || !seenInterrupt {
				rereads = false
			}
		default:
			order = append(order, fmt.Sprintf("?%T", st))
		}
	}
	sizeFirst := len(order) > 0 && order[0] == "Size" ||
		len(order) > 1 && order[0] == "backingOff" && order[1] == "Size unless backingOff"
	if !sizeFirst {
		rereads = false
	}
	// the interrupt channel is received from nowhere else
	recv := 0
	for _, f := range p.files {
		ast.Inspect(f, func(n ast.Node) bool {
			if u, ok := n.(*ast.UnaryExpr); ok && u.Op == token.ARROW && wkSel(u.X, "sched", "interrupt") {
				recv++
			}
			return true
		})
	}
	if recv != 1 {
		rereads = false
	}
	return order, rereads
}

func wkBool(b bool) string {
	if b {
		return "true"
	}
	return "false"
}

func renderWakeup(fx *Facts) string {
	wf, _ := fx.Extra["wakeup"].(*wkFacts)
	if wf == nil {
		wf = &wkFacts{}
	}
	var b strings.Builder
	b.WriteString("namespace Generated.Wakeup\n\n")
	fmt.Fprintf(&b, "/-- `interrupt: make(chan struct{}, N)` in `NewStdScheduler` -/\ndef interruptCap : Nat := %d\n", wf.InterruptCap)
	fmt.Fprintf(&b, "/-- `Reset()` is `select { case sched.interrupt <- struct{}{}: default: }` -/\ndef resetNonBlocking : Bool := %s\n", wkBool(wf.ResetNonBlocking))
	b.WriteString("\n/-! per mutator: (the success branch calls `Reset()`, the call follows the method's last queue mutation inside that\n    mutation's success branch, everything runs between `queueLocker.Lock()` and the deferred `Unlock()`) -/\n")
	names := map[string]string{"ScheduleJob": "scheduleJob", "DeleteJob": "deleteJob", "PauseJob": "pauseJob", "ResumeJob": "resumeJob", "Clear": "clear", "fetchAndReschedule": "fetchAndReschedule"}
	seen := map[string]bool{}
	for _, m := range wf.Mutators {
		seen[m.Method] = true
		fmt.Fprintf(&b, "/-- `%s`, mutation `queue.%s` -/\ndef %s : Bool × Bool × Bool := (%s, %s, %s)\n", m.Method, m.Mutation, names[m.Method], wkBool(m.Resets), wkBool(m.After), wkBool(m.UnderLock))
	}
	for _, k := range []string{"ScheduleJob", "DeleteJob", "PauseJob", "ResumeJob", "Clear", "fetchAndReschedule"} {
		if !seen[k] {
			fmt.Fprintf(&b, "def %s : Bool × Bool × Bool := (false, false, false)\n", names[k])
		}
	}
	fmt.Fprintf(&b, "\n/-- statements of the loop body of `startExecutionLoop`, in order -/\ndef loopOrder : List String := %s\n", leanStrList(wf.LoopOrder))
	fmt.Fprintf(&b, "/-- the loop starts with `Size()`, ends with the `select`, the interrupt branch falls through to the next iteration,\n    and nothing else receives from `interrupt` -/\ndef loopRereads : Bool := %s\n", wkBool(wf.LoopRereads))
	fmt.Fprintf(&b, "/-- the interrupt branch stops the timer and, if it had already expired, takes its tick out of the channel:\n    `if !timer.Stop() { select { case <-timer.C: default: } }` (no stale tick can end a later wait early) -/\ndef interruptStopsAndDrains : Bool := %s\n", wkBool(wkInterruptDrains))
	b.WriteString("\nend Generated.Wakeup\n")
	return b.String()
}
