package main

// Facts for C10 (lifecycle): goroutine accounting and the shape of Start / Stop / stopRun / stop /
// IsStarted / Wait in quartz/scheduler.go.
//
// Lean side: namespace Generated.Lifecycle, consumed by QuartzModel/Theorems/C10.lean (C10_facts).
// goSites codes: (function, kind)
//   function: 0 = Start, 1 = startWorkers, 2 = executeAndReschedule, 3 = Wait, 9 = anything else
//   kind:     0 = counted   (`sched.wg.Add(1)` is the statement right before the `go`, and the goroutine's body
//                            starts with `defer sched.wg.Done()`)
//             1 = (historic) Wait's helper goroutine around sync.WaitGroup.Wait — no longer recognised: Wait must not create a goroutine
//             9 = a goroutine the WaitGroup does not account for

import (
	"fmt"
	"go/ast"
	"go/token"
	"go/types"
	"path/filepath"
	"strings"
)

func init() { register(extractLifecycle, renderLifecycle) }

type lcGoSite struct {
	Func string `json:"func"`
	Pos  string `json:"pos"`
	Kind int    `json:"kind"`
	Text string `json:"text"`
}

type lifecycleFacts struct {
	GoSites []lcGoSite `json:"goSites"`
	WgAdds  int        `json:"wgAdds"`  // calls of sched.wg.Add in package quartz
	WgAdd1  int        `json:"wgAdd1"`  // … of which with the constant argument 1 and directly followed by a go statement
	WgDones int        `json:"wgDones"` // calls of sched.wg.Done in package quartz
	WgDefer int        `json:"wgDefer"` // … of which are the deferred first statement of a counted goroutine
	WgZeros int        `json:"wgZeros"` // calls of sched.wg.zero (exactly one: in Wait)
	WgOther int        `json:"wgOther"` // any other use of a field or method of sched.wg
	Counter      bool     `json:"counter"`      // type waitCounter and its methods Add / Done / zero have exactly the modelled shape
	CounterAdd   []string `json:"counterAdd"`   // statements of (*waitCounter).Add as read
	CounterZero  []string `json:"counterZero"`  // statements of (*waitCounter).zero as read
	// shapes (true = found exactly as described)
	Watcher       bool     `json:"watcher"`       // go func(run uint64){ defer wg.Done(); <-ctx.Done(); sched.stopRun(run) }(sched.run) after sched.run++
	StopRunGuard  bool     `json:"stopRunGuard"`  // stopRun: Lock; defer Unlock; if sched.run == run { sched.stop() }
	StartShape    bool     `json:"startShape"`    // the statement list of Start (see StartStmts)
	StartStmts    []string `json:"startStmts"`    // canonical statements of Start as read
	StartPrestop  bool     `json:"startPrestop"`  // if sched.started && sched.runCtx.Err() != nil { sched.stop() } before the early return
	StartEarlyRet bool     `json:"startEarlyRet"` // if sched.started { …; return }
	StopShape     bool     `json:"stopShape"`     // stop: if !sched.started { …; return }; sched.cancel(); sched.started = false
	StopLocked    bool     `json:"stopLocked"`    // Stop: Lock; defer Unlock; sched.stop()
	IsStartedCtx  bool     `json:"isStartedCtx"`  // IsStarted: RLock; defer RUnlock; return sched.started && sched.runCtx.Err() == nil
	WaitShape     bool     `json:"waitShape"`     // Wait: select { case <-ctx.Done(): case <-sched.wg.zero(): } and nothing else (no goroutine, no write)
	JobsGetRunCtx bool     `json:"jobsGetRunCtx"` // the run's derived ctx is what loop, workers, executeWithRetries and Job.Execute receive
	LoopExits     bool     `json:"loopExits"`     // startExecutionLoop: defer wg.Done() first; select has `case <-ctx.Done(): …; return`
	StartedWrites []string `json:"startedWrites"` // every assignment to sched.started: function=value
	StartedOK     bool     `json:"startedOK"`     // exactly Start=true and stop=false
}

func lcStr(e ast.Expr) string { return types.ExprString(e) }

// lcStmt renders a statement in a canonical one-line form (log calls dropped by the callers).
func lcStmt(s ast.Stmt) string {
	switch x := s.(type) {
	case *ast.ExprStmt:
		return lcStr(x.X)
	case *ast.DeferStmt:
		return "defer " + lcStr(x.Call)
	case *ast.GoStmt:
		if fl, ok := x.Call.Fun.(*ast.FuncLit); ok {
			var args []string
			for _, a := range x.Call.Args {
				args = append(args, lcStr(a))
			}
			return "go func{" + strings.Join(lcStmts(fl.Body.List), "; ") + "}(" + strings.Join(args, ", ") + ")"
		}
		return "go " + lcStr(x.Call)
	case *ast.AssignStmt:
		var l, r []string
		for _, e := range x.Lhs {
			l = append(l, lcStr(e))
		}
		for _, e := range x.Rhs {
			r = append(r, lcStr(e))
		}
		return strings.Join(l, ", ") + " " + x.Tok.String() + " " + strings.Join(r, ", ")
	case *ast.IncDecStmt:
		return lcStr(x.X) + x.Tok.String()
	case *ast.ReturnStmt:
		var r []string
		for _, e := range x.Results {
			r = append(r, lcStr(e))
		}
		return strings.TrimSpace("return " + strings.Join(r, ", "))
	case *ast.IfStmt:
		s := "if " + lcStr(x.Cond) + " {" + strings.Join(lcStmts(x.Body.List), "; ") + "}"
		if x.Else != nil {
			s += " else …"
		}
		return s
	case *ast.SelectStmt:
		var cs []string
		for _, c := range x.Body.List {
			cl := c.(*ast.CommClause)
			h := "default"
			if cl.Comm != nil {
				h = lcStmt(cl.Comm)
			}
			cs = append(cs, h+": "+strings.Join(lcStmts(cl.Body), "; "))
		}
		return "select {" + strings.Join(cs, " | ") + "}"
	}
	return fmt.Sprintf("%T", s)
}

// lcStmts renders a statement list, dropping calls on sched.logger.
func lcStmts(l []ast.Stmt) []string {
	var out []string
	for _, s := range l {
		if es, ok := s.(*ast.ExprStmt); ok && strings.HasPrefix(lcStr(es.X), "sched.logger.") {
			continue
		}
		out = append(out, lcStmt(s))
	}
	return out
}

func lcEq(a, b []string) bool {
	if len(a) != len(b) {
		return false
	}
	for i := range a {
		if a[i] != b[i] {
			return false
		}
	}
	return true
}

func extractLifecycle(repo string, fx *Facts) {
	p := load(filepath.Join(repo, "quartz"), "github.com/reugn/go-quartz/quartz")
	lf := &lifecycleFacts{}
	fx.Extra["lifecycle"] = lf
	funcCode := map[string]int{"Start": 0, "startWorkers": 1, "executeAndReschedule": 2, "Wait": 3}
	_ = funcCode

	// ---- 1. every go statement of the package, with its accounting
	for _, f := range p.files {
		for _, d := range f.Decls {
			fd, ok := d.(*ast.FuncDecl)
			if !ok || fd.Body == nil {
				continue
			}
			// walk blocks so that the statement preceding the go statement is known
			var walk func(list []ast.Stmt)
			visitNested := func(s ast.Stmt) {
				ast.Inspect(s, func(n ast.Node) bool {
					switch b := n.(type) {
					case *ast.BlockStmt:
						walk(b.List)
						return false
					case *ast.CaseClause:
						walk(b.Body)
						return false
					case *ast.CommClause:
						walk(b.Body)
						return false
					}
					return true
				})
			}
			walk = func(list []ast.Stmt) {
				for i, s := range list {
					gs, ok := s.(*ast.GoStmt)
					if !ok {
						visitNested(s)
						continue
					}
					site := lcGoSite{Func: fd.Name.Name, Pos: p.pos(gs), Kind: 9, Text: lcStmt(gs)}
					addBefore := i > 0 && lcStmt(list[i-1]) == "sched.wg.Add(1)"
					var body []ast.Stmt
					if fl, ok := gs.Call.Fun.(*ast.FuncLit); ok {
						body = fl.Body.List
						walk(body) // goroutines started by the goroutine
					} else if m := p.method("StdScheduler", callName(gs.Call)); m != nil && strings.HasPrefix(lcStr(gs.Call.Fun), "sched.") {
						body = m.Body.List
					}
					doneFirst := len(body) > 0 && lcStmt(body[0]) == "defer sched.wg.Done()"
					switch {
					case addBefore && doneFirst:
						site.Kind = 0
						lf.WgDefer++
						lf.WgAdd1++
					}
					lf.GoSites = append(lf.GoSites, site)
				}
			}
			walk(fd.Body.List)
		}
		ast.Inspect(f, func(n ast.Node) bool {
			if c, ok := n.(*ast.CallExpr); ok {
				switch lcStr(c.Fun) {
				case "sched.wg.Add":
					lf.WgAdds++
				case "sched.wg.Done":
					lf.WgDones++
				case "sched.wg.zero":
					lf.WgZeros++
				}
			}
			if se, ok := n.(*ast.SelectorExpr); ok && lcStr(se.X) == "sched.wg" {
				switch se.Sel.Name {
				case "Add", "Done", "zero":
				default:
					lf.WgOther++
				}
			}
			return true
		})
	}
	if len(lf.GoSites) == 0 {
		fx.miss("lifecycle.goSites")
	}

	// ---- 2. Start
	if fd := p.method("StdScheduler", "Start"); fd != nil {
		fx.Where["lifecycle.Start"] = p.pos(fd)
		lf.StartStmts = lcStmts(fd.Body.List)
		want := []string{
			"sched.mtx.Lock()",
			"defer sched.mtx.Unlock()",
			"if sched.started && sched.runCtx.Err() != nil {sched.stop()}",
			"if sched.started {return}",
			"ctx, sched.cancel = context.WithCancel(ctx)",
			"sched.runCtx = ctx",
			"sched.run++",
			"sched.wg.Add(1)",
			"go func{defer sched.wg.Done(); <-ctx.Done(); sched.stopRun(run)}(sched.run)",
			"dispatch := make(chan ScheduledJob)",
			"sched.wg.Add(1)",
			"go sched.startExecutionLoop(ctx, dispatch)",
			"sched.startWorkers(ctx, dispatch)",
			"sched.started = true",
		}
		lf.StartShape = lcEq(lf.StartStmts, want)
		idx := func(s string) int {
			for i, x := range lf.StartStmts {
				if x == s {
					return i
				}
			}
			return -1
		}
		pre, ret, wc := idx(want[2]), idx(want[3]), idx(want[4])
		lf.StartPrestop = pre >= 0 && ret > pre && wc > ret
		lf.StartEarlyRet = ret >= 0 && wc > ret
		// the watcher: parameter `run uint64`, argument sched.run, after sched.run++
		w, inc := idx(want[8]), idx(want[6])
		lf.Watcher = w >= 0 && inc >= 0 && inc < w
		if lf.Watcher {
			for _, s := range fd.Body.List {
				if gs, ok := s.(*ast.GoStmt); ok {
					if fl, ok := gs.Call.Fun.(*ast.FuncLit); ok {
						ps := fl.Type.Params.List
						lf.Watcher = len(ps) == 1 && len(ps[0].Names) == 1 && ps[0].Names[0].Name == "run"
					}
					break
				}
			}
		}
	}
	if !lf.StartShape {
		fx.miss("lifecycle.startShape")
	}

	// ---- 3. stopRun / Stop / stop / IsStarted / Wait
	if fd := p.method("StdScheduler", "stopRun"); fd != nil {
		lf.StopRunGuard = lcEq(lcStmts(fd.Body.List), []string{"sched.mtx.Lock()", "defer sched.mtx.Unlock()", "if sched.run == run {sched.stop()}"}) &&
			len(fd.Type.Params.List) == 1 && fd.Type.Params.List[0].Names[0].Name == "run"
	}
	if fd := p.method("StdScheduler", "Stop"); fd != nil {
		lf.StopLocked = lcEq(lcStmts(fd.Body.List), []string{"sched.mtx.Lock()", "defer sched.mtx.Unlock()", "sched.stop()"})
	}
	if fd := p.method("StdScheduler", "stop"); fd != nil {
		lf.StopShape = lcEq(lcStmts(fd.Body.List), []string{"if !sched.started {return}", "sched.cancel()", "sched.started = false"})
	}
	if fd := p.method("StdScheduler", "IsStarted"); fd != nil {
		lf.IsStartedCtx = lcEq(lcStmts(fd.Body.List), []string{"sched.mtx.RLock()", "defer sched.mtx.RUnlock()", "return sched.started && sched.runCtx.Err() == nil"})
	}
	if fd := p.method("StdScheduler", "Wait"); fd != nil {
		lf.WaitShape = lcEq(lcStmts(fd.Body.List), []string{"select {<-ctx.Done():  | <-sched.wg.zero(): }"})
	}
	// the counter: Add makes a fresh channel when it leaves zero and closes it when n returns to zero;
	// zero() answers a closed channel iff n == 0, else the current one; nothing else touches n / done
	{
		add, done, zero := p.method("waitCounter", "Add"), p.method("waitCounter", "Done"), p.method("waitCounter", "zero")
		methods := 0
		for _, f := range p.files {
			for _, d := range f.Decls {
				if fd, ok := d.(*ast.FuncDecl); ok && fd.Recv != nil && len(fd.Recv.List) == 1 {
					t := fd.Recv.List[0].Type
					if st, ok := t.(*ast.StarExpr); ok {
						t = st.X
					}
					if id, ok := t.(*ast.Ident); ok && id.Name == "waitCounter" {
						methods++
						if _, isPtr := fd.Recv.List[0].Type.(*ast.StarExpr); !isPtr {
							methods += 100 // a value receiver would copy the counter
						}
					}
				}
			}
		}
		fields := ""
		wgIsCounter := false
		for _, f := range p.files {
			ast.Inspect(f, func(n ast.Node) bool {
				ts, ok := n.(*ast.TypeSpec)
				if !ok {
					return true
				}
				st, ok := ts.Type.(*ast.StructType)
				if !ok {
					return true
				}
				for _, fl := range st.Fields.List {
					for _, nm := range fl.Names {
						if ts.Name.Name == "waitCounter" {
							fields += nm.Name + " " + lcStr(fl.Type) + "; "
						}
						if ts.Name.Name == "StdScheduler" && nm.Name == "wg" && lcStr(fl.Type) == "waitCounter" {
							wgIsCounter = true
						}
					}
				}
				return true
			})
		}
		if add != nil && done != nil && zero != nil {
			lf.CounterAdd = lcStmts(add.Body.List)
			lf.CounterZero = lcStmts(zero.Body.List)
			lf.Counter = methods == 3 && wgIsCounter && fields == "mtx sync.Mutex; n int; done chan struct{}; " &&
				lcEq(lf.CounterAdd, []string{"w.mtx.Lock()", "defer w.mtx.Unlock()", "if w.n == 0 {w.done = make(chan struct{})}", "w.n += delta", "if w.n == 0 {close(w.done)}"}) &&
				lcEq(lcStmts(done.Body.List), []string{"w.Add(-1)"}) &&
				lcEq(lf.CounterZero, []string{"w.mtx.Lock()", "defer w.mtx.Unlock()", "if w.n == 0 {closed := make(chan struct{}); close(closed); return closed}", "return w.done"})
		}
		if !lf.Counter {
			fx.miss("lifecycle.counter")
		}
	}
	for name, ok := range map[string]bool{"stopRunGuard": lf.StopRunGuard, "stopLocked": lf.StopLocked, "stopShape": lf.StopShape,
		"isStartedCtx": lf.IsStartedCtx, "waitShape": lf.WaitShape, "watcher": lf.Watcher} {
		if !ok {
			fx.miss("lifecycle." + name)
		}
	}

	// ---- 4. the execution loop leaves on ctx.Done; the ctx chain down to Job.Execute
	if fd := p.method("StdScheduler", "startExecutionLoop"); fd != nil && len(fd.Body.List) > 0 {
		first := lcStmt(fd.Body.List[0]) == "defer sched.wg.Done()"
		exits := false
		ast.Inspect(fd.Body, func(n ast.Node) bool {
			if cl, ok := n.(*ast.CommClause); ok && cl.Comm != nil && lcStmt(cl.Comm) == "<-ctx.Done()" {
				b := lcStmts(cl.Body)
				if len(b) > 0 && b[len(b)-1] == "return" {
					exits = true
				}
			}
			return true
		})
		lf.LoopExits = first && exits
	}
	if !lf.LoopExits {
		fx.miss("lifecycle.loopExits")
	}
	chainOK := true
	ctxAssigns := 0
	calls := map[string]int{}
	for _, f := range p.files {
		ast.Inspect(f, func(n ast.Node) bool {
			switch x := n.(type) {
			case *ast.CallExpr:
				name := callName(x)
				switch name {
				case "startWorkers", "startExecutionLoop", "executeAndReschedule", "executeWithRetries":
					calls[name]++
					if len(x.Args) == 0 || lcStr(x.Args[0]) != "ctx" {
						chainOK = false
					}
				}
			}
			return true
		})
	}
	for _, name := range []string{"Start", "startWorkers", "startExecutionLoop", "executeAndReschedule", "executeWithRetries"} {
		fd := p.method("StdScheduler", name)
		if fd == nil {
			chainOK = false
			continue
		}
		// first parameter is ctx
		ps := fd.Type.Params.List
		if len(ps) == 0 || len(ps[0].Names) == 0 || ps[0].Names[0].Name != "ctx" {
			chainOK = false
		}
		ast.Inspect(fd.Body, func(n ast.Node) bool {
			if as, ok := n.(*ast.AssignStmt); ok {
				for _, l := range as.Lhs {
					if id, ok := l.(*ast.Ident); ok && id.Name == "ctx" {
						ctxAssigns++
						if name != "Start" || as.Tok != token.ASSIGN {
							chainOK = false
						}
					}
				}
			}
			return true
		})
		if name == "executeWithRetries" {
			n := 0
			ast.Inspect(fd.Body, func(x ast.Node) bool {
				if c, ok := x.(*ast.CallExpr); ok && callName(c) == "Execute" {
					n++
					if len(c.Args) != 1 || lcStr(c.Args[0]) != "ctx" {
						chainOK = false
					}
				}
				return true
			})
			if n == 0 {
				chainOK = false
			}
		}
	}
	lf.JobsGetRunCtx = chainOK && ctxAssigns == 1 && calls["startWorkers"] == 1 && calls["startExecutionLoop"] == 1 &&
		calls["executeAndReschedule"] == 1 && calls["executeWithRetries"] >= 1
	if !lf.JobsGetRunCtx {
		fx.miss("lifecycle.jobsGetRunCtx")
	}

	// ---- 5. who writes sched.started
	for _, f := range p.files {
		for _, d := range f.Decls {
			fd, ok := d.(*ast.FuncDecl)
			if !ok || fd.Body == nil {
				continue
			}
			ast.Inspect(fd.Body, func(n ast.Node) bool {
				if as, ok := n.(*ast.AssignStmt); ok {
					for i, l := range as.Lhs {
						if se, ok := l.(*ast.SelectorExpr); ok && se.Sel.Name == "started" && i < len(as.Rhs) {
							lf.StartedWrites = append(lf.StartedWrites, fd.Name.Name+"="+lcStr(as.Rhs[i]))
						}
					}
				}
				return true
			})
		}
	}
	lf.StartedOK = lcEq(lf.StartedWrites, []string{"Start=true", "stop=false"})
	if !lf.StartedOK {
		fx.miss("lifecycle.startedWrites")
	}
}

func renderLifecycle(fx *Facts) string {
	lf, _ := fx.Extra["lifecycle"].(*lifecycleFacts)
	if lf == nil {
		lf = &lifecycleFacts{}
	}
	funcCode := map[string]int{"Start": 0, "startWorkers": 1, "executeAndReschedule": 2, "Wait": 3}
	var b strings.Builder
	b.WriteString("namespace Generated.Lifecycle\n\n")
	var sites, doc []string
	for _, s := range lf.GoSites {
		fc, ok := funcCode[s.Func]
		if !ok {
			fc = 9
		}
		sites = append(sites, fmt.Sprintf("(%d, %d)", fc, s.Kind))
		t := s.Text
		if len(t) > 90 {
			t = t[:90] + "…"
		}
		doc = append(doc, fmt.Sprintf("  %s %s kind %d: %s", s.Pos, s.Func, s.Kind, t))
	}
	fmt.Fprintf(&b, "/-- every `go` statement of package quartz in source order, (function code, kind code); kind 0 = `sched.wg.Add(1)` right before and\n    `defer sched.wg.Done()` first in the goroutine, 9 = not accounted for (`Wait` must not appear: it creates no goroutine):\n%s -/\ndef goSites : List (Nat × Nat) := [%s]\n\n",
		strings.Join(doc, "\n"), strings.Join(sites, ", "))
	fmt.Fprintf(&b, "/-- calls of `sched.wg.Add` / of which `Add(1)` directly before a counted `go` / calls of `sched.wg.Done` / of which deferred first in a counted goroutine /\n    calls of `sched.wg.zero` / any other use of `sched.wg` -/\ndef wgCalls : List Nat := [%d, %d, %d, %d, %d, %d]\n\n",
		lf.WgAdds, lf.WgAdd1, lf.WgDones, lf.WgDefer, lf.WgZeros, lf.WgOther)
	fmt.Fprintf(&b, "/-- `waitCounter` {mtx, n, done} with exactly the methods\n    Add:  %s\n    Done: w.Add(-1)\n    zero: %s -/\ndef counterShape : Bool := %v\n",
		strings.Join(lf.CounterAdd, "; "), strings.Join(lf.CounterZero, "; "), lf.Counter)
	fmt.Fprintf(&b, "/-- statements of `Start` (%s), logging dropped:\n  %s -/\ndef startShape : Bool := %v\n", fx.Where["lifecycle.Start"], strings.Join(lf.StartStmts, "\n  "), lf.StartShape)
	fmt.Fprintf(&b, "/-- `if sched.started && sched.runCtx.Err() != nil { sched.stop() }` precedes the early return of `Start` -/\ndef startPrestop : Bool := %v\n", lf.StartPrestop)
	fmt.Fprintf(&b, "/-- `if sched.started { return }` precedes the creation of the run -/\ndef startEarlyReturn : Bool := %v\n", lf.StartEarlyRet)
	fmt.Fprintf(&b, "/-- the watcher is `go func(run uint64) { defer wg.Done(); <-ctx.Done(); sched.stopRun(run) }(sched.run)` after `sched.run++` -/\ndef watcherCallsStopRun : Bool := %v\n", lf.Watcher)
	fmt.Fprintf(&b, "/-- `stopRun(run)`: Lock; defer Unlock; `if sched.run == run { sched.stop() }` -/\ndef stopRunGuard : Bool := %v\n", lf.StopRunGuard)
	fmt.Fprintf(&b, "/-- `Stop`: Lock; defer Unlock; sched.stop() -/\ndef stopLocked : Bool := %v\n", lf.StopLocked)
	fmt.Fprintf(&b, "/-- `stop`: `if !sched.started { return }`; `sched.cancel()`; `sched.started = false` -/\ndef stopShape : Bool := %v\n", lf.StopShape)
	fmt.Fprintf(&b, "/-- `IsStarted`: RLock; defer RUnlock; `return sched.started && sched.runCtx.Err() == nil` -/\ndef isStartedCtxAware : Bool := %v\n", lf.IsStartedCtx)
	fmt.Fprintf(&b, "/-- `Wait` is exactly `select { case <-ctx.Done(): case <-sched.wg.zero(): }`: no goroutine, no write -/\ndef waitShape : Bool := %v\n", lf.WaitShape)
	fmt.Fprintf(&b, "/-- the loop's first statement is `defer sched.wg.Done()` and its select returns on `<-ctx.Done()` -/\ndef loopExitsOnDone : Bool := %v\n", lf.LoopExits)
	fmt.Fprintf(&b, "/-- the derived ctx of `Start` is the first argument all the way: startWorkers / startExecutionLoop / executeAndReschedule /\n    executeWithRetries / Job.Execute, and nothing re-binds `ctx` on the way -/\ndef jobsGetRunCtx : Bool := %v\n", lf.JobsGetRunCtx)
	fmt.Fprintf(&b, "/-- assignments to `sched.started` in package quartz are exactly: %s -/\ndef startedWritesStd : Bool := %v\n", strings.Join(lf.StartedWrites, ", "), lf.StartedOK)
	b.WriteString("\nend Generated.Lifecycle\n")
	return b.String()
}
