package main

// Facts for C17: the literal shape of (*isolatedJob).Execute in job/isolated_job.go — the
// `if wasRunning := j.isRunning.Swap(true); wasRunning { return errors.New(…) }` guard comes first, then
// `defer j.isRunning.Store(false)`, then the delegate call — plus the type of the flag and the constructor.

import (
	"bytes"
	"fmt"
	"go/ast"
	"go/printer"
	"go/token"
	"go/types"
	"path/filepath"
	"strings"
)

func init() { register(extractIsolated, renderIsolated) }

type isolatedFacts struct {
	Stmts     []string `json:"stmts"`
	FlagType  string   `json:"flagType"`
	CtorKeys  []string `json:"ctorKeys"`
	FlagUses  []string `json:"flagUses"`
	NumExecFn int      `json:"numExecuteMethods"`
}

func isoSrcOf(fset *token.FileSet, n ast.Node) string {
	var b bytes.Buffer
	_ = printer.Fprint(&b, fset, n)
	return strings.Join(strings.Fields(b.String()), " ")
}

// isoFlagCall recognises `<recv>.<flag>.<Method>(<bool literal>)` and renders it as "<flag>.<Method>(<arg>)".
func isoFlagCall(e ast.Expr) (string, bool) {
	c, ok := e.(*ast.CallExpr)
	if !ok || len(c.Args) != 1 {
		return "", false
	}
	m, ok := c.Fun.(*ast.SelectorExpr)
	if !ok {
		return "", false
	}
	f, ok := m.X.(*ast.SelectorExpr)
	if !ok {
		return "", false
	}
	if _, ok := f.X.(*ast.Ident); !ok {
		return "", false
	}
	a, ok := c.Args[0].(*ast.Ident)
	if !ok || (a.Name != "true" && a.Name != "false") {
		return "", false
	}
	return f.Sel.Name + "." + m.Sel.Name + "(" + a.Name + ")", true
}

func isolatedCanon(p *pkgInfo, s ast.Stmt) string {
	switch v := s.(type) {
	case *ast.IfStmt:
		// if w := j.isRunning.Swap(true); w { return <non-nil error> }
		as, ok := v.Init.(*ast.AssignStmt)
		if !ok || as.Tok != token.DEFINE || len(as.Lhs) != 1 || len(as.Rhs) != 1 || v.Else != nil {
			break
		}
		w, ok := as.Lhs[0].(*ast.Ident)
		cond, ok2 := v.Cond.(*ast.Ident)
		call, ok3 := isoFlagCall(as.Rhs[0])
		if !ok || !ok2 || !ok3 || cond.Name != w.Name || len(v.Body.List) != 1 {
			break
		}
		ret, ok := v.Body.List[0].(*ast.ReturnStmt)
		if !ok || len(ret.Results) != 1 {
			break
		}
		res := "?"
		if c, ok := ret.Results[0].(*ast.CallExpr); ok {
			res = rxNoSpace(types.ExprString(c.Fun))
		} else {
			res = rxNoSpace(types.ExprString(ret.Results[0]))
		}
		return "if w:=" + call + ";w return " + res
	case *ast.DeferStmt:
		if call, ok := isoFlagCall(v.Call); ok {
			return "defer " + call
		}
	case *ast.ReturnStmt:
		// return j.Job.Execute(ctx)
		if len(v.Results) == 1 {
			if c, ok := v.Results[0].(*ast.CallExpr); ok {
				if m, ok := c.Fun.(*ast.SelectorExpr); ok {
					if f, ok := m.X.(*ast.SelectorExpr); ok {
						if _, ok := f.X.(*ast.Ident); ok && len(c.Args) == 1 {
							return "return " + f.Sel.Name + "." + m.Sel.Name + "(" + rxNoSpace(types.ExprString(c.Args[0])) + ")"
						}
					}
				}
			}
		}
	}
	return "?" + isoSrcOf(p.fset, s)
}

func extractIsolated(repo string, fx *Facts) {
	p := load(filepath.Join(repo, "job"), "github.com/reugn/go-quartz/job")
	f := &isolatedFacts{Stmts: []string{}, CtorKeys: []string{}, FlagUses: []string{}}
	fx.Extra["isolated"] = f
	fd := p.method("isolatedJob", "Execute")
	if fd == nil || fd.Body == nil {
		fx.miss("isolated.Execute")
		return
	}
	fx.Where["isolated.Execute"] = p.pos(fd)
	for _, s := range fd.Body.List {
		f.Stmts = append(f.Stmts, isolatedCanon(p, s))
	}
	// the flag's type, every use of the flag in the package, the methods of isolatedJob
	for _, file := range p.files {
		for _, d := range file.Decls {
			switch v := d.(type) {
			case *ast.GenDecl:
				for _, sp := range v.Specs {
					ts, ok := sp.(*ast.TypeSpec)
					if !ok || ts.Name.Name != "isolatedJob" {
						continue
					}
					if st, ok := ts.Type.(*ast.StructType); ok {
						for _, fl := range st.Fields.List {
							for _, nm := range fl.Names {
								if nm.Name == "isRunning" {
									f.FlagType = rxNoSpace(types.ExprString(fl.Type))
								}
							}
						}
					}
				}
			case *ast.FuncDecl:
				if v.Body == nil {
					continue
				}
				if v.Recv != nil && len(v.Recv.List) == 1 {
					t := v.Recv.List[0].Type
					if st, ok := t.(*ast.StarExpr); ok {
						t = st.X
					}
					if id, ok := t.(*ast.Ident); ok && id.Name == "isolatedJob" {
						f.NumExecFn++
					}
				}
				ast.Inspect(v.Body, func(n ast.Node) bool {
					if sel, ok := n.(*ast.SelectorExpr); ok {
						if in, ok := sel.X.(*ast.SelectorExpr); ok && in.Sel.Name == "isRunning" {
							f.FlagUses = append(f.FlagUses, v.Name.Name+":"+sel.Sel.Name)
						}
					}
					return true
				})
			}
		}
	}
	if f.FlagType == "" {
		fx.miss("isolated.flagType")
	}
	// NewIsolatedJob returns &isolatedJob{Job: underlying}: the flag starts at its zero value (false)
	if ctor := p.funcDecl("NewIsolatedJob"); ctor != nil && ctor.Body != nil {
		found := false
		ast.Inspect(ctor.Body, func(n ast.Node) bool {
			cl, ok := n.(*ast.CompositeLit)
			if !ok {
				return true
			}
			if id, ok := cl.Type.(*ast.Ident); ok && id.Name == "isolatedJob" {
				found = true
				for _, e := range cl.Elts {
					if kv, ok := e.(*ast.KeyValueExpr); ok {
						f.CtorKeys = append(f.CtorKeys, rxNoSpace(types.ExprString(kv.Key))+"="+rxNoSpace(types.ExprString(kv.Value)))
					} else {
						f.CtorKeys = append(f.CtorKeys, "?positional")
					}
				}
			}
			return true
		})
		if !found {
			fx.miss("isolated.ctorLiteral")
		}
		// the constructor is that one return statement: it wraps the job it is handed (its parameter), nothing is decided before
		if len(ctor.Body.List) != 1 {
			f.CtorKeys = append(f.CtorKeys, fmt.Sprintf("?statements=%d", len(ctor.Body.List)))
		}
		if ctor.Type.Params != nil && len(ctor.Type.Params.List) == 1 && len(ctor.Type.Params.List[0].Names) == 1 {
			f.CtorKeys = append(f.CtorKeys, "param="+ctor.Type.Params.List[0].Names[0].Name)
		} else {
			f.CtorKeys = append(f.CtorKeys, "?params")
		}
	} else {
		fx.miss("isolated.NewIsolatedJob")
	}
}

func renderIsolated(fx *Facts) string {
	f, _ := fx.Extra["isolated"].(*isolatedFacts)
	if f == nil {
		f = &isolatedFacts{}
	}
	var b strings.Builder
	b.WriteString("namespace Generated.Isolated\n")
	b.WriteString("/-! shape of `(*isolatedJob).Execute` and `NewIsolatedJob` (job/isolated_job.go) -/\n")
	fmt.Fprintf(&b, "/-- the statements of `Execute`, in order -/\ndef stmts : List String := %s\n", leanStrList(f.Stmts))
	fmt.Fprintf(&b, "def flagType : String := %s\n", leanStr(f.FlagType))
	fmt.Fprintf(&b, "/-- keys of the struct literal in `NewIsolatedJob` (the flag is not among them: it starts false) -/\ndef ctorKeys : List String := %s\n", leanStrList(f.CtorKeys))
	fmt.Fprintf(&b, "/-- every `….isRunning.<method>` in package job, as function:method -/\ndef flagUses : List String := %s\n", leanStrList(f.FlagUses))
	fmt.Fprintf(&b, "def numMethods : Nat := %d\n", f.NumExecFn)
	b.WriteString("end Generated.Isolated\n")
	return b.String()
}
