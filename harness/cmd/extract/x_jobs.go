package main

// Facts of package job for property C16 (built-in jobs report each execution faithfully).
// Rendered into `namespace Generated.Jobs`; consumed by QuartzModel/Theorems/C16.lean (`C16_facts`).

import (
	"bytes"
	"fmt"
	"go/ast"
	"go/constant"
	"go/printer"
	"go/token"
	"go/types"
	"path/filepath"
	"regexp"
	"strings"
)

func init() { register(extractJobs, renderJobs) }

type jxFacts struct {
	StatusConsts []string `json:"statusConsts"` // "Name=value" in declaration order

	FunctionCall        string   `json:"functionCall"`
	FunctionErrOp       string   `json:"functionErrOp"`
	FunctionThen        []string `json:"functionThen"`
	FunctionElse        []string `json:"functionElse"`
	FunctionStoreInLock bool     `json:"functionStoreInLock"`
	FunctionReturn      string   `json:"functionReturn"`

	ShellRun             string   `json:"shellRun"`
	ShellCommand         string   `json:"shellCommand"`
	ShellCapture         []string `json:"shellCapture"`
	ShellStore           []string `json:"shellStore"`
	ShellErrOp           string   `json:"shellErrOp"`
	ShellThen            []string `json:"shellThen"`
	ShellElse            []string `json:"shellElse"`
	ShellStoreInLock     bool     `json:"shellStoreInLock"`
	ShellReturn          string   `json:"shellReturn"`
	ShellCallbackSites   int      `json:"shellCallbackSites"`
	ShellCallbackInLoop  bool     `json:"shellCallbackInLoop"`
	ShellCallbackAfter   bool     `json:"shellCallbackAfterUnlock"`
	ShellCallbackGuard   string   `json:"shellCallbackGuard"`
	CurlNilOp            string   `json:"curlNilOp"`
	CurlLoOp             string   `json:"curlLoOp"`
	CurlLo               int64    `json:"curlLo"`
	CurlLoName           string   `json:"curlLoName"`
	CurlHiOp             string   `json:"curlHiOp"`
	CurlHi               int64    `json:"curlHi"`
	CurlHiName           string   `json:"curlHiName"`
	CurlThen             []string `json:"curlThen"`
	CurlElse             []string `json:"curlElse"`
	CurlCloseBeforeDo    bool     `json:"curlCloseBeforeDo"`
	CurlCloseGuard       []string `json:"curlCloseGuard"`
	CurlCloseInLoop      bool     `json:"curlCloseInLoop"`
	CurlDo               string   `json:"curlDo"`
	CurlWithContext      string   `json:"curlWithContext"`
	CurlStoreInLock      bool     `json:"curlStoreInLock"`
	CurlReturn           string   `json:"curlReturn"`
	CurlCallbackSites    int      `json:"curlCallbackSites"`
	CurlCallbackInLoop   bool     `json:"curlCallbackInLoop"`
	CurlCallbackAfter    bool     `json:"curlCallbackAfterUnlock"`
	CurlCallbackGuard    string   `json:"curlCallbackGuard"`
	CurlHelperCall       string   `json:"curlHelperCall"`     // the top-level statement of Execute that runs the critical section (helper `do`)
	CurlUnlockDeferred   bool     `json:"curlUnlockDeferred"` // the helper starts with `cu.mtx.Lock()`; `defer cu.mtx.Unlock()` and does no other locking
	CurlExecuteReturn    string   `json:"curlExecuteReturn"`  // the single, last `return` of Execute itself
	AccessorsUnderLock   []string `json:"accessorsUnderLock"` // accessor methods whose first statement takes the mutex
	AccessorsWithoutLock []string `json:"accessorsWithoutLock"`
}

var jxWsRe = regexp.MustCompile(`\s+`)

// src renders a node as one line of Go source.
func (p *pkgInfo) jxSrc(n ast.Node) string {
	if n == nil {
		return ""
	}
	var b bytes.Buffer
	_ = printer.Fprint(&b, p.fset, n)
	return strings.TrimSpace(jxWsRe.ReplaceAllString(b.String(), " "))
}

func jxStripParens(e ast.Expr) ast.Expr {
	for {
		pe, ok := e.(*ast.ParenExpr)
		if !ok {
			return e
		}
		e = pe.X
	}
}

func jxFlattenAnd(e ast.Expr) []ast.Expr {
	e = jxStripParens(e)
	if b, ok := e.(*ast.BinaryExpr); ok && b.Op == token.LAND {
		return append(jxFlattenAnd(b.X), jxFlattenAnd(b.Y)...)
	}
	return []ast.Expr{e}
}

func jxFlipOp(op token.Token) token.Token {
	switch op {
	case token.LSS:
		return token.GTR
	case token.LEQ:
		return token.GEQ
	case token.GTR:
		return token.LSS
	case token.GEQ:
		return token.LEQ
	}
	return op
}

// assigns renders an assignment statement list as "lhs=rhs" items (declarations verbatim).
func (p *pkgInfo) jxAssigns(stmts []ast.Stmt) []string {
	out := []string{}
	for _, s := range stmts {
		if as, ok := s.(*ast.AssignStmt); ok && len(as.Lhs) == len(as.Rhs) && (as.Tok == token.ASSIGN || as.Tok == token.DEFINE) {
			for i := range as.Lhs {
				out = append(out, p.jxSrc(as.Lhs[i])+"="+p.jxSrc(as.Rhs[i]))
			}
			continue
		}
		out = append(out, p.jxSrc(s))
	}
	return out
}

// jxNilTest recognises `x <op> nil` / `nil <op> x` and returns (x, op).
func (p *pkgInfo) jxNilTest(e ast.Expr) (string, string, bool) {
	b, ok := jxStripParens(e).(*ast.BinaryExpr)
	if !ok || (b.Op != token.NEQ && b.Op != token.EQL) {
		return "", "", false
	}
	if id, ok := b.Y.(*ast.Ident); ok && id.Name == "nil" {
		return p.jxSrc(b.X), b.Op.String(), true
	}
	if id, ok := b.X.(*ast.Ident); ok && id.Name == "nil" {
		return p.jxSrc(b.Y), b.Op.String(), true
	}
	return "", "", false
}

type jxLockSpan struct {
	lock, unlock token.Pos
	ok           bool
}

// span finds the single top-level `recv.mtx.Lock()` … `recv.mtx.Unlock()` pair of a function body.
func (p *pkgInfo) jxSpan(fd *ast.FuncDecl, recv string) jxLockSpan {
	var sp jxLockSpan
	nLock, nUnlock := 0, 0
	ast.Inspect(fd.Body, func(n ast.Node) bool {
		if c, ok := n.(*ast.CallExpr); ok {
			switch p.jxSrc(c) {
			case recv + ".mtx.Lock()":
				nLock++
			case recv + ".mtx.Unlock()":
				nUnlock++
			}
		}
		return true
	})
	for _, s := range fd.Body.List {
		if es, ok := s.(*ast.ExprStmt); ok {
			switch p.jxSrc(es.X) {
			case recv + ".mtx.Lock()":
				sp.lock = es.End()
			case recv + ".mtx.Unlock()":
				sp.unlock = es.Pos()
			}
		}
	}
	sp.ok = nLock == 1 && nUnlock == 1 && sp.lock != token.NoPos && sp.unlock != token.NoPos && sp.lock < sp.unlock
	if sp.ok { // no way out of the critical section other than falling through
		ast.Inspect(fd.Body, func(n ast.Node) bool {
			switch n.(type) {
			case *ast.ReturnStmt, *ast.GoStmt, *ast.BranchStmt:
				if n.Pos() > sp.lock && n.Pos() < sp.unlock {
					sp.ok = false
				}
			}
			return true
		})
	}
	return sp
}

// jxDeferSpan recognises a body that starts with `recv.mtx.Lock()` followed by `defer recv.mtx.Unlock()` and does no other
// locking: the critical section is the rest of the body, and it is left with the mutex released on EVERY exit (return or panic).
func (p *pkgInfo) jxDeferSpan(fd *ast.FuncDecl, recv string) jxLockSpan {
	var sp jxLockSpan
	nLock, nUnlock, nDefer := 0, 0, 0
	ast.Inspect(fd.Body, func(n ast.Node) bool {
		switch x := n.(type) {
		case *ast.CallExpr:
			switch p.jxSrc(x) {
			case recv + ".mtx.Lock()":
				nLock++
			case recv + ".mtx.Unlock()":
				nUnlock++
			}
		case *ast.DeferStmt:
			nDefer++
		case *ast.GoStmt:
			nDefer += 100 // a goroutine started inside the critical section is outside this shape
		}
		return true
	})
	if len(fd.Body.List) < 2 || nLock != 1 || nUnlock != 1 || nDefer != 1 {
		return sp
	}
	es, ok := fd.Body.List[0].(*ast.ExprStmt)
	ds, ok2 := fd.Body.List[1].(*ast.DeferStmt)
	if !ok || !ok2 || p.jxSrc(es.X) != recv+".mtx.Lock()" || p.jxSrc(ds.Call) != recv+".mtx.Unlock()" {
		return sp
	}
	sp.lock, sp.unlock, sp.ok = ds.End(), fd.Body.Rbrace, true
	return sp
}

// jxFieldWritesInside reports whether every assignment to recv.<field> (field in fields) lies inside the span
// and every field is written at least once.
func (p *pkgInfo) jxFieldWritesInside(fd *ast.FuncDecl, recv string, fields []string, sp jxLockSpan) bool {
	if !sp.ok {
		return false
	}
	seen := map[string]bool{}
	good := true
	ast.Inspect(fd.Body, func(n ast.Node) bool {
		as, ok := n.(*ast.AssignStmt)
		if !ok {
			return true
		}
		for _, l := range as.Lhs {
			for _, f := range fields {
				if p.jxSrc(l) == recv+"."+f {
					seen[f] = true
					if !(as.Pos() > sp.lock && as.End() <= sp.unlock) {
						good = false
					}
				}
			}
		}
		return true
	})
	for _, f := range fields {
		if !seen[f] {
			good = false
		}
	}
	return good
}

type jxCallSite struct {
	n       int
	inLoop  bool
	after   bool
	guard   string
	topStmt bool
}

// jxCallSites finds calls of `fun(...)` in the body, whether one is inside a loop / go statement / function literal,
// whether all lie after `after`, and the condition of the top-level `if` that guards the (single) call.
func (p *pkgInfo) jxCallSites(fd *ast.FuncDecl, fun string, after token.Pos) jxCallSite {
	cs := jxCallSite{after: true}
	var stack []ast.Node
	ast.Inspect(fd.Body, func(n ast.Node) bool {
		if n == nil {
			stack = stack[:len(stack)-1]
			return true
		}
		stack = append(stack, n)
		c, ok := n.(*ast.CallExpr)
		if !ok || p.jxSrc(c.Fun) != fun {
			return true
		}
		cs.n++
		if c.Pos() < after {
			cs.after = false
		}
		for _, a := range stack {
			switch a.(type) {
			case *ast.ForStmt, *ast.RangeStmt, *ast.GoStmt, *ast.FuncLit, *ast.DeferStmt:
				cs.inLoop = true
			}
		}
		return true
	})
	for _, s := range fd.Body.List {
		ifs, ok := s.(*ast.IfStmt)
		if !ok || ifs.Else != nil || ifs.Init != nil || len(ifs.Body.List) != 1 {
			continue
		}
		if es, ok := ifs.Body.List[0].(*ast.ExprStmt); ok {
			if c, ok := es.X.(*ast.CallExpr); ok && p.jxSrc(c.Fun) == fun {
				cs.guard = p.jxSrc(ifs.Cond)
				cs.topStmt = true
			}
		}
	}
	return cs
}

func (p *pkgInfo) jxTopLevelMatching(fd *ast.FuncDecl, re string) (ast.Stmt, string) {
	r := regexp.MustCompile(re)
	for _, s := range fd.Body.List {
		if t := p.jxSrc(s); r.MatchString(t) {
			return s, t
		}
	}
	return nil, ""
}

func jxLastReturn(p *pkgInfo, fd *ast.FuncDecl) string {
	n := 0
	ast.Inspect(fd.Body, func(x ast.Node) bool {
		if _, ok := x.(*ast.ReturnStmt); ok {
			n++
		}
		return true
	})
	if len(fd.Body.List) == 0 || n != 1 {
		return ""
	}
	if r, ok := fd.Body.List[len(fd.Body.List)-1].(*ast.ReturnStmt); ok {
		return p.jxSrc(r)
	}
	return ""
}

// jxErrIf finds the single top-level `if err <op> nil {…} else {…}` of a body.
func (p *pkgInfo) jxErrIf(fd *ast.FuncDecl) (op string, then, els []string, ok bool) {
	n := 0
	for _, s := range fd.Body.List {
		ifs, isIf := s.(*ast.IfStmt)
		if !isIf || ifs.Init != nil {
			continue
		}
		x, o, isNil := p.jxNilTest(ifs.Cond)
		if !isNil || x != "err" {
			continue
		}
		eb, isBlock := ifs.Else.(*ast.BlockStmt)
		if !isBlock {
			continue
		}
		n++
		op, then, els = o, p.jxAssigns(ifs.Body.List), p.jxAssigns(eb.List)
	}
	return op, then, els, n == 1
}

// jxMethodG is p.method that also accepts generic receivers (`*FunctionJob[R]`).
func (p *pkgInfo) jxMethodG(recv, name string) *ast.FuncDecl {
	for _, f := range p.files {
		for _, d := range f.Decls {
			fd, ok := d.(*ast.FuncDecl)
			if !ok || fd.Name.Name != name || fd.Recv == nil || len(fd.Recv.List) == 0 {
				continue
			}
			t := fd.Recv.List[0].Type
			if st, ok := t.(*ast.StarExpr); ok {
				t = st.X
			}
			if ix, ok := t.(*ast.IndexExpr); ok {
				t = ix.X
			}
			if id, ok := t.(*ast.Ident); ok && id.Name == recv {
				return fd
			}
		}
	}
	return nil
}

func extractJobs(repo string, fx *Facts) {
	p := load(filepath.Join(repo, "job"), "github.com/reugn/go-quartz/job")
	jf := &jxFacts{StatusConsts: []string{}, FunctionThen: []string{}, FunctionElse: []string{}, ShellCapture: []string{}, ShellStore: []string{},
		ShellThen: []string{}, ShellElse: []string{}, CurlThen: []string{}, CurlElse: []string{}, CurlCloseGuard: []string{},
		AccessorsUnderLock: []string{}, AccessorsWithoutLock: []string{}}
	fx.Extra["jobs"] = jf

	// ---- job_status.go
	for _, f := range p.files {
		for _, d := range f.Decls {
			gd, ok := d.(*ast.GenDecl)
			if !ok || gd.Tok != token.CONST {
				continue
			}
			for _, s := range gd.Specs {
				for _, nm := range s.(*ast.ValueSpec).Names {
					if !strings.HasPrefix(nm.Name, "Status") {
						continue
					}
					if c, ok := p.info.Defs[nm].(*types.Const); ok {
						if v, ok := constant.Int64Val(constant.ToInt(c.Val())); ok {
							jf.StatusConsts = append(jf.StatusConsts, fmt.Sprintf("%s=%d", nm.Name, v))
						}
					}
				}
			}
		}
	}
	if len(jf.StatusConsts) == 0 {
		fx.miss("jobs.statusConsts")
	}

	// ---- FunctionJob.Execute
	if fd := p.jxMethodG("FunctionJob", "Execute"); fd != nil && fd.Body != nil {
		fx.Where["jobs.function.Execute"] = p.pos(fd)
		if _, t := p.jxTopLevelMatching(fd, `f\.function\(`); t != "" {
			jf.FunctionCall = t
		} else {
			fx.miss("jobs.function.call")
		}
		op, th, el, ok := p.jxErrIf(fd)
		if ok {
			jf.FunctionErrOp, jf.FunctionThen, jf.FunctionElse = op, th, el
		} else {
			fx.miss("jobs.function.jxErrIf")
		}
		sp := p.jxSpan(fd, "f")
		jf.FunctionStoreInLock = p.jxFieldWritesInside(fd, "f", []string{"jobStatus", "result", "err"}, sp)
		jf.FunctionReturn = jxLastReturn(p, fd)
	} else {
		fx.miss("jobs.function.Execute")
	}

	// ---- ShellJob.Execute
	if fd := p.method("ShellJob", "Execute"); fd != nil && fd.Body != nil {
		fx.Where["jobs.shell.Execute"] = p.pos(fd)
		if _, t := p.jxTopLevelMatching(fd, `cmd\.Run\(\)`); t != "" {
			jf.ShellRun = t
		} else {
			fx.miss("jobs.shell.run")
		}
		if _, t := p.jxTopLevelMatching(fd, `exec\.Command`); t != "" {
			jf.ShellCommand = t
		} else {
			fx.miss("jobs.shell.command")
		}
		sp := p.jxSpan(fd, "sh")
		for _, s := range fd.Body.List {
			as, ok := s.(*ast.AssignStmt)
			if !ok {
				continue
			}
			t := p.jxAssigns([]ast.Stmt{as})
			switch {
			case strings.HasPrefix(p.jxSrc(as.Lhs[0]), "cmd.Std"):
				jf.ShellCapture = append(jf.ShellCapture, t...)
			case strings.HasPrefix(p.jxSrc(as.Lhs[0]), "sh."):
				jf.ShellStore = append(jf.ShellStore, t...)
			}
		}
		op, th, el, ok := p.jxErrIf(fd)
		if ok {
			jf.ShellErrOp, jf.ShellThen, jf.ShellElse = op, th, el
		} else {
			fx.miss("jobs.shell.jxErrIf")
		}
		jf.ShellStoreInLock = p.jxFieldWritesInside(fd, "sh", []string{"jobStatus", "exitCode", "stdout", "stderr"}, sp)
		jf.ShellReturn = jxLastReturn(p, fd)
		cs := p.jxCallSites(fd, "sh.callback", sp.unlock)
		jf.ShellCallbackSites, jf.ShellCallbackInLoop, jf.ShellCallbackAfter, jf.ShellCallbackGuard = cs.n, cs.inLoop, cs.after && sp.ok && cs.topStmt, cs.guard
	} else {
		fx.miss("jobs.shell.Execute")
	}

	// ---- CurlJob.Execute: `err := cu.do(ctx)`; callback; `return err` — the critical section is the helper `do`
	// (`cu.mtx.Lock(); defer cu.mtx.Unlock(); …`), so that a panicking HTTPHandler / Body.Close cannot leave the mutex locked
	if ex := p.method("CurlJob", "Execute"); ex != nil && ex.Body != nil {
		fx.Where["jobs.curl.Execute"] = p.pos(ex)
		fd := p.method("CurlJob", "do")
		var helperStmt ast.Stmt
		if s, t := p.jxTopLevelMatching(ex, `^err := cu\.do\(ctx\)$`); s != nil && p.jxCallSites(ex, "cu.do", token.NoPos).n == 1 {
			helperStmt, jf.CurlHelperCall = s, t
		}
		exLocks := 0 // Execute itself must not touch the mutex
		ast.Inspect(ex.Body, func(n ast.Node) bool {
			if c, ok := n.(*ast.CallExpr); ok && strings.Contains(p.jxSrc(c.Fun), ".mtx.") {
				exLocks++
			}
			return true
		})
		if fd == nil || fd.Body == nil || helperStmt == nil || exLocks != 0 {
			fx.miss("jobs.curl.do-helper")
			fd = ex // read the remaining shapes off Execute itself (they will not have the deferred form)
		}
		if fd != ex {
			fx.Where["jobs.curl.do"] = p.pos(fd)
		}
		sp := p.jxDeferSpan(fd, "cu")
		jf.CurlUnlockDeferred = sp.ok && fd != ex
		if !jf.CurlUnlockDeferred {
			fx.miss("jobs.curl.deferred-unlock")
		}
		// the status test
		found := 0
		for _, s := range fd.Body.List {
			ifs, ok := s.(*ast.IfStmt)
			if !ok || ifs.Init != nil {
				continue
			}
			eb, isBlock := ifs.Else.(*ast.BlockStmt)
			if !isBlock || !strings.Contains(p.jxSrc(ifs.Cond), "StatusCode") {
				continue
			}
			found++
			fx.Where["jobs.curl.statusTest"] = p.pos(ifs)
			jf.CurlThen, jf.CurlElse = p.jxAssigns(ifs.Body.List), p.jxAssigns(eb.List)
			for _, c := range jxFlattenAnd(ifs.Cond) {
				if x, op, ok := p.jxNilTest(c); ok && x == "cu.response" && jf.CurlNilOp == "" {
					jf.CurlNilOp = op
					continue
				}
				b, ok := c.(*ast.BinaryExpr)
				if !ok {
					fx.miss("jobs.curl.cond.conjunct:" + p.jxSrc(c))
					continue
				}
				x, y, op := b.X, b.Y, b.Op
				if p.jxSrc(y) == "cu.response.StatusCode" {
					x, y, op = y, x, jxFlipOp(op)
				}
				v, isConst := p.intOf(y)
				if p.jxSrc(x) != "cu.response.StatusCode" || !isConst {
					fx.miss("jobs.curl.cond.conjunct:" + p.jxSrc(c))
					continue
				}
				switch {
				case (op == token.GEQ || op == token.GTR) && jf.CurlLoOp == "":
					jf.CurlLoOp, jf.CurlLo, jf.CurlLoName = op.String(), v, p.jxSrc(y)
				case (op == token.LSS || op == token.LEQ) && jf.CurlHiOp == "":
					jf.CurlHiOp, jf.CurlHi, jf.CurlHiName = op.String(), v, p.jxSrc(y)
				default:
					fx.miss("jobs.curl.cond.conjunct:" + p.jxSrc(c))
				}
			}
		}
		if found != 1 || jf.CurlNilOp == "" || jf.CurlLoOp == "" || jf.CurlHiOp == "" {
			fx.miss("jobs.curl.statusTest")
		}
		// Close of the previous body, before Do, inside the critical section, guarded by nil tests only
		var closePos, doPos token.Pos
		nClose := 0
		for _, s := range fd.Body.List {
			if ifs, ok := s.(*ast.IfStmt); ok && ifs.Else == nil && ifs.Init == nil {
				hasClose := false
				ast.Inspect(ifs.Body, func(n ast.Node) bool {
					if c, ok := n.(*ast.CallExpr); ok && p.jxSrc(c) == "cu.response.Body.Close()" {
						hasClose = true
						closePos = c.Pos()
					}
					return true
				})
				if hasClose {
					for _, c := range jxFlattenAnd(ifs.Cond) {
						jf.CurlCloseGuard = append(jf.CurlCloseGuard, p.jxSrc(c))
					}
				}
			}
		}
		cl := p.jxCallSites(fd, "cu.response.Body.Close", token.NoPos)
		nClose, jf.CurlCloseInLoop = cl.n, cl.inLoop
		if s, t := p.jxTopLevelMatching(fd, `cu\.httpClient\.Do\(`); s != nil {
			jf.CurlDo, doPos = t, s.Pos()
		} else {
			fx.miss("jobs.curl.do")
		}
		jf.CurlCloseBeforeDo = nClose == 1 && sp.ok && closePos != token.NoPos && doPos != token.NoPos &&
			sp.lock < closePos && closePos < doPos && doPos < sp.unlock
		if s, t := p.jxTopLevelMatching(fd, `WithContext\(`); s != nil && s.Pos() < doPos {
			jf.CurlWithContext = t
		}
		jf.CurlStoreInLock = p.jxFieldWritesInside(fd, "cu", []string{"jobStatus", "response"}, sp)
		if fd != ex { // … and Execute itself assigns no field of the job
			ast.Inspect(ex.Body, func(n ast.Node) bool {
				if as, ok := n.(*ast.AssignStmt); ok {
					for _, l := range as.Lhs {
						if strings.HasPrefix(p.jxSrc(l), "cu.") {
							jf.CurlStoreInLock = false
						}
					}
				}
				return true
			})
		}
		jf.CurlReturn = jxLastReturn(p, fd)
		jf.CurlExecuteReturn = jxLastReturn(p, ex)
		// the callback: one site, in Execute (none in the helper), after the statement that runs the helper — the helper has
		// released the mutex when it returns
		after := token.Pos(1 << 40)
		if helperStmt != nil {
			after = helperStmt.End()
		}
		cs := p.jxCallSites(ex, "cu.callback", after)
		inHelper := 0
		if fd != ex {
			inHelper = p.jxCallSites(fd, "cu.callback", token.NoPos).n
		}
		jf.CurlCallbackSites, jf.CurlCallbackInLoop, jf.CurlCallbackAfter, jf.CurlCallbackGuard = cs.n+inHelper, cs.inLoop, cs.after && sp.ok && cs.topStmt && helperStmt != nil && inHelper == 0, cs.guard
	} else {
		fx.miss("jobs.curl.Execute")
	}

	// ---- accessors read under the same mutex
	for _, a := range [][2]string{{"FunctionJob", "Result"}, {"FunctionJob", "Error"}, {"FunctionJob", "JobStatus"},
		{"ShellJob", "ExitCode"}, {"ShellJob", "Stdout"}, {"ShellJob", "Stderr"}, {"ShellJob", "JobStatus"},
		{"CurlJob", "JobStatus"}, {"CurlJob", "DumpResponse"}} {
		fd := p.jxMethodG(a[0], a[1])
		name := a[0] + "." + a[1]
		if fd == nil || fd.Body == nil || len(fd.Body.List) < 2 {
			fx.miss("jobs.accessor." + name)
			continue
		}
		s0, s1 := p.jxSrc(fd.Body.List[0]), p.jxSrc(fd.Body.List[1])
		if regexp.MustCompile(`^\w+\.mtx\.R?Lock\(\)$`).MatchString(s0) && regexp.MustCompile(`^defer \w+\.mtx\.R?Unlock\(\)$`).MatchString(s1) {
			jf.AccessorsUnderLock = append(jf.AccessorsUnderLock, name)
		} else {
			jf.AccessorsWithoutLock = append(jf.AccessorsWithoutLock, name)
		}
	}
}

func jxLeanBool(b bool) string {
	if b {
		return "true"
	}
	return "false"
}

func renderJobs(fx *Facts) string {
	jf, _ := fx.Extra["jobs"].(*jxFacts)
	if jf == nil {
		jf = &jxFacts{}
	}
	var b strings.Builder
	b.WriteString("namespace Generated.Jobs\n\n")
	b.WriteString("/-- `Status*` constants of job/job_status.go -/\n")
	fmt.Fprintf(&b, "def statusConsts : List String := %s\n\n", leanStrList(jf.StatusConsts))
	b.WriteString("/-- `FunctionJob.Execute` (job/function_job.go) -/\n")
	fmt.Fprintf(&b, "def functionCall : String := %s\n", leanStr(jf.FunctionCall))
	fmt.Fprintf(&b, "def functionErrOp : String := %s\n", leanStr(jf.FunctionErrOp))
	fmt.Fprintf(&b, "def functionThen : List String := %s\n", leanStrList(jf.FunctionThen))
	fmt.Fprintf(&b, "def functionElse : List String := %s\n", leanStrList(jf.FunctionElse))
	fmt.Fprintf(&b, "def functionStoreInLock : Bool := %s\n", jxLeanBool(jf.FunctionStoreInLock))
	fmt.Fprintf(&b, "def functionReturn : String := %s\n\n", leanStr(jf.FunctionReturn))
	b.WriteString("/-- `ShellJob.Execute` (job/shell_job.go) -/\n")
	fmt.Fprintf(&b, "def shellCommand : String := %s\n", leanStr(jf.ShellCommand))
	fmt.Fprintf(&b, "def shellCapture : List String := %s\n", leanStrList(jf.ShellCapture))
	fmt.Fprintf(&b, "def shellRun : String := %s\n", leanStr(jf.ShellRun))
	fmt.Fprintf(&b, "def shellStore : List String := %s\n", leanStrList(jf.ShellStore))
	fmt.Fprintf(&b, "def shellErrOp : String := %s\n", leanStr(jf.ShellErrOp))
	fmt.Fprintf(&b, "def shellThen : List String := %s\n", leanStrList(jf.ShellThen))
	fmt.Fprintf(&b, "def shellElse : List String := %s\n", leanStrList(jf.ShellElse))
	fmt.Fprintf(&b, "def shellStoreInLock : Bool := %s\n", jxLeanBool(jf.ShellStoreInLock))
	fmt.Fprintf(&b, "def shellReturn : String := %s\n", leanStr(jf.ShellReturn))
	fmt.Fprintf(&b, "def shellCallbackSites : Nat := %d\n", jf.ShellCallbackSites)
	fmt.Fprintf(&b, "def shellCallbackInLoop : Bool := %s\n", jxLeanBool(jf.ShellCallbackInLoop))
	fmt.Fprintf(&b, "def shellCallbackAfterUnlock : Bool := %s\n", jxLeanBool(jf.ShellCallbackAfter))
	fmt.Fprintf(&b, "def shellCallbackGuard : String := %s\n\n", leanStr(jf.ShellCallbackGuard))
	b.WriteString("/-- `CurlJob.Execute` (job/curl_job.go) -/\n")
	fmt.Fprintf(&b, "def curlNilOp : String := %s\n", leanStr(jf.CurlNilOp))
	fmt.Fprintf(&b, "def curlLoOp : String := %s\n", leanStr(jf.CurlLoOp))
	fmt.Fprintf(&b, "def curlLo : Int := %d\n", jf.CurlLo)
	fmt.Fprintf(&b, "def curlLoName : String := %s\n", leanStr(jf.CurlLoName))
	fmt.Fprintf(&b, "def curlHiOp : String := %s\n", leanStr(jf.CurlHiOp))
	fmt.Fprintf(&b, "def curlHi : Int := %d\n", jf.CurlHi)
	fmt.Fprintf(&b, "def curlHiName : String := %s\n", leanStr(jf.CurlHiName))
	fmt.Fprintf(&b, "def curlThen : List String := %s\n", leanStrList(jf.CurlThen))
	fmt.Fprintf(&b, "def curlElse : List String := %s\n", leanStrList(jf.CurlElse))
	fmt.Fprintf(&b, "def curlWithContext : String := %s\n", leanStr(jf.CurlWithContext))
	fmt.Fprintf(&b, "def curlCloseGuard : List String := %s\n", leanStrList(jf.CurlCloseGuard))
	fmt.Fprintf(&b, "def curlCloseInLoop : Bool := %s\n", jxLeanBool(jf.CurlCloseInLoop))
	fmt.Fprintf(&b, "def curlCloseBeforeDo : Bool := %s\n", jxLeanBool(jf.CurlCloseBeforeDo))
	fmt.Fprintf(&b, "def curlDo : String := %s\n", leanStr(jf.CurlDo))
	fmt.Fprintf(&b, "def curlStoreInLock : Bool := %s\n", jxLeanBool(jf.CurlStoreInLock))
	fmt.Fprintf(&b, "def curlReturn : String := %s\n", leanStr(jf.CurlReturn))
	fmt.Fprintf(&b, "def curlCallbackSites : Nat := %d\n", jf.CurlCallbackSites)
	fmt.Fprintf(&b, "def curlCallbackInLoop : Bool := %s\n", jxLeanBool(jf.CurlCallbackInLoop))
	fmt.Fprintf(&b, "def curlCallbackAfterUnlock : Bool := %s\n", jxLeanBool(jf.CurlCallbackAfter))
	fmt.Fprintf(&b, "def curlCallbackGuard : String := %s\n", leanStr(jf.CurlCallbackGuard))
	fmt.Fprintf(&b, "def curlHelperCall : String := %s\n", leanStr(jf.CurlHelperCall))
	fmt.Fprintf(&b, "def curlUnlockDeferred : Bool := %s\n", jxLeanBool(jf.CurlUnlockDeferred))
	fmt.Fprintf(&b, "def curlExecuteReturn : String := %s\n\n", leanStr(jf.CurlExecuteReturn))
	fmt.Fprintf(&b, "/-- accessor methods that start with `mtx.(R)Lock(); defer mtx.(R)Unlock()` -/\ndef accessorsUnderLock : List String := %s\n", leanStrList(jf.AccessorsUnderLock))
	fmt.Fprintf(&b, "def accessorsWithoutLock : List String := %s\n", leanStrList(jf.AccessorsWithoutLock))
	b.WriteString("\nend Generated.Jobs\n")
	return b.String()
}
