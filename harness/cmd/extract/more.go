package main

// extractMore / renderMore: facts of the scheduler, jobs and loggers (filled in as
// the corresponding models are built).
func extractMore(repo string, fx *Facts) {}

func renderMore(fx *Facts) string { return "" }
