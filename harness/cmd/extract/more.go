package main

// Additional fact groups register themselves here from their own files (x_<name>.go):
//
//	func init() { register(extractFoo, renderFoo) }
//
// extract* fills fx.Extra["foo"] (JSON-able) and calls fx.miss("foo.<shape>") for every shape it cannot find;
// render* returns Lean source (its own `namespace Generated.Foo … end Generated.Foo`) appended to Facts.lean.
// The file must only use definitions from modules imported at the top of Facts.lean (core + Cron.Fields/Parse),
// so emit plain `Nat`/`Int`/`Bool`/`String`/`List` literals.
var (
	extractors []func(repo string, fx *Facts)
	renderers  []func(fx *Facts) string
)

func register(e func(repo string, fx *Facts), r func(fx *Facts) string) {
	extractors = append(extractors, e)
	renderers = append(renderers, r)
}

func extractMore(repo string, fx *Facts) {
	if fx.Extra == nil {
		fx.Extra = map[string]any{}
	}
	for _, e := range extractors {
		e(repo, fx)
	}
}

func renderMore(fx *Facts) string {
	s := ""
	for _, r := range renderers {
		s += "\n" + r(fx)
	}
	return s
}
