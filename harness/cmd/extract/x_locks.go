package main

import (
	"fmt"
	"go/ast"
	"path/filepath"
	"strings"
)

// Facts about the queue locker: for every scheduler method that touches sched.queue, the first
// queue access comes after `sched.queueLocker.Lock()` whose very next statement is
// `defer sched.queueLocker.Unlock()` (so the whole remaining body runs inside the critical section).

func init() { register(extractLocks, renderLocks) }

type lockFact struct {
	Method     string   `json:"method"`
	Locked     bool     `json:"locked"`     // Lock(); defer Unlock() present and before every queue access
	QueueCalls []string `json:"queueCalls"` // in source order
	Where      string   `json:"where"`
}

func isSel(e ast.Expr, path ...string) bool {
	for i := len(path) - 1; i >= 0; i-- {
		if i == 0 {
			id, ok := e.(*ast.Ident)
			return ok && id.Name == path[0]
		}
		s, ok := e.(*ast.SelectorExpr)
		if !ok || s.Sel.Name != path[i] {
			return false
		}
		e = s.X
	}
	return false
}

func extractLocks(repo string, fx *Facts) {
	p := load(filepath.Join(repo, "quartz"), "github.com/reugn/go-quartz/quartz")
	var facts []lockFact
	for _, f := range p.files {
		for _, d := range f.Decls {
			fd, ok := d.(*ast.FuncDecl)
			if !ok || fd.Recv == nil || fd.Body == nil {
				continue
			}
			recvT := fd.Recv.List[0].Type
			if st, ok := recvT.(*ast.StarExpr); ok {
				recvT = st.X
			}
			if id, ok := recvT.(*ast.Ident); !ok || id.Name != "StdScheduler" {
				continue
			}
			var queueCalls []string
			var firstQueuePos, lockPos int = -1, -1
			deferOK := false
			ast.Inspect(fd.Body, func(n ast.Node) bool {
				call, ok := n.(*ast.CallExpr)
				if !ok {
					return true
				}
				sel, ok := call.Fun.(*ast.SelectorExpr)
				if !ok {
					return true
				}
				if isSel(sel.X, "sched", "queue") {
					queueCalls = append(queueCalls, sel.Sel.Name)
					if firstQueuePos < 0 {
						firstQueuePos = int(call.Pos())
					}
				}
				return true
			})
			if len(queueCalls) == 0 {
				continue
			}
			for i, st := range fd.Body.List {
				es, ok := st.(*ast.ExprStmt)
				if !ok {
					continue
				}
				call, ok := es.X.(*ast.CallExpr)
				if !ok {
					continue
				}
				sel, ok := call.Fun.(*ast.SelectorExpr)
				if ok && sel.Sel.Name == "Lock" && isSel(sel.X, "sched", "queueLocker") {
					lockPos = int(call.Pos())
					if i+1 < len(fd.Body.List) {
						if ds, ok := fd.Body.List[i+1].(*ast.DeferStmt); ok {
							if s2, ok := ds.Call.Fun.(*ast.SelectorExpr); ok && s2.Sel.Name == "Unlock" && isSel(s2.X, "sched", "queueLocker") {
								deferOK = true
							}
						}
					}
					break
				}
			}
			facts = append(facts, lockFact{fd.Name.Name, lockPos >= 0 && deferOK && lockPos < firstQueuePos, queueCalls, p.pos(fd)})
			if fd.Name.Name == "ScheduleJob" {
				// the suspended flag of the job (changed in place by PauseJob/ResumeJob) and the trigger are consulted under the lock
				first := -1
				ast.Inspect(fd.Body, func(n ast.Node) bool {
					if sel, ok := n.(*ast.SelectorExpr); ok && (sel.Sel.Name == "Suspended" || sel.Sel.Name == "NextFireTime") && first < 0 {
						first = int(sel.Pos())
					}
					return true
				})
				fx.Extra["scheduleReadsUnderLock"] = lockPos >= 0 && first > lockPos
			}
		}
	}
	fx.Extra["locks"] = facts
	if len(facts) == 0 {
		fx.miss("locks.methods")
	}
}

func renderLocks(fx *Facts) string {
	facts, _ := fx.Extra["locks"].([]lockFact)
	var rows []string
	for _, f := range facts {
		rows = append(rows, fmt.Sprintf("(%q, %v, %s)", f.Method, f.Locked, leanStrList(f.QueueCalls)))
	}
	return "namespace Generated.Locks\n/-- (method of StdScheduler that touches the queue, whole queue access inside Lock(); defer Unlock(), queue calls in source order) -/\n" +
		"def table : List (String × Bool × List String) := [" + strings.Join(rows, ",\n  ") + "]\n" +
		fmt.Sprintf("/-- ScheduleJob reads the job's suspended flag and asks the trigger after taking the lock -/\ndef scheduleReadsUnderLock : Bool := %v\n", fx.Extra["scheduleReadsUnderLock"] == true) +
		"end Generated.Locks\n"
}
