package main

// Facts for C12 (execution modes): the shape of the dispatch switch of executeAndReschedule, of
// startWorkers and of the dispatch channel, read from quartz/scheduler.go.
//
// Lean side: namespace Generated.Pool, consumed by QuartzModel/Theorems/C12.lean (C12_facts).
// Codes (kept numeric so that the Lean side is a plain `decide`):
//   guard: 0 = `sched.opts.BlockingExecution`, 1 = `sched.opts.WorkerLimit > 0`, 2 = `default`, 9 = anything else
//   arm:   0 = calls executeWithRetries in the loop goroutine, 1 = sends on the run's dispatch channel (select with ctx.Done),
//          2 = wg.Add(1); go func(){ … executeWithRetries … }() without waiting, 9 = anything else

import (
	"fmt"
	"go/ast"
	"go/token"
	"go/types"
	"path/filepath"
	"strings"
)

func init() { register(extractPool, renderPool) }

type poolFacts struct {
	DispatchCap    int64      `json:"dispatchCap"`    // -1 = not found
	DispatchWrites int        `json:"dispatchWrites"` // anything else called dispatch that is written (assignment, struct field, literal key, selector); must be 0
	DispatchPerRun bool       `json:"dispatchPerRun"` // the value made in Start is the one handed to the loop and to the workers of that run; send / receive use the parameters
	SwitchText     [][]string `json:"switchText"`     // [condition, arm] as read
	SwitchCodes    [][2]int   `json:"switchCodes"`
	WorkersGuard   []string   `json:"workersGuard"` // conjuncts of startWorkers' if
	GuardCodes     []int      `json:"guardCodes"`   // 0 = !BlockingExecution, 1 = WorkerLimit > 0, 9 = other
	WorkerLoop     string     `json:"workerLoop"`   // "init; cond; post"
	WorkerLoopOK   bool       `json:"workerLoopOK"` // i := 0; i < sched.opts.WorkerLimit; i++ with exactly one go statement per iteration
	WorkerBody     []string   `json:"workerBody"`   // comm clauses of the worker's select
	WorkerBodyOK   bool       `json:"workerBodyOK"` // for { select { case <-ctx.Done(): return; case x := <-dispatch: executeWithRetries } }
}

func xpExprStr(e ast.Expr) string { return types.ExprString(e) }

func xpIsSel(e ast.Expr, path string) bool { return xpExprStr(e) == path }

// xpContainsCall reports whether the node contains a call of a function / method with that name.
func xpContainsCall(n ast.Node, name string) bool {
	found := false
	ast.Inspect(n, func(x ast.Node) bool {
		if c, ok := x.(*ast.CallExpr); ok && callName(c) == name {
			found = true
		}
		return !found
	})
	return found
}

func xpContainsNode(n ast.Node, pred func(ast.Node) bool) bool {
	found := false
	ast.Inspect(n, func(x ast.Node) bool {
		if x != nil && pred(x) {
			found = true
		}
		return !found
	})
	return found
}

func xpClassifyArm(body []ast.Stmt) (int, string) {
	blk := &ast.BlockStmt{List: body}
	hasGo := xpContainsNode(blk, func(x ast.Node) bool { _, ok := x.(*ast.GoStmt); return ok })
	hasSend := xpContainsNode(blk, func(x ast.Node) bool {
		s, ok := x.(*ast.SendStmt)
		return ok && xpIsSel(s.Chan, "dispatch")
	})
	hasRecv := xpContainsNode(blk, func(x ast.Node) bool {
		u, ok := x.(*ast.UnaryExpr)
		return ok && u.Op == token.ARROW && !strings.HasSuffix(xpExprStr(u.X), ".Done()")
	})
	hasWait := xpContainsCall(blk, "Wait")
	switch {
	case !hasGo && !hasSend && len(body) == 1:
		if es, ok := body[0].(*ast.ExprStmt); ok {
			if c, ok := es.X.(*ast.CallExpr); ok && callName(c) == "executeWithRetries" {
				return 0, "sched.executeWithRetries(…) in the loop goroutine"
			}
		}
	case hasSend && !hasGo && len(body) == 1:
		if sel, ok := body[0].(*ast.SelectStmt); ok {
			var comms []string
			for _, cc := range sel.Body.List {
				cl := cc.(*ast.CommClause)
				switch c := cl.Comm.(type) {
				case *ast.SendStmt:
					comms = append(comms, xpExprStr(c.Chan)+" <- "+xpExprStr(c.Value))
				case *ast.ExprStmt:
					comms = append(comms, xpExprStr(c.X))
				case nil:
					comms = append(comms, "default")
				default:
					comms = append(comms, "?")
				}
			}
			// a `default` clause would turn the blocking hand-off into a drop: not the modelled arm
			if len(comms) == 2 && comms[0] == "dispatch <- scheduled" && comms[1] == "<-ctx.Done()" {
				return 1, "select { " + strings.Join(comms, " | ") + " }"
			}
			return 9, "select { " + strings.Join(comms, " | ") + " }"
		}
	case hasGo && !hasSend && !hasRecv && !hasWait && len(body) == 2:
		es, ok1 := body[0].(*ast.ExprStmt)
		gs, ok2 := body[1].(*ast.GoStmt)
		if ok1 && ok2 && xpExprStr(es.X) == "sched.wg.Add(1)" {
			if fl, ok := gs.Call.Fun.(*ast.FuncLit); ok && xpContainsCall(fl.Body, "executeWithRetries") {
				return 2, "sched.wg.Add(1); go func() { … executeWithRetries … }()"
			}
		}
	}
	return 9, "unrecognised"
}

func extractPool(repo string, fx *Facts) {
	p := load(filepath.Join(repo, "quartz"), "github.com/reugn/go-quartz/quartz")
	pf := &poolFacts{DispatchCap: -1}
	fx.Extra["pool"] = pf

	// 1. dispatch: `dispatch := make(chan ScheduledJob)` in Start — one unbuffered channel per run — and that same value
	//    is what the loop sends on and the workers of that run receive from; nothing else is ever called dispatch
	var chanObj any // the object defined by the := in Start
	objOf := func(e ast.Expr) any {
		id, ok := e.(*ast.Ident)
		if !ok {
			return nil
		}
		if o := p.info.Uses[id]; o != nil {
			return o
		}
		if o := p.info.Defs[id]; o != nil {
			return o
		}
		return nil
	}
	paramObj := func(fd *ast.FuncDecl, idx int, name, typ string) any {
		if fd == nil {
			return nil
		}
		k := 0
		for _, f := range fd.Type.Params.List {
			for _, nm := range f.Names {
				if k == idx {
					if nm.Name == name && xpExprStr(f.Type) == typ {
						return p.info.Defs[nm]
					}
					return nil
				}
				k++
			}
		}
		return nil
	}
	if fd := p.method("StdScheduler", "Start"); fd != nil {
		for _, st := range fd.Body.List {
			as, ok := st.(*ast.AssignStmt)
			if !ok || as.Tok != token.DEFINE || len(as.Lhs) != 1 || len(as.Rhs) != 1 {
				continue
			}
			id, ok := as.Lhs[0].(*ast.Ident)
			if !ok || id.Name != "dispatch" {
				continue
			}
			if call, ok := as.Rhs[0].(*ast.CallExpr); ok && callName(call) == "make" && len(call.Args) >= 1 {
				if ct, isChan := call.Args[0].(*ast.ChanType); isChan && ct.Dir == (ast.SEND|ast.RECV) {
					switch len(call.Args) {
					case 1:
						pf.DispatchCap = 0
					case 2:
						if v, ok := p.intOf(call.Args[1]); ok {
							pf.DispatchCap = v
						}
					}
					chanObj = p.info.Defs[id]
					fx.Where["pool.dispatch"] = p.pos(as)
				}
			}
		}
	}
	// every other thing called dispatch that is written: assignments, struct fields, literal keys, selectors
	pf.DispatchWrites = -1 // the := in Start is expected once
	for _, f := range p.files {
		ast.Inspect(f, func(n ast.Node) bool {
			switch x := n.(type) {
			case *ast.AssignStmt:
				for _, l := range x.Lhs {
					if id, ok := l.(*ast.Ident); ok && id.Name == "dispatch" {
						pf.DispatchWrites++
					}
				}
			case *ast.SelectorExpr:
				if x.Sel.Name == "dispatch" {
					pf.DispatchWrites += 100
				}
			case *ast.KeyValueExpr:
				if id, ok := x.Key.(*ast.Ident); ok && id.Name == "dispatch" {
					pf.DispatchWrites += 100
				}
			case *ast.StructType:
				for _, fl := range x.Fields.List {
					for _, nm := range fl.Names {
						if nm.Name == "dispatch" {
							pf.DispatchWrites += 100
						}
					}
				}
			}
			return true
		})
	}
	// the wiring of that one value
	{
		ok := chanObj != nil
		calls := map[string]int{}
		argOK := map[string]bool{}
		for _, f := range p.files {
			for _, d := range f.Decls {
				fd, isFn := d.(*ast.FuncDecl)
				if !isFn || fd.Body == nil {
					continue
				}
				ast.Inspect(fd.Body, func(n ast.Node) bool {
					c, isCall := n.(*ast.CallExpr)
					if !isCall {
						return true
					}
					name := callName(c)
					switch name {
					case "startExecutionLoop", "startWorkers", "executeAndReschedule":
						calls[name]++
						if len(c.Args) == 2 {
							want := chanObj
							if name == "executeAndReschedule" {
								want = paramObj(p.method("StdScheduler", "startExecutionLoop"), 1, "dispatch", "chan<- ScheduledJob")
							}
							caller := "Start"
							if name == "executeAndReschedule" {
								caller = "startExecutionLoop"
							}
							argOK[name] = want != nil && objOf(c.Args[1]) == want && fd.Name.Name == caller
						}
					}
					return true
				})
			}
		}
		for _, name := range []string{"startExecutionLoop", "startWorkers", "executeAndReschedule"} {
			if calls[name] != 1 || !argOK[name] {
				ok = false
			}
		}
		// the send site uses executeAndReschedule's parameter, the receive site startWorkers' parameter
		sendP := paramObj(p.method("StdScheduler", "executeAndReschedule"), 1, "dispatch", "chan<- ScheduledJob")
		recvP := paramObj(p.method("StdScheduler", "startWorkers"), 1, "dispatch", "<-chan ScheduledJob")
		sends, recvs := 0, 0
		for _, f := range p.files {
			for _, d := range f.Decls {
				fd, isFn := d.(*ast.FuncDecl)
				if !isFn || fd.Body == nil {
					continue
				}
				ast.Inspect(fd.Body, func(n ast.Node) bool {
					switch x := n.(type) {
					case *ast.SendStmt:
						if id, isID := x.Chan.(*ast.Ident); isID && id.Name == "dispatch" {
							sends++
							if sendP == nil || objOf(x.Chan) != sendP || fd.Name.Name != "executeAndReschedule" {
								ok = false
							}
						}
					case *ast.UnaryExpr:
						if id, isID := x.X.(*ast.Ident); isID && x.Op == token.ARROW && id.Name == "dispatch" {
							recvs++
							if recvP == nil || objOf(x.X) != recvP || fd.Name.Name != "startWorkers" {
								ok = false
							}
						}
					}
					return true
				})
			}
		}
		pf.DispatchPerRun = ok && sends == 1 && recvs == 1 && pf.DispatchWrites == 0
	}
	if pf.DispatchCap < 0 {
		fx.miss("pool.dispatchMake")
	}
	if pf.DispatchWrites != 0 {
		fx.miss("pool.dispatchReassigned")
	}
	if !pf.DispatchPerRun {
		fx.miss("pool.dispatchPerRun")
	}

	// 2. the dispatch switch
	if fd := p.method("StdScheduler", "executeAndReschedule"); fd != nil {
		var sw *ast.SwitchStmt
		n := 0
		ast.Inspect(fd.Body, func(x ast.Node) bool {
			if s, ok := x.(*ast.SwitchStmt); ok && s.Tag == nil && s.Init == nil {
				if sw == nil {
					sw = s
				}
				n++
			}
			return true
		})
		if sw != nil && n == 1 {
			fx.Where["pool.switch"] = p.pos(sw)
			for _, c := range sw.Body.List {
				cc := c.(*ast.CaseClause)
				cond, gcode := "default", 2
				if cc.List != nil {
					gcode = 9
					if len(cc.List) == 1 {
						cond = xpExprStr(cc.List[0])
						switch cond {
						case "sched.opts.BlockingExecution":
							gcode = 0
						case "sched.opts.WorkerLimit > 0":
							gcode = 1
						}
					} else {
						cond = "multiple expressions"
					}
				}
				acode, atext := xpClassifyArm(cc.Body)
				pf.SwitchText = append(pf.SwitchText, []string{cond, atext})
				pf.SwitchCodes = append(pf.SwitchCodes, [2]int{gcode, acode})
			}
		}
	}
	if len(pf.SwitchCodes) == 0 {
		fx.miss("pool.switch")
	}

	// 3. startWorkers
	if fd := p.method("StdScheduler", "startWorkers"); fd != nil && len(fd.Body.List) == 1 {
		if ifs, ok := fd.Body.List[0].(*ast.IfStmt); ok && ifs.Else == nil && ifs.Init == nil {
			fx.Where["pool.startWorkers"] = p.pos(ifs)
			var conj func(e ast.Expr)
			conj = func(e ast.Expr) {
				if pe, ok := e.(*ast.ParenExpr); ok {
					conj(pe.X)
					return
				}
				if be, ok := e.(*ast.BinaryExpr); ok && be.Op == token.LAND {
					conj(be.X)
					conj(be.Y)
					return
				}
				s := xpExprStr(e)
				pf.WorkersGuard = append(pf.WorkersGuard, s)
				switch s {
				case "!sched.opts.BlockingExecution":
					pf.GuardCodes = append(pf.GuardCodes, 0)
				case "sched.opts.WorkerLimit > 0":
					pf.GuardCodes = append(pf.GuardCodes, 1)
				default:
					pf.GuardCodes = append(pf.GuardCodes, 9)
				}
			}
			conj(ifs.Cond)
			// the for loop: exactly one in the if body
			var loops []*ast.ForStmt
			for _, st := range ifs.Body.List {
				if fs, ok := st.(*ast.ForStmt); ok {
					loops = append(loops, fs)
				}
			}
			if len(loops) == 1 {
				fs := loops[0]
				ini, cond, post := "", "", ""
				if as, ok := fs.Init.(*ast.AssignStmt); ok && len(as.Lhs) == 1 && len(as.Rhs) == 1 {
					ini = xpExprStr(as.Lhs[0]) + " " + as.Tok.String() + " " + xpExprStr(as.Rhs[0])
				}
				if fs.Cond != nil {
					cond = xpExprStr(fs.Cond)
				}
				if inc, ok := fs.Post.(*ast.IncDecStmt); ok {
					post = xpExprStr(inc.X) + inc.Tok.String()
				}
				pf.WorkerLoop = ini + "; " + cond + "; " + post
				// body: sched.wg.Add(1); go func() { … }()  — one goroutine per iteration, i not modified
				var gos []*ast.GoStmt
				for _, st := range fs.Body.List {
					if g, ok := st.(*ast.GoStmt); ok {
						gos = append(gos, g)
					}
				}
				nested := 0
				ast.Inspect(fs.Body, func(x ast.Node) bool {
					if _, ok := x.(*ast.GoStmt); ok {
						nested++
					}
					return true
				})
				pf.WorkerLoopOK = pf.WorkerLoop == "i := 0; i < sched.opts.WorkerLimit; i++" && len(gos) == 1 && nested == 1 &&
					len(fs.Body.List) == 2
				if len(gos) == 1 {
					if fl, ok := gos[0].Call.Fun.(*ast.FuncLit); ok {
						pf.WorkerBody, pf.WorkerBodyOK = xpWorkerBody(fl)
					}
				}
			}
		}
	}
	if len(pf.GuardCodes) == 0 {
		fx.miss("pool.startWorkersGuard")
	}
	if !pf.WorkerLoopOK {
		fx.miss("pool.workerLoop")
	}
	if !pf.WorkerBodyOK {
		fx.miss("pool.workerBody")
	}
}

// xpWorkerBody recognises   defer wg.Done(); for { select { case <-ctx.Done(): return; case x := <-dispatch: sched.executeWithRetries(…) } }
func xpWorkerBody(fl *ast.FuncLit) ([]string, bool) {
	var forS *ast.ForStmt
	for _, st := range fl.Body.List {
		switch s := st.(type) {
		case *ast.DeferStmt:
		case *ast.ForStmt:
			if forS != nil {
				return nil, false
			}
			forS = s
		default:
			return nil, false
		}
	}
	if forS == nil || forS.Cond != nil || forS.Init != nil || forS.Post != nil || len(forS.Body.List) != 1 {
		return nil, false
	}
	sel, ok := forS.Body.List[0].(*ast.SelectStmt)
	if !ok {
		return nil, false
	}
	var out []string
	okDone, okRecv := false, false
	for _, c := range sel.Body.List {
		cl := c.(*ast.CommClause)
		switch cm := cl.Comm.(type) {
		case *ast.ExprStmt:
			s := xpExprStr(cm.X)
			_, isRet := xpFirstStmt(cl.Body).(*ast.ReturnStmt)
			if s == "<-ctx.Done()" && isRet && len(cl.Body) == 1 {
				okDone = true
				out = append(out, s+": return")
			} else {
				out = append(out, s+": ?")
			}
		case *ast.AssignStmt:
			s := ""
			if len(cm.Rhs) == 1 {
				s = xpExprStr(cm.Rhs[0])
			}
			body := &ast.BlockStmt{List: cl.Body}
			if s == "<-dispatch" && len(cl.Body) == 1 && xpContainsCall(body, "executeWithRetries") &&
				!xpContainsNode(body, func(x ast.Node) bool { _, ok := x.(*ast.GoStmt); return ok }) {
				okRecv = true
				out = append(out, s+": sched.executeWithRetries(…)")
			} else {
				out = append(out, s+": ?")
			}
		default:
			out = append(out, "?")
		}
	}
	return out, okDone && okRecv && len(out) == 2
}

func xpFirstStmt(l []ast.Stmt) ast.Stmt {
	if len(l) == 0 {
		return nil
	}
	return l[0]
}

func renderPool(fx *Facts) string {
	pf, _ := fx.Extra["pool"].(*poolFacts)
	if pf == nil {
		pf = &poolFacts{DispatchCap: -1}
	}
	var b strings.Builder
	b.WriteString("namespace Generated.Pool\n\n")
	capv := pf.DispatchCap
	if capv < 0 || pf.DispatchWrites != 0 {
		capv = 1 << 20 // not found / reassigned somewhere: a value no theorem accepts
	}
	fmt.Fprintf(&b, "/-- capacity of the hand-off channel (`dispatch := make(chan ScheduledJob)` in Start, %s; other writes of anything called dispatch: %d) -/\ndef dispatchCap : Nat := %d\n\n",
		fx.Where["pool.dispatch"], pf.DispatchWrites, capv)
	fmt.Fprintf(&b, "/-- one channel per run: the value made in `Start` is the second argument of `go sched.startExecutionLoop(ctx, dispatch)` and of\n    `sched.startWorkers(ctx, dispatch)`, the loop passes its parameter on to `executeAndReschedule`, whose hand-off sends on its parameter;\n    the workers receive from the parameter of `startWorkers`; there is no other send / receive / field / assignment called dispatch -/\ndef dispatchPerRun : Bool := %v\n\n", pf.DispatchPerRun)
	var cs, doc []string
	for i, c := range pf.SwitchCodes {
		cs = append(cs, fmt.Sprintf("(%d, %d)", c[0], c[1]))
		doc = append(doc, fmt.Sprintf("  case %s: %s", pf.SwitchText[i][0], pf.SwitchText[i][1]))
	}
	fmt.Fprintf(&b, "/-- the dispatch switch of `executeAndReschedule` (%s) in source order, (guard code, arm code):\n%s -/\ndef switchCases : List (Nat × Nat) := [%s]\n\n",
		fx.Where["pool.switch"], strings.Join(doc, "\n"), strings.Join(cs, ", "))
	var gs []string
	for _, g := range pf.GuardCodes {
		gs = append(gs, fmt.Sprint(g))
	}
	fmt.Fprintf(&b, "/-- conjuncts of the guard of `startWorkers` (%s): %s -/\ndef workersGuard : List Nat := [%s]\n\n",
		fx.Where["pool.startWorkers"], strings.Join(pf.WorkersGuard, " && "), strings.Join(gs, ", "))
	fmt.Fprintf(&b, "/-- worker loop is `for %s` with exactly one `go` per iteration -/\ndef workerLoopStd : Bool := %v\n\n", pf.WorkerLoop, pf.WorkerLoopOK)
	fmt.Fprintf(&b, "/-- a worker is `for { select { %s } }`: one job at a time -/\ndef workerBodyStd : Bool := %v\n", strings.Join(pf.WorkerBody, " | "), pf.WorkerBodyOK)
	b.WriteString("\nend Generated.Pool\n")
	return b.String()
}
