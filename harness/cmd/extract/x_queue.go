package main

import (
	"fmt"
	"go/ast"
	"go/token"
	"path/filepath"
	"sort"
	"strings"
)

// Facts about the default queue and the matchers (C11): the comparison in Less, key equality, which
// container/heap function each queue method uses, the all-matchers filter, and the bindings of the
// four string operators and of the status predicate.

func init() { register(extractQueue, renderQueue) }

type queueFacts struct {
	Less       string            `json:"less"`
	KeyEquals  string            `json:"keyEquals"`
	HeapCalls  map[string]string `json:"heapCalls"` // jobQueue method -> heap.* calls in source order
	Operators  map[string]string `json:"operators"` // matcher.StringX -> bound function
	StrEqual   string            `json:"stringsEqual"`
	Status     string            `json:"statusIsMatch"`
	NameMatch  string            `json:"nameIsMatch"`
	GroupMatch string            `json:"groupIsMatch"`
	Filter     string            `json:"filter"` // the inner loop of ScheduledJobs
	// thread safety of the default queue: every exported method starts with `jq.mtx.Lock(); defer jq.mtx.Unlock()` and mentions the
	// mutex nowhere else; the heap array is touched by those methods and by helpers that only they call
	LockShape      map[string]string `json:"lockShape"`
	DelegateUsers  []string          `json:"delegateUsers"`
	HelperCallers  map[string]string `json:"helperCallers"` // unexported jobQueue method -> its callers in package quartz
	QueueMethodSet []string          `json:"queueMethodSet"` // every method declared on jobQueue
}

// lockShape says "locked" when the body is `recv.mtx.Lock(); defer recv.mtx.Unlock(); …` with no other mention of the mutex.
func lockShape(p *pkgInfo, fd *ast.FuncDecl) string {
	if fd == nil || fd.Body == nil || fd.Recv == nil || len(fd.Recv.List) == 0 || len(fd.Recv.List[0].Names) == 0 {
		return "?"
	}
	recv := fd.Recv.List[0].Names[0].Name
	if len(fd.Body.List) < 2 {
		return "too-short"
	}
	es, ok := fd.Body.List[0].(*ast.ExprStmt)
	if !ok || p.src(es.X) != recv+".mtx.Lock()" {
		return "first:" + p.src(fd.Body.List[0])
	}
	ds, ok := fd.Body.List[1].(*ast.DeferStmt)
	if !ok || p.src(ds.Call) != recv+".mtx.Unlock()" {
		return "second:" + p.src(fd.Body.List[1])
	}
	n := 0
	ast.Inspect(fd.Body, func(x ast.Node) bool {
		if s, ok := x.(*ast.SelectorExpr); ok && s.Sel.Name == "mtx" {
			n++
		}
		return true
	})
	if n != 2 {
		return fmt.Sprintf("mutex-mentioned-%d-times", n)
	}
	// a `go` statement or a function literal would let the array escape the critical section
	esc := ""
	ast.Inspect(fd.Body, func(x ast.Node) bool {
		switch x.(type) {
		case *ast.GoStmt:
			esc = "go-statement"
		case *ast.FuncLit:
			esc = "function-literal"
		}
		return true
	})
	if esc != "" {
		return esc
	}
	return "locked"
}

func singleReturn(p *pkgInfo, fd *ast.FuncDecl) string {
	if fd == nil || fd.Body == nil {
		return "?"
	}
	for _, st := range fd.Body.List {
		if r, ok := st.(*ast.ReturnStmt); ok && len(r.Results) == 1 {
			return p.src(r.Results[0])
		}
	}
	return "?"
}

func extractQueue(repo string, fx *Facts) {
	q := load(filepath.Join(repo, "quartz"), "github.com/reugn/go-quartz/quartz")
	qf := queueFacts{HeapCalls: map[string]string{}, Operators: map[string]string{}}
	qf.Less = singleReturn(q, q.method("priorityQueue", "Less"))
	qf.KeyEquals = singleReturn(q, q.method("JobKey", "Equals"))
	for _, m := range []string{"Push", "Pop", "Head", "Get", "Remove", "Clear", "Size"} {
		fd := q.method("jobQueue", m)
		if fd == nil {
			fx.miss("queue.jobQueue." + m)
			continue
		}
		var calls []string
		ast.Inspect(fd.Body, func(n ast.Node) bool {
			if c, ok := n.(*ast.CallExpr); ok {
				if s, ok := c.Fun.(*ast.SelectorExpr); ok {
					if id, ok := s.X.(*ast.Ident); ok && id.Name == "heap" {
						calls = append(calls, "heap."+s.Sel.Name)
					}
				}
			}
			return true
		})
		qf.HeapCalls[m] = strings.Join(calls, ",")
	}
	if fd := q.method("jobQueue", "ScheduledJobs"); fd != nil {
		ast.Inspect(fd.Body, func(n ast.Node) bool {
			if rs, ok := n.(*ast.RangeStmt); ok && q.src(rs.X) == "matchers" {
				qf.Filter = q.src(rs.Body)
			}
			return true
		})
	}
	qf.LockShape = map[string]string{}
	qf.HelperCallers = map[string]string{}
	helpers := map[string]bool{}
	for _, f := range q.files {
		for _, d := range f.Decls {
			fd, ok := d.(*ast.FuncDecl)
			if !ok || fd.Body == nil {
				continue
			}
			onQueue := false
			if fd.Recv != nil && len(fd.Recv.List) == 1 {
				t := fd.Recv.List[0].Type
				if st, ok := t.(*ast.StarExpr); ok {
					t = st.X
				}
				if id, ok := t.(*ast.Ident); ok && id.Name == "jobQueue" {
					onQueue = true
				}
			}
			if onQueue {
				qf.QueueMethodSet = append(qf.QueueMethodSet, fd.Name.Name)
				if fd.Name.IsExported() {
					qf.LockShape[fd.Name.Name] = lockShape(q, fd)
				} else {
					helpers[fd.Name.Name] = true
				}
			}
			uses := false
			ast.Inspect(fd.Body, func(n ast.Node) bool {
				if s, ok := n.(*ast.SelectorExpr); ok && s.Sel.Name == "delegate" {
					uses = true
				}
				return true
			})
			if uses {
				name := fd.Name.Name
				if !onQueue {
					name = "!" + name // the heap array is touched outside the queue's own methods
				}
				qf.DelegateUsers = append(qf.DelegateUsers, name)
			}
		}
	}
	sort.Strings(qf.DelegateUsers)
	sort.Strings(qf.QueueMethodSet)
	for h := range helpers {
		var callers []string
		for _, f := range q.files {
			for _, d := range f.Decls {
				fd, ok := d.(*ast.FuncDecl)
				if !ok || fd.Body == nil {
					continue
				}
				called := false
				ast.Inspect(fd.Body, func(n ast.Node) bool {
					if s, ok := n.(*ast.SelectorExpr); ok && s.Sel.Name == h {
						called = true
					}
					return true
				})
				if called {
					callers = append(callers, fd.Name.Name)
				}
			}
		}
		sort.Strings(callers)
		qf.HelperCallers[h] = strings.Join(callers, ",")
	}
	m := load(filepath.Join(repo, "matcher"), "github.com/reugn/go-quartz/matcher")
	for _, f := range m.files {
		for _, d := range f.Decls {
			gd, ok := d.(*ast.GenDecl)
			if !ok || gd.Tok != token.VAR {
				continue
			}
			for _, s := range gd.Specs {
				vs := s.(*ast.ValueSpec)
				for i, nm := range vs.Names {
					if strings.HasPrefix(nm.Name, "String") && i < len(vs.Values) {
						qf.Operators[nm.Name] = m.src(vs.Values[i])
					}
				}
			}
		}
	}
	qf.StrEqual = singleReturn(m, m.funcDecl("stringsEqual"))
	qf.Status = singleReturn(m, m.method("JobStatus", "IsMatch"))
	qf.NameMatch = singleReturn(m, m.method("JobName", "IsMatch"))
	qf.GroupMatch = singleReturn(m, m.method("JobGroup", "IsMatch"))
	fx.Extra["queue"] = qf
}

func renderQueue(fx *Facts) string {
	qf, _ := fx.Extra["queue"].(queueFacts)
	pairs := func(m map[string]string) string {
		var ks []string
		for k := range m {
			ks = append(ks, k)
		}
		sort.Strings(ks)
		var rows []string
		for _, k := range ks {
			rows = append(rows, fmt.Sprintf("(%s, %s)", leanStr(k), leanStr(m[k])))
		}
		return "[" + strings.Join(rows, ", ") + "]"
	}
	return "namespace Generated.Queue\n" +
		"def less : String := " + leanStr(qf.Less) + "\n" +
		"def keyEquals : String := " + leanStr(qf.KeyEquals) + "\n" +
		"/-- jobQueue method ↦ container/heap functions it calls, in source order -/\ndef heapCalls : List (String × String) := " + pairs(qf.HeapCalls) + "\n" +
		"def operators : List (String × String) := " + pairs(qf.Operators) + "\n" +
		"def stringsEqual : String := " + leanStr(qf.StrEqual) + "\n" +
		"def statusIsMatch : String := " + leanStr(qf.Status) + "\n" +
		"def nameIsMatch : String := " + leanStr(qf.NameMatch) + "\n" +
		"def groupIsMatch : String := " + leanStr(qf.GroupMatch) + "\n" +
		"def filterBody : String := " + leanStr(qf.Filter) + "\n" +
		"/-- exported jobQueue method ↦ \"locked\" iff its body is `jq.mtx.Lock(); defer jq.mtx.Unlock(); …` and mentions the mutex nowhere else -/\ndef lockShape : List (String × String) := " + pairs(qf.LockShape) + "\n" +
		"/-- functions of package quartz that touch the heap array (`!` = not a method of jobQueue) -/\ndef delegateUsers : List String := " + leanStrList(qf.DelegateUsers) + "\n" +
		"/-- unexported jobQueue method ↦ the functions that call it -/\ndef helperCallers : List (String × String) := " + pairs(qf.HelperCallers) + "\n" +
		"def queueMethodSet : List String := " + leanStrList(qf.QueueMethodSet) + "\n" +
		"end Generated.Queue\n"
}
