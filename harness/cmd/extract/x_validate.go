package main

import (
	"bytes"
	"fmt"
	"go/ast"
	"go/printer"
	"path/filepath"
	"strings"
)

// Facts about validateJob / fetchAndReschedule (C03, C04, C08): the classification conditions with
// their comparison operators and operands, which argument each branch hands to the trigger, the
// non-blocking misfire offer, and the order pop -> classify -> next -> push of the dispatch step.
// Conditions are recorded as normalised source text: a harmless rename changes the text and breaks
// the `decide` (reported as a broken tie), a changed operator does too (and is then searched for).

func init() { register(extractValidate, renderValidate) }

func (p *pkgInfo) src(n ast.Node) string {
	var b bytes.Buffer
	_ = printer.Fprint(&b, p.fset, n)
	return strings.Join(strings.Fields(b.String()), " ")
}

type validateFacts struct {
	Branches [][2]string `json:"branches"` // (condition, what the returned extractor computes)
	Valid    []string    `json:"valid"`    // returned bools in branch order
	Misfire  string      `json:"misfire"`  // the select statement of the misfire offer
	Step     []string    `json:"step"`     // order of queue/trigger/validate calls in fetchAndReschedule
}

func retExtractor(p *pkgInfo, rs *ast.ReturnStmt) (string, string) {
	if len(rs.Results) != 2 {
		return "?", "?"
	}
	valid := p.src(rs.Results[0])
	fl, ok := rs.Results[1].(*ast.FuncLit)
	if !ok || len(fl.Body.List) != 1 {
		return valid, "?"
	}
	r, ok := fl.Body.List[0].(*ast.ReturnStmt)
	if !ok {
		return valid, "?"
	}
	var parts []string
	for _, e := range r.Results {
		parts = append(parts, p.src(e))
	}
	return valid, strings.Join(parts, ", ")
}

func extractValidate(repo string, fx *Facts) {
	p := load(filepath.Join(repo, "quartz"), "github.com/reugn/go-quartz/quartz")
	vf := validateFacts{}
	fd := p.method("StdScheduler", "validateJob")
	if fd == nil {
		fx.miss("validate.validateJob")
	} else {
		var walkIf func(is *ast.IfStmt)
		walkIf = func(is *ast.IfStmt) {
			cond := p.src(is.Cond)
			for _, st := range is.Body.List {
				switch s := st.(type) {
				case *ast.ReturnStmt:
					v, ex := retExtractor(p, s)
					vf.Branches = append(vf.Branches, [2]string{cond, ex})
					vf.Valid = append(vf.Valid, v)
				case *ast.SelectStmt:
					vf.Misfire = p.src(s)
				}
			}
			if e, ok := is.Else.(*ast.IfStmt); ok {
				walkIf(e)
			}
		}
		for _, st := range fd.Body.List {
			switch s := st.(type) {
			case *ast.IfStmt:
				walkIf(s)
			case *ast.ReturnStmt:
				v, ex := retExtractor(p, s)
				vf.Branches = append(vf.Branches, [2]string{"otherwise", ex})
				vf.Valid = append(vf.Valid, v)
			case *ast.AssignStmt:
				vf.Branches = append(vf.Branches, [2]string{"let", p.src(s)})
				vf.Valid = append(vf.Valid, "-")
			}
		}
	}
	if fd := p.method("StdScheduler", "fetchAndReschedule"); fd == nil {
		fx.miss("validate.fetchAndReschedule")
	} else {
		ast.Inspect(fd.Body, func(n ast.Node) bool {
			if call, ok := n.(*ast.CallExpr); ok {
				switch s := p.src(call.Fun); s {
				case "sched.queueLocker.Lock", "sched.queueLocker.Unlock", "sched.queue.Pop", "sched.queue.Push", "sched.validateJob", "nextRunTimeExtractor", "sched.Reset":
					vf.Step = append(vf.Step, s)
				}
			}
			return true
		})
	}
	fx.Extra["validate"] = vf
}

func renderValidate(fx *Facts) string {
	vf, _ := fx.Extra["validate"].(validateFacts)
	var rows []string
	for i, b := range vf.Branches {
		rows = append(rows, fmt.Sprintf("(%s, %s, %s)", leanStr(b[0]), leanStr(vf.Valid[i]), leanStr(b[1])))
	}
	return "namespace Generated.Validate\n/-- validateJob, branch by branch: (condition, returned validity, what the next-run-time extractor returns) -/\n" +
		"def branches : List (String × String × String) := [" + strings.Join(rows, ",\n  ") + "]\n" +
		"def misfireOffer : String := " + leanStr(vf.Misfire) + "\n" +
		"/-- calls of fetchAndReschedule in source order -/\ndef stepOrder : List String := " + leanStrList(vf.Step) + "\nend Generated.Validate\n"
}
