package main

import (
	"fmt"
	"go/ast"
	"path/filepath"
	"strings"
)

// Facts about WHEN the scheduler reads the clock it computes a fire time from (C08 "a fire time computed from the moment
// of resumption", C09 "atomic operations"): in ResumeJob and ScheduleJob
//   - `sched.queueLocker.Lock()` is a top-level statement of the body, immediately followed by `defer sched.queueLocker.Unlock()`;
//   - every clock read of the body (a call of NowNano / time.Now) comes after that Lock() in the source, and there is one;
//   - every `….NextFireTime(arg)` call comes after the Lock(), and there is one;
//   - the argument of every NextFireTime call is either a clock read itself (`NowNano()`) or a local variable that is assigned
//     exactly once in the body, from a clock read that comes after the Lock()
//
// so the time the fire time is computed from is a moment inside the critical section in which the call takes effect.
// For the loop: validateJob reads the clock, and its only call site is in fetchAndReschedule after the Lock().

func init() { register(extractClockOrder, renderClockOrder) }

type clockFact struct {
	Method       string `json:"method"`
	LockTopLevel bool   `json:"lockTopLevel"` // Lock() found as a top-level statement, followed by defer Unlock()
	ClockReads   int    `json:"clockReads"`
	ReadsAfter   bool   `json:"clockReadsAfterLock"`
	TriggerCalls int    `json:"triggerCalls"`
	CallsAfter   bool   `json:"triggerCallsAfterLock"`
	ArgsFromLock bool   `json:"triggerArgsReadUnderLock"`
	Where        string `json:"where"`
}

func coIsClockRead(e ast.Expr) bool {
	c, ok := e.(*ast.CallExpr)
	if !ok {
		return false
	}
	switch f := c.Fun.(type) {
	case *ast.Ident:
		return f.Name == "NowNano"
	case *ast.SelectorExpr:
		if id, ok := f.X.(*ast.Ident); ok && id.Name == "time" && f.Sel.Name == "Now" {
			return true
		}
		// time.Now().UnixNano() and the like
		return coIsClockRead(f.X)
	}
	return false
}

func coLockPos(fd *ast.FuncDecl) (int, bool) {
	for i, st := range fd.Body.List {
		es, ok := st.(*ast.ExprStmt)
		if !ok {
			continue
		}
		call, ok := es.X.(*ast.CallExpr)
		if !ok {
			continue
		}
		sel, ok := call.Fun.(*ast.SelectorExpr)
		if ok && sel.Sel.Name == "Lock" && isSel(sel.X, "sched", "queueLocker") {
			deferOK := false
			if i+1 < len(fd.Body.List) {
				if ds, ok := fd.Body.List[i+1].(*ast.DeferStmt); ok {
					if s2, ok := ds.Call.Fun.(*ast.SelectorExpr); ok && s2.Sel.Name == "Unlock" && isSel(s2.X, "sched", "queueLocker") {
						deferOK = true
					}
				}
			}
			return int(call.End()), deferOK
		}
	}
	return -1, false
}

func extractClockOrder(repo string, fx *Facts) {
	p := load(filepath.Join(repo, "quartz"), "github.com/reugn/go-quartz/quartz")
	var facts []clockFact
	for _, name := range []string{"ScheduleJob", "ResumeJob"} {
		fd := p.method("StdScheduler", name)
		if fd == nil || fd.Body == nil {
			fx.miss("clockorder." + name)
			continue
		}
		lockEnd, deferOK := coLockPos(fd)
		f := clockFact{Method: name, LockTopLevel: lockEnd >= 0 && deferOK, ReadsAfter: true, CallsAfter: true, ArgsFromLock: true, Where: p.pos(fd)}
		// assignments of local variables: name -> the right-hand sides assigned to it (with their positions)
		type asg struct {
			rhs ast.Expr
			pos int
		}
		assigned := map[string][]asg{}
		ast.Inspect(fd.Body, func(n ast.Node) bool {
			switch s := n.(type) {
			case *ast.AssignStmt:
				for i, l := range s.Lhs {
					id, ok := l.(*ast.Ident)
					if !ok {
						continue
					}
					var rhs ast.Expr
					if len(s.Rhs) == len(s.Lhs) {
						rhs = s.Rhs[i]
					} else if len(s.Rhs) == 1 {
						rhs = s.Rhs[0] // multi-value call: not a plain clock read
						if coIsClockRead(rhs) {
							rhs = nil
						}
					}
					assigned[id.Name] = append(assigned[id.Name], asg{rhs, int(s.Pos())})
				}
			case *ast.ValueSpec:
				for i, id := range s.Names {
					var rhs ast.Expr
					if i < len(s.Values) {
						rhs = s.Values[i]
					}
					assigned[id.Name] = append(assigned[id.Name], asg{rhs, int(s.Pos())})
				}
			case *ast.IncDecStmt:
				if id, ok := s.X.(*ast.Ident); ok {
					assigned[id.Name] = append(assigned[id.Name], asg{nil, int(s.Pos())})
				}
			}
			return true
		})
		ast.Inspect(fd.Body, func(n ast.Node) bool {
			c, ok := n.(*ast.CallExpr)
			if !ok {
				return true
			}
			if coIsClockRead(c) {
				// count the outermost expression of a chain like time.Now().UnixNano() once
				if sel, ok := c.Fun.(*ast.SelectorExpr); ok && coIsClockRead(sel.X) {
					return true
				}
				f.ClockReads++
				if lockEnd < 0 || int(c.Pos()) < lockEnd {
					f.ReadsAfter = false
				}
			}
			if sel, ok := c.Fun.(*ast.SelectorExpr); ok && sel.Sel.Name == "NextFireTime" {
				f.TriggerCalls++
				if lockEnd < 0 || int(c.Pos()) < lockEnd {
					f.CallsAfter = false
				}
				okArg := false
				if len(c.Args) == 1 {
					switch a := c.Args[0].(type) {
					case *ast.CallExpr:
						okArg = coIsClockRead(a) && lockEnd >= 0 && int(a.Pos()) > lockEnd
					case *ast.Ident:
						as := assigned[a.Name]
						okArg = len(as) == 1 && as[0].rhs != nil && coIsClockRead(as[0].rhs) && lockEnd >= 0 && as[0].pos > lockEnd && as[0].pos < int(c.Pos())
					}
				}
				if !okArg {
					f.ArgsFromLock = false
				}
			}
			return true
		})
		facts = append(facts, f)
	}
	fx.Extra["clockorder"] = facts

	// the loop: validateJob reads the clock; it is called only from fetchAndReschedule, after the Lock()
	validateUnderLock := false
	if fr := p.method("StdScheduler", "fetchAndReschedule"); fr != nil && fr.Body != nil {
		lockEnd, deferOK := coLockPos(fr)
		sites, good := 0, 0
		for _, file := range p.files {
			for _, d := range file.Decls {
				fd, ok := d.(*ast.FuncDecl)
				if !ok || fd.Body == nil {
					continue
				}
				ast.Inspect(fd.Body, func(n ast.Node) bool {
					c, ok := n.(*ast.CallExpr)
					if !ok {
						return true
					}
					if sel, ok := c.Fun.(*ast.SelectorExpr); ok && sel.Sel.Name == "validateJob" {
						sites++
						if fd == fr && deferOK && lockEnd >= 0 && int(c.Pos()) > lockEnd {
							good++
						}
					}
					return true
				})
			}
		}
		validateUnderLock = sites == 1 && good == 1
		// and validateJob takes the time it classifies with from a clock read of its own (not from a parameter or a field)
		if vj := p.method("StdScheduler", "validateJob"); vj != nil && vj.Body != nil {
			reads := 0
			ast.Inspect(vj.Body, func(n ast.Node) bool {
				if c, ok := n.(*ast.CallExpr); ok && coIsClockRead(c) {
					if sel, ok := c.Fun.(*ast.SelectorExpr); ok && coIsClockRead(sel.X) {
						return true
					}
					reads++
				}
				return true
			})
			fx.Extra["clockorderValidateReads"] = reads
			if reads == 0 {
				validateUnderLock = false
			}
		} else {
			fx.miss("clockorder.validateJob")
		}
	} else {
		fx.miss("clockorder.fetchAndReschedule")
	}
	fx.Extra["clockorderValidateUnderLock"] = validateUnderLock
}

func renderClockOrder(fx *Facts) string {
	facts, _ := fx.Extra["clockorder"].([]clockFact)
	var rows []string
	for _, f := range facts {
		rows = append(rows, fmt.Sprintf("(%q, %v, %d, %v, %d, %v, %v)", f.Method, f.LockTopLevel, f.ClockReads, f.ReadsAfter, f.TriggerCalls, f.CallsAfter, f.ArgsFromLock))
	}
	return "namespace Generated.ClockOrder\n" +
		"/-- (method of StdScheduler, `queueLocker.Lock(); defer queueLocker.Unlock()` are top-level statements, number of clock reads (NowNano / time.Now) in the body,\n" +
		"    all of them after the Lock(), number of NextFireTime calls, all of them after the Lock(), the argument of each is a clock read made after the Lock()) -/\n" +
		"def table : List (String × Bool × Nat × Bool × Nat × Bool × Bool) := [" + strings.Join(rows, ",\n  ") + "]\n" +
		fmt.Sprintf("/-- validateJob reads the clock itself and its only call site is in fetchAndReschedule after `queueLocker.Lock(); defer queueLocker.Unlock()` -/\ndef validateReadsUnderLock : Bool := %v\n", fx.Extra["clockorderValidateUnderLock"] == true) +
		"end Generated.ClockOrder\n"
}
