package main

import (
	"fmt"
	"go/ast"
	"path/filepath"
	"sort"
	"strings"
)

// Lock discipline of StdScheduler: for every method, the sequence of acquisitions and releases of the two locks
// (A = sched.queueLocker, B = sched.mtx, read or write) it performs, with calls of other StdScheduler methods expanded
// in place (source order; both arms of a branch are included, which over-approximates nesting; goroutines started with
// `go` and function literals are separate threads and are not expanded). `defer X.Unlock()` releases at the end of the
// method, in LIFO order. The Lean side checks every sequence against the lock-hierarchy grammar (A may enclose B-read
// blocks, nothing else nests) for which deadlock freedom is proved.

func init() { register(extractMtx, renderMtx) }

type mtxShape struct {
	Method string   `json:"method"`
	Ops    []string `json:"ops"`
}

func extractMtx(repo string, fx *Facts) {
	p := load(filepath.Join(repo, "quartz"), "github.com/reugn/go-quartz/quartz")
	methods := map[string]*ast.FuncDecl{}
	for _, f := range p.files {
		for _, d := range f.Decls {
			fd, ok := d.(*ast.FuncDecl)
			if !ok || fd.Recv == nil || fd.Body == nil || len(fd.Recv.List) != 1 {
				continue
			}
			t := fd.Recv.List[0].Type
			if st, ok := t.(*ast.StarExpr); ok {
				t = st.X
			}
			if id, ok := t.(*ast.Ident); ok && id.Name == "StdScheduler" {
				methods[fd.Name.Name] = fd
			}
		}
	}
	recvName := func(fd *ast.FuncDecl) string {
		if len(fd.Recv.List[0].Names) == 1 {
			return fd.Recv.List[0].Names[0].Name
		}
		return ""
	}
	lockTok := func(recv string, sel *ast.SelectorExpr) string {
		which := ""
		switch {
		case isSel(sel.X, recv, "queueLocker"):
			which = "A"
		case isSel(sel.X, recv, "mtx"):
			which = "B"
		default:
			return ""
		}
		switch sel.Sel.Name {
		case "Lock":
			if which == "A" {
				return "acqA"
			}
			return "acqBw"
		case "RLock":
			if which == "B" {
				return "acqBr"
			}
		case "Unlock":
			if which == "A" {
				return "relA"
			}
			return "relBw"
		case "RUnlock":
			if which == "B" {
				return "relBr"
			}
		}
		return "?" + which + "." + sel.Sel.Name
	}
	var expand func(name string, stack []string) []string
	expand = func(name string, stack []string) []string {
		fd := methods[name]
		for _, s := range stack {
			if s == name {
				return []string{"?recursion:" + name}
			}
		}
		recv := recvName(fd)
		var ops, deferred []string
		ast.Inspect(fd.Body, func(n ast.Node) bool {
			switch x := n.(type) {
			case *ast.GoStmt, *ast.FuncLit:
				return false // another thread / not run here
			case *ast.DeferStmt:
				if sel, ok := x.Call.Fun.(*ast.SelectorExpr); ok {
					if tok := lockTok(recv, sel); tok != "" {
						deferred = append([]string{tok}, deferred...)
						return false
					}
				}
				if _, ok := x.Call.Fun.(*ast.FuncLit); ok {
					return false
				}
				return true
			case *ast.CallExpr:
				sel, ok := x.Fun.(*ast.SelectorExpr)
				if !ok {
					return true
				}
				if tok := lockTok(recv, sel); tok != "" {
					ops = append(ops, tok)
					return true
				}
				if id, ok := sel.X.(*ast.Ident); ok && id.Name == recv && recv != "" {
					if _, ok := methods[sel.Sel.Name]; ok {
						// arguments first (they are evaluated before the call)
						for _, a := range x.Args {
							ast.Inspect(a, func(ast.Node) bool { return true })
						}
						ops = append(ops, expand(sel.Sel.Name, append(stack, name))...)
					}
				}
			}
			return true
		})
		return append(ops, deferred...)
	}
	var names []string
	for n := range methods {
		names = append(names, n)
	}
	sort.Strings(names)
	var shapes []mtxShape
	for _, n := range names {
		ops := expand(n, nil)
		if len(ops) == 0 {
			continue
		}
		for _, o := range ops {
			if strings.HasPrefix(o, "?") {
				fx.miss("mtx.shape." + n)
			}
		}
		shapes = append(shapes, mtxShape{n, ops})
	}
	fx.Extra["mtx"] = shapes
	if len(shapes) == 0 {
		fx.miss("mtx.methods")
	}
	// the threads of the scheduler: what `go` statements start (method names), so that the Lean side knows which
	// method bodies run concurrently with the API
	var spawned []string
	for _, n := range names {
		ast.Inspect(methods[n].Body, func(x ast.Node) bool {
			if g, ok := x.(*ast.GoStmt); ok {
				if sel, ok := g.Call.Fun.(*ast.SelectorExpr); ok {
					spawned = append(spawned, n+">"+sel.Sel.Name)
				} else if _, ok := g.Call.Fun.(*ast.FuncLit); ok {
					spawned = append(spawned, n+">func")
				}
			}
			return true
		})
	}
	fx.Extra["mtxSpawned"] = spawned
}

func renderMtx(fx *Facts) string {
	shapes, _ := fx.Extra["mtx"].([]mtxShape)
	var rows []string
	for _, s := range shapes {
		rows = append(rows, fmt.Sprintf("(%q, %s)", s.Method, leanStrList(s.Ops)))
	}
	spawned, _ := fx.Extra["mtxSpawned"].([]string)
	return "namespace Generated.Mtx\n/-- (method of StdScheduler, the lock operations it performs in order with calls of other methods expanded: acqA/relA = queueLocker, acqBr/relBr/acqBw/relBw = mtx read/write) -/\n" +
		"def shapes : List (String × List String) := [" + strings.Join(rows, ",\n  ") + "]\n" +
		"/-- `go` statements: method > what it starts -/\ndef spawned : List String := " + leanStrList(spawned) + "\n" +
		"end Generated.Mtx\n"
}
