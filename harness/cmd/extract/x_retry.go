package main

// Facts for C13: the literal shape of (*StdScheduler).executeWithRetries in quartz/scheduler.go
// (deferred recover first, first attempt, labelled retry loop `for i := 1; i <= …MaxRetries; i++`
// with a timer/ctx.Done select, break on nil error) and the places that call it.

import (
	"fmt"
	"go/ast"
	"go/token"
	"go/types"
	"path/filepath"
	"sort"
	"strings"
)

func init() { register(extractRetry, renderRetry) }

type retryFacts struct {
	RecoverDeferredFirst bool     `json:"recoverDeferredFirst"`
	Prologue             []string `json:"prologue"`
	LoopInit             int64    `json:"loopInit"`
	LoopCond             string   `json:"loopCond"`
	LoopPost             string   `json:"loopPost"`
	LoopBody             []string `json:"loopBody"`
	SelectCases          []string `json:"selectCases"`
	LoopLabelled         bool     `json:"loopLabelled"`
	Epilogue             []string `json:"epilogue"`
	CallSites            []string `json:"callSites"`
	DirectExecute        int      `json:"directExecuteElsewhere"`
}

func rxNoSpace(s string) string { return strings.Join(strings.Fields(s), "") }

// rxIsLoggerCall: sched.logger.X(...)
func rxIsLoggerCall(e ast.Expr) bool {
	c, ok := e.(*ast.CallExpr)
	if !ok {
		return false
	}
	s, ok := c.Fun.(*ast.SelectorExpr)
	if !ok {
		return false
	}
	in, ok := s.X.(*ast.SelectorExpr)
	return ok && in.Sel.Name == "logger"
}

func rxLastSel(e ast.Expr) string {
	switch v := e.(type) {
	case *ast.SelectorExpr:
		return v.Sel.Name
	case *ast.Ident:
		return v.Name
	}
	return rxNoSpace(types.ExprString(e))
}

func rxContainsRecover(n ast.Node) bool {
	found := false
	ast.Inspect(n, func(x ast.Node) bool {
		if c, ok := x.(*ast.CallExpr); ok {
			if id, ok := c.Fun.(*ast.Ident); ok && id.Name == "recover" && len(c.Args) == 0 {
				found = true
			}
		}
		return true
	})
	return found
}

// retryCanon renders the statements of executeWithRetries in a small canonical vocabulary; logging is
// dropped (an `if` whose body only logs disappears), anything unknown is rendered as its Go type so that
// an unexpected statement changes the fact.
func retryCanon(list []ast.Stmt, loopLabel string) []string {
	var out []string
	for _, s := range list {
		switch v := s.(type) {
		case *ast.DeferStmt:
			if fl, ok := v.Call.Fun.(*ast.FuncLit); ok && rxContainsRecover(fl.Body) {
				out = append(out, "defer-recover")
			} else {
				out = append(out, "defer:"+rxNoSpace(types.ExprString(v.Call)))
			}
		case *ast.AssignStmt:
			var lhs []string
			for _, l := range v.Lhs {
				lhs = append(lhs, rxNoSpace(types.ExprString(l)))
			}
			rhs := "?"
			if len(v.Rhs) == 1 {
				rhs = rxNoSpace(types.ExprString(v.Rhs[0]))
				if c, ok := v.Rhs[0].(*ast.CallExpr); ok {
					switch callName(c) {
					case "Execute":
						if sel, ok := c.Fun.(*ast.SelectorExpr); ok && rxLastSel(sel.X) == "job" && len(c.Args) == 1 {
							rhs = "Execute"
						}
					case "NewTimer":
						if len(c.Args) == 1 {
							rhs = "NewTimer(" + rxLastSel(c.Args[0]) + ")"
						}
					}
				}
			}
			out = append(out, strings.Join(lhs, ",")+v.Tok.String()+rhs)
		case *ast.IfStmt:
			body := retryCanon(v.Body.List, loopLabel)
			if v.Init == nil && v.Else == nil && len(body) == 0 {
				continue // logging only
			}
			s := "if " + rxNoSpace(types.ExprString(v.Cond)) + " " + strings.Join(body, ";")
			if v.Init != nil {
				s = "if-init " + s
			}
			if v.Else != nil {
				s += " else …"
			}
			out = append(out, s)
		case *ast.ExprStmt:
			if rxIsLoggerCall(v.X) {
				continue
			}
			if c, ok := v.X.(*ast.CallExpr); ok && len(c.Args) == 0 {
				out = append(out, rxNoSpace(types.ExprString(c.Fun)))
			} else {
				out = append(out, rxNoSpace(types.ExprString(v.X)))
			}
		case *ast.ReturnStmt:
			if len(v.Results) == 0 {
				out = append(out, "return")
			} else {
				out = append(out, "return …")
			}
		case *ast.BranchStmt:
			s := v.Tok.String()
			if v.Label != nil {
				if v.Label.Name == loopLabel {
					s += " loop"
				} else {
					s += " " + v.Label.Name
				}
			}
			out = append(out, s)
		case *ast.SelectStmt:
			out = append(out, "select")
		case *ast.LabeledStmt, *ast.ForStmt:
			out = append(out, "loop")
		default:
			out = append(out, fmt.Sprintf("?%T", s))
		}
	}
	return out
}

func extractRetry(repo string, fx *Facts) {
	p := load(filepath.Join(repo, "quartz"), "github.com/reugn/go-quartz/quartz")
	rf := &retryFacts{Prologue: []string{}, LoopBody: []string{}, SelectCases: []string{}, Epilogue: []string{}, CallSites: []string{}}
	fx.Extra["retry"] = rf
	fd := p.method("StdScheduler", "executeWithRetries")
	if fd == nil || fd.Body == nil {
		fx.miss("retry.executeWithRetries")
		return
	}
	fx.Where["retry.executeWithRetries"] = p.pos(fd)
	stmts := fd.Body.List
	// the loop (labelled or not)
	loopAt, label := -1, ""
	var loop *ast.ForStmt
	for i, s := range stmts {
		if ls, ok := s.(*ast.LabeledStmt); ok {
			if f, ok := ls.Stmt.(*ast.ForStmt); ok {
				loopAt, loop, label = i, f, ls.Label.Name
				break
			}
		}
		if f, ok := s.(*ast.ForStmt); ok {
			loopAt, loop = i, f
			break
		}
	}
	// 1. `defer func() { … recover() … }()` is the first statement
	if len(stmts) > 0 {
		if c := retryCanon(stmts[:1], label); len(c) == 1 && c[0] == "defer-recover" {
			rf.RecoverDeferredFirst = true
			fx.Where["retry.recover"] = p.pos(stmts[0])
		}
	}
	if !rf.RecoverDeferredFirst {
		fx.miss("retry.deferRecoverFirst")
	}
	if loop == nil {
		fx.miss("retry.loop")
		return
	}
	fx.Where["retry.loop"] = p.pos(loop)
	rf.LoopLabelled = label != ""
	rf.Prologue = retryCanon(stmts[1:loopAt], label)
	rf.Epilogue = retryCanon(stmts[loopAt+1:], label)
	// 2. loop header `for i := 1; i <= …MaxRetries; i++`
	loopVar := ""
	if as, ok := loop.Init.(*ast.AssignStmt); ok && as.Tok == token.DEFINE && len(as.Lhs) == 1 && len(as.Rhs) == 1 {
		if id, ok := as.Lhs[0].(*ast.Ident); ok {
			if v, ok := p.intOf(as.Rhs[0]); ok {
				loopVar, rf.LoopInit = id.Name, v
			}
		}
	}
	if loopVar == "" {
		fx.miss("retry.loopInit")
		rf.LoopInit = -999
	}
	rf.LoopCond = "?"
	if be, ok := loop.Cond.(*ast.BinaryExpr); ok {
		if id, ok := be.X.(*ast.Ident); ok && id.Name == loopVar {
			rf.LoopCond = "i" + be.Op.String() + rxLastSel(be.Y)
		} else {
			rf.LoopCond = rxNoSpace(types.ExprString(loop.Cond))
		}
	} else {
		fx.miss("retry.loopCond")
	}
	rf.LoopPost = "?"
	if ids, ok := loop.Post.(*ast.IncDecStmt); ok {
		if id, ok := ids.X.(*ast.Ident); ok && id.Name == loopVar {
			rf.LoopPost = "i" + ids.Tok.String()
		}
	} else {
		fx.miss("retry.loopPost")
	}
	// 3. loop body and the select
	rf.LoopBody = retryCanon(loop.Body.List, label)
	nsel := 0
	for _, s := range loop.Body.List {
		sel, ok := s.(*ast.SelectStmt)
		if !ok {
			continue
		}
		nsel++
		for _, cc := range sel.Body.List {
			cl := cc.(*ast.CommClause)
			head := "default"
			if cl.Comm != nil {
				if es, ok := cl.Comm.(*ast.ExprStmt); ok {
					head = rxNoSpace(types.ExprString(es.X))
				} else {
					head = fmt.Sprintf("?%T", cl.Comm)
				}
			}
			rf.SelectCases = append(rf.SelectCases, head+":"+strings.Join(retryCanon(cl.Body, label), ";"))
		}
	}
	if nsel != 1 {
		fx.miss("retry.select")
	}
	// 4. who runs jobs: every call of executeWithRetries, and any direct call of a job's Execute elsewhere
	type site struct {
		pos  token.Pos
		name string
	}
	var sites []site
	for _, f := range p.files {
		for _, d := range f.Decls {
			fn, ok := d.(*ast.FuncDecl)
			if !ok || fn.Body == nil {
				continue
			}
			ast.Inspect(fn.Body, func(n ast.Node) bool {
				c, ok := n.(*ast.CallExpr)
				if !ok {
					return true
				}
				switch callName(c) {
				case "executeWithRetries":
					sites = append(sites, site{c.Pos(), fn.Name.Name})
				case "Execute":
					if sel, ok := c.Fun.(*ast.SelectorExpr); ok && rxLastSel(sel.X) == "job" && fn.Name.Name != "executeWithRetries" {
						rf.DirectExecute++
					}
				}
				return true
			})
		}
	}
	sort.Slice(sites, func(i, j int) bool {
		return sites[i].name < sites[j].name || (sites[i].name == sites[j].name && sites[i].pos < sites[j].pos)
	})
	for _, s := range sites {
		rf.CallSites = append(rf.CallSites, s.name)
	}
}

func renderRetry(fx *Facts) string {
	rf, _ := fx.Extra["retry"].(*retryFacts)
	if rf == nil {
		rf = &retryFacts{}
	}
	var b strings.Builder
	b.WriteString("namespace Generated.Retry\n")
	b.WriteString("/-! shape of `(*StdScheduler).executeWithRetries` (quartz/scheduler.go); logging statements dropped -/\n")
	fmt.Fprintf(&b, "def recoverDeferredFirst : Bool := %v\n", rf.RecoverDeferredFirst)
	fmt.Fprintf(&b, "def prologue : List String := %s\n", leanStrList(rf.Prologue))
	fmt.Fprintf(&b, "def loopInit : Int := %d\n", rf.LoopInit)
	fmt.Fprintf(&b, "def loopCond : String := %s\n", leanStr(rf.LoopCond))
	fmt.Fprintf(&b, "def loopPost : String := %s\n", leanStr(rf.LoopPost))
	fmt.Fprintf(&b, "def loopBody : List String := %s\n", leanStrList(rf.LoopBody))
	fmt.Fprintf(&b, "def selectCases : List String := %s\n", leanStrList(rf.SelectCases))
	fmt.Fprintf(&b, "def loopLabelled : Bool := %v\n", rf.LoopLabelled)
	fmt.Fprintf(&b, "def epilogue : List String := %s\n", leanStrList(rf.Epilogue))
	fmt.Fprintf(&b, "/-- functions of package quartz that call `executeWithRetries`, one entry per call -/\ndef callSites : List String := %s\n", leanStrList(rf.CallSites))
	fmt.Fprintf(&b, "/-- calls of a job's `Execute` in package quartz outside `executeWithRetries` -/\ndef directExecuteElsewhere : Nat := %d\n", rf.DirectExecute)
	b.WriteString("end Generated.Retry\n")
	return b.String()
}
