package main

import (
	"go/ast"
	"path/filepath"
)

// Facts about the interval triggers (C04, C05): the statements of SimpleTrigger.NextFireTime,
// RunOnceTrigger.NextFireTime and of the addition they share (addNanos: prev + interval, saturating at
// math.MaxInt64 for a positive interval instead of wrapping around), as normalised source text. The model's
// `Trig.fire` / `satAdd` transcribe exactly these statements; a changed operator, operand or a dropped
// saturation branch changes the text and breaks the `decide` in Theorems/SchedFacts.lean.

func init() { register(extractTrigger, renderTrigger) }

type triggerFacts struct {
	Simple   []string `json:"simple"`
	RunOnce  []string `json:"runOnce"`
	AddNanos []string `json:"addNanos"`
}

func stmtTexts(p *pkgInfo, fd *ast.FuncDecl) []string {
	var out []string
	if fd == nil || fd.Body == nil {
		return out
	}
	for _, st := range fd.Body.List {
		out = append(out, p.src(st))
	}
	return out
}

func extractTrigger(repo string, fx *Facts) {
	p := load(filepath.Join(repo, "quartz"), "github.com/reugn/go-quartz/quartz")
	tf := triggerFacts{
		Simple:   stmtTexts(p, p.method("SimpleTrigger", "NextFireTime")),
		RunOnce:  stmtTexts(p, p.method("RunOnceTrigger", "NextFireTime")),
		AddNanos: stmtTexts(p, p.funcDecl("addNanos")),
	}
	if len(tf.Simple) == 0 {
		fx.miss("trigger.SimpleTrigger.NextFireTime")
	}
	if len(tf.RunOnce) == 0 {
		fx.miss("trigger.RunOnceTrigger.NextFireTime")
	}
	if len(tf.AddNanos) == 0 {
		fx.miss("trigger.addNanos")
	}
	fx.Extra["trigger"] = tf
}

func renderTrigger(fx *Facts) string {
	tf, _ := fx.Extra["trigger"].(triggerFacts)
	return "namespace Generated.Trigger\n" +
		"/-- statements of SimpleTrigger.NextFireTime -/\ndef simpleNext : List String := " + leanStrList(tf.Simple) + "\n" +
		"/-- statements of RunOnceTrigger.NextFireTime -/\ndef runOnceNext : List String := " + leanStrList(tf.RunOnce) + "\n" +
		"/-- statements of addNanos(t int64, d time.Duration) int64 -/\ndef addNanos : List String := " + leanStrList(tf.AddNanos) + "\n" +
		"end Generated.Trigger\n"
}
