// Command extract reads the current working tree of go-quartz with go/parser +
// go/types and regenerates the facts the Lean theorems are instantiated with
// (QuartzModel/Generated/Facts.lean) plus a JSON copy for the evidence files.
//
// It pattern-matches specific literal shapes. A shape it cannot find is emitted as
// a fact that makes the dependent `by decide` premise fail: an unrecognisable
// rewrite is treated exactly like a broken proof, never silently accepted.
package main

import (
	"encoding/json"
	"flag"
	"fmt"
	"go/ast"
	"go/constant"
	"go/importer"
	"go/parser"
	"go/token"
	"go/types"
	"os"
	"path/filepath"
	"sort"
	"strings"
)

type pkgInfo struct {
	fset  *token.FileSet
	files []*ast.File
	info  *types.Info
	pkg   *types.Package
}

func load(dir, path string) *pkgInfo {
	fset := token.NewFileSet()
	pkgs, err := parser.ParseDir(fset, dir, func(fi os.FileInfo) bool { return !strings.HasSuffix(fi.Name(), "_test.go") }, parser.ParseComments)
	if err != nil {
		fatal(err)
	}
	var files []*ast.File
	for _, p := range pkgs {
		var names []string
		for n := range p.Files {
			names = append(names, n)
		}
		sort.Strings(names)
		for _, n := range names {
			files = append(files, p.Files[n])
		}
	}
	info := &types.Info{Types: map[ast.Expr]types.TypeAndValue{}, Uses: map[*ast.Ident]types.Object{}, Defs: map[*ast.Ident]types.Object{}}
	conf := types.Config{Importer: importer.ForCompiler(fset, "source", nil), Error: func(error) {}}
	pkg, _ := conf.Check(path, fset, files, info)
	return &pkgInfo{fset, files, info, pkg}
}

func fatal(err error) {
	fmt.Fprintln(os.Stderr, "extract:", err)
	os.Exit(3)
}

func (p *pkgInfo) intOf(e ast.Expr) (int64, bool) {
	if tv, ok := p.info.Types[e]; ok && tv.Value != nil {
		if v, ok := constant.Int64Val(constant.ToInt(tv.Value)); ok {
			return v, true
		}
	}
	return 0, false
}

func (p *pkgInfo) pos(n ast.Node) string {
	ps := p.fset.Position(n.Pos())
	return fmt.Sprintf("%s:%d", filepath.Base(ps.Filename), ps.Line)
}

func (p *pkgInfo) funcDecl(name string) *ast.FuncDecl {
	for _, f := range p.files {
		for _, d := range f.Decls {
			if fd, ok := d.(*ast.FuncDecl); ok && fd.Name.Name == name {
				return fd
			}
		}
	}
	return nil
}

func (p *pkgInfo) method(recv, name string) *ast.FuncDecl {
	for _, f := range p.files {
		for _, d := range f.Decls {
			fd, ok := d.(*ast.FuncDecl)
			if !ok || fd.Name.Name != name || fd.Recv == nil || len(fd.Recv.List) == 0 {
				continue
			}
			t := fd.Recv.List[0].Type
			if st, ok := t.(*ast.StarExpr); ok {
				t = st.X
			}
			if id, ok := t.(*ast.Ident); ok && id.Name == recv {
				return fd
			}
		}
	}
	return nil
}

func callName(c *ast.CallExpr) string {
	switch f := c.Fun.(type) {
	case *ast.Ident:
		return f.Name
	case *ast.SelectorExpr:
		return f.Sel.Name
	}
	return ""
}

type Facts struct {
	Where map[string]string `json:"where"`
	// cron: node limits handed to the state machine, by assigned variable
	NodeLimits map[string][2]int64 `json:"nodeLimits"`
	// cron: parser boundaries by field index 0..6
	ParseBounds [][2]int64     `json:"parseBounds"`
	HashRange   [2]int64       `json:"hashRange"`
	Months      []string       `json:"months"`
	Days        []string       `json:"days"`
	Special     [][2]string    `json:"special"`
	DowShift    int64          `json:"dowShift"`
	Missing     []string       `json:"missing"`
	Extra       map[string]any `json:"extra,omitempty"`
}

func (fx *Facts) miss(what string) { fx.Missing = append(fx.Missing, what) }

func extractCron(repo string, fx *Facts) {
	p := load(filepath.Join(repo, "quartz"), "github.com/reugn/go-quartz/quartz")
	// node limits
	if fd := p.funcDecl("newCSMFromFields"); fd != nil {
		ast.Inspect(fd.Body, func(n ast.Node) bool {
			as, ok := n.(*ast.AssignStmt)
			if !ok || len(as.Lhs) != 1 || len(as.Rhs) != 1 {
				return true
			}
			id, ok := as.Lhs[0].(*ast.Ident)
			call, ok2 := as.Rhs[0].(*ast.CallExpr)
			if !ok || !ok2 {
				return true
			}
			switch callName(call) {
			case "NewCommonNode", "NewWeekDayNode", "NewMonthDayNode":
				if len(call.Args) >= 3 {
					lo, ok1 := p.intOf(call.Args[1])
					hi, ok2 := p.intOf(call.Args[2])
					if ok1 && ok2 {
						key := id.Name
						if callName(call) == "NewWeekDayNode" {
							key = "weekday"
						}
						fx.NodeLimits[key] = [2]int64{lo, hi}
						fx.Where["nodeLimits."+key] = p.pos(call)
					}
				}
			}
			return true
		})
	}
	for _, k := range []string{"year", "month", "day", "weekday", "hour", "minute", "second"} {
		if _, ok := fx.NodeLimits[k]; !ok {
			fx.miss("nodeLimits." + k)
		}
	}
	// parser boundaries, in source order of the boundary{lo, hi} literals in buildCronField
	if fd := p.funcDecl("buildCronField"); fd != nil {
		ast.Inspect(fd.Body, func(n ast.Node) bool {
			cl, ok := n.(*ast.CompositeLit)
			if !ok {
				return true
			}
			if id, ok := cl.Type.(*ast.Ident); ok && id.Name == "boundary" && len(cl.Elts) == 2 {
				lo, ok1 := p.intOf(cl.Elts[0])
				hi, ok2 := p.intOf(cl.Elts[1])
				if ok1 && ok2 {
					fx.ParseBounds = append(fx.ParseBounds, [2]int64{lo, hi})
				}
			}
			return true
		})
		// fields[5].add(-1)
		ast.Inspect(fd.Body, func(n ast.Node) bool {
			if call, ok := n.(*ast.CallExpr); ok && callName(call) == "add" && len(call.Args) == 1 {
				if v, ok := p.intOf(call.Args[0]); ok {
					fx.DowShift = v
					fx.Where["dowShift"] = p.pos(call)
				}
			}
			return true
		})
	}
	if len(fx.ParseBounds) != 7 {
		fx.miss("parseBounds")
	}
	// the # range: inScope(n, 1, 5) inside parseDayOfWeekField
	if fd := p.funcDecl("parseDayOfWeekField"); fd != nil {
		ast.Inspect(fd.Body, func(n ast.Node) bool {
			if call, ok := n.(*ast.CallExpr); ok && callName(call) == "inScope" && len(call.Args) == 3 {
				lo, ok1 := p.intOf(call.Args[1])
				hi, ok2 := p.intOf(call.Args[2])
				if ok1 && ok2 {
					fx.HashRange = [2]int64{lo, hi}
					fx.Where["hashRange"] = p.pos(call)
				}
			}
			return true
		})
	}
	// glossaries and macro table
	for _, f := range p.files {
		for _, d := range f.Decls {
			gd, ok := d.(*ast.GenDecl)
			if !ok || gd.Tok != token.VAR {
				continue
			}
			for _, s := range gd.Specs {
				vs := s.(*ast.ValueSpec)
				for i, nm := range vs.Names {
					if i >= len(vs.Values) {
						continue
					}
					cl, ok := vs.Values[i].(*ast.CompositeLit)
					if !ok {
						continue
					}
					switch nm.Name {
					case "months", "days":
						var l []string
						for _, e := range cl.Elts {
							if tv, ok := p.info.Types[e]; ok && tv.Value != nil {
								l = append(l, constant.StringVal(tv.Value))
							}
						}
						if nm.Name == "months" {
							fx.Months = l
						} else {
							fx.Days = l
						}
					case "special":
						for _, e := range cl.Elts {
							if kv, ok := e.(*ast.KeyValueExpr); ok {
								k, okk := p.info.Types[kv.Key]
								v, okv := p.info.Types[kv.Value]
								if okk && okv && k.Value != nil && v.Value != nil {
									fx.Special = append(fx.Special, [2]string{constant.StringVal(k.Value), constant.StringVal(v.Value)})
								}
							}
						}
						sort.Slice(fx.Special, func(i, j int) bool { return fx.Special[i][0] < fx.Special[j][0] })
					}
				}
			}
		}
	}
}

func leanStr(s string) string { return fmt.Sprintf("%q", s) }

func leanStrList(l []string) string {
	var q []string
	for _, s := range l {
		q = append(q, leanStr(s))
	}
	return "[" + strings.Join(q, ", ") + "]"
}

func natOr0(v int64) int64 {
	if v < 0 {
		return 0
	}
	return v
}

func render(fx *Facts) string {
	var b strings.Builder
	b.WriteString("import QuartzModel.Cron.Fields\nimport QuartzModel.Cron.Parse\n")
	b.WriteString("/-! GENERATED by harness/cmd/extract from the current working tree of /repo — do not edit. -/\nnamespace Generated\n\n")
	nl := func(k string, i int) int64 { return natOr0(fx.NodeLimits[k][i]) }
	fmt.Fprintf(&b, "/-- node limits of `newCSMFromFields` (quartz/csm.go) -/\ndef limits : Cron.Limits :=\n  { secMax := %d, minMax := %d, hourMax := %d, dayMin := %d, dayMax := %d,\n    monthMin := %d, monthMax := %d, yearMin := %d, yearMax := %d }\n\n",
		nl("second", 1), nl("minute", 1), nl("hour", 1), nl("day", 0), nl("day", 1), nl("month", 0), nl("month", 1), nl("year", 0), nl("year", 1))
	fmt.Fprintf(&b, "/-- lower bounds of the second/minute/hour nodes and the limits of the weekday-mode day node -/\ndef limitsAux : List Nat := [%d, %d, %d, %d, %d]\n\n",
		nl("second", 0), nl("minute", 0), nl("hour", 0), nl("weekday", 0), nl("weekday", 1))
	pb := fx.ParseBounds
	for len(pb) < 7 {
		pb = append(pb, [2]int64{0, 0})
	}
	fmt.Fprintf(&b, "/-- `boundary{lo, hi}` literals of `buildCronField` (quartz/cron.go), in field order -/\ndef bounds : Cron.Bounds :=\n  { sec := ⟨%d, %d⟩, min := ⟨%d, %d⟩, hour := ⟨%d, %d⟩, dom := ⟨%d, %d⟩, month := ⟨%d, %d⟩, dow := ⟨%d, %d⟩, year := ⟨%d, %d⟩ }\n\n",
		natOr0(pb[0][0]), natOr0(pb[0][1]), natOr0(pb[1][0]), natOr0(pb[1][1]), natOr0(pb[2][0]), natOr0(pb[2][1]), natOr0(pb[3][0]), natOr0(pb[3][1]),
		natOr0(pb[4][0]), natOr0(pb[4][1]), natOr0(pb[5][0]), natOr0(pb[5][1]), natOr0(pb[6][0]), natOr0(pb[6][1]))
	fmt.Fprintf(&b, "def hashRange : Int × Int := (%d, %d)\ndef dowShift : Int := %d\n", fx.HashRange[0], fx.HashRange[1], fx.DowShift)
	fmt.Fprintf(&b, "def months : List String := %s\ndef days : List String := %s\n", leanStrList(fx.Months), leanStrList(fx.Days))
	var sp []string
	for _, kv := range fx.Special {
		sp = append(sp, fmt.Sprintf("(%s, %s)", leanStr(kv[0]), leanStr(kv[1])))
	}
	fmt.Fprintf(&b, "def special : List (String × String) := [%s]\n", strings.Join(sp, ", "))
	fmt.Fprintf(&b, "\n/-- shapes the extractor could not find in the source (must be empty) -/\ndef missing : List String := %s\n", leanStrList(fx.Missing))
	b.WriteString("\nend Generated\n")
	return b.String()
}

func main() {
	repo := flag.String("repo", "/repo", "go-quartz working tree")
	leanOut := flag.String("lean", "", "path of Generated/Facts.lean")
	jsonOut := flag.String("json", "", "path of facts.json")
	flag.Parse()
	fx := &Facts{Where: map[string]string{}, NodeLimits: map[string][2]int64{}, Missing: []string{}}
	extractCron(*repo, fx)
	extractMore(*repo, fx)
	text := render(fx) + renderMore(fx)
	if *leanOut != "" {
		old, _ := os.ReadFile(*leanOut)
		if string(old) != text {
			if err := os.WriteFile(*leanOut, []byte(text), 0o644); err != nil {
				fatal(err)
			}
			fmt.Println("extract: facts changed, rewrote", *leanOut)
		}
	}
	if *jsonOut != "" {
		b, _ := json.MarshalIndent(fx, "", " ")
		_ = os.MkdirAll(filepath.Dir(*jsonOut), 0o755)
		if err := os.WriteFile(*jsonOut, b, 0o644); err != nil {
			fatal(err)
		}
	}
	if len(fx.Missing) > 0 {
		fmt.Println("extract: missing shapes:", fx.Missing)
	}
}
