package main

// Facts of package logger for property C18 (loggers filter by level and label every record with its own level).
// Rendered into `namespace Generated.Logger`; consumed by QuartzModel/Theorems/C18.lean (`C18_facts`).

import (
	"fmt"
	"go/ast"
	"go/constant"
	"go/token"
	"go/types"
	"path/filepath"
	"strings"
)

func init() { register(extractLogger, renderLogger) }

type lxFacts struct {
	Levels        [][2]string `json:"levels"`        // name, value
	Prefixes      [][2]string `json:"prefixes"`      // name, text
	EnabledOp     string      `json:"enabledOp"`     // operator with the argument `level` on the left
	EnabledShape  string      `json:"enabledShape"`  // the returned expression
	SimpleMethods [][3]string `json:"simpleMethods"` // method, Level constant, prefix constant
	OutputShape   []string    `json:"outputShape"`   // statements of SimpleLogger.output
	FormatStrings []string    `json:"formatStrings"` // format literals of formatMessage, in order
	FormatArgs    []string    `json:"formatArgs"`    // their operands
	FormatLoop    []string    `json:"formatLoop"`    // init, cond, post, inner condition
	FormatReturn  string      `json:"formatReturn"`
	NoOpEmpty     bool        `json:"noopEmpty"`
	NoOpMethods   []string    `json:"noopMethods"`
	SlogLevels    [][2]string `json:"slogLevels"` // method, slog level value
	SlogLog       []string    `json:"slogLog"`    // guard, guard body, record, add, handle
}

var lxMethods = []string{"Trace", "Debug", "Info", "Warn", "Error"}

func extractLogger(repo string, fx *Facts) {
	p := load(filepath.Join(repo, "logger"), "github.com/reugn/go-quartz/logger")
	lf := &lxFacts{Levels: [][2]string{}, Prefixes: [][2]string{}, SimpleMethods: [][3]string{}, OutputShape: []string{},
		FormatStrings: []string{}, FormatArgs: []string{}, FormatLoop: []string{}, NoOpMethods: []string{}, SlogLevels: [][2]string{}, SlogLog: []string{}}
	fx.Extra["logger"] = lf

	// ---- constants, in declaration order
	for _, f := range p.files {
		for _, d := range f.Decls {
			gd, ok := d.(*ast.GenDecl)
			if !ok || gd.Tok != token.CONST {
				continue
			}
			for _, s := range gd.Specs {
				for _, nm := range s.(*ast.ValueSpec).Names {
					c, ok := p.info.Defs[nm].(*types.Const)
					if !ok {
						continue
					}
					switch {
					case strings.HasPrefix(nm.Name, "Level"):
						if v, ok := constant.Int64Val(constant.ToInt(c.Val())); ok {
							lf.Levels = append(lf.Levels, [2]string{nm.Name, fmt.Sprint(v)})
						}
					case strings.HasSuffix(nm.Name, "Prefix") && c.Val().Kind() == constant.String:
						lf.Prefixes = append(lf.Prefixes, [2]string{nm.Name, constant.StringVal(c.Val())})
					}
				}
			}
		}
	}
	if len(lf.Levels) == 0 {
		fx.miss("logger.levels")
	}
	if len(lf.Prefixes) == 0 {
		fx.miss("logger.prefixes")
	}

	// ---- enabled: `return level >= l.level`
	if fd := p.method("SimpleLogger", "enabled"); fd != nil && fd.Body != nil && len(fd.Body.List) == 1 {
		fx.Where["logger.enabled"] = p.pos(fd)
		param := ""
		if fd.Type.Params != nil && len(fd.Type.Params.List) == 1 && len(fd.Type.Params.List[0].Names) == 1 {
			param = fd.Type.Params.List[0].Names[0].Name
		}
		if r, ok := fd.Body.List[0].(*ast.ReturnStmt); ok && len(r.Results) == 1 {
			if b, ok := jxStripParens(r.Results[0]).(*ast.BinaryExpr); ok {
				x, y, op := p.jxSrc(b.X), p.jxSrc(b.Y), b.Op
				if y == param {
					x, y, op = y, x, jxFlipOp(op)
				}
				if x == param && param != "" && y == "l.level" {
					lf.EnabledOp = op.String()
					lf.EnabledShape = p.jxSrc(b)
				}
			}
		}
	}
	if lf.EnabledOp == "" {
		fx.miss("logger.enabled")
	}

	// ---- the five SimpleLogger methods: `if l.enabled(LevelX) { l.output(xPrefix, formatMessage(msg, args)) }`
	for _, m := range lxMethods {
		fd := p.method("SimpleLogger", m)
		okShape := false
		if fd != nil && fd.Body != nil && len(fd.Body.List) == 1 {
			if ifs, ok := fd.Body.List[0].(*ast.IfStmt); ok && ifs.Else == nil && ifs.Init == nil && len(ifs.Body.List) == 1 {
				cond, ok1 := ifs.Cond.(*ast.CallExpr)
				es, ok2 := ifs.Body.List[0].(*ast.ExprStmt)
				if ok1 && ok2 && p.jxSrc(cond.Fun) == "l.enabled" && len(cond.Args) == 1 {
					if call, ok := es.X.(*ast.CallExpr); ok && p.jxSrc(call.Fun) == "l.output" && len(call.Args) == 2 &&
						p.jxSrc(call.Args[1]) == "formatMessage(msg, args)" {
						lf.SimpleMethods = append(lf.SimpleMethods, [3]string{m, p.jxSrc(cond.Args[0]), p.jxSrc(call.Args[0])})
						okShape = true
					}
				}
			}
		}
		if !okShape {
			fx.miss("logger.simple." + m)
		}
	}

	// ---- output: Lock, deferred Unlock, SetPrefix, Output
	if fd := p.method("SimpleLogger", "output"); fd != nil && fd.Body != nil {
		fx.Where["logger.output"] = p.pos(fd)
		for _, s := range fd.Body.List {
			lf.OutputShape = append(lf.OutputShape, p.jxSrc(s))
		}
	} else {
		fx.miss("logger.output")
	}

	// ---- formatMessage
	if fd := p.funcDecl("formatMessage"); fd != nil && fd.Body != nil {
		fx.Where["logger.formatMessage"] = p.pos(fd)
		ast.Inspect(fd.Body, func(n ast.Node) bool {
			switch x := n.(type) {
			case *ast.CallExpr:
				if p.jxSrc(x.Fun) == "fmt.Fprintf" && len(x.Args) >= 2 {
					if tv, ok := p.info.Types[x.Args[1]]; ok && tv.Value != nil && tv.Value.Kind() == constant.String {
						lf.FormatStrings = append(lf.FormatStrings, constant.StringVal(tv.Value))
						var ops []string
						for _, a := range x.Args[2:] {
							ops = append(ops, p.jxSrc(a))
						}
						lf.FormatArgs = append(lf.FormatArgs, strings.Join(ops, ","))
					}
				}
			case *ast.ForStmt:
				lf.FormatLoop = append(lf.FormatLoop, p.jxSrc(x.Init), p.jxSrc(x.Cond), p.jxSrc(x.Post))
				for _, s := range x.Body.List {
					if ifs, ok := s.(*ast.IfStmt); ok {
						lf.FormatLoop = append(lf.FormatLoop, p.jxSrc(ifs.Cond))
					}
				}
			case *ast.AssignStmt:
				if len(x.Lhs) == 1 && p.jxSrc(x.Lhs[0]) == "n" {
					lf.FormatLoop = append(lf.FormatLoop, p.jxSrc(x))
				}
			case *ast.ReturnStmt:
				lf.FormatReturn = p.jxSrc(x)
			}
			return true
		})
	}
	if len(lf.FormatStrings) == 0 {
		fx.miss("logger.formatMessage")
	}

	// ---- NoOpLogger
	lf.NoOpEmpty = true
	for _, m := range lxMethods {
		fd := p.method("NoOpLogger", m)
		if fd == nil || fd.Body == nil {
			fx.miss("logger.noop." + m)
			lf.NoOpEmpty = false
			continue
		}
		lf.NoOpMethods = append(lf.NoOpMethods, m)
		if len(fd.Body.List) != 0 {
			lf.NoOpEmpty = false
		}
	}

	// ---- SlogLogger: `l.log(<level>, msg, args...)`
	for _, m := range lxMethods {
		fd := p.method("SlogLogger", m)
		okShape := false
		if fd != nil && fd.Body != nil && len(fd.Body.List) == 1 {
			if es, ok := fd.Body.List[0].(*ast.ExprStmt); ok {
				if call, ok := es.X.(*ast.CallExpr); ok && p.jxSrc(call.Fun) == "l.log" && len(call.Args) == 3 &&
					p.jxSrc(call.Args[1]) == "msg" && p.jxSrc(call.Args[2]) == "args" && call.Ellipsis != token.NoPos {
					if v, ok := p.intOf(call.Args[0]); ok {
						lf.SlogLevels = append(lf.SlogLevels, [2]string{m, fmt.Sprint(v)})
						okShape = true
					}
				}
			}
		}
		if !okShape {
			fx.miss("logger.slog." + m)
		}
	}
	if fd := p.method("SlogLogger", "log"); fd != nil && fd.Body != nil {
		fx.Where["logger.slog.log"] = p.pos(fd)
		for _, s := range fd.Body.List {
			switch x := s.(type) {
			case *ast.IfStmt:
				lf.SlogLog = append(lf.SlogLog, "if "+p.jxSrc(x.Cond), p.jxSrc(x.Body))
			case *ast.AssignStmt, *ast.ExprStmt:
				t := p.jxSrc(s)
				if strings.Contains(t, "slog.NewRecord") || strings.Contains(t, ".Add(") || strings.Contains(t, ".Handle(") {
					lf.SlogLog = append(lf.SlogLog, t)
				}
			}
		}
	} else {
		fx.miss("logger.slog.log")
	}
}

func lxLeanPairs(l [][2]string, secondIsInt bool) string {
	var q []string
	for _, kv := range l {
		if secondIsInt {
			q = append(q, fmt.Sprintf("(%s, %s)", leanStr(kv[0]), kv[1]))
		} else {
			q = append(q, fmt.Sprintf("(%s, %s)", leanStr(kv[0]), leanStr(kv[1])))
		}
	}
	return "[" + strings.Join(q, ", ") + "]"
}

func renderLogger(fx *Facts) string {
	lf, _ := fx.Extra["logger"].(*lxFacts)
	if lf == nil {
		lf = &lxFacts{}
	}
	var b strings.Builder
	b.WriteString("namespace Generated.Logger\n\n")
	fmt.Fprintf(&b, "/-- `Level*` constants of logger/simple_logger.go -/\ndef levels : List (String × Int) := %s\n", lxLeanPairs(lf.Levels, true))
	fmt.Fprintf(&b, "/-- SimpleLogger prefixes -/\ndef prefixes : List (String × String) := %s\n", lxLeanPairs(lf.Prefixes, false))
	fmt.Fprintf(&b, "/-- `SimpleLogger.enabled`: operator with the argument on the left, and the returned expression -/\ndef enabledOp : String := %s\ndef enabledShape : String := %s\n",
		leanStr(lf.EnabledOp), leanStr(lf.EnabledShape))
	var ms []string
	for _, m := range lf.SimpleMethods {
		ms = append(ms, fmt.Sprintf("(%s, %s, %s)", leanStr(m[0]), leanStr(m[1]), leanStr(m[2])))
	}
	fmt.Fprintf(&b, "/-- method, the Level constant it tests, the prefix constant it writes with -/\ndef simpleMethods : List (String × String × String) := [%s]\n", strings.Join(ms, ", "))
	fmt.Fprintf(&b, "/-- statements of `SimpleLogger.output` -/\ndef outputShape : List String := %s\n", leanStrList(lf.OutputShape))
	fmt.Fprintf(&b, "/-- `formatMessage` -/\ndef formatStrings : List String := %s\ndef formatArgs : List String := %s\ndef formatLoop : List String := %s\ndef formatReturn : String := %s\n",
		leanStrList(lf.FormatStrings), leanStrList(lf.FormatArgs), leanStrList(lf.FormatLoop), leanStr(lf.FormatReturn))
	fmt.Fprintf(&b, "/-- `NoOpLogger`: the methods found, and whether all their bodies are empty -/\ndef noopMethods : List String := %s\ndef noopEmpty : Bool := %s\n",
		leanStrList(lf.NoOpMethods), jxLeanBool(lf.NoOpEmpty))
	fmt.Fprintf(&b, "/-- `SlogLogger`: the constant value of the level each method hands to `log` -/\ndef slogLevels : List (String × Int) := %s\n", lxLeanPairs(lf.SlogLevels, true))
	fmt.Fprintf(&b, "/-- `SlogLogger.log`: guard, guard body, record construction, Add, Handle -/\ndef slogLog : List String := %s\n", leanStrList(lf.SlogLog))
	b.WriteString("\nend Generated.Logger\n")
	return b.String()
}
